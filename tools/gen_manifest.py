#!/usr/bin/env python3
"""Regenerates /verif/MANIFEST.json from the checker's own property table (hlcheck -list) and
/verif/tools/not_applicable.json.  Run after adding/removing a property spec."""
import json, os, subprocess, sys
V = os.path.dirname(os.path.dirname(os.path.abspath(__file__)))
env = dict(os.environ, HL_LIST_JSON="1")
specs = json.loads(subprocess.check_output([os.path.join(V, "bin", "hlcheck"), "-list"], env=env))
props = [json.loads(l) for l in open(os.path.join(V, "properties.jsonl"))]
na_path = os.path.join(V, "tools", "not_applicable.json")
na_reasons = json.load(open(na_path)) if os.path.exists(na_path) else {}
checks, na = [], []
for p in props:
    pid = p["id"]
    if pid in specs:
        sp = specs[pid]
        checks.append({
            "property_id": pid,
            "quick_cmd": f"bin/hlcheck-run {pid} quick",
            "thorough_cmd": f"bin/hlcheck-run {pid} thorough",
            "evidence_file": f"/verif/evidence/{pid}.json",
            "replay_cmd_template": "bin/hlcheck-run --replay {path}",
            "engine": "hlcheck",
            "level_claimed": {
                "category": "other",
                "text": "Static analysis (no execution): structural necessary conditions of the property, decided on every path of /repo's current source for all inputs/schedules at once. " + sp["explanation"],
                "design_ref": "DESIGN.md section 5 " + pid,
            },
            "level_note": "Decides the named structural clauses only, NOT the behavioural statement: " + sp["not_decided"] + " Trusted base: go/packages, go/types, go/cfg, go/ssa, VTA/CHA call graph, and the rule tables in /verif/checker.",
            "technique": sp.get("technique") or "repository-specific static analysis over go/types AST, go/cfg and go/ssa (custom rules)",
        })
    else:
        na.append({"property_id": pid, "reason": na_reasons.get(pid, "check not yet built in this round (framework under construction); see DESIGN.md section 5 for the planned structural rules")})
m = {
    "version": 1,
    "setup_cmd": "bin/hlcheck-run --build",
    "hooks": {
        "guard": "verif",
        "enable": "no hooks: nothing in /repo is instrumented; the tag is only passed to the loader (-tags=verif) so that any tagged file is covered by the analysis",
        "baseline_off_cmd": "cd /repo && go test -vet=off -count=1 ./...",
        "source_commits": [],
        "add_only": True,
    },
    "engines": [{
        "name": "hlcheck",
        "path": "/verif/checker",
        "serves_properties": [c["property_id"] for c in checks],
        "kind_free_text": "custom static analyser (Go, golang.org/x/tools v0.50.0): go/packages loader with the build's tags, AST+types rules, go/cfg path rules, go/ssa + VTA call-graph rules; obligations keyed by rule+function+construct; KNOWN_FINDINGS.json matching; evidence written per run",
    }],
    "checks": checks,
    "notes": "Technique family: static analysis only (DESIGN.md). Every check re-loads and type-checks /repo's current working tree; nothing in /repo is executed. Genuine defects found by the rules were repaired in /repo by 'fix:' commits (listed as status=fixed in KNOWN_FINDINGS.json) or are listed there as status=known.",
    "not_applicable": na,
}
json.dump(m, open(os.path.join(V, "MANIFEST.json"), "w"), indent=1)
print("checks:", [c["property_id"] for c in checks]); print("not_applicable:", [n["property_id"] for n in na])
