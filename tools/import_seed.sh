#!/bin/bash
# import_seed.sh <Cxx-mNN>: takes a sub-agent's deliverables from /tmp/seedout/<id>/ into seeded/<id>/, confirms the change
# with tools/verify_seed.sh (appending the line to /tmp/ver_round.log) and removes the agent's scratch worktree.
set -u
id="$1"; prop=${id%%-*}
HERE="$(cd "$(dirname "${BASH_SOURCE[0]}")/.." && pwd)"
src=/tmp/seedout/$id
for f in patch.diff demo_test.go meta.agent.json; do [ -s "$src/$f" ] || { echo "$id: missing $f"; exit 1; }; done
mkdir -p "$HERE/seeded/$id" && cp "$src"/patch.diff "$src"/demo_test.go "$src"/meta.agent.json "$HERE/seeded/$id/"
line=$("$HERE/tools/verify_seed.sh" "$HERE/seeded/$id" "$prop")
echo "$line" | tee -a /tmp/ver_round.log
git -C /repo worktree remove --force /tmp/wt-$id 2>/dev/null; rm -rf /tmp/wt-$id
