#!/bin/bash
# seed_check.sh <seeded dir> : applies the patch to a scratch copy of /repo and runs the property's quick check
# (no suite, no demo - see verify_seed.sh for the full confirmation).  Prints "<id> CAUGHT|MISSED|NOAPPLY <rules>".
set -u
d="$(readlink -f "$1")"; id=$(basename "$d"); prop=${id%%-*}
HERE="$(cd "$(dirname "${BASH_SOURCE[0]}")/.." && pwd)"
export PATH=/opt/veriftools/go1.26.8/bin:$PATH GOTOOLCHAIN=local GOFLAGS=-mod=mod GOPROXY=off GOSUMDB=off GOWORK=off CGO_ENABLED=0
tmp=$(mktemp -d /tmp/hl-sc-XXXXXX); trap 'rm -rf "$tmp"' EXIT
rsync -a --exclude .git /repo/ "$tmp/"
(cd "$tmp" && git apply --whitespace=nowarn "$d/patch.diff" 2>/dev/null) || { echo "$id NOAPPLY"; exit 0; }
out=$("${HLBIN:-$HERE/bin/hlcheck}" -prop "$prop" -tier quick -repo "$tmp" -verif "$HERE" -no-evidence 2>&1); rc=$?
rules=$(echo "$out" | grep '^NEW' | awk '{print $2":"$3}' | sort -u | tr '\n' ',')
if [ $rc -eq 1 ]; then echo "$id CAUGHT $rules"; elif [ $rc -eq 0 ]; then echo "$id MISSED"; else echo "$id ERROR rc=$rc $(echo "$out" | tail -2 | tr '\n' ' ')"; fi
