#!/bin/bash
# verify_seed.sh <dir with patch.diff demo_test.go meta.json> <Cxx>
# Confirms, in scratch copies of /repo's HEAD (outside /repo and /verif, removed afterwards):
#  (1) patch applies and builds, (2) full suite passes with the patch, (3) demo fails with the patch,
#  (4) demo passes without the patch; then runs the property's quick check against the patched copy.
set -u
d="$(readlink -f "$1")"; prop="$2"
HERE="$(cd "$(dirname "${BASH_SOURCE[0]}")/.." && pwd)"
tmp=$(mktemp -d /tmp/hl-seed-XXXXXX); trap 'rm -rf "$tmp"' EXIT
rsync -a --exclude .git /repo/ "$tmp/a/"; rsync -a --exclude .git /repo/ "$tmp/b/"
demo_dir=$(head -1 "$d/demo_test.go" | sed -n 's#.*\(place in\|copy to\): *\([^ ]*\).*#\2#p'); [ -z "$demo_dir" ] && demo_dir=$(jq -r '.demo_dir // .demo_package_dir // empty' "$d/meta.json"); [ -z "$demo_dir" ] && [ -f "$d/meta.agent.json" ] && demo_dir=$(jq -r '.demo_dir // .demo_package_dir // empty' "$d/meta.agent.json")
res="prop=$prop dir=$(basename $(dirname $d))/$(basename $d)"
if ! (cd "$tmp/a" && git apply --whitespace=nowarn "$d/patch.diff" 2>/dev/null); then echo "$res APPLY=fail"; exit 3; fi
(cd "$tmp/a" && go build ./... >/dev/null 2>&1) || { echo "$res APPLY=ok BUILD=fail"; exit 3; }
suite=$(cd "$tmp/a" && go test -vet=off -count=1 ./... 2>&1 | grep -c "^FAIL\|^---\ FAIL")
cp "$d/demo_test.go" "$tmp/a/$demo_dir/zz_demo_test.go"; cp "$d/demo_test.go" "$tmp/b/$demo_dir/zz_demo_test.go"
with=$(cd "$tmp/a" && go test -vet=off -count=1 ./$demo_dir/ 2>&1 | grep -c "^--- FAIL\|^FAIL\|panic:")
without=$(cd "$tmp/b" && go test -vet=off -count=1 ./$demo_dir/ 2>&1 | grep -c "^--- FAIL\|^FAIL\|panic:")
rm -f "$tmp/a/$demo_dir/zz_demo_test.go"
out=$("$HERE/bin/hlcheck" -prop "$prop" -tier quick -repo "$tmp/a" -verif "$HERE" -no-evidence 2>&1); rc=$?
caught=MISSED; [ $rc -eq 1 ] && caught=CAUGHT
rules=$(echo "$out" | grep '^NEW' | awk '{print $3}' | sort -u | tr '\n' ',' )
echo "$res APPLY=ok suite_failures=$suite demo_fails_with_patch=$([ $with -gt 0 ] && echo yes || echo NO) demo_passes_without=$([ $without -eq 0 ] && echo yes || echo NO) check=$caught rules=$rules"
