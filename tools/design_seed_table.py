#!/usr/bin/env python3
"""design_seed_table.py : prints, per seeding round, which check rules report which seeded change
(from seeded/SUMMARY.json) in the form used by DESIGN.md section 8."""
import json, os, collections
V = os.path.dirname(os.path.dirname(os.path.abspath(__file__)))
rows = json.load(open(os.path.join(V, "seeded", "SUMMARY.json")))
rounds = collections.defaultdict(list)
for r in rows:
    prop, m = r["id"].split("-m")
    rounds[(int(m) + 1) // 2].append((prop, int(m), r))
tot_c = tot_n = 0
for rd in sorted(rounds):
    items = sorted(rounds[rd])
    caught = [x for x in items if x[2]["check"] == "CAUGHT"]
    missed = [x for x in items if x[2]["check"] != "CAUGHT"]
    tot_c += len(caught); tot_n += len(items)
    line = " · ".join("%s-m%d %s" % (p, m, ",".join(sorted(set(r["rules"].strip(",").split(","))))) for p, m, r in caught)
    print("ROUND %d: %d of %d\n%s\nMISSED: %s\n" % (rd, len(caught), len(items), line, " ".join("%s-m%d" % (p, m) for p, m, _ in missed)))
print("TOTAL %d of %d" % (tot_c, tot_n))
