#!/usr/bin/env python3
"""add_expl.py <text-file with lines 'Cxx[,Cyy...]<TAB>text'>: appends text to the Explanation of the named properties in checker/specs.go
(skips a property whose explanation already contains the first 25 characters of the text)."""
import re,sys
p='/verif/checker/specs.go'
s=open(p).read()
for line in open(sys.argv[1]):
    line=line.rstrip('\n')
    if not line.strip(): continue
    ids,text=line.split('\t',1)
    for pid in ids.split(','):
        m=re.search(r'ID:\s+"%s",\n(.*?\n)*?\t\tExplanation: "((?:[^"\\]|\\.)*)"'%pid, s)
        if not m: print("no explanation for",pid); continue
        if text[:25].replace('"','\\"') in m.group(2): continue
        esc=text.replace('\\','\\\\').replace('"','\\"')
        s=s[:m.end(2)]+" "+esc+s[m.end(2):]
open(p,'w').write(s)
