#!/usr/bin/env python3
"""Re-verifies every seeded change under /verif/seeded/<id>/ with tools/verify_seed.sh and writes its
meta.json (property, what it needs to manifest, what was run, result of the property's quick check)."""
import json, os, re, subprocess, sys
V = os.path.dirname(os.path.dirname(os.path.abspath(__file__)))
rows = []
from concurrent.futures import ThreadPoolExecutor
dirs = [d for d in sorted(os.listdir(os.path.join(V, "seeded"))) if os.path.isfile(os.path.join(V, "seeded", d, "patch.diff"))]  # parked changes (patch.original-tree.diff + NOTE) no longer apply to the repaired tree
def verify(d):
    return subprocess.run([os.path.join(V, "tools", "verify_seed.sh"), os.path.join(V, "seeded", d), d.split("-")[0]], capture_output=True, text=True).stdout.strip()
with ThreadPoolExecutor(max_workers=int(os.environ.get("SEED_JOBS", "5"))) as ex:
    outs = dict(zip(dirs, ex.map(verify, dirs)))
for d in dirs:
    p = os.path.join(V, "seeded", d)
    prop = d.split("-")[0]
    out = outs[d]
    kv = dict(re.findall(r"(\w+)=(\S*)", out))
    agent = {}
    ap = os.path.join(p, "meta.agent.json")
    if os.path.exists(ap):
        try: agent = json.load(open(ap))
        except Exception: agent = {}
    meta = {
        "id": d,
        "property": prop,
        "summary": agent.get("summary", ""),
        "mechanism": agent.get("mechanism", ""),
        "needs_to_manifest": agent.get("needs_to_manifest", ""),
        "files_touched": agent.get("files_touched", []),
        "origin": "independent sub-agent given only the property text and a scratch worktree" + ("; " + open(os.path.join(p, "NOTE")).read().strip() if os.path.exists(os.path.join(p, "NOTE")) else "") + ("; patch re-based by hand onto the repaired tree (original kept as patch.original-tree.diff)" if os.path.exists(os.path.join(p, "patch.original-tree.diff")) else ""),
        "confirmed": {
            "ran": ["tools/verify_seed.sh seeded/%s %s  (scratch copies of /repo HEAD under /tmp, removed afterwards)" % (d, prop),
                    "go build ./... && go test -vet=off -count=1 ./...  with the patch (must pass)",
                    "demo_test.go copied into its package: go test with the patch (must fail) and without it (must pass)",
                    "bin/hlcheck -prop %s -tier quick -repo <patched copy> -no-evidence" % prop],
            "patch_applies": kv.get("APPLY") == "ok",
            "suite_failures_with_patch": int(kv.get("suite_failures", -1)),
            "demo_fails_with_patch": kv.get("demo_fails_with_patch") == "yes",
            "demo_passes_without_patch": kv.get("demo_passes_without") == "yes",
        },
        "check_result": kv.get("check", "?"),
        "reporting_rules": [r for r in kv.get("rules", "").split(",") if r],
    }
    json.dump(meta, open(os.path.join(p, "meta.json"), "w"), indent=1)
    rows.append((d, meta["check_result"], ",".join(meta["reporting_rules"]), meta["confirmed"]))
    print(d, meta["check_result"], ",".join(meta["reporting_rules"]), "OK" if all([meta["confirmed"]["patch_applies"], meta["confirmed"]["suite_failures_with_patch"] == 0, meta["confirmed"]["demo_fails_with_patch"], meta["confirmed"]["demo_passes_without_patch"]]) else "UNCONFIRMED", flush=True)
caught = sum(1 for r in rows if r[1] == "CAUGHT")
print("caught %d of %d" % (caught, len(rows)))
json.dump([{"id": r[0], "check": r[1], "rules": r[2]} for r in rows], open(os.path.join(V, "seeded", "SUMMARY.json"), "w"), indent=1)
