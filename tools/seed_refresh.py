#!/usr/bin/env python3
"""seed_refresh.py <seed_check log> [<verify_seed log>]: refreshes check_result / reporting_rules of every
seeded/<id>/meta.json from a sweep of tools/seed_check.sh (lines "<id> CAUGHT|MISSED <kind:rule,...>"), creates the
meta.json of changes that have none from a tools/verify_seed.sh log (confirmation fields), and rewrites
seeded/SUMMARY.json.  The expensive confirmation (suite + demo) is not repeated: it depends on /repo only."""
import json, os, re, sys
V = os.path.dirname(os.path.dirname(os.path.abspath(__file__)))
chk = {}
for line in open(sys.argv[1]):
    m = re.match(r"(C\d\d-m\d+) (CAUGHT|MISSED|NOAPPLY|ERROR)\s*(.*)", line.strip())
    if m:
        rules = sorted({r.split(":", 1)[1] for r in m.group(3).split(",") if ":" in r})
        chk[m.group(1)] = (m.group(2), rules)
ver = {}
if len(sys.argv) > 2:
    for line in open(sys.argv[2]):
        m = re.search(r"dir=seeded/(C\d\d-m\d+) (.*)", line)
        if m:
            ver[m.group(1)] = dict(re.findall(r"(\w+)=(\S*)", m.group(2)))
rows = []
for d in sorted(os.listdir(os.path.join(V, "seeded"))):
    p = os.path.join(V, "seeded", d)
    if not os.path.isfile(os.path.join(p, "patch.diff")):
        continue
    prop = d.split("-")[0]
    mp = os.path.join(p, "meta.json")
    if os.path.exists(mp):
        meta = json.load(open(mp))
    else:
        agent = {}
        if os.path.exists(os.path.join(p, "meta.agent.json")):
            try: agent = json.load(open(os.path.join(p, "meta.agent.json")))
            except Exception: agent = {}
        kv = ver.get(d, {})
        meta = {"id": d, "property": prop, "summary": agent.get("summary", ""), "mechanism": agent.get("mechanism", ""),
                "needs_to_manifest": agent.get("needs_to_manifest", ""), "files_touched": agent.get("files_touched", []),
                "origin": "independent sub-agent given only the property text and a scratch worktree",
                "confirmed": {"ran": ["tools/verify_seed.sh seeded/%s %s  (scratch copies of /repo HEAD under /tmp, removed afterwards)" % (d, prop),
                                      "go build ./... && go test -vet=off -count=1 ./...  with the patch (must pass)",
                                      "demo_test.go copied into its package: go test with the patch (must fail) and without it (must pass)",
                                      "bin/hlcheck -prop %s -tier quick -repo <patched copy> -no-evidence" % prop],
                              "patch_applies": kv.get("APPLY") == "ok", "suite_failures_with_patch": int(kv.get("suite_failures", -1)),
                              "demo_fails_with_patch": kv.get("demo_fails_with_patch") == "yes", "demo_passes_without_patch": kv.get("demo_passes_without") == "yes"}}
    if d in chk and chk[d][0] in ("CAUGHT", "MISSED"):
        meta["check_result"], meta["reporting_rules"] = chk[d]
    elif "check_result" not in meta:
        meta["check_result"], meta["reporting_rules"] = "?", []
    json.dump(meta, open(mp, "w"), indent=1)
    rows.append({"id": d, "check": meta["check_result"], "rules": ",".join(meta["reporting_rules"])})
    c = meta["confirmed"]
    if not (c["patch_applies"] and c["suite_failures_with_patch"] == 0 and c["demo_fails_with_patch"] and c["demo_passes_without_patch"]):
        print("UNCONFIRMED", d)
json.dump(rows, open(os.path.join(V, "seeded", "SUMMARY.json"), "w"), indent=1)
print("caught %d of %d" % (sum(1 for r in rows if r["check"] == "CAUGHT"), len(rows)))
