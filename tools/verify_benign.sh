#!/bin/bash
# verify_benign.sh <patch.diff> : applies a behaviour-preserving patch to a scratch copy of /repo, confirms
# that it builds and that the suite passes, then runs ALL property checks against the copy.  Any exit != 0
# is a false alarm of the machinery.  The copy lives under /tmp and is removed.
set -u
patch="$(readlink -f "$1")"
HERE="$(cd "$(dirname "${BASH_SOURCE[0]}")/.." && pwd)"
export PATH=/opt/veriftools/go1.26.8/bin:$PATH GOTOOLCHAIN=local GOFLAGS=-mod=mod GOPROXY=off GOSUMDB=off GOWORK=off CGO_ENABLED=0
tmp=$(mktemp -d /tmp/hl-benign-XXXXXX); trap 'rm -rf "$tmp"' EXIT
rsync -a --exclude .git /repo/ "$tmp/r/"
(cd "$tmp/r" && git apply --whitespace=nowarn "$patch" 2>/dev/null) || { echo "APPLY=fail $patch"; exit 3; }
(cd "$tmp/r" && go build ./... >/dev/null 2>&1) || { echo "BUILD=fail $patch"; exit 3; }
if [ "${SKIP_SUITE:-0}" != 1 ]; then
  fails=$(cd "$tmp/r" && env -u GOFLAGS -u GOSUMDB -u GOTOOLCHAIN go test -vet=off -count=1 ./... 2>&1 | grep -c "^FAIL\|^--- FAIL")
  [ "$fails" -eq 0 ] || { echo "SUITE=fail($fails) $patch"; exit 3; }
fi
alarms=0
for p in C01 C02 C03 C04 C05 C06 C07 C08 C09 C10 C11 C12 C13 C14 C15 C16 C17 C18 C19 C20; do
  ( "$HERE/bin/hlcheck" -prop $p -tier quick -repo "$tmp/r" -verif "$HERE" -no-evidence > "$tmp/$p.out" 2>&1; echo $? > "$tmp/$p.rc" ) &
done
wait
for p in C01 C02 C03 C04 C05 C06 C07 C08 C09 C10 C11 C12 C13 C14 C15 C16 C17 C18 C19 C20; do
  rc=$(cat "$tmp/$p.rc")
  if [ "$rc" != 0 ]; then alarms=$((alarms+1)); echo "FALSE-ALARM $p rc=$rc"; grep '^NEW\|hlcheck:' "$tmp/$p.out" | cut -c1-300 | head -4; fi
done
echo "RESULT alarms=$alarms $(basename $(dirname $patch))"
