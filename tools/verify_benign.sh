#!/bin/bash
# verify_benign.sh <patch.diff> : applies a behaviour-preserving patch to a scratch copy of /repo, confirms
# that it builds and that the suite passes, then runs ALL property checks against the copy (one load).  Any
# property with exit != 0 is a false alarm of the machinery.  The copy lives under /tmp and is removed.
set -u
patch="$(readlink -f "$1")"
HERE="$(cd "$(dirname "${BASH_SOURCE[0]}")/.." && pwd)"
export PATH=/opt/veriftools/go1.26.8/bin:$PATH GOTOOLCHAIN=local GOFLAGS=-mod=mod GOPROXY=off GOSUMDB=off GOWORK=off CGO_ENABLED=0
tmp=$(mktemp -d /tmp/hl-benign-XXXXXX); trap 'rm -rf "$tmp"' EXIT
rsync -a --exclude .git /repo/ "$tmp/r/"
(cd "$tmp/r" && git apply --whitespace=nowarn "$patch" 2>/dev/null) || { echo "APPLY=fail $patch"; exit 3; }
(cd "$tmp/r" && go build ./... >/dev/null 2>&1) || { echo "BUILD=fail $patch"; exit 3; }
if [ "${SKIP_SUITE:-0}" != 1 ]; then
  fails=$(cd "$tmp/r" && env -u GOFLAGS -u GOSUMDB -u GOTOOLCHAIN go test -vet=off -count=1 ./... 2>&1 | grep -c "^FAIL\|^--- FAIL")
  [ "$fails" -eq 0 ] || { echo "SUITE=fail($fails) $patch"; exit 3; }
fi
"${HLBIN:-$HERE/bin/hlcheck}" -prop all -tier quick -repo "$tmp/r" -verif "$HERE" -no-evidence > "$tmp/all.out" 2>&1
alarms=0
cur=""
while IFS= read -r line; do
  case "$line" in
    BEGIN\ *) cur="${line#BEGIN }"; buf="";;
    NEW\ *) buf="$buf$(echo "$line" | cut -c1-300)"$'\n';;
    PROP\ *) rc="${line##*rc=}"; if [ "$rc" != 0 ]; then alarms=$((alarms+1)); echo "FALSE-ALARM $cur rc=$rc"; printf "%s" "$buf" | head -4; fi;;
  esac
done < "$tmp/all.out"
grep -q "^PROP C[12]0" "$tmp/all.out" || { alarms=$((alarms+1)); echo "CHECKER-FAILED"; tail -3 "$tmp/all.out"; }
echo "RESULT alarms=$alarms $(basename $(dirname $patch))"
