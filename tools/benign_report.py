#!/usr/bin/env python3
"""benign_report.py <sweep.log> : turns the output of a sweep of tools/verify_benign.sh over benign/*/patch.diff
into benign/SWEEP.json: per refactoring the properties whose check raised an alarm and the rules that fired."""
import json, os, re, sys
V = os.path.dirname(os.path.dirname(os.path.abspath(__file__)))
rows, cur = {}, []
for line in open(sys.argv[1], errors="replace"):
    line = line.rstrip("\n")
    if line.startswith("FALSE-ALARM "):
        cur.append({"property": line.split()[1], "rules": []})
    elif line.startswith("NEW ") and cur:
        r = line.split()[2]
        if r not in cur[-1]["rules"]:
            cur[-1]["rules"].append(r)
    elif line.startswith("RESULT "):
        m = re.match(r"RESULT alarms=(\d+) (\S+)", line)
        rows[m.group(2)] = {"alarms": int(m.group(1)), "raised_by": cur}
        cur = []
    elif line.startswith("APPLY=fail") or line.startswith("BUILD=fail"):
        rid = os.path.basename(os.path.dirname(line.split()[1]))
        rows[rid] = {"alarms": None, "raised_by": [], "note": line.split()[0]}
        cur = []
    elif line.startswith("CHECKER-FAILED"):
        cur.append({"property": "?", "rules": ["CHECKER-FAILED"]})
out = {"total": len(rows), "silent": sum(1 for r in rows.values() if r["alarms"] == 0),
       "alarming": sorted(k for k, r in rows.items() if r["alarms"]), "not_applicable": sorted(k for k, r in rows.items() if r["alarms"] is None),
       "by_refactoring": dict(sorted(rows.items()))}
json.dump(out, open(os.path.join(V, "benign", "SWEEP.json"), "w"), indent=1)
by_round = {}
for k, r in rows.items():
    rd = k.split("-")[1]
    a = by_round.setdefault(rd, [0, 0])
    a[1] += 1
    a[0] += 1 if r["alarms"] else 0
print("total", out["total"], "silent", out["silent"], "alarming", len(out["alarming"]))
print({k: "%d/%d" % tuple(v) for k, v in sorted(by_round.items(), key=lambda kv: (len(kv[0]), kv[0]))})
