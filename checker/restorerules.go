package main

// P-RESTORE: a temporary override of parser state is undone on every way out.
//
// The parser carries very little state from one entry to the next (the default year set by a Y directive).  A
// function that saves such a field, overrides it for the duration of a sub-parse and writes the saved value back
// ("year := p.defaultYear; p.defaultYear = primaryYear; ...; p.defaultYear = year") must write it back on every
// path to a return - the error returns included.  Otherwise a damaged entry leaves the override behind and every
// later entry is read under it: the damage is no longer contained in its own entry (C07), and an intact journal
// that merely takes the failing path is misread (C03).

import (
	"fmt"
	"go/token"
	"go/types"
	"strings"

	"golang.org/x/tools/go/ssa"
)

func ruleParserStateRestore(c *Ctx) {
	ppk := c.P.SSAPkg("internal/parser")
	stateField := func(addr ssa.Value) *types.Var {
		fa, ok := addr.(*ssa.FieldAddr)
		if !ok {
			return nil
		}
		pt, ok := fa.X.Type().Underlying().(*types.Pointer)
		if !ok || !typeHasSuffix(pt.Elem(), "parser.Parser") {
			return nil
		}
		fts := types.TypeString(fa.Type().Underlying().(*types.Pointer).Elem(), nil)
		if strings.HasSuffix(fts, "parser.Token") || strings.HasSuffix(fts, "parser.Lexer") || strings.HasSuffix(fts, "parser.ParseError") {
			return nil
		}
		return fieldVarOfAddr(fa)
	}
	nStores, nPairs := 0, 0
	for _, f := range c.P.ModuleFuncs() {
		top := f
		for top.Parent() != nil {
			top = top.Parent()
		}
		if top.Pkg != ppk || f.Blocks == nil {
			continue
		}
		type st struct {
			ins     *ssa.Store
			field   *types.Var
			restore bool
		}
		var stores []st
		deferred := map[*types.Var]bool{}
		for _, b := range f.Blocks {
			for _, ins := range b.Instrs {
				switch x := ins.(type) {
				case *ssa.Store:
					fv := stateField(x.Addr)
					if fv == nil {
						continue
					}
					nStores++
					restore := false
					for w := range backSlice(x.Val) {
						if ld, ok := w.(*ssa.UnOp); ok && ld.Op == token.MUL && ld.Parent() == f && stateField(ld.X) == fv {
							restore = true
						}
					}
					stores = append(stores, st{x, fv, restore})
				case *ssa.Defer:
					// defer func() { p.f = saved }()
					for _, g := range funcsBehind(x.Call.Value, 0) {
						for _, gb := range g.Blocks {
							for _, gi := range gb.Instrs {
								if s2, ok := gi.(*ssa.Store); ok {
									if fv := stateField(s2.Addr); fv != nil {
										deferred[fv] = true
									}
								}
							}
						}
					}
				}
			}
		}
		for _, s := range stores {
			if s.restore || deferred[s.field] {
				continue
			}
			// an override counts only where the function also has the restoring half of the idiom
			hasRestore := false
			for _, r := range stores {
				if r.restore && r.field == s.field {
					hasRestore = true
				}
			}
			if !hasRestore {
				continue
			}
			nPairs++
			isRestore := func(ins ssa.Instruction) bool {
				for _, r := range stores {
					if r.restore && r.field == s.field && r.ins == ins {
						return true
					}
				}
				return false
			}
			// every path from the override to a return passes a restoring store
			leak := token.NoPos
			seen := map[*ssa.BasicBlock]bool{}
			var walk func(b *ssa.BasicBlock, from int)
			walk = func(b *ssa.BasicBlock, from int) {
				for i := from; i < len(b.Instrs); i++ {
					if isRestore(b.Instrs[i]) {
						return
					}
					if ret, ok := b.Instrs[i].(*ssa.Return); ok {
						if leak == token.NoPos {
							leak = ret.Pos()
						}
						return
					}
					if _, ok := b.Instrs[i].(*ssa.Panic); ok {
						return
					}
				}
				for _, nb := range b.Succs {
					if !seen[nb] {
						seen[nb] = true
						walk(nb, 0)
					}
				}
			}
			idx := 0
			for i, ins := range s.ins.Block().Instrs {
				if ins == ssa.Instruction(s.ins) {
					idx = i + 1
				}
			}
			walk(s.ins.Block(), idx)
			where := ""
			if leak != token.NoPos {
				where = c.P.Fset.Position(leak).String()
				if i := strings.LastIndex(where, "/"); i >= 0 {
					where = where[i+1:]
				}
			}
			c.check(leak == token.NoPos, "P-RESTORE", funcName(f), fmt.Sprintf("override of parser state %s is undone on every way out", s.field.Name()), s.ins.Pos(),
				"every path from the override to a return writes the saved value back",
				"the parser field "+s.field.Name()+" is overridden for a sub-parse and written back afterwards - but not on the path to the return at "+where+" (an error return): after a damaged entry the override stays in force and every later entry of the file is read under it")
		}
	}
	if nPairs == 0 {
		c.check(true, "P-RESTORE", "parser", "no temporary override of parser state", token.NoPos,
			"no function of the parser saves, overrides and restores a state field", "")
	}
	c.census("P-RESTORE", "stores into parser state other than token, lexer and error list", nStores, 1)
}

// ruleLexerInput (L-INPUT): the lexer scans the text it was given.  Every position the server reports - token
// starts, syntax-tree ranges, semantic tokens - is an offset, line and column in the lexer's input; the client reads
// them as positions in ITS text.  So the string stored into the lexer's text field is the caller's string itself:
// not a slice of it, not a trimmed or re-encoded copy (a byte order mark cut off in front shifts every token of the
// first line one column to the left; a normalised line end shifts everything behind it).
func ruleLexerInput(c *Ctx) {
	if c.ranOnce("ruleLexerInput") {
		return
	}
	ppk := c.P.SSAPkg("internal/parser")
	n := 0
	for _, f := range c.P.ModuleFuncs() {
		if f.Pkg != ppk {
			continue
		}
		for _, b := range f.Blocks {
			for _, ins := range b.Instrs {
				st, ok := ins.(*ssa.Store)
				if !ok {
					continue
				}
				fa, ok := st.Addr.(*ssa.FieldAddr)
				if !ok {
					continue
				}
				pt, ok := fa.X.Type().Underlying().(*types.Pointer)
				if !ok || !typeHasSuffix(pt.Elem(), "parser.Lexer") || types.TypeString(fieldVarOfAddr(fa).Type(), nil) != "string" {
					continue
				}
				n++
				okVal := false
				switch v := st.Val.(type) {
				case *ssa.Parameter:
					okVal = true
				case *ssa.UnOp:
					// a copy of another lexer's text
					if a, ok := v.X.(*ssa.FieldAddr); ok && v.Op == token.MUL {
						if p2, ok := a.X.Type().Underlying().(*types.Pointer); ok && typeHasSuffix(p2.Elem(), "parser.Lexer") {
							okVal = true
						}
					}
				}
				c.check(okVal, "L-INPUT", funcName(f), "the lexer's text is the caller's string itself", st.Pos(),
					"the text field receives the constructor's parameter unchanged",
					"the text the lexer scans is not the string it was given but something computed from it (a slice, a trimmed or rewritten copy): offsets, lines and columns are then positions in the lexer's copy, while the client reads them as positions in its own text (a byte order mark cut off shifts every token of the first line)")
			}
		}
	}
	c.census("L-INPUT", "stores into the lexer's text field", n, 1)
}
