package main

// P-RESTORE: a temporary override of parser state is undone on every way out.
//
// The parser carries very little state from one entry to the next (the default year set by a Y directive).  A
// function that saves such a field, overrides it for the duration of a sub-parse and writes the saved value back
// ("year := p.defaultYear; p.defaultYear = primaryYear; ...; p.defaultYear = year") must write it back on every
// path to a return - the error returns included.  Otherwise a damaged entry leaves the override behind and every
// later entry is read under it: the damage is no longer contained in its own entry (C07), and an intact journal
// that merely takes the failing path is misread (C03).

import (
	"fmt"
	"go/constant"
	"go/token"
	"go/types"
	"strings"

	"golang.org/x/tools/go/ssa"
)

func ruleParserStateRestore(c *Ctx) {
	ppk := c.P.SSAPkg("internal/parser")
	stateField := func(addr ssa.Value) *types.Var {
		fa, ok := addr.(*ssa.FieldAddr)
		if !ok {
			return nil
		}
		pt, ok := fa.X.Type().Underlying().(*types.Pointer)
		if !ok || !typeHasSuffix(pt.Elem(), "parser.Parser") {
			return nil
		}
		fts := types.TypeString(fa.Type().Underlying().(*types.Pointer).Elem(), nil)
		if strings.HasSuffix(fts, "parser.Token") || strings.HasSuffix(fts, "parser.Lexer") || strings.HasSuffix(fts, "parser.ParseError") {
			return nil
		}
		return fieldVarOfAddr(fa)
	}
	nStores, nPairs := 0, 0
	for _, f := range c.P.ModuleFuncs() {
		top := f
		for top.Parent() != nil {
			top = top.Parent()
		}
		if top.Pkg != ppk || f.Blocks == nil {
			continue
		}
		type st struct {
			ins     *ssa.Store
			field   *types.Var
			restore bool
		}
		var stores []st
		deferred := map[*types.Var]bool{}
		for _, b := range f.Blocks {
			for _, ins := range b.Instrs {
				switch x := ins.(type) {
				case *ssa.Store:
					fv := stateField(x.Addr)
					if fv == nil {
						continue
					}
					nStores++
					restore := false
					for w := range backSlice(x.Val) {
						if ld, ok := w.(*ssa.UnOp); ok && ld.Op == token.MUL && ld.Parent() == f && stateField(ld.X) == fv {
							restore = true
						}
					}
					stores = append(stores, st{x, fv, restore})
				case *ssa.Defer:
					// defer func() { p.f = saved }()
					for _, g := range funcsBehind(x.Call.Value, 0) {
						for _, gb := range g.Blocks {
							for _, gi := range gb.Instrs {
								if s2, ok := gi.(*ssa.Store); ok {
									if fv := stateField(s2.Addr); fv != nil {
										deferred[fv] = true
									}
								}
							}
						}
					}
				}
			}
		}
		for _, s := range stores {
			if s.restore || deferred[s.field] {
				continue
			}
			// an override counts only where the function also has the restoring half of the idiom
			hasRestore := false
			for _, r := range stores {
				if r.restore && r.field == s.field {
					hasRestore = true
				}
			}
			if !hasRestore {
				continue
			}
			nPairs++
			isRestore := func(ins ssa.Instruction) bool {
				for _, r := range stores {
					if r.restore && r.field == s.field && r.ins == ins {
						return true
					}
				}
				return false
			}
			// every path from the override to a return passes a restoring store
			leak := token.NoPos
			seen := map[*ssa.BasicBlock]bool{}
			var walk func(b *ssa.BasicBlock, from int)
			walk = func(b *ssa.BasicBlock, from int) {
				for i := from; i < len(b.Instrs); i++ {
					if isRestore(b.Instrs[i]) {
						return
					}
					if ret, ok := b.Instrs[i].(*ssa.Return); ok {
						if leak == token.NoPos {
							leak = ret.Pos()
						}
						return
					}
					if _, ok := b.Instrs[i].(*ssa.Panic); ok {
						return
					}
				}
				for _, nb := range b.Succs {
					if !seen[nb] {
						seen[nb] = true
						walk(nb, 0)
					}
				}
			}
			idx := 0
			for i, ins := range s.ins.Block().Instrs {
				if ins == ssa.Instruction(s.ins) {
					idx = i + 1
				}
			}
			walk(s.ins.Block(), idx)
			where := ""
			if leak != token.NoPos {
				where = c.P.Fset.Position(leak).String()
				if i := strings.LastIndex(where, "/"); i >= 0 {
					where = where[i+1:]
				}
			}
			c.check(leak == token.NoPos, "P-RESTORE", funcName(f), fmt.Sprintf("override of parser state %s is undone on every way out", s.field.Name()), s.ins.Pos(),
				"every path from the override to a return writes the saved value back",
				"the parser field "+s.field.Name()+" is overridden for a sub-parse and written back afterwards - but not on the path to the return at "+where+" (an error return): after a damaged entry the override stays in force and every later entry of the file is read under it")
		}
	}
	if nPairs == 0 {
		c.check(true, "P-RESTORE", "parser", "no temporary override of parser state", token.NoPos,
			"no function of the parser saves, overrides and restores a state field", "")
	}
	c.census("P-RESTORE", "stores into parser state other than token, lexer and error list", nStores, 1)
}

// ruleLexerInput (L-INPUT): the lexer scans the text it was given.  Every position the server reports - token
// starts, syntax-tree ranges, semantic tokens - is an offset, line and column in the lexer's input; the client reads
// them as positions in ITS text.  So the string stored into the lexer's text field is the caller's string itself:
// not a slice of it, not a trimmed or re-encoded copy (a byte order mark cut off in front shifts every token of the
// first line one column to the left; a normalised line end shifts everything behind it).
func ruleLexerInput(c *Ctx) {
	if c.ranOnce("ruleLexerInput") {
		return
	}
	ppk := c.P.SSAPkg("internal/parser")
	n := 0
	for _, f := range c.P.ModuleFuncs() {
		if f.Pkg != ppk {
			continue
		}
		for _, b := range f.Blocks {
			for _, ins := range b.Instrs {
				st, ok := ins.(*ssa.Store)
				if !ok {
					continue
				}
				fa, ok := st.Addr.(*ssa.FieldAddr)
				if !ok {
					continue
				}
				pt, ok := fa.X.Type().Underlying().(*types.Pointer)
				if !ok || !typeHasSuffix(pt.Elem(), "parser.Lexer") || types.TypeString(fieldVarOfAddr(fa).Type(), nil) != "string" {
					continue
				}
				n++
				okVal := false
				switch v := st.Val.(type) {
				case *ssa.Parameter:
					okVal = true
				case *ssa.UnOp:
					// a copy of another lexer's text
					if a, ok := v.X.(*ssa.FieldAddr); ok && v.Op == token.MUL {
						if p2, ok := a.X.Type().Underlying().(*types.Pointer); ok && typeHasSuffix(p2.Elem(), "parser.Lexer") {
							okVal = true
						}
					}
				}
				c.check(okVal, "L-INPUT", funcName(f), "the lexer's text is the caller's string itself", st.Pos(),
					"the text field receives the constructor's parameter unchanged",
					"the text the lexer scans is not the string it was given but something computed from it (a slice, a trimmed or rewritten copy): offsets, lines and columns are then positions in the lexer's copy, while the client reads them as positions in its own text (a byte order mark cut off shifts every token of the first line)")
			}
		}
	}
	c.census("L-INPUT", "stores into the lexer's text field", n, 1)
}

// ruleCountsPositive (T1-POS): the per-file counts that the workspace index adds and subtracts are counts of
// occurrences.  The index removes a file's contribution by subtracting its counts and deleting a key whose total
// falls to what is subtracted; that is the inverse of adding only if a key is present exactly when its total is
// positive.  So every store into a map[string]int made by a counting collector (a function of package analyzer that
// returns such a map) adds to the key's previous value - `m[k]++`, `m[k] += n` - and never plants a key with a
// constant (a name "registered with a zero count" survives in the total until any file that also mentions it is
// removed, and is then deleted although another file still declares it).
func ruleCountsPositive(c *Ctx) {
	if c.ranOnce("ruleCountsPositive") {
		return
	}
	apk := c.P.SSAPkg("internal/analyzer")
	n := 0
	for _, f := range c.P.ModuleFuncs() {
		top := f
		for top.Parent() != nil {
			top = top.Parent()
		}
		if top.Pkg != apk || top.Signature.Results().Len() != 1 {
			continue
		}
		if types.TypeString(top.Signature.Results().At(0).Type(), nil) != "map[string]int" {
			continue
		}
		for _, b := range f.Blocks {
			for _, ins := range b.Instrs {
				mu, ok := ins.(*ssa.MapUpdate)
				if !ok || types.TypeString(mu.Map.Type().Underlying(), nil) != "map[string]int" {
					continue
				}
				n++
				adds := false
				if bo, ok := mu.Value.(*ssa.BinOp); ok && bo.Op == token.ADD {
					for _, op := range []ssa.Value{bo.X, bo.Y} {
						if lk, ok := op.(*ssa.Lookup); ok && lk.X == mu.Map {
							adds = true
						}
					}
				}
				_, isConst := mu.Value.(*ssa.Const)
				c.check(adds || !isConst, "T1-POS", funcName(f), "a count is added to, never planted", mu.Pos(),
					"the stored value is the key's previous count plus something",
					"a counting collector stores a constant under a key instead of adding to the key's count: the workspace index removes a file's contribution by subtracting its counts and deletes a key whose total falls to the subtracted amount, which is the inverse of adding only if a key exists exactly when its total is positive - a name registered with a zero count disappears from the incremental view while a rebuild still lists it")
			}
		}
	}
	c.census("T1-POS", "stores into count maps of the counting collectors", n, 3)
}

// ruleRuneError (U-RUNEERR): U+FFFD is a character.  Ranging over a string yields utf8.RuneError (U+FFFD) both for
// an invalid byte (one byte wide) and for a validly encoded U+FFFD (three bytes wide); the rune alone cannot tell
// them apart.  A number of bytes or code units that is chosen by comparing such a rune with utf8.RuneError - "an
// invalid byte counts as one" - is therefore wrong for every text that contains a literal U+FFFD (what a client
// holds for a file it could not decode): offsets behind it are two bytes short, and ranged edits are spliced into
// the wrong place.  Reported: a comparison of a rune obtained from `range` over a string with the constant 0xFFFD
// that decides (data or control) an integer; a comparison next to the width reported by utf8.DecodeRune* is fine.
func ruleRuneError(c *Ctx) {
	if c.ranOnce("ruleRuneError") {
		return
	}
	n := 0
	for _, f := range c.P.ModuleFuncs() {
		for _, b := range f.Blocks {
			for _, ins := range b.Instrs {
				bo, ok := ins.(*ssa.BinOp)
				if !ok || (bo.Op != token.EQL && bo.Op != token.NEQ) {
					continue
				}
				var other ssa.Value
				for i, op := range []ssa.Value{bo.X, bo.Y} {
					if k, ok := op.(*ssa.Const); ok && k.Value != nil && k.Value.Kind() == constant.Int && isInt32(k.Type()) {
						if v, exact := constant.Int64Val(k.Value); exact && v == 0xFFFD {
							other = []ssa.Value{bo.Y, bo.X}[i]
						}
					}
				}
				if other == nil {
					continue
				}
				// the rune comes out of a range over a string (directly, or as the parameter of a helper all of
				// whose callers pass such a rune)
				var ranged func(v ssa.Value, depth int) bool
				ranged = func(v ssa.Value, depth int) bool {
					switch x := stripConv(v).(type) {
					case *ssa.Extract:
						if nx, ok := x.Tuple.(*ssa.Next); ok && nx.IsString {
							return true
						}
					case *ssa.Parameter:
						if depth > 2 {
							return false
						}
						sites := (cgView{c}).callersOf(x.Parent())
						if len(sites) == 0 {
							return false
						}
						idx := -1
						for i, q := range x.Parent().Params {
							if q == x {
								idx = i
							}
						}
						for _, s := range sites {
							if idx < 0 || idx >= len(s.Common().Args) || !ranged(s.Common().Args[idx], depth+1) {
								return false
							}
						}
						return true
					}
					return false
				}
				if !ranged(other, 0) {
					continue
				}
				n++
				c.finding("U-RUNEERR", funcName(f), "a rune from a range over a string is not told apart from an invalid byte by its value", bo.Pos(),
					"a rune obtained by ranging over a string is compared with utf8.RuneError to decide how many bytes or code units it stands for: range yields U+FFFD both for an invalid byte (1 byte) and for a validly encoded U+FFFD (3 bytes), so a text that contains the replacement character itself - what a client holds for a file it could not decode - gets byte offsets that are two short behind it, and ranged changes are applied at the wrong place")
			}
		}
	}
	if n == 0 {
		c.ok("U-RUNEERR", "module", "no width decided by comparing a ranged rune with utf8.RuneError", token.NoPos, "no such comparison")
	}
}

func isInt32(t types.Type) bool {
	b, ok := t.Underlying().(*types.Basic)
	return ok && b.Kind() == types.Int32
}

// ruleClampBound (T6-CLAMP): a clamp assigns the bound it tested.  In the settings normaliser (the function from a
// settings value to a settings value) a numeric leaf is limited by `if leaf > K { leaf = K }`; the constant that is
// compared and the constant that is stored are the same.  With two different constants (`> 64` copied from the
// clamp above, `= 512` stored) every value between them - a legal, recognised value - is replaced instead of
// taking effect.
func ruleClampBound(c *Ctx) {
	if c.ranOnce("ruleClampBound") {
		return
	}
	spk := c.P.SSAPkg("internal/server")
	n := 0
	for _, f := range c.P.ModuleFuncs() {
		if f.Pkg != spk || f.Signature.Recv() != nil || f.Signature.Params().Len() != 1 || f.Signature.Results().Len() != 1 {
			continue
		}
		pt := f.Signature.Params().At(0).Type()
		if !types.Identical(pt, f.Signature.Results().At(0).Type()) || !strings.Contains(strings.ToLower(types.TypeString(pt, nil)), "settings") {
			continue
		}
		// field path of an address below the parameter's cell
		pathOf := func(a ssa.Value) string {
			var parts []string
			for {
				fa, ok := a.(*ssa.FieldAddr)
				if !ok {
					break
				}
				parts = append([]string{fieldVarOfAddr(fa).Name()}, parts...)
				a = fa.X
			}
			if len(parts) == 0 {
				return ""
			}
			return strings.Join(parts, ".")
		}
		for _, b := range f.Blocks {
			iff, ok := lastInstr(b).(*ssa.If)
			if !ok {
				continue
			}
			bo, ok := iff.Cond.(*ssa.BinOp)
			if !ok || (bo.Op != token.GTR && bo.Op != token.LSS && bo.Op != token.GEQ && bo.Op != token.LEQ) {
				continue
			}
			ld, ok := bo.X.(*ssa.UnOp)
			k1, isK := bo.Y.(*ssa.Const)
			if !ok || !isK || ld.Op != token.MUL || k1.Value == nil || k1.Value.Kind() != constant.Int {
				continue
			}
			leaf := pathOf(ld.X)
			if leaf == "" || len(b.Succs) != 2 {
				continue
			}
			for _, ins := range b.Succs[0].Instrs {
				st, ok := ins.(*ssa.Store)
				if !ok || pathOf(st.Addr) != leaf {
					continue
				}
				k2, isK2 := st.Val.(*ssa.Const)
				if !isK2 || k2.Value == nil || k2.Value.Kind() != constant.Int {
					continue
				}
				if k1.Int64() <= 0 {
					continue // "not positive: take the default" is not a clamp
				}
				n++
				c.check(k1.Int64() == k2.Int64(), "T6-CLAMP", funcName(f), "the clamp of "+leaf+" stores the bound it tested", st.Pos(),
					"compared and stored constant agree",
					fmt.Sprintf("the normaliser compares %s with %d but stores %d: every value between the two - a recognised, well-typed value - is replaced instead of taking effect", leaf, k1.Int64(), k2.Int64()))
			}
		}
	}
	c.note("T6-CLAMP: clamps in the settings normaliser: %d", n)
	if n == 0 {
		c.ok("T6-CLAMP", "server", "no clamp with a constant bound in the settings normaliser", token.NoPos, "nothing to compare")
	}
}
