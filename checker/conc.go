package main

// Engine C (DESIGN §3.C): goroutines, locks, publication (go/ssa + call graph).

import (
	"fmt"
	"go/token"
	"go/types"
	"sort"
	"strings"

	"golang.org/x/tools/go/callgraph"
	"golang.org/x/tools/go/ssa"
)

type lockID string // "server.Server.settingsMu"

type lockSet map[lockID]bool

func (l lockSet) clone() lockSet {
	o := lockSet{}
	for k := range l {
		o[k] = true
	}
	return o
}
func (l lockSet) String() string {
	var s []string
	for k := range l {
		s = append(s, string(k))
	}
	sort.Strings(s)
	return "{" + strings.Join(s, ",") + "}"
}
func intersect(a, b lockSet) lockSet {
	o := lockSet{}
	for k := range a {
		if b[k] {
			o[k] = true
		}
	}
	return o
}
func union(a, b lockSet) lockSet {
	o := a.clone()
	for k := range b {
		o[k] = true
	}
	return o
}
func sameSet(a, b lockSet) bool {
	if len(a) != len(b) {
		return false
	}
	for k := range a {
		if !b[k] {
			return false
		}
	}
	return true
}

type concInfo struct {
	c        *Ctx
	p        *Prog
	g        *callgraph.Graph
	funcs    []*ssa.Function
	handlers []*ssa.Function // H: Server methods called by the dispatcher
	goRoots  []*ssa.Function // G: targets of `go` statements
	goSites  []*ssa.Go
	initFns  map[*ssa.Function]bool
	reachH   map[*ssa.Function]bool // without crossing go
	reachG   map[*ssa.Function]bool
	// per instruction locksets (state BEFORE the instruction)
	must map[ssa.Instruction]lockSet
	may  map[ssa.Instruction]lockSet
	// entry locksets
	entryMust map[*ssa.Function]lockSet
	entryMay  map[*ssa.Function]lockSet
	allLocks  lockSet
}

var concCache = map[*Prog]*concInfo{}

// lockOp classifies a call: returns lock id and +1 (acquire) / -1 (release) / 0.
func lockOp(call ssa.CallInstruction) (lockID, int, bool) {
	cal := call.Common().StaticCallee()
	if cal == nil || cal.Pkg == nil || cal.Pkg.Pkg.Path() != "sync" {
		return "", 0, false
	}
	recv := ""
	if sig := cal.Signature; sig.Recv() != nil {
		recv = types.TypeString(sig.Recv().Type(), nil)
	}
	if recv != "*sync.Mutex" && recv != "*sync.RWMutex" {
		return "", 0, false
	}
	var dir int
	read := false
	switch cal.Name() {
	case "Lock":
		dir = 1
	case "RLock":
		dir, read = 1, true
	case "Unlock":
		dir = -1
	case "RUnlock":
		dir, read = -1, true
	default:
		return "", 0, false
	}
	if len(call.Common().Args) == 0 {
		return "", 0, false
	}
	id := lockIdent(call.Common().Args[0])
	return id, dir, read
}

func lockIdent(v ssa.Value) lockID {
	switch x := v.(type) {
	case *ssa.FieldAddr:
		st := x.X.Type()
		if pt, ok := st.Underlying().(*types.Pointer); ok {
			st = pt.Elem()
		}
		name := shortQual(types.TypeString(st, nil))
		if s, ok := st.Underlying().(*types.Struct); ok {
			return lockID(name + "." + s.Field(x.Field).Name())
		}
	case *ssa.Global:
		return lockID("global." + x.Name())
	}
	return lockID("?" + v.Name())
}

func buildConc(c *Ctx) *concInfo {
	if ci, ok := concCache[c.P]; ok {
		ci.c = c
		return ci
	}
	declareLockOwners(c.P)
	ci := &concInfo{c: c, p: c.P, g: c.P.CallGraph("vta"), funcs: c.P.ModuleFuncs(),
		must: map[ssa.Instruction]lockSet{}, may: map[ssa.Instruction]lockSet{},
		entryMust: map[*ssa.Function]lockSet{}, entryMay: map[*ssa.Function]lockSet{}, allLocks: lockSet{}, initFns: map[*ssa.Function]bool{}}
	concCache[c.P] = ci
	// handlers: Server methods statically called from methods of the dispatcher type in cmd
	mainPkg := c.P.SSAPkg("cmd/hledger-lsp")
	seenH := map[*ssa.Function]bool{}
	for _, f := range ci.funcs {
		top := f
		for top.Parent() != nil {
			top = top.Parent()
		}
		if top.Pkg != mainPkg {
			continue
		}
		if f.Parent() == nil && f.Name() == "main" {
			continue // calls made directly by main (NewServer, SetClient) happen before the connection starts
		}
		for _, b := range f.Blocks {
			for _, ins := range b.Instrs {
				if call, ok := ins.(ssa.CallInstruction); ok {
					if cal := call.Common().StaticCallee(); cal != nil && cal.Pkg == c.P.SSAPkg("internal/server") && cal.Signature.Recv() != nil && !seenH[cal] {
						seenH[cal] = true
						ci.handlers = append(ci.handlers, cal)
					}
				}
			}
		}
	}
	sort.Slice(ci.handlers, func(i, j int) bool { return funcName(ci.handlers[i]) < funcName(ci.handlers[j]) })
	// go statements
	seenG := map[*ssa.Function]bool{}
	for _, f := range ci.funcs {
		for _, b := range f.Blocks {
			for _, ins := range b.Instrs {
				if g, ok := ins.(*ssa.Go); ok {
					ci.goSites = append(ci.goSites, g)
					for _, t := range ci.calleesOf(g) {
						if !seenG[t] {
							seenG[t] = true
							ci.goRoots = append(ci.goRoots, t)
						}
					}
				}
			}
		}
	}
	sort.Slice(ci.goRoots, func(i, j int) bool { return funcName(ci.goRoots[i]) < funcName(ci.goRoots[j]) })
	ci.reachH = Reach(ci.g, ci.handlers, true)
	ci.reachG = Reach(ci.g, ci.goRoots, true)
	// init phase: functions reachable only from constructors / Initialize / SetClient
	var initRoots, otherRoots []*ssa.Function
	for _, h := range ci.handlers {
		if h.Name() == "Initialize" {
			initRoots = append(initRoots, h)
		} else {
			otherRoots = append(otherRoots, h)
		}
	}
	for _, f := range ci.funcs {
		if f.Signature.Recv() == nil && strings.HasPrefix(f.Name(), "New") || f.Name() == "SetClient" || f.Name() == "init" {
			initRoots = append(initRoots, f)
		}
	}
	otherRoots = append(otherRoots, ci.goRoots...)
	ri := Reach(ci.g, initRoots, true)
	ro := Reach(ci.g, otherRoots, false)
	for f := range ri {
		if !ro[f] {
			ci.initFns[f] = true
		}
	}
	ci.computeLocksets()
	return ci
}

func (ci *concInfo) calleesOf(site ssa.CallInstruction) []*ssa.Function {
	var out []*ssa.Function
	if cal := site.Common().StaticCallee(); cal != nil {
		return []*ssa.Function{cal}
	}
	n := ci.g.Nodes[site.Parent()]
	if n == nil {
		return nil
	}
	for _, e := range n.Out {
		if e.Site == site && e.Callee.Func != nil {
			out = append(out, e.Callee.Func)
		}
	}
	return out
}

// computeLocksets: forward dataflow, must (intersection) and may (union), with context-insensitive
// entry locksets (must: intersection over call sites, may: union); goroutine roots and handlers start empty.
func (ci *concInfo) computeLocksets() {
	for _, f := range ci.funcs {
		for _, b := range f.Blocks {
			for _, ins := range b.Instrs {
				if call, ok := ins.(ssa.CallInstruction); ok {
					if id, dir, _ := lockOp(call); dir > 0 {
						ci.allLocks[id] = true
					}
				}
			}
		}
	}
	isRoot := map[*ssa.Function]bool{}
	for _, h := range ci.handlers {
		isRoot[h] = true
	}
	for _, g := range ci.goRoots {
		isRoot[g] = true
	}
	for _, f := range ci.funcs {
		if isRoot[f] {
			ci.entryMust[f] = lockSet{}
		} else {
			ci.entryMust[f] = nil // top (unknown yet)
		}
		ci.entryMay[f] = lockSet{}
	}
	for iter := 0; iter < 40; iter++ {
		changed := false
		for _, f := range ci.funcs {
			em := ci.entryMust[f]
			if em == nil {
				continue // no caller seen yet (optimistic top): analysed once a caller is known
			}
			if ci.flowFunc(f, em, ci.entryMay[f], isRoot, true) {
				changed = true
			}
		}
		if !changed {
			break
		}
	}
	// functions never reached from a root (dead code, or only via unknown callers): analysed with the empty
	// set, without propagating to callees
	for _, f := range ci.funcs {
		if ci.entryMust[f] == nil {
			ci.flowFunc(f, lockSet{}, ci.entryMay[f], isRoot, false)
		}
	}
}

func (ci *concInfo) flowFunc(f *ssa.Function, entryMust, entryMay lockSet, isRoot map[*ssa.Function]bool, propagate bool) bool {
	changed := false
	inMust := map[*ssa.BasicBlock]lockSet{}
	inMay := map[*ssa.BasicBlock]lockSet{}
	if len(f.Blocks) == 0 {
		return false
	}
	inMust[f.Blocks[0]] = entryMust.clone()
	inMay[f.Blocks[0]] = entryMay.clone()
	work := []*ssa.BasicBlock{f.Blocks[0]}
	visited := map[*ssa.BasicBlock]bool{}
	for len(work) > 0 {
		b := work[0]
		work = work[1:]
		must := inMust[b].clone()
		may := inMay[b].clone()
		for _, ins := range b.Instrs {
			ci.must[ins] = must.clone()
			ci.may[ins] = may.clone()
			call, ok := ins.(ssa.CallInstruction)
			if !ok {
				continue
			}
			if _, isDefer := ins.(*ssa.Defer); isDefer {
				continue // deferred unlock: held until exit
			}
			if id, dir, read := lockOp(call); dir != 0 {
				mid := id
				if read {
					mid = id + "(R)"
				}
				if dir > 0 {
					must[mid] = true
					may[mid] = true
				} else {
					delete(must, mid)
					delete(may, mid)
				}
				continue
			}
			// propagate to callees
			if !propagate {
				continue
			}
			_, isGo := ins.(*ssa.Go)
			for _, cal := range ci.calleesOf(call) {
				if !inModule(cal) || cal.Blocks == nil {
					continue
				}
				if isGo {
					continue // a new goroutine starts with no locks (roots are initialised empty)
				}
				if isRoot[cal] {
					// a root that is also called synchronously keeps the empty must-set; may-set grows
				} else if cur := ci.entryMust[cal]; cur == nil {
					ci.entryMust[cal] = must.clone()
					changed = true
				} else if n := intersect(cur, must); !sameSet(n, cur) {
					ci.entryMust[cal] = n
					changed = true
				}
				if n := union(ci.entryMay[cal], may); !sameSet(n, ci.entryMay[cal]) {
					ci.entryMay[cal] = n
					changed = true
				}
			}
		}
		for _, s := range b.Succs {
			if !visited[s] && inMust[s] == nil {
				inMust[s] = must.clone()
				inMay[s] = may.clone()
				visited[s] = true
				work = append(work, s)
				continue
			}
			nm := intersect(inMust[s], must)
			ny := union(inMay[s], may)
			if !sameSet(nm, inMust[s]) || !sameSet(ny, inMay[s]) {
				inMust[s], inMay[s] = nm, ny
				work = append(work, s)
			}
		}
	}
	return changed
}

// ---------- C-ROOTS ----------

func ruleConcRoots(c *Ctx) {
	ci := buildConc(c)
	c.census("C-ROOTS", "request/notification handlers reached from the dispatcher", len(ci.handlers), 10)
	c.census("C-ROOTS", "go statements in module code", len(ci.goSites), 1)
	var names []string
	for _, g := range ci.goRoots {
		names = append(names, funcName(g))
	}
	c.note("goroutine roots: %s", strings.Join(names, ", "))
	// serial dispatch: no AsyncHandler anywhere in module code
	async := false
	for _, f := range ci.funcs {
		for _, b := range f.Blocks {
			for _, ins := range b.Instrs {
				if call, ok := ins.(ssa.CallInstruction); ok {
					if cal := call.Common().StaticCallee(); cal != nil && cal.Name() == "AsyncHandler" {
						async = true
						c.undecided("C-ROOTS", funcName(f), "jsonrpc2.AsyncHandler", ins.Pos(), "handlers are dispatched asynchronously: the serial-handler model of the concurrency rules no longer holds")
					}
				}
			}
		}
	}
	if !async {
		c.ok("C-ROOTS", "cmd/hledger-lsp.main", "serial dispatch", token.NoPos, "no AsyncHandler: handlers are serial among themselves; concurrency exists only between handlers and the goroutines the server starts")
	}
	for _, g := range ci.goSites {
		var ts []string
		for _, t := range ci.calleesOf(g) {
			ts = append(ts, funcName(t))
		}
		c.ok("C-ROOTS", funcName(g.Parent()), "go "+strings.Join(ts, ","), g.Pos(), "goroutine root recorded")
	}
}

// ---------- C-PUBLISH (C13) ----------

func isPublishCall(call ssa.CallInstruction) bool {
	cc := call.Common()
	if cc.IsInvoke() {
		return cc.Method.Name() == "PublishDiagnostics"
	}
	if cal := cc.StaticCallee(); cal != nil {
		return cal.Name() == "PublishDiagnostics" && cal.Pkg != nil && strings.HasSuffix(cal.Pkg.Pkg.Path(), "protocol")
	}
	return false
}

// versionGuard: block b is dominated by an If whose condition is an (in)equality between a value looked
// up in a map/field of shared state and a value derived from a parameter, with b on the "equal" side.
func versionGuard(b *ssa.BasicBlock) (bool, string) {
	for d := b.Idom(); d != nil; d = d.Idom() {
		if len(d.Instrs) == 0 {
			continue
		}
		ifi, ok := d.Instrs[len(d.Instrs)-1].(*ssa.If)
		if !ok {
			continue
		}
		isEq, isGuard := versionCompare(ifi.Cond, 0)
		if !isGuard {
			continue
		}
		// equal side
		eqSucc := d.Succs[0]
		if !isEq {
			eqSucc = d.Succs[1]
		}
		if !(eqSucc == b || eqSucc.Dominates(b)) {
			continue
		}
		return true, "compares per-document state with the version the analysis was started for"
	}
	return false, ""
}

// versionCompare: cond is `state[key] == version` (isEq) or `!=` (not isEq) with key and version derived from
// parameters - written in place, negated, or as the single result of a boolean helper that is handed
// parameter-derived arguments (isLatestLocked(uri, gen)).
func versionCompare(cond ssa.Value, depth int) (isEq, ok bool) {
	switch x := cond.(type) {
	case *ssa.UnOp:
		if x.Op == token.NOT {
			e, ok := versionCompare(x.X, depth)
			return !e, ok
		}
	case *ssa.BinOp:
		if x.Op != token.NEQ && x.Op != token.EQL {
			return false, false
		}
		st, pa := stateKeyed(x.X), fromParam(x.Y, map[ssa.Value]bool{})
		if !st || !pa {
			st, pa = stateKeyed(x.Y), fromParam(x.X, map[ssa.Value]bool{})
		}
		return x.Op == token.EQL, st && pa
	case *ssa.Call:
		h := x.Call.StaticCallee()
		if h == nil || h.Blocks == nil || !inModule(h) || depth > 2 || h.Signature.Results().Len() != 1 {
			return false, false
		}
		for i, a := range x.Call.Args {
			if i == 0 && h.Signature.Recv() != nil {
				continue
			}
			if !fromParam(a, map[ssa.Value]bool{}) {
				return false, false
			}
		}
		n := 0
		for _, b := range h.Blocks {
			r, isRet := b.Instrs[len(b.Instrs)-1].(*ssa.Return)
			if !isRet {
				continue
			}
			e, ok := versionCompare(unspillResult(r.Results[0], b), depth+1)
			if !ok || (n > 0 && e != isEq) {
				return false, false
			}
			isEq = e
			n++
		}
		return isEq, n > 0
	}
	return false, false
}

// stateKeyed: v is a map lookup `recv.field[key]` whose key derives from a parameter (per-document state).
func stateKeyed(v ssa.Value) bool {
	lk, ok := v.(*ssa.Lookup)
	if !ok {
		if ex, ok2 := v.(*ssa.Extract); ok2 {
			lk, ok = ex.Tuple.(*ssa.Lookup)
		}
		if !ok {
			return false
		}
	}
	if _, isMap := lk.X.Type().Underlying().(*types.Map); !isMap {
		return false
	}
	// map loaded from a field
	if un, ok := lk.X.(*ssa.UnOp); ok {
		if _, ok := un.X.(*ssa.FieldAddr); !ok {
			return false
		}
	} else {
		return false
	}
	return fromParam(lk.Index, map[ssa.Value]bool{})
}

func fromParam(v ssa.Value, seen map[ssa.Value]bool) bool {
	if v == nil || seen[v] {
		return false
	}
	seen[v] = true
	switch x := v.(type) {
	case *ssa.Parameter:
		return true
	case *ssa.FreeVar:
		return true // captured from the enclosing function (itself checked at the wrapper)
	case *ssa.ChangeType:
		return fromParam(x.X, seen)
	case *ssa.Convert:
		return fromParam(x.X, seen)
	case *ssa.Phi:
		for _, e := range x.Edges {
			if !fromParam(e, seen) {
				return false
			}
		}
		return true
	case *ssa.Field:
		return fromParam(x.X, seen) // a member of a by-value struct parameter (job.gen)
	case *ssa.UnOp:
		if x.Op != token.MUL {
			return false
		}
		// a field of a by-value struct parameter that was spilled to a local
		a := x.X
		for {
			fa, ok := a.(*ssa.FieldAddr)
			if !ok {
				break
			}
			a = fa.X
		}
		if al, ok := a.(*ssa.Alloc); ok && a != x.X {
			var val ssa.Value
			n := 0
			for _, r := range *al.Referrers() {
				if st, ok := r.(*ssa.Store); ok && st.Addr == ssa.Value(al) {
					n++
					val = st.Val
				}
			}
			if n == 1 {
				return fromParam(val, seen)
			}
		}
	}
	return false
}

func rulePublish(c *Ctx) {
	ci := buildConc(c)
	nSites := 0
	for _, f := range ci.funcs {
		// reachable from a goroutine root (closures: by call graph)
		if !ci.reachG[f] {
			continue
		}
		for _, b := range f.Blocks {
			for _, ins := range b.Instrs {
				call, ok := ins.(ssa.CallInstruction)
				if !ok || !isPublishCall(call) {
					continue
				}
				nSites++
				ok1, why := ci.publishGuarded(f, b, ins, 0)
				c.check(ok1, "C-PUBLISH", funcName(f), "PublishDiagnostics from background work", ins.Pos(),
					"publication happens inside a critical section and only if the analysed version is still the latest: "+why,
					"diagnostics computed on a background goroutine are published without a version check inside a critical section: a slower analysis of superseded text can publish last ("+why+")")
			}
		}
	}
	c.census("C-PUBLISH", "PublishDiagnostics call sites reachable from goroutine roots", nSites, 1)
	// handler clause: a publication made synchronously by a handler (not on a goroutine the server starts) competes
	// with the analyses still in flight for earlier versions.  It is either version-guarded like the others, or every
	// path to it passes a bump of the document's version first - otherwise an older analysis is still "current" when
	// it finishes and publishes last (C13-m29: an emptied document gets its diagnostics cleared at once, without a new
	// generation, and the analysis of the previous text publishes its errors afterwards).
	isBump := func(ins ssa.Instruction) bool {
		call, ok := ins.(ssa.CallInstruction)
		if !ok {
			return false
		}
		cal := call.Common().StaticCallee()
		return cal != nil && inModule(cal) && bumpsVersionUnderLock(ci, cal)
	}
	var bumpedBefore func(f *ssa.Function, b *ssa.BasicBlock, at ssa.Instruction, depth int) bool
	bumpedBefore = func(f *ssa.Function, b *ssa.BasicBlock, at ssa.Instruction, depth int) bool {
		for _, b2 := range f.Blocks {
			for _, x := range b2.Instrs {
				if !isBump(x) {
					continue
				}
				if b2 == b {
					for _, y := range b.Instrs {
						if y == x {
							return true
						}
						if y == at {
							break
						}
					}
				} else if b2.Dominates(b) {
					return true
				}
			}
		}
		if depth >= 3 {
			return false
		}
		sites := (cgView{c}).callersOf(f)
		if len(sites) == 0 {
			return false
		}
		for _, site := range sites {
			if !bumpedBefore(site.Parent(), site.Block(), site, depth+1) {
				return false
			}
		}
		return true
	}
	nSync := 0
	for _, f := range ci.funcs {
		if ci.reachG[f] {
			continue
		}
		for _, b := range f.Blocks {
			for _, ins := range b.Instrs {
				call, ok := ins.(ssa.CallInstruction)
				if !ok || !isPublishCall(call) {
					continue
				}
				nSync++
				ok1, _ := ci.publishGuarded(f, b, ins, 0)
				c.check(ok1 || bumpedBefore(f, b, ins, 0), "C-PUBLISH", funcName(f), "PublishDiagnostics made synchronously by a handler", ins.Pos(),
					"the publication is version-guarded or every path to it bumps the document's version first",
					"a handler publishes diagnostics itself, neither under the version guard nor after taking a new version for the document: analyses of earlier versions that are still running stay 'current', finish later and publish their result over this one - the client is left with diagnostics of a superseded text")
			}
		}
	}
	c.note("C-PUBLISH: %d synchronous publication sites", nSync)
	// the version is taken synchronously in the handler: every go statement whose target reaches a publish
	// receives, as an argument, the result of a call made before the go statement in the same handler to a
	// function that updates (map update / store) the state compared by the guard, under the same lock.
	reachesPublish := func(root *ssa.Function) bool {
		for f := range Reach(ci.g, []*ssa.Function{root}, true) {
			for _, b := range f.Blocks {
				for _, ins := range b.Instrs {
					if call, ok := ins.(ssa.CallInstruction); ok && isPublishCall(call) {
						return true
					}
				}
			}
		}
		return false
	}
	nGo := 0
	for _, g := range ci.goSites {
		targets := ci.calleesOf(g)
		rp := false
		for _, t := range targets {
			if reachesPublish(t) {
				rp = true
			}
		}
		if !rp {
			continue
		}
		nGo++
		okArg := false
		for _, a := range g.Common().Args {
			// the argument is, or is built from (a job record), the result of the bump
			for v := range backSlice(a) {
				if call, ok := v.(*ssa.Call); ok {
					if cal := call.Common().StaticCallee(); cal != nil && inModule(cal) && bumpsVersionUnderLock(ci, cal) {
						okArg = true
					}
				}
			}
		}
		c.check(okArg, "C-PUBLISH", funcName(g.Parent()), "go statement passes a version taken synchronously", g.Pos(),
			"the handler numbers the document version (under the publication lock) before starting the analysis and hands that number to it",
			"the background analysis is started without a version number obtained synchronously in the handler: the goroutine cannot tell whether its text is still the latest")
	}
	c.census("C-PUBLISH", "go statements starting analyses that publish", nGo, 1)
	// C13-SKIP: a background analysis that was started for the latest version ends with a publication attempt.
	// A return that no publication attempt precedes may only depend on the request itself (no client, no file
	// path) - never on state that earlier analyses left behind (a cache of "already analysed" texts).
	attempts := func(f *ssa.Function) []ssa.Instruction {
		var out []ssa.Instruction
		for _, b := range f.Blocks {
			for _, ins := range b.Instrs {
				call, ok := ins.(ssa.CallInstruction)
				if !ok {
					continue
				}
				if isPublishCall(call) {
					out = append(out, ins)
					continue
				}
				reaches := false
				// function values handed to the call: what THIS call can publish through them is decided by them,
				// not by what other call sites hand to the same helper
				nFuncArgs := 0
				for _, a := range call.Common().Args {
					if _, isSig := a.Type().Underlying().(*types.Signature); !isSig {
						continue
					}
					nFuncArgs++
					if fn := resolveLocalFunc(a); fn != nil {
						if reachesPublish(fn) {
							reaches = true
						}
					} else {
						reaches = true // a function value of unknown origin
					}
				}
				for _, cal := range ci.calleesOf(call) {
					if !inModule(cal) {
						continue
					}
					if nFuncArgs > 0 {
						if reachesPublishWithoutParams(ci, cal) {
							reaches = true
						}
					} else if reachesPublish(cal) {
						reaches = true
					}
				}
				if reaches {
					out = append(out, ins)
				}
			}
		}
		return out
	}
	nRet := 0
	for _, root := range ci.goRoots {
		if !reachesPublish(root) {
			continue
		}
		// the function that holds the analysis: the root, or the module function it only forwards to
		f := root
		att := attempts(f)
		for _, b := range f.Blocks {
			for _, ins := range b.Instrs {
				ret, ok := ins.(*ssa.Return)
				if !ok {
					continue
				}
				nRet++
				preceded := false
				for _, a := range att {
					if a.Block() == b || a.Block().Dominates(b) {
						preceded = true
					}
				}
				if preceded {
					c.ok("C13-SKIP", funcName(f), fmt.Sprintf("return #%d ends with a publication attempt", nRet), ret.Pos(), "a publication attempt dominates this return")
					continue
				}
				bad := ""
				for _, cc := range controlCondsPol(b) {
					for v := range backSlice(cc.Cond) {
						switch x := v.(type) {
						case *ssa.Call:
							if op, ok := syncMapOp(x); ok {
								bad = "a sync.Map." + op + " on server state"
							}
						case *ssa.Lookup:
							if mt, ok := x.X.Type().Underlying().(*types.Map); ok && perDocumentCounter(mt) {
								continue // the version guard itself: a superseded analysis ends without publishing
							}
							if ld, ok := x.X.(*ssa.UnOp); ok {
								if field, _, ok := rootSharedField(ld.X); ok {
									bad = "a lookup in " + field
								}
							}
						}
					}
				}
				c.check(bad == "", "C13-SKIP", funcName(f), fmt.Sprintf("return #%d without publication depends on the request only", nRet), ret.Pos(),
					"the analysis ends without publishing only for reasons that lie in the request itself (no client, no file path)",
					"a background analysis can end without a publication attempt depending on "+bad+" (state left behind by earlier analyses): the analysis of the latest version can be the one that is skipped, and superseded diagnostics stay published")
			}
		}
	}
	c.census("C13-SKIP", "returns of background analyses that publish", nRet, 2)
	// ... and the publication itself, once the version guard has let it through, is not skipped depending on such
	// state either (e.g. a record of "what the client already shows" that superseded analyses also write)
	nPubCond := 0
	for _, f := range ci.funcs {
		if !ci.reachG[f] {
			continue
		}
		for _, b := range f.Blocks {
			for _, ins := range b.Instrs {
				call, ok := ins.(ssa.CallInstruction)
				if !ok || !isPublishCall(call) {
					continue
				}
				nPubCond++
				bad := ""
				for _, cc := range controlDeps(b) {
					for v := range backSlice(cc.Cond) {
						switch x := v.(type) {
						case *ssa.Call:
							if op, ok := syncMapOp(x); ok {
								bad = "a sync.Map." + op + " on server state"
							}
						case *ssa.Lookup:
							if mt, ok := x.X.Type().Underlying().(*types.Map); ok && perDocumentCounter(mt) {
								continue
							}
							if ld, ok := x.X.(*ssa.UnOp); ok {
								if field, _, ok := rootSharedField(ld.X); ok {
									bad = "a lookup in " + field
								}
							}
						}
					}
				}
				c.check(bad == "", "C13-SKIP", funcName(f), "publication behind the version guard is unconditional", ins.Pos(),
					"once the version guard has passed, the diagnostics are sent",
					"the publication of the latest version's diagnostics is skipped depending on "+bad+" (state that superseded analyses may have written): the client can be left with an older version's diagnostics")
			}
		}
	}
	c.census("C13-SKIP", "publication sites on background paths", nPubCond, 1)
}

// bumpsVersionUnderLock: function increments (or stores into) a map element / field of shared state while holding a lock.
func bumpsVersionUnderLock(ci *concInfo, f *ssa.Function) bool {
	for _, b := range f.Blocks {
		for _, ins := range b.Instrs {
			switch x := ins.(type) {
			case *ssa.MapUpdate:
				if len(ci.must[ins]) > 0 || deferredUnlockHeld(f) {
					if _, ok := x.Value.(*ssa.BinOp); ok {
						return len(ci.mustWithDefer(f, ins)) > 0
					}
				}
			}
		}
	}
	return false
}

func deferredUnlockHeld(f *ssa.Function) bool { return false }

func (ci *concInfo) mustWithDefer(f *ssa.Function, ins ssa.Instruction) lockSet { return ci.must[ins] }

// publishGuarded: the call instruction is (a) under a lock and version-guarded in its own function, or
// (b) inside a function value whose only callers invoke it under a lock behind a version guard.
func (ci *concInfo) publishGuarded(f *ssa.Function, b *ssa.BasicBlock, ins ssa.Instruction, depth int) (bool, string) {
	if depth > 3 {
		return false, "call chain too deep"
	}
	locked := len(ci.must[ins]) > 0
	if g, why := versionGuard(b); g && locked {
		return true, why + " under " + ci.must[ins].String()
	}
	// all callers
	n := ci.g.Nodes[f]
	if n == nil || len(n.In) == 0 {
		return false, "no version comparison dominates the call and the function has no callers to inherit one from"
	}
	why := ""
	for _, e := range n.In {
		if e.Site == nil {
			return false, "called from an unknown site"
		}
		if _, isGo := e.Site.(*ssa.Go); isGo {
			return false, "function " + funcName(f) + " runs as a goroutine without a guard of its own"
		}
		ok, w := ci.publishGuarded(e.Caller.Func, e.Site.Block(), e.Site, depth+1)
		if !ok {
			return false, "caller " + funcName(e.Caller.Func) + ": " + w
		}
		why = "via " + funcName(e.Caller.Func) + ": " + w
	}
	return true, why
}

// ---------- C-ORDER / C-BLOCK ----------

func ruleLockOrder(c *Ctx) {
	ci := buildConc(c)
	edges := map[[2]lockID]string{}
	nAcq := 0
	for _, f := range ci.funcs {
		for _, b := range f.Blocks {
			for _, ins := range b.Instrs {
				call, ok := ins.(ssa.CallInstruction)
				if !ok {
					continue
				}
				if _, isDefer := ins.(*ssa.Defer); isDefer {
					continue
				}
				id, dir, _ := lockOp(call)
				if dir <= 0 {
					continue
				}
				nAcq++
				held := ci.may[ins]
				if held[id] || held[id+"(R)"] {
					c.finding("C-ORDER", funcName(f), "re-acquires "+string(id), ins.Pos(),
						fmt.Sprintf("%s is acquired while it may already be held (held on entry or earlier in this function: %s): Go mutexes are not re-entrant; a nested read lock deadlocks as soon as a writer waits in between", id, held))
				} else {
					c.ok("C-ORDER", funcName(f), "acquires "+string(id), ins.Pos(), "not held at this point (may-held: "+held.String()+")")
				}
				for h := range held {
					hb := lockID(strings.TrimSuffix(string(h), "(R)"))
					if hb != id {
						edges[[2]lockID{hb, id}] = funcName(f) + " at " + ci.p.pos(ins.Pos())
					}
				}
			}
		}
	}
	c.census("C-ORDER", "lock acquisitions", nAcq, 10)
	// cycle detection
	adj := map[lockID][]lockID{}
	for e := range edges {
		adj[e[0]] = append(adj[e[0]], e[1])
	}
	var cyc []string
	state := map[lockID]int{}
	var dfs func(n lockID, path []lockID)
	dfs = func(n lockID, path []lockID) {
		state[n] = 1
		for _, m := range adj[n] {
			if state[m] == 1 {
				cyc = append(cyc, fmt.Sprint(append(path, n, m)))
			} else if state[m] == 0 {
				dfs(m, append(path, n))
			}
		}
		state[n] = 2
	}
	var ks []lockID
	for k := range adj {
		ks = append(ks, k)
	}
	sort.Slice(ks, func(i, j int) bool { return ks[i] < ks[j] })
	for _, k := range ks {
		if state[k] == 0 {
			dfs(k, nil)
		}
	}
	var es []string
	for e, where := range edges {
		es = append(es, fmt.Sprintf("%s -> %s (%s)", e[0], e[1], where))
	}
	sort.Strings(es)
	c.note("lock-order edges: %s", strings.Join(es, "; "))
	c.check(len(cyc) == 0, "C-ORDER", "module", "lock-order graph acyclic", token.NoPos,
		fmt.Sprintf("%d held->acquired edges, no cycle", len(edges)), "lock-order cycle: "+strings.Join(cyc, " | "))
}

// awaitingClientMethods: methods of protocol.Client whose implementation waits for a response.
func awaitingClientMethods(ci *concInfo) map[string]bool {
	out := map[string]bool{}
	prog := ci.p.SSA()
	for _, sp := range prog.AllPackages() {
		if sp.Pkg.Path() != "go.lsp.dev/protocol" {
			continue
		}
		t := sp.Type("client")
		if t == nil {
			continue
		}
		ms := prog.MethodSets.MethodSet(types.NewPointer(t.Type()))
		for i := 0; i < ms.Len(); i++ {
			m := prog.MethodValue(ms.At(i))
			if m == nil {
				continue
			}
			for f := range Reach(ci.g, []*ssa.Function{m}, true) {
				if f.Name() == "Call" && f.Pkg != nil && (strings.HasSuffix(f.Pkg.Pkg.Path(), "jsonrpc2") || strings.HasSuffix(f.Pkg.Pkg.Path(), "protocol")) {
					out[m.Name()] = true
				}
			}
		}
	}
	return out
}

func ruleBlock(c *Ctx) {
	ci := buildConc(c)
	aw := awaitingClientMethods(ci)
	var names []string
	for n := range aw {
		names = append(names, n)
	}
	sort.Strings(names)
	c.note("client methods that await a response: %s", strings.Join(names, ", "))
	c.census("C-BLOCK", "awaiting client methods found in go.lsp.dev/protocol", len(aw), 3)
	// role: the publication lock is the lock under which the per-document version counter is bumped
	// (the same lock C-PUBLISH requires around the version check and the publication)
	pubLocks := map[lockID]bool{}
	for _, f := range ci.funcs {
		for _, b := range f.Blocks {
			for _, ins := range b.Instrs {
				if mu, ok := ins.(*ssa.MapUpdate); ok {
					mt, _ := mu.Map.Type().Underlying().(*types.Map)
					if _, isBin := mu.Value.(*ssa.BinOp); isBin && mt != nil && perDocumentCounter(mt) {
						for h := range ci.must[ins] {
							pubLocks[h] = true
						}
					}
				}
			}
		}
	}
	nClient := 0
	for _, f := range ci.funcs {
		for _, b := range f.Blocks {
			for _, ins := range b.Instrs {
				call, ok := ins.(ssa.CallInstruction)
				if !ok || !call.Common().IsInvoke() {
					continue
				}
				recvT := types.TypeString(call.Common().Value.Type(), nil)
				if !strings.HasSuffix(recvT, "protocol.Client") {
					continue
				}
				nClient++
				m := call.Common().Method.Name()
				desc := "client." + m
				if aw[m] {
					onDispatch := ci.reachH[f]
					c.check(!onDispatch, "C-BLOCK", funcName(f), desc+" off the dispatch goroutine", ins.Pos(),
						"the awaiting client call is only reached through a go statement",
						"client."+m+" waits for a response but is reachable from a request handler without passing a go statement: the dispatch loop is the only reader of responses, so the server deadlocks")
					held := ci.may[ins]
					c.check(len(held) == 0, "C-BLOCK", funcName(f), desc+" with no lock held", ins.Pos(),
						"no lock is held while waiting for the client", "client."+m+" waits for the client while "+held.String()+" may be held: every handler needing that lock blocks until the client answers")
				} else {
					// notifications may be sent under the publication lock only
					held := ci.may[ins]
					bad := ""
					for h := range held {
						if !pubLocks[h] {
							bad = string(h)
						}
					}
					c.check(bad == "", "C-BLOCK", funcName(f), desc+" (notification) lock context", ins.Pos(),
						"notification sent with at most the publication lock held: "+held.String(),
						"client."+m+" writes to the client connection while "+bad+" may be held: a slow client blocks every handler and background analysis that needs that lock")
				}
			}
		}
	}
	c.census("C-BLOCK", "client calls in module code", nClient, 3)
	// waiting for an external process (or sleeping) while a lock may be held blocks every handler and every
	// background analysis that needs that lock for as long as the process runs
	nWait := 0
	for _, f := range ci.funcs {
		for _, b := range f.Blocks {
			for _, ins := range b.Instrs {
				call, ok := ins.(ssa.CallInstruction)
				if !ok {
					continue
				}
				cal := call.Common().StaticCallee()
				if cal == nil || cal.Pkg == nil {
					continue
				}
				q := cal.Pkg.Pkg.Path() + "." + cal.Name()
				if cal.Signature.Recv() != nil {
					q = cal.Pkg.Pkg.Path() + "." + strings.TrimPrefix(types.TypeString(cal.Signature.Recv().Type(), nil), "*"+cal.Pkg.Pkg.Path()+".") + "." + cal.Name()
				}
				switch q {
				case "os/exec.Cmd.Run", "os/exec.Cmd.Output", "os/exec.Cmd.CombinedOutput", "os/exec.Cmd.Wait", "time.Sleep":
				default:
					continue
				}
				nWait++
				held := ci.may[ins]
				c.check(len(held) == 0, "C-BLOCK", funcName(f), "waits for "+q+" with no lock held", ins.Pos(),
					"no lock may be held while the server waits for the external process", q+" waits for an external process while "+held.String()+" may be held: every handler and background analysis that needs that lock blocks until the process exits")
			}
		}
	}
	c.census("C-BLOCK", "calls that wait for an external process", nWait, 1)
	// a request handler that waits for the server's own goroutines (WaitGroup.Wait, a receive from a done channel
	// is not modelled) waits, transitively, for whatever they wait for: if one of them awaits a client response,
	// the dispatch loop - the only reader of responses - is the one that is blocked
	awaitingRoot := ""
	for _, root := range ci.goRoots {
		for f := range Reach(ci.g, []*ssa.Function{root}, true) {
			for _, b := range f.Blocks {
				for _, ins := range b.Instrs {
					if call, ok := ins.(ssa.CallInstruction); ok && call.Common().IsInvoke() && aw[call.Common().Method.Name()] &&
						strings.HasSuffix(types.TypeString(call.Common().Value.Type(), nil), "protocol.Client") {
						awaitingRoot = funcName(root)
					}
				}
			}
		}
	}
	for _, f := range ci.funcs {
		if !ci.reachH[f] {
			continue
		}
		for _, b := range f.Blocks {
			for _, ins := range b.Instrs {
				call, ok := ins.(ssa.CallInstruction)
				if !ok {
					continue
				}
				cal := call.Common().StaticCallee()
				if cal == nil || cal.Name() != "Wait" || cal.Signature.Recv() == nil || !strings.HasSuffix(types.TypeString(cal.Signature.Recv().Type(), nil), "sync.WaitGroup") {
					continue
				}
				c.check(awaitingRoot == "", "C-BLOCK", funcName(f), "handler waits for background goroutines", ins.Pos(),
					"no goroutine the server starts awaits a client response",
					"a request handler waits (sync.WaitGroup.Wait) for the server's goroutines, and "+awaitingRoot+" awaits a response from the client: the response can only be read by the dispatch loop that is blocked in this handler - the server hangs")
			}
		}
	}
}

// perDocumentCounter: map from a document URI to an integer.
func perDocumentCounter(m *types.Map) bool {
	ks := types.TypeString(m.Key(), nil)
	b, ok := m.Elem().Underlying().(*types.Basic)
	return ok && b.Info()&types.IsInteger != 0 && (strings.HasSuffix(ks, "DocumentURI") || strings.HasSuffix(ks, "uri.URI"))
}

// ---------- C-LOCKSET ----------

// shared long-lived structs (DESIGN §3.C): the structs named here plus, by role, every module struct that owns a
// mutex (a struct that carries its own lock is meant to be shared between goroutines).
var sharedStructs = map[string]bool{
	"server.Server": true, "workspace.Workspace": true, "workspace.WorkspaceIndex": true,
	"include.Loader": true, "cli.Client": true,
}

func declareLockOwners(p *Prog) {
	for _, pk := range p.Pkgs {
		sc := pk.Types.Scope()
		for _, n := range sc.Names() {
			tn, ok := sc.Lookup(n).(*types.TypeName)
			if !ok {
				continue
			}
			st, ok := tn.Type().Underlying().(*types.Struct)
			if !ok {
				continue
			}
			for i := 0; i < st.NumFields(); i++ {
				ts := types.TypeString(st.Field(i).Type(), nil)
				if ts == "sync.Mutex" || ts == "sync.RWMutex" || ts == "*sync.Mutex" || ts == "*sync.RWMutex" {
					sharedStructs[shortQual(types.TypeString(tn.Type(), nil))] = true
				}
			}
		}
	}
}

type fieldAccess struct {
	field string
	write bool
	fn    *ssa.Function
	pos   token.Pos
	locks lockSet // must-set with modes: "id" (exclusive) or "id(R)"
}

func isSyncType(t types.Type) bool {
	s := types.TypeString(t, nil)
	return strings.HasPrefix(s, "sync.") || strings.HasPrefix(s, "sync/atomic.") || strings.HasPrefix(s, "*sync.") || strings.HasPrefix(s, "*sync/atomic.")
}

func (ci *concInfo) modeLocks(ins ssa.Instruction) lockSet { return ci.must[ins] }

func ruleLockset(c *Ctx) {
	ci := buildConc(c)
	var accs []fieldAccess
	for _, f := range ci.funcs {
		if ci.initFns[f] {
			continue
		}
		for _, b := range f.Blocks {
			for _, ins := range b.Instrs {
				fa, ok := ins.(*ssa.FieldAddr)
				if !ok {
					continue
				}
				pt, ok := fa.X.Type().Underlying().(*types.Pointer)
				if !ok {
					continue
				}
				sname := shortQual(types.TypeString(pt.Elem(), nil))
				if !sharedStructs[sname] {
					continue
				}
				st := pt.Elem().Underlying().(*types.Struct)
				fld := st.Field(fa.Field)
				if isSyncType(fld.Type()) {
					continue
				}
				fname := sname + "." + fld.Name()
				for _, ref := range *fa.Referrers() {
					switch r := ref.(type) {
					case *ssa.Store:
						if r.Addr == fa {
							if _, fresh := fa.X.(*ssa.Alloc); fresh {
								continue // initialisation of a freshly allocated object (constructor), not yet shared
							}
							accs = append(accs, fieldAccess{fname, true, f, r.Pos(), ci.must[r]})
						}
					case *ssa.UnOp:
						if r.Op != token.MUL {
							continue
						}
						wrote := false
						for _, r2 := range *r.Referrers() {
							switch u := r2.(type) {
							case *ssa.MapUpdate:
								if u.Map == r {
									accs = append(accs, fieldAccess{fname, true, f, u.Pos(), ci.must[u]})
									wrote = true
								}
							case *ssa.Call:
								if bi, ok := u.Call.Value.(*ssa.Builtin); ok && bi.Name() == "delete" && len(u.Call.Args) > 0 && u.Call.Args[0] == r {
									accs = append(accs, fieldAccess{fname, true, f, u.Pos(), ci.must[u]})
									wrote = true
								}
							}
						}
						_ = wrote
						accs = append(accs, fieldAccess{fname, false, f, r.Pos(), ci.must[r]})
					}
				}
			}
		}
	}
	byField := map[string][]fieldAccess{}
	for _, a := range accs {
		byField[a.field] = append(byField[a.field], a)
	}
	var fields []string
	for f := range byField {
		fields = append(fields, f)
	}
	sort.Strings(fields)
	nChecked := 0
	for _, fld := range fields {
		as := byField[fld]
		hasWrite := false
		for _, a := range as {
			if a.write {
				hasWrite = true
			}
		}
		if !hasWrite {
			continue // written only in the init phase: read-only afterwards
		}
		nChecked++
		bad := ""
		for _, a := range as {
			if !ci.reachG[a.fn] {
				continue
			}
			for _, b := range as {
				if !(ci.reachG[b.fn] || ci.reachH[b.fn]) {
					continue
				}
				if !a.write && !b.write {
					continue
				}
				if !protectedPair(a, b) {
					bad = fmt.Sprintf("%s in %s (%s, locks %s) is concurrent with %s in %s (%s, locks %s)",
						rw(a.write), funcName(a.fn), ci.p.pos(a.pos), a.locks, rw(b.write), funcName(b.fn), ci.p.pos(b.pos), b.locks)
					break
				}
			}
			if bad != "" {
				break
			}
		}
		c.check(bad == "", "C-LOCKSET", fld, "consistent locking", token.NoPos,
			fmt.Sprintf("%d accesses outside the init phase share a lock whenever one side runs on a server-started goroutine", len(as)),
			"data race candidate on "+fld+": "+bad)
	}
	c.census("C-LOCKSET", "shared-struct fields written outside the init phase", nChecked, 5)
}

func rw(w bool) string {
	if w {
		return "write"
	}
	return "read"
}

// protectedPair: the two accesses hold a common lock; a write must hold it exclusively.
func protectedPair(a, b fieldAccess) bool {
	for l := range a.locks {
		base := strings.TrimSuffix(string(l), "(R)")
		aExcl := !strings.HasSuffix(string(l), "(R)")
		for m := range b.locks {
			if strings.TrimSuffix(string(m), "(R)") != base {
				continue
			}
			bExcl := !strings.HasSuffix(string(m), "(R)")
			if a.write && !aExcl {
				continue
			}
			if b.write && !bExcl {
				continue
			}
			return true
		}
	}
	return false
}

// ---------- C-LEAK ----------

func ruleLeak(c *Ctx) {
	ci := buildConc(c)
	type leak struct {
		getter *ssa.Function
		field  string
		fldIdx int
		owner  types.Type
	}
	var leaks []leak
	hasMutex := func(t types.Type) bool {
		st, ok := t.Underlying().(*types.Struct)
		if !ok {
			return false
		}
		for i := 0; i < st.NumFields(); i++ {
			ts := types.TypeString(st.Field(i).Type(), nil)
			if ts == "sync.Mutex" || ts == "sync.RWMutex" {
				return true
			}
		}
		return false
	}
	for _, f := range ci.funcs {
		if f.Signature.Recv() == nil || f.Parent() != nil {
			continue
		}
		rt := f.Signature.Recv().Type()
		if pt, ok := rt.(*types.Pointer); ok {
			rt = pt.Elem()
		}
		if !hasMutex(rt) {
			continue
		}
		for _, b := range f.Blocks {
			for _, ins := range b.Instrs {
				ret, ok := ins.(*ssa.Return)
				if !ok {
					continue
				}
				var cands []ssa.Value
				for _, rv := range ret.Results {
					cands = append(cands, rv)
					// defer-spilled results: `*t0 = v; rundefers; return *t0`
					if un, ok := rv.(*ssa.UnOp); ok && un.Op == token.MUL {
						if al, ok := un.X.(*ssa.Alloc); ok {
							for _, ref := range *al.Referrers() {
								if st, ok := ref.(*ssa.Store); ok && st.Addr == al {
									cands = append(cands, st.Val)
								}
							}
						}
					}
				}
				for _, rv := range cands {
					un, ok := rv.(*ssa.UnOp)
					if !ok || un.Op != token.MUL {
						continue
					}
					fa, ok := un.X.(*ssa.FieldAddr)
					if !ok || len(f.Params) == 0 || fa.X != f.Params[0] {
						continue
					}
					switch ut := un.Type().Underlying().(type) {
					case *types.Map, *types.Slice:
					case *types.Pointer:
						if hasMutex(ut.Elem()) {
							continue // the pointee guards itself
						}
					default:
						continue
					}
					st := rt.Underlying().(*types.Struct)
					dup := false
					for _, l := range leaks {
						if l.getter == f && l.fldIdx == fa.Field {
							dup = true
						}
					}
					if !dup {
						leaks = append(leaks, leak{f, st.Field(fa.Field).Name(), fa.Field, rt})
					}
				}
			}
		}
	}
	c.census("C-LEAK", "getters that hand out a guarded reference-typed field", len(leaks), 1)
	// (i) in-place mutation of a handed-out object by its owner
	for _, l := range leaks {
		bad := ""
		for _, f := range ci.funcs {
			if ci.initFns[f] {
				continue
			}
			for _, b := range f.Blocks {
				for _, ins := range b.Instrs {
					var base ssa.Value
					switch x := ins.(type) {
					case *ssa.MapUpdate:
						base = x.Map
					case *ssa.Store:
						switch a := x.Addr.(type) {
						case *ssa.IndexAddr:
							base = a.X
						case *ssa.FieldAddr:
							base = a.X
						}
					case *ssa.Call:
						if bi, ok := x.Call.Value.(*ssa.Builtin); ok && bi.Name() == "delete" && len(x.Call.Args) > 0 {
							base = x.Call.Args[0]
						}
					}
					if base == nil {
						continue
					}
					// base (or the map reached through one more field) loaded from owner.field
					if loadedFromField(base, l.owner, l.fldIdx, 2) {
						bad = fmt.Sprintf("%s at %s", funcName(f), ci.p.pos(ins.Pos()))
					}
				}
			}
		}
		c.check(bad == "", "C-LEAK", funcName(l.getter), "handed-out "+l.field+" is never mutated in place", l.getter.Pos(),
			"the object handed out by the getter is replaced, never mutated in place, so holders can read it without the lock",
			"the getter returns the live "+l.field+" while the owner mutates that object in place ("+bad+"): callers read it without the lock (concurrent map read and map write)")
	}
	// (i') a snapshot is a deep enough copy: a getter that returns a struct copied wholesale from a guarded pointer
	// (`clone := *w.resolved; return &clone`, also through a module helper handed the guarded pointer) replaces
	// every slice and map field of the copy by a fresh one - a field left as it was shares its backing array with
	// the live object, which the owner compacts / appends to in place under its lock while holders read the copy
	// without it
	nSnap := 0
	for _, f := range ci.funcs {
		if f.Signature.Recv() == nil || f.Parent() != nil || len(f.Params) == 0 || ci.initFns[f] {
			continue
		}
		rt := f.Signature.Recv().Type()
		if pt, ok := rt.(*types.Pointer); ok {
			rt = pt.Elem()
		}
		if !hasMutex(rt) {
			continue
		}
		guardedPtr := func(v ssa.Value) bool {
			un, ok := v.(*ssa.UnOp)
			if !ok || un.Op != token.MUL {
				return false
			}
			fa, ok := un.X.(*ssa.FieldAddr)
			return ok && fa.X == f.Params[0]
		}
		// shared(fn, isGuarded): the slice / map fields of a struct that fn returns (by pointer or by value) after
		// copying it wholesale from a pointer for which isGuarded holds, and never replaces
		var shared func(fn *ssa.Function, isGuarded func(ssa.Value) bool, depth int) []string
		shared = func(fn *ssa.Function, isGuarded func(ssa.Value) bool, depth int) []string {
			var out []string
			for _, b := range fn.Blocks {
				ret, ok := lastInstr(b).(*ssa.Return)
				if !ok {
					continue
				}
				var cands []ssa.Value
				for _, rv := range ret.Results {
					cands = append(cands, rv)
					// defer-spilled results: `*t0 = v; rundefers; return *t0`
					if un, ok := rv.(*ssa.UnOp); ok && un.Op == token.MUL {
						if al, ok := un.X.(*ssa.Alloc); ok && al.Referrers() != nil {
							if _, isPtr := al.Type().Underlying().(*types.Pointer).Elem().Underlying().(*types.Pointer); isPtr {
								for _, ref := range *al.Referrers() {
									if st, ok := ref.(*ssa.Store); ok && st.Addr == ssa.Value(al) {
										cands = append(cands, st.Val)
									}
								}
							}
						}
					}
				}
				for _, rv := range cands {
					if call, ok := rv.(*ssa.Call); ok && depth < 2 {
						if cal := call.Call.StaticCallee(); cal != nil && inModule(cal) && cal.Blocks != nil {
							bound := map[*ssa.Parameter]bool{}
							for i, a := range call.Call.Args {
								if i < len(cal.Params) && isGuarded(a) {
									bound[cal.Params[i]] = true
								}
							}
							if len(bound) > 0 {
								out = append(out, shared(cal, func(v ssa.Value) bool { p, ok := v.(*ssa.Parameter); return ok && bound[p] }, depth+1)...)
							}
						}
						continue
					}
					al, ok := rv.(*ssa.Alloc)
					if !ok {
						if un, isLoad := rv.(*ssa.UnOp); isLoad && un.Op == token.MUL {
							al, ok = un.X.(*ssa.Alloc)
						}
					}
					if !ok || al == nil || al.Referrers() == nil {
						continue
					}
					st, isStruct := al.Type().Underlying().(*types.Pointer).Elem().Underlying().(*types.Struct)
					if !isStruct {
						continue
					}
					copied := false
					replaced := map[int]bool{}
					for _, r := range *al.Referrers() {
						switch u := r.(type) {
						case *ssa.Store:
							if u.Addr == ssa.Value(al) {
								if src, ok := u.Val.(*ssa.UnOp); ok && src.Op == token.MUL && isGuarded(src.X) {
									copied = true
								}
							}
						case *ssa.FieldAddr:
							if u.Referrers() == nil {
								continue
							}
							for _, r2 := range *u.Referrers() {
								if s2, ok := r2.(*ssa.Store); ok && s2.Addr == ssa.Value(u) {
									replaced[u.Field] = true
								}
							}
						}
					}
					if !copied {
						continue
					}
					for i := 0; i < st.NumFields(); i++ {
						switch st.Field(i).Type().Underlying().(type) {
						case *types.Slice, *types.Map:
							if !replaced[i] {
								out = append(out, st.Field(i).Name())
							}
						}
					}
				}
			}
			return out
		}
		// only functions that copy at all are subjects
		fields := shared(f, guardedPtr, 0)
		copies := false
		for _, b := range f.Blocks {
			for _, ins := range b.Instrs {
				if call, ok := ins.(*ssa.Call); ok {
					for _, a := range call.Call.Args {
						if guardedPtr(a) {
							copies = true
						}
					}
				}
				if st, ok := ins.(*ssa.Store); ok {
					if src, ok := st.Val.(*ssa.UnOp); ok && src.Op == token.MUL && guardedPtr(src.X) {
						copies = true
					}
				}
			}
		}
		if !copies && len(fields) == 0 {
			continue
		}
		nSnap++
		sort.Strings(fields)
		c.check(len(fields) == 0, "C-LEAK", funcName(f), "a snapshot copied from a guarded object shares no slice or map with it", f.Pos(),
			"every slice and map field of the returned copy is replaced by a fresh one",
			fmt.Sprintf("the getter returns a copy of a guarded struct whose fields %v still share their storage with the live object: the owner changes them in place under its lock (an element removed from the middle of a list shifts the rest) while holders of the snapshot read them without it", fields))
	}
	c.note("C-LEAK: getters that pass a guarded pointer on or copy from it: %d", nSnap)
	// (ii) nobody writes through a handed-out reference
	seeds := map[*ssa.Function]string{}
	for _, l := range leaks {
		seeds[l.getter] = l.field
	}
	sinks := taintWrites(ci, seeds)
	for _, s := range sinks {
		c.finding("C-LEAK", funcName(s.fn), "write through a reference handed out by "+s.src, s.pos,
			"a map/pointer obtained from "+s.src+" (shared, guarded by its owner's lock) is written here without that lock: concurrent analyses race on it and one document's data leaks into the shared set")
	}
	if len(sinks) == 0 {
		c.ok("C-LEAK", "module", "no write through a handed-out reference", token.NoPos, "taint from the leaking getters reaches no map update / store")
	}
}

func loadedFromField(v ssa.Value, owner types.Type, idx int, depth int) bool {
	un, ok := v.(*ssa.UnOp)
	if !ok || un.Op != token.MUL {
		return false
	}
	fa, ok := un.X.(*ssa.FieldAddr)
	if !ok {
		return false
	}
	pt, ok := fa.X.Type().Underlying().(*types.Pointer)
	if ok && types.Identical(pt.Elem(), owner) && fa.Field == idx {
		return true
	}
	if depth > 0 {
		return loadedFromField(fa.X, owner, idx, depth-1)
	}
	return false
}

type taintSink struct {
	fn  *ssa.Function
	pos token.Pos
	src string
}

// taintWrites: interprocedural, field-based taint from the results of `seeds` to in-place writes.
// localFieldSources: the values stored into field `field` of a struct that lives in a local: direct field
// stores, and - through whole-struct copies from other such locals - theirs.  ok is false when the struct is
// filled in a way this function cannot see (copied from a parameter or a call result, address passed on).
func localFieldSources(al *ssa.Alloc, field int, depth int) ([]ssa.Value, bool) {
	if al.Referrers() == nil || depth > 4 {
		return nil, false
	}
	var out []ssa.Value
	for _, r := range *al.Referrers() {
		switch u := r.(type) {
		case *ssa.FieldAddr:
			if u.Field != field {
				continue
			}
			for _, r2 := range *u.Referrers() {
				switch w := r2.(type) {
				case *ssa.Store:
					if w.Addr == u {
						out = append(out, w.Val)
					}
				case *ssa.UnOp:
					// a load
				default:
					return nil, false // address of the field escapes
				}
			}
		case *ssa.UnOp:
			if u.Op != token.MUL {
				return nil, false
			}
		case *ssa.Store:
			if u.Addr != al {
				return nil, false // the address itself is stored somewhere
			}
			ld, ok := u.Val.(*ssa.UnOp)
			if !ok || ld.Op != token.MUL {
				return nil, false
			}
			src, ok := ld.X.(*ssa.Alloc)
			if !ok {
				return nil, false
			}
			sub, ok := localFieldSources(src, field, depth+1)
			if !ok {
				return nil, false
			}
			out = append(out, sub...)
		case *ssa.DebugRef:
		default:
			return nil, false
		}
	}
	return out, true
}

func taintWrites(ci *concInfo, seeds map[*ssa.Function]string) []taintSink {
	tainted := map[ssa.Value]string{}
	type fkey struct {
		t string
		i int
	}
	fieldT := map[fkey]string{}
	paramT := map[*ssa.Parameter]string{}
	// struct values handed over by value: which of their fields carry a shared reference, per parameter (known
	// only when every call site passes a local struct whose fields can be traced)
	paramFieldT := map[*ssa.Parameter]map[int]string{}
	paramFieldUnknown := map[*ssa.Parameter]bool{}
	retT := map[*ssa.Function]string{}
	changed := true
	mark := func(v ssa.Value, src string) {
		if v == nil {
			return
		}
		if _, ok := tainted[v]; !ok {
			tainted[v] = src
			changed = true
		}
	}
	structKey := func(t types.Type, i int) fkey {
		if pt, ok := t.Underlying().(*types.Pointer); ok {
			t = pt.Elem()
		}
		return fkey{types.TypeString(t, nil), i}
	}
	for iter := 0; iter < 30 && changed; iter++ {
		changed = false
		for _, f := range ci.funcs {
			for _, p := range f.Params {
				if s, ok := paramT[p]; ok {
					mark(p, s)
				}
			}
			for _, b := range f.Blocks {
				for _, ins := range b.Instrs {
					switch x := ins.(type) {
					case *ssa.Call:
						for _, cal := range ci.calleesOf(x) {
							if s, ok := seeds[cal]; ok {
								mark(x, funcName(cal)+" ("+s+")")
							}
							if s, ok := retT[cal]; ok {
								mark(x, s)
							}
							if inModule(cal) {
								args := x.Call.Args
								for i, a := range args {
									if i < len(cal.Params) {
										if st, isStruct := a.Type().Underlying().(*types.Struct); isStruct {
											prm := cal.Params[i]
											known := false
											if ld, ok := a.(*ssa.UnOp); ok && ld.Op == token.MUL {
												if al, ok := ld.X.(*ssa.Alloc); ok {
													known = true
													for fi := 0; fi < st.NumFields(); fi++ {
														srcs, ok := localFieldSources(al, fi, 0)
														if !ok {
															known = false
															break
														}
														for _, v := range srcs {
															if s, ok := tainted[v]; ok {
																if paramFieldT[prm] == nil {
																	paramFieldT[prm] = map[int]string{}
																}
																if _, had := paramFieldT[prm][fi]; !had {
																	paramFieldT[prm][fi] = s
																	changed = true
																}
															}
														}
													}
												}
											}
											if !known && !paramFieldUnknown[prm] {
												paramFieldUnknown[prm] = true
												changed = true
											}
										}
									}
									if s, ok := tainted[a]; ok && i < len(cal.Params) {
										if _, had := paramT[cal.Params[i]]; !had {
											paramT[cal.Params[i]] = s
											changed = true
										}
									}
								}
							}
						}
					case *ssa.Phi:
						for _, e := range x.Edges {
							if s, ok := tainted[e]; ok {
								mark(x, s)
							}
						}
					case *ssa.ChangeType:
						if s, ok := tainted[x.X]; ok {
							mark(x, s)
						}
					case *ssa.MakeInterface:
						if s, ok := tainted[x.X]; ok {
							mark(x, s)
						}
					case *ssa.TypeAssert:
						if s, ok := tainted[x.X]; ok {
							mark(x, s)
						}
					case *ssa.Extract:
						if s, ok := tainted[x.Tuple]; ok {
							mark(x, s)
						}
					case *ssa.Store:
						if s, ok := tainted[x.Val]; ok {
							if fa, ok := x.Addr.(*ssa.FieldAddr); ok {
								k := structKey(fa.X.Type(), fa.Field)
								if _, had := fieldT[k]; !had {
									fieldT[k] = s
									changed = true
								}
							}
						}
					case *ssa.UnOp:
						if x.Op == token.MUL {
							if fa, ok := x.X.(*ssa.FieldAddr); ok {
								// a struct that lives in a local of this function and is only ever filled field by field: the
								// field holds what was stored into THIS struct, not what some other struct of the type holds
								if al, ok := fa.X.(*ssa.Alloc); ok {
									// the spilled copy of a struct parameter: what the call sites put into this field
									var prm *ssa.Parameter
									nSt := 0
									for _, r := range *al.Referrers() {
										if st, ok := r.(*ssa.Store); ok && st.Addr == ssa.Value(al) {
											nSt++
											prm, _ = st.Val.(*ssa.Parameter)
										}
									}
									if nSt == 1 && prm != nil && !paramFieldUnknown[prm] && len((cgView{ci.c}).callersOf(f)) > 0 {
										if s, ok := paramFieldT[prm][fa.Field]; ok {
											mark(x, s)
										}
										continue
									}
									if srcs, ok := localFieldSources(al, fa.Field, 0); ok {
										for _, v := range srcs {
											if s, ok := tainted[v]; ok {
												mark(x, s)
											}
										}
										continue
									}
								}
								if s, ok := fieldT[structKey(fa.X.Type(), fa.Field)]; ok {
									mark(x, s)
								}
							}
						}
					case *ssa.Field:
						if s, ok := fieldT[structKey(x.X.Type(), x.Field)]; ok {
							mark(x, s)
						}
					case *ssa.Return:
						for _, rv := range x.Results {
							if s, ok := tainted[rv]; ok {
								if _, had := retT[f]; !had && seeds[f] == "" {
									retT[f] = s
									changed = true
								}
							}
						}
					}
				}
			}
		}
	}
	var out []taintSink
	for _, f := range ci.funcs {
		for _, b := range f.Blocks {
			for _, ins := range b.Instrs {
				switch x := ins.(type) {
				case *ssa.MapUpdate:
					if s, ok := tainted[x.Map]; ok && len(ci.must[ins]) == 0 {
						out = append(out, taintSink{f, x.Pos(), s})
					}
				case *ssa.Call:
					if bi, ok := x.Call.Value.(*ssa.Builtin); ok && bi.Name() == "delete" && len(x.Call.Args) > 0 {
						if s, ok := tainted[x.Call.Args[0]]; ok && len(ci.must[ins]) == 0 {
							out = append(out, taintSink{f, x.Pos(), s})
						}
					}
				}
			}
		}
	}
	sort.Slice(out, func(i, j int) bool { return out[i].pos < out[j].pos })
	return out
}

// reachesPublishWithoutParams: root reaches a PublishDiagnostics call through calls that do not go through a
// function-valued parameter (what it publishes on its own, whatever callback it is handed).
func reachesPublishWithoutParams(ci *concInfo, root *ssa.Function) bool {
	seen := map[*ssa.Function]bool{root: true}
	work := []*ssa.Function{root}
	for len(work) > 0 {
		f := work[len(work)-1]
		work = work[:len(work)-1]
		for _, b := range f.Blocks {
			for _, ins := range b.Instrs {
				if call, ok := ins.(ssa.CallInstruction); ok && isPublishCall(call) {
					return true
				}
			}
		}
		n := ci.g.Nodes[f]
		if n == nil {
			continue
		}
		for _, e := range n.Out {
			if e.Site == nil || e.Callee.Func == nil || seen[e.Callee.Func] {
				continue
			}
			if _, isGo := e.Site.(*ssa.Go); isGo {
				continue
			}
			if e.Site.Common().StaticCallee() == nil && !e.Site.Common().IsInvoke() && calledIsParameter(e.Site.Common().Value) {
				continue // a call of a function value received as a parameter
			}
			seen[e.Callee.Func] = true
			work = append(work, e.Callee.Func)
		}
	}
	return false
}
