package main

// G-LIMITCMP: sibling agreement of the limit tests.
//
// The size limit and the depth limit of include loading are tested in several places: when the root is loaded from
// disk, when an editor text is loaded, for every included file, on a cache hit if an entry remembers a size, by the
// workspace when a file becomes reachable.  All of them must draw the line at the same value: a file of exactly
// the limit is either accepted everywhere or refused everywhere.  Every comparison (<, <=, >, >=) between a field of
// include.Limits and a run-time quantity is normalised to "quantity OP limit" and classified by where it puts the
// boundary (">" and "<=" accept a quantity equal to the limit, ">=" and "<" refuse it); the comparisons of one
// field must all fall into one class.  Otherwise the result of resolving a journal depends on which path looked at
// the file: cache hit or miss (C11), rebuild or incremental update (C12), root or include (C10).

import (
	"fmt"
	"go/token"
	"go/types"
	"sort"

	"golang.org/x/tools/go/ssa"
)

func ruleLimitSiblings(c *Ctx) {
	if c.ranOnce("ruleLimitSiblings") {
		return
	}
	limitField := func(v ssa.Value) string {
		v = stripConv(v)
		switch x := v.(type) {
		case *ssa.UnOp:
			if x.Op != token.MUL {
				return ""
			}
			if fa, ok := x.X.(*ssa.FieldAddr); ok {
				if pt, ok := fa.X.Type().Underlying().(*types.Pointer); ok && typeHasSuffix(pt.Elem(), "include.Limits") {
					return fieldVarOfAddr(fa).Name()
				}
			}
		case *ssa.Field:
			if typeHasSuffix(x.X.Type(), "include.Limits") {
				if st, ok := x.X.Type().Underlying().(*types.Struct); ok {
					return st.Field(x.Field).Name()
				}
			}
		}
		return ""
	}
	type cmp struct {
		fn    *ssa.Function
		ins   *ssa.BinOp
		class string // "inclusive": a quantity equal to the limit passes; "exclusive": it is refused
	}
	by := map[string][]cmp{}
	for _, f := range c.P.ModuleFuncs() {
		for _, b := range f.Blocks {
			for _, ins := range b.Instrs {
				bo, ok := ins.(*ssa.BinOp)
				if !ok {
					continue
				}
				op := bo.Op
				switch op {
				case token.LSS, token.LEQ, token.GTR, token.GEQ:
				default:
					continue
				}
				fx, fy := limitField(bo.X), limitField(bo.Y)
				if (fx == "") == (fy == "") {
					continue
				}
				other, field := bo.Y, fx
				if fx == "" {
					other, field = bo.X, fy
				} else {
					// limit OP quantity  ->  quantity OP' limit
					switch op {
					case token.LSS:
						op = token.GTR
					case token.LEQ:
						op = token.GEQ
					case token.GTR:
						op = token.LSS
					case token.GEQ:
						op = token.LEQ
					}
				}
				if _, isConst := stripConv(other).(*ssa.Const); isConst {
					continue // the normaliser's "not positive" test
				}
				class := "inclusive"
				if op == token.GEQ || op == token.LSS {
					class = "exclusive"
				}
				by[field] = append(by[field], cmp{f, bo, class})
			}
		}
	}
	var fields []string
	for f := range by {
		fields = append(fields, f)
	}
	sort.Strings(fields)
	total := 0
	for _, field := range fields {
		cs := by[field]
		total += len(cs)
		n := map[string]int{}
		for _, x := range cs {
			n[x.class]++
		}
		major := "inclusive"
		if n["exclusive"] > n["inclusive"] {
			major = "exclusive"
		}
		tie := n["exclusive"] == n["inclusive"]
		ord := map[string]int{}
		for _, x := range cs {
			fn := funcName(x.fn)
			ord[fn]++
			ok := !tie && x.class == major || len(n) == 1
			c.check(ok, "G-LIMITCMP", fn, fmt.Sprintf("test #%d of limit %s draws the line where its siblings do", ord[fn], field), x.ins.Pos(),
				fmt.Sprintf("%s: a quantity equal to the limit is treated like in the other %d tests (%s)", field, len(cs)-1, x.class),
				fmt.Sprintf("the tests of the limit %s disagree about a quantity that is exactly equal to it: %d accept it, %d refuse it - this one is %s.  A file of exactly the limit is then loaded on one path and refused on another (cache hit and miss, rebuild and incremental update, root and include give different trees)", field, n["inclusive"], n["exclusive"], x.class))
		}
	}
	c.census("G-LIMITCMP", "comparisons of a run-time quantity with a field of include.Limits", total, 2)
}
