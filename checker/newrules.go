package main

// Rules added after the fourth seeding round: each is a structural necessary condition that a seeded change
// violated while no existing rule looked at it.

import (
	"fmt"
	"go/ast"
	"go/constant"
	"go/token"
	"go/types"
	"sort"
	"strings"

	"golang.org/x/tools/go/ssa"
)

// lockOp: the instruction is a call (or deferred call) of a sync.Mutex / sync.RWMutex method; returns the method
// name and the receiver address.
func mutexOp(ins ssa.Instruction) (name string, recv ssa.Value, deferred bool) {
	var cc *ssa.CallCommon
	switch x := ins.(type) {
	case *ssa.Call:
		cc = x.Common()
	case *ssa.Defer:
		cc, deferred = x.Common(), true
	default:
		return "", nil, false
	}
	cal := cc.StaticCallee()
	if cal == nil || cal.Pkg == nil || cal.Pkg.Pkg.Path() != "sync" || cal.Signature.Recv() == nil || len(cc.Args) == 0 {
		return "", nil, false
	}
	rt := types.TypeString(cal.Signature.Recv().Type(), nil)
	if rt != "*sync.Mutex" && rt != "*sync.RWMutex" {
		return "", nil, false
	}
	return cal.Name(), cc.Args[0], deferred
}

// ruleUnlock (C-UNLOCK): every path from an acquisition of a mutex to a return of the same function releases it
// (directly or through a deferred call registered on that path).  A function whose every path returns with the
// lock held is a lock wrapper; its callers are then held to the same rule for the wrapper call.
func ruleUnlock(c *Ctx) {
	release := map[string]string{"Lock": "Unlock", "RLock": "RUnlock"}
	cg := cgView{c}
	// wrappers: a function that only releases (no acquisition of that kind) releases on behalf of its caller; a
	// function that acquires and contains no release of that kind at all hands the held lock to its caller
	has := func(f *ssa.Function, name string) bool {
		if f == nil {
			return false
		}
		for _, b := range f.Blocks {
			for _, ins := range b.Instrs {
				if n2, _, _ := mutexOp(ins); n2 == name {
					return true
				}
			}
		}
		return false
	}
	releaseWrapper := func(f *ssa.Function, rel, acq string) bool {
		return f != nil && f.Blocks != nil && inModule(f) && has(f, rel) && !has(f, acq)
	}
	n := 0
	var check func(f *ssa.Function, ins ssa.Instruction, name string, recv ssa.Value, desc string, depth int)
	check = func(f *ssa.Function, ins ssa.Instruction, name string, recv ssa.Value, desc string, depth int) {
		rel := release[name]
		releases := func(x ssa.Instruction) bool {
			if n2, r2, _ := mutexOp(x); n2 == rel && (recv == nil || r2 == recv || sameAddr(r2, recv, 0) || sameLoad(r2, recv)) {
				return true
			}
			var cc *ssa.CallCommon
			switch y := x.(type) {
			case *ssa.Call:
				cc = y.Common()
			case *ssa.Defer:
				cc = y.Common()
			}
			if cc == nil {
				return false
			}
			if releaseWrapper(cc.StaticCallee(), rel, name) {
				return true
			}
			// defer func() { mu.Unlock() }()
			if _, isDefer := x.(*ssa.Defer); isDefer {
				if mc, ok := cc.Value.(*ssa.MakeClosure); ok {
					if fn, ok := mc.Fn.(*ssa.Function); ok && has(fn, rel) {
						return true
					}
				}
			}
			return false
		}
		// a deferred release registered before the acquisition on the way here also covers it
		covered := false
		for _, b2 := range f.Blocks {
			for _, x := range b2.Instrs {
				if _, isDefer := x.(*ssa.Defer); isDefer && releases(x) && b2.Dominates(ins.Block()) && b2 != ins.Block() {
					covered = true
				}
			}
		}
		leaks := !covered && escapes(ins, releases)
		if leaks && !has(f, rel) && depth < 2 {
			// an acquire wrapper: the obligation moves to its callers
			if sites := cg.callersOf(f); len(sites) > 0 {
				for k, site := range sites {
					check(site.Parent(), site, name, nil, fmt.Sprintf("%s via %s, call #%d", desc, f.Name(), k+1), depth+1)
				}
				return
			}
		}
		c.check(!leaks, "C-UNLOCK", funcName(f), desc+" is released on every path", ins.Pos(),
			"every path from the acquisition to a return passes the matching "+rel+" (or a deferred one)",
			"a path from this "+name+"() to a return of the function does not release the mutex (an early return between Lock and Unlock): the next caller that needs the lock blocks forever")
	}
	for _, f := range c.P.ModuleFuncs() {
		ord := 0
		for _, b := range f.Blocks {
			for _, ins := range b.Instrs {
				name, recv, deferred := mutexOp(ins)
				if _, isAcq := release[name]; !isAcq || deferred {
					continue
				}
				n++
				ord++
				check(f, ins, name, recv, fmt.Sprintf("%s #%d", name, ord), 0)
			}
		}
	}
	c.census("C-UNLOCK", "mutex acquisitions in module code", n, 10)
}

var _ = sort.Strings
var _ = strings.Contains
var _ token.Pos

// calleeReaches: the call's callee (a module function) contains, directly or through module functions it calls
// (three levels), an instruction satisfying pred.
func calleeReaches(ins ssa.Instruction, pred func(ssa.Instruction) bool) bool {
	call, ok := ins.(*ssa.Call)
	if !ok {
		return false
	}
	var visit func(f *ssa.Function, depth int, seen map[*ssa.Function]bool) bool
	visit = func(f *ssa.Function, depth int, seen map[*ssa.Function]bool) bool {
		if f == nil || f.Blocks == nil || !inModule(f) || seen[f] || depth > 3 {
			return false
		}
		seen[f] = true
		for _, b := range f.Blocks {
			for _, x := range b.Instrs {
				if pred(x) {
					return true
				}
				if c2, ok := x.(*ssa.Call); ok {
					if visit(c2.Call.StaticCallee(), depth+1, seen) {
						return true
					}
				}
			}
		}
		return false
	}
	return visit(call.Call.StaticCallee(), 0, map[*ssa.Function]bool{})
}

// mapFieldUpdate: the instruction stores into (or deletes from) the map held in field `field` of a struct whose
// type name ends in typeSuffix.
func mapFieldUpdate(ins ssa.Instruction, typeSuffix, field string) bool {
	var m ssa.Value
	switch x := ins.(type) {
	case *ssa.MapUpdate:
		m = x.Map
	default:
		return false
	}
	ld, ok := m.(*ssa.UnOp)
	if !ok {
		return false
	}
	fa, ok := ld.X.(*ssa.FieldAddr)
	if !ok {
		return false
	}
	return typeHasSuffix(fa.X.Type().Underlying().(*types.Pointer).Elem(), typeSuffix) && fieldVarOfAddr(fa).Name() == field
}

// ruleWorkspaceApplies (C12-APPLY): once the workspace's update function has parsed the new text of a file, every
// path to its return enters the new syntax tree into the resolved include tree and the new per-file index into
// the workspace index: there is no "nothing relevant changed" short cut between parsing and applying (a tree
// that keeps the previous text's syntax tree answers references, rename and hover with old positions, and the
// derived caches with old directives).
func ruleWorkspaceApplies(c *Ctx) {
	wpk := c.P.SSAPkg("internal/workspace")
	isTreeStore := func(x ssa.Instruction) bool { return mapFieldUpdate(x, "include.ResolvedJournal", "Files") }
	isIndexStore := func(x ssa.Instruction) bool {
		mu, ok := x.(*ssa.MapUpdate)
		if !ok {
			return false
		}
		mt, ok := mu.Map.Type().Underlying().(*types.Map)
		return ok && typeHasSuffix(mt.Elem(), "workspace.FileIndex")
	}
	n := 0
	for _, f := range c.P.ModuleFuncs() {
		if f.Pkg != wpk || f.Parent() != nil || f.Signature.Recv() == nil || !typeHasSuffix(f.Signature.Recv().Type(), "workspace.Workspace") {
			continue
		}
		// the text parameter: a string parameter handed to a call that returns a syntax tree
		for _, b := range f.Blocks {
			for _, ins := range b.Instrs {
				call, ok := ins.(*ssa.Call)
				if !ok {
					continue
				}
				cal := call.Call.StaticCallee()
				if cal == nil || !inModule(cal) {
					continue
				}
				returnsTree := false
				for i := 0; i < cal.Signature.Results().Len(); i++ {
					if typeHasSuffix(cal.Signature.Results().At(i).Type(), "ast.Journal") {
						returnsTree = true
					}
				}
				takesText := false
				for _, a := range call.Call.Args {
					if p, ok := stripConv(a).(*ssa.Parameter); ok && p.Parent() == f && types.TypeString(p.Type(), nil) == "string" {
						takesText = true
					}
				}
				if !returnsTree || !takesText {
					continue
				}
				n++
				treeSkipped := escapes(ins, func(x ssa.Instruction) bool { return isTreeStore(x) || calleeReaches(x, isTreeStore) })
				indexSkipped := escapes(ins, func(x ssa.Instruction) bool { return isIndexStore(x) || calleeReaches(x, isIndexStore) })
				c.check(!treeSkipped, "C12-APPLY", funcName(f), "a parsed text always replaces the file's syntax tree in the resolved tree", ins.Pos(),
					"every path from parsing the new text to the return stores the new syntax tree in the resolved tree",
					"after the new text of a file was parsed the update can return without storing its syntax tree in the resolved include tree (a 'nothing relevant changed' short cut): positions, directives and everything derived from the tree stay on the previous text")
				c.check(!indexSkipped, "C12-APPLY", funcName(f), "a parsed text always replaces the file's index entry", ins.Pos(),
					"every path from parsing the new text to the return stores the new per-file index",
					"after the new text of a file was parsed the update can return without storing the file's new index entry")
				// ... and whether the handed text is parsed at all does not depend on the text (a checksum or
				// "same as last time" memo kept next to the tree goes stale whenever the tree changes by another
				// route: a reload from disk, a file that left and re-entered the include tree)
				textDep := ""
				for _, cc := range append(controlCondsPol(b), controlDeps(b)...) {
					sl := backSlice(cc.Cond)
					for _, a := range call.Call.Args {
						if p, ok := stripConv(a).(*ssa.Parameter); ok && p.Parent() == f && types.TypeString(p.Type(), nil) == "string" && sl[ssa.Value(p)] {
							// a test of the path (membership, emptiness) also mentions a string parameter: only the text counts
							if isTextArgOf(call, p) {
								textDep = c.P.pos(cc.Cond.Pos())
							}
						}
					}
				}
				// ... also inside the function that parses it: no return of that function hands back the nil tree under a
				// condition on the text ("an empty text has no journal") - the update path reads a nil tree as "the file
				// is gone" and removes a member that a rebuild lists (C12-m31)
				if cal.Blocks != nil {
					treeIdx := -1
					for i := 0; i < cal.Signature.Results().Len(); i++ {
						if typeHasSuffix(cal.Signature.Results().At(i).Type(), "ast.Journal") {
							treeIdx = i
						}
					}
					var textPrm *ssa.Parameter
					for i, a := range call.Call.Args {
						if p, ok := stripConv(a).(*ssa.Parameter); ok && p.Parent() == f && types.TypeString(p.Type(), nil) == "string" && isTextArgOf(call, p) && i < len(cal.Params) {
							textPrm = cal.Params[i]
						}
					}
					if treeIdx >= 0 && textPrm != nil {
						for _, rb := range cal.Blocks {
							r, ok := lastInstr(rb).(*ssa.Return)
							if !ok || treeIdx >= len(r.Results) {
								continue
							}
							if k, isK := r.Results[treeIdx].(*ssa.Const); !isK || !k.IsNil() {
								continue
							}
							for _, cc := range append(controlCondsPol(rb), controlDeps(rb)...) {
								if backSlice(cc.Cond)[ssa.Value(textPrm)] {
									textDep = c.P.pos(cc.Cond.Pos()) + " (a nil tree returned by " + funcName(cal) + " for some texts)"
								}
							}
						}
					}
				}
				c.check(textDep == "", "C12-APPLY", funcName(f), "a handed text is parsed whatever it says", ins.Pos(),
					"no condition on the way to the parse depends on the text",
					"whether the handed text is parsed and applied depends on the text itself (condition at "+textDep+": a checksum or equality memo): the memo describes what was handed in last, not what the workspace holds - after the file was reloaded by another route the same text is skipped although the tree differs")
			}
		}
	}
	c.census("C12-APPLY", "workspace methods that parse a text handed to them", n, 1)
}

// ruleVersionMonotone (C13-MONO): the per-document version counter that guards publication only ever grows
// while the server runs: its entries are never deleted, the map is never replaced outside initialisation, and a
// stored value is the old value plus something.  (If a closed document's entry is dropped, a re-opened document
// starts counting at 1 again and an analysis still in flight from the previous session passes the version guard
// with its reused number.)
func ruleVersionMonotone(c *Ctx) {
	ci := buildConc(c)
	n := 0
	for _, f := range ci.funcs {
		for _, b := range f.Blocks {
			for _, ins := range b.Instrs {
				switch x := ins.(type) {
				case *ssa.Call:
					bi, ok := x.Call.Value.(*ssa.Builtin)
					if !ok || (bi.Name() != "delete" && bi.Name() != "clear") || len(x.Call.Args) == 0 {
						continue
					}
					mt, ok := x.Call.Args[0].Type().Underlying().(*types.Map)
					if !ok || !perDocumentCounter(mt) {
						continue
					}
					n++
					c.finding("C13-MONO", funcName(f), "version entries are never dropped", x.Pos(),
						"an entry of the per-document version counter is deleted: a document that is opened again restarts at the first version number, and an analysis still in flight from before passes the version guard with the same number - superseded diagnostics are published last")
				case *ssa.MapUpdate:
					mt, ok := x.Map.Type().Underlying().(*types.Map)
					if !ok || !perDocumentCounter(mt) {
						continue
					}
					n++
					grows := false
					if bin, ok := stripConv(x.Value).(*ssa.BinOp); ok && bin.Op == token.ADD {
						for v := range backSlice(bin) {
							if lk, ok := v.(*ssa.Lookup); ok {
								if m2, ok := lk.X.Type().Underlying().(*types.Map); ok && perDocumentCounter(m2) {
									grows = true
								}
							}
						}
					}
					c.check(grows, "C13-MONO", funcName(f), "a stored version is the previous one plus an increment", x.Pos(),
						"the stored value is computed by adding to the entry's previous value",
						"the per-document version counter is set to a value that is not its previous value plus an increment: version numbers can repeat or go back, and a superseded analysis can pass the version guard")
				case *ssa.Store:
					if ci.initFns[f] {
						continue
					}
					fa, ok := x.Addr.(*ssa.FieldAddr)
					if !ok {
						continue
					}
					mt, ok := fa.Type().Underlying().(*types.Pointer).Elem().Underlying().(*types.Map)
					if !ok || !perDocumentCounter(mt) {
						continue
					}
					// lazily creating the map when it is nil is not a reset
					lazy := false
					for _, cc := range controlCondsPol(b) {
						if bin, ok := cc.Cond.(*ssa.BinOp); ok && bin.Op == token.EQL && cc.Taken {
							if k, ok := bin.Y.(*ssa.Const); ok && k.IsNil() {
								lazy = true
							}
						}
					}
					n++
					c.check(lazy, "C13-MONO", funcName(f), "the version map is not replaced while the server runs", x.Pos(),
						"the map is only created when it does not exist yet", "the per-document version map is replaced outside initialisation: all version numbers start again and analyses in flight pass the version guard with reused numbers")
				}
			}
		}
	}
	c.census("C13-MONO", "writes to the per-document version counter", n, 1)
}

// ruleErrorsRecorded (P-ERRALL): a syntax error that the parser reports is always recorded: in a function that
// takes the message and appends to the parser's error list (directly or through another such function), every
// path from the entry to a return passes the append.  The error list is what tells the formatter which posting
// lines it must not rebuild and what positions the diagnostics carry; an error that is dropped (a cap, a
// de-duplication, a rate limit) makes the rest of the server treat a damaged line as a sound one.
func ruleErrorsRecorded(c *Ctx) {
	ppk := c.P.SSAPkg("internal/parser")
	isErrStore := func(x ssa.Instruction) bool {
		st, ok := x.(*ssa.Store)
		if !ok {
			return false
		}
		fa, ok := st.Addr.(*ssa.FieldAddr)
		if !ok || !typeHasSuffix(fa.X.Type().Underlying().(*types.Pointer).Elem(), "parser.Parser") {
			return false
		}
		sl, ok := fa.Type().Underlying().(*types.Pointer).Elem().Underlying().(*types.Slice)
		if !ok || !typeHasSuffix(sl.Elem(), "parser.ParseError") {
			return false
		}
		call, ok := st.Val.(*ssa.Call)
		if !ok {
			return false
		}
		bi, ok := call.Call.Value.(*ssa.Builtin)
		return ok && bi.Name() == "append"
	}
	hasMsgParam := func(f *ssa.Function) bool {
		for _, p := range f.Params {
			if types.TypeString(p.Type(), nil) == "string" {
				return true
			}
		}
		return false
	}
	rec := map[*ssa.Function]bool{}
	var fns []*ssa.Function
	for _, f := range c.P.ModuleFuncs() {
		if f.Pkg == ppk && f.Parent() == nil && hasMsgParam(f) {
			fns = append(fns, f)
		}
	}
	for changed := true; changed; {
		changed = false
		for _, f := range fns {
			if rec[f] {
				continue
			}
			for _, b := range f.Blocks {
				for _, ins := range b.Instrs {
					if isErrStore(ins) {
						rec[f] = true
					}
					if call, ok := ins.(*ssa.Call); ok && rec[call.Call.StaticCallee()] {
						// hands its own message on
						for _, a := range call.Call.Args {
							if p, ok := a.(*ssa.Parameter); ok && p.Parent() == f && types.TypeString(p.Type(), nil) == "string" {
								rec[f] = true
							}
						}
					}
				}
			}
			if rec[f] {
				changed = true
			}
		}
	}
	n := 0
	for _, f := range fns {
		if !rec[f] {
			continue
		}
		n++
		dropped := escapesFlags(f.Blocks[0], 0, func(x ssa.Instruction) bool {
			if isErrStore(x) {
				return true
			}
			call, ok := x.(*ssa.Call)
			return ok && rec[call.Call.StaticCallee()]
		})
		c.check(!dropped, "P-ERRALL", funcName(f), "a reported syntax error is always recorded", f.Pos(),
			"every path through the error-recording function appends to the parser's error list",
			"the parser's error-recording function can return without recording the error (a cap, a filter or a de-duplication): the formatter rebuilds the line as if it were sound and deletes the text the parser did not understand, and no diagnostic marks it")
	}
	c.census("P-ERRALL", "functions that record a syntax error", n, 1)
}

// ruleLexerCursor (L-CURSOR): the lexer's cursor (offset, line, column, line-start flag - every scalar field of
// the lexer type) is written only by functions the lexer interpretation covers: those reachable from the lexer's
// Next method, and its constructor.  A method that moves the cursor on behalf of another caller (the parser
// skipping a block of text) is outside everything L-NEWLINE / L-POS establish: nothing guarantees that it counts
// the line breaks it consumes, so every later token can carry a wrong line.
func ruleLexerCursor(c *Ctx) {
	ruleLexerInput(c)
	ppk := c.P.SSAPkg("internal/parser")
	var next *ssa.Function
	for _, f := range c.P.ModuleFuncs() {
		if f.Pkg == ppk && f.Parent() == nil && f.Name() == "Next" && f.Signature.Recv() != nil && f.Signature.Params().Len() == 0 &&
			f.Signature.Results().Len() == 1 && typeHasSuffix(f.Signature.Results().At(0).Type(), "parser.Token") {
			next = f
		}
	}
	if next == nil {
		c.undecided("L-CURSOR", "parser", "lexer entry point", token.NoPos, "no method Next() Token found in package parser")
		return
	}
	lexT := next.Signature.Recv().Type()
	if pt, ok := lexT.Underlying().(*types.Pointer); ok {
		lexT = pt.Elem()
	}
	reach := map[*ssa.Function]bool{next: true}
	work := []*ssa.Function{next}
	for len(work) > 0 {
		f := work[len(work)-1]
		work = work[:len(work)-1]
		for _, b := range f.Blocks {
			for _, ins := range b.Instrs {
				if call, ok := ins.(ssa.CallInstruction); ok {
					if cal := call.Common().StaticCallee(); cal != nil && inModule(cal) && !reach[cal] {
						reach[cal] = true
						work = append(work, cal)
					}
				}
			}
		}
		for _, a := range f.AnonFuncs {
			if !reach[a] {
				reach[a] = true
				work = append(work, a)
			}
		}
	}
	n := 0
	for _, f := range c.P.ModuleFuncs() {
		var pos token.Pos
		fresh := false
		for _, b := range f.Blocks {
			for _, ins := range b.Instrs {
				st, ok := ins.(*ssa.Store)
				if !ok {
					continue
				}
				fa, ok := st.Addr.(*ssa.FieldAddr)
				if !ok || !types.Identical(fa.X.Type().Underlying().(*types.Pointer).Elem(), lexT) {
					continue
				}
				if _, isBasic := fa.Type().Underlying().(*types.Pointer).Elem().Underlying().(*types.Basic); !isBasic {
					continue
				}
				if _, isNew := fa.X.(*ssa.Alloc); isNew {
					fresh = true // initialising a lexer under construction
					continue
				}
				if pos == token.NoPos {
					pos = st.Pos()
				}
			}
		}
		if pos == token.NoPos {
			_ = fresh
			continue
		}
		n++
		c.check(reach[f], "L-CURSOR", funcName(f), "the cursor is moved by the scanner only", pos,
			"the function is part of the scanner that Next() runs (covered by the lexer interpretation)",
			"a function outside the scanner that Next() runs writes the lexer's cursor (offset / line / column / line-start flag): the line accounting established for the scanner does not cover it, so tokens after it can carry a wrong line or column")
	}
	c.census("L-CURSOR", "functions writing the lexer's cursor", n, 1)
}

// ruleLoaderBase (G-BASE): the file an include directive is resolved against is the file that contains the
// directive.  In the include recursion every call that is handed the text of a directive (a value read from
// ast.Include.Path) together with another path gets that other path from the activation's own parameters or
// locals - never from a field of shared per-load state that the recursion itself overwrites (a nested load
// leaves the field pointing at the deepest file, and the parent's remaining directives are resolved there).
func ruleLoaderBase(c *Ctx, ls *loaderSSA) {
	// fields stored by the functions of the recursion (not counting the initialisation of a fresh local struct)
	stored := map[*types.Var]token.Pos{}
	for _, f := range ls.members() {
		for _, b := range f.Blocks {
			for _, ins := range b.Instrs {
				st, ok := ins.(*ssa.Store)
				if !ok {
					continue
				}
				fa, ok := st.Addr.(*ssa.FieldAddr)
				if !ok {
					continue
				}
				if _, fresh := fa.X.(*ssa.Alloc); fresh {
					continue
				}
				if types.TypeString(fa.Type().Underlying().(*types.Pointer).Elem(), nil) != "string" {
					continue
				}
				if v := fieldVarOfAddr(fa); v != nil {
					stored[v] = st.Pos()
				}
			}
		}
	}
	readsDirectivePath := func(v ssa.Value) bool {
		for w := range backSlice(v) {
			switch x := w.(type) {
			case *ssa.FieldAddr:
				if typeHasSuffix(x.X.Type().Underlying().(*types.Pointer).Elem(), "ast.Include") && fieldVarOfAddr(x).Name() == "Path" {
					return true
				}
			case *ssa.Field:
				if typeHasSuffix(x.X.Type(), "ast.Include") {
					if stt, ok := x.X.Type().Underlying().(*types.Struct); ok && stt.Field(x.Field).Name() == "Path" {
						return true
					}
				}
			}
		}
		return false
	}
	n := 0
	for _, f := range ls.fns {
		for _, b := range f.Blocks {
			for _, ins := range b.Instrs {
				call, ok := ins.(*ssa.Call)
				if !ok || len(call.Call.Args) < 2 {
					continue
				}
				if cal := call.Call.StaticCallee(); cal == nil || !inModule(cal) {
					continue
				}
				hasDirective := false
				for _, a := range call.Call.Args {
					if types.TypeString(a.Type(), nil) == "string" && readsDirectivePath(a) {
						hasDirective = true
					}
				}
				if !hasDirective {
					continue
				}
				for _, a := range call.Call.Args {
					if types.TypeString(a.Type(), nil) != "string" || readsDirectivePath(a) {
						continue
					}
					n++
					bad := ""
					for w := range backSlice(a) {
						ld, ok := w.(*ssa.UnOp)
						if !ok || ld.Op != token.MUL {
							continue
						}
						fa, ok := ld.X.(*ssa.FieldAddr)
						if !ok {
							continue
						}
						if v := fieldVarOfAddr(fa); v != nil {
							if _, isStored := stored[v]; isStored && afterRecursiveCall(ls, ld) {
								bad = v.Name()
							}
						}
					}
					c.check(bad == "", "G-BASE", funcName(f), "an include is resolved against the file that contains it", call.Pos(),
						"the base path handed to "+call.Call.StaticCallee().Name()+" is a parameter or local of this activation",
						"the base path handed to "+call.Call.StaticCallee().Name()+" is read from the per-load field "+bad+", which the include recursion overwrites: after a nested include has been followed the remaining directives of the parent are resolved against the nested file's directory (files not found, wrong files loaded)")
				}
			}
		}
	}
	c.census("G-BASE", "base paths handed on together with the text of an include directive", n, 1)
}

// afterRecursiveCall: the instruction can execute after a call into the include recursion made by the same
// activation (it follows such a call in its block, or its block is reachable from the block of one).
func afterRecursiveCall(ls *loaderSSA, ins ssa.Instruction) bool {
	f := ins.Parent()
	for _, b := range f.Blocks {
		for i, x := range b.Instrs {
			call, ok := x.(ssa.CallInstruction)
			if !ok {
				continue
			}
			cal := call.Common().StaticCallee()
			if cal == nil || !(ls.scc[cal] || ls.contains("rec", cal, ls.isRecursiveCall, 0)) {
				continue
			}
			if b == ins.Block() {
				for j, y := range b.Instrs {
					if y == ins && j > i {
						return true
					}
				}
			}
			for _, s := range b.Succs {
				if s == ins.Block() || reachesBlock(s, ins.Block()) {
					return true
				}
			}
		}
	}
	return false
}

// ruleCacheFromDisk (G-CACHEDISK): what the loader keeps in its per-file cache is the parse of the file as it is
// on disk.  Every text that flows into a cached entry is the result of reading the file (os.ReadFile) - never a
// text handed in by a caller (LoadFromContent is given unsaved editor buffers; an entry made from one answers
// every later load that includes the file with text that is not in the file).
func ruleCacheFromDisk(c *Ctx, ls *loaderSSA) {
	cg := cgView{c}
	// carriesText: a string, or a value a text was parsed into (a syntax tree, the list of its parse errors)
	carriesText := func(t types.Type) bool {
		ts := types.TypeString(t, nil)
		return ts == "string" || strings.Contains(ts, "/internal/ast.") || strings.HasSuffix(ts, "include.LoadError")
	}
	isReadFile := func(v ssa.Value) bool {
		call, ok := v.(*ssa.Call)
		if !ok {
			return false
		}
		cal := call.Call.StaticCallee()
		return cal != nil && cal.Pkg != nil && cal.Pkg.Pkg.Path() == "os" && (cal.Name() == "ReadFile" || cal.Name() == "Open")
	}
	// textFromCaller: the string parameter p (not the file's path) can be bound, at some call site up the chain,
	// to a text that was not read from the file
	var textFromCaller func(p *ssa.Parameter, depth int, seen map[*ssa.Parameter]bool) string
	textFromCaller = func(p *ssa.Parameter, depth int, seen map[*ssa.Parameter]bool) string {
		if seen[p] {
			return ""
		}
		seen[p] = true
		f := p.Parent()
		idx := -1
		for i, q := range f.Params {
			if q == p {
				idx = i
			}
		}
		sites := cg.callersOf(f)
		if len(sites) == 0 || depth > 3 {
			if types.TypeString(p.Type(), nil) != "string" {
				return "" // not a text: a value of an entry point that the rule cannot trace further
			}
			return "parameter " + p.Name() + " of " + funcName(f)
		}
		for _, site := range sites {
			if idx >= len(site.Common().Args) {
				continue
			}
			sl, unbound := backSlicePrecise(site.Common().Args[idx])
			fromDisk := false
			for v := range sl {
				if isReadFile(v) {
					fromDisk = true
				}
			}
			if fromDisk {
				continue
			}
			for q := range unbound {
				// a text, or something made from one further up (a parsed journal handed to a `store` helper)
				if carriesText(q.Type()) {
					if w := textFromCaller(q, depth+1, seen); w != "" {
						return w
					}
				}
			}
		}
		return ""
	}
	n := 0
	for _, f := range ls.fns {
		for _, b := range f.Blocks {
			for _, ins := range b.Instrs {
				mu, ok := ins.(*ssa.MapUpdate)
				if !ok || ls.cache == nil || mapFieldOf(mu.Map) != ls.cache {
					continue
				}
				n++
				keySl := backSlice(mu.Key)
				sl, unbound := backSlicePrecise(mu.Value)
				_ = sl
				bad := ""
				var ps []*ssa.Parameter
				for p := range unbound {
					ps = append(ps, p)
				}
				sort.Slice(ps, func(i, j int) bool { return ps[i].Pos() < ps[j].Pos() })
				for _, p := range ps {
					if !carriesText(p.Type()) || keySl[p] {
						continue // the path the entry is stored under
					}
					if w := textFromCaller(p, 0, map[*ssa.Parameter]bool{}); w != "" {
						bad = w
					}
				}
				c.check(bad == "", "G-CACHEDISK", funcName(f), "a cached entry is made from the file on disk", mu.Pos(),
					"every text that flows into the cached entry was read from the file",
					"the per-file cache receives an entry made from a text handed in by a caller ("+bad+") instead of the file's content on disk: an unsaved editor buffer ends up in the cache and answers every later load that includes the file")
			}
		}
	}
	c.census("G-CACHEDISK", "stores into the per-file cache", n, 1)
	// G-CACHEENV: ... and nothing else that was read from the environment.  What an entry holds - when it is made
	// and whenever something is written into it later (a field store, an element of a map or slice kept in one of
	// its fields) - is computed from the file's content alone: no directory listing or glob expansion, no file
	// size or time stamp, no clock.  Such a value describes the file system at the time of an earlier load; the
	// entry is dropped only when its own file changes, so a new file matching the pattern never appears.
	envRead := func(v ssa.Value) string {
		call, ok := v.(*ssa.Call)
		if !ok {
			return ""
		}
		cal := call.Call.StaticCallee()
		if cal == nil || cal.Pkg == nil || inModule(cal) {
			return ""
		}
		pp, name := cal.Pkg.Pkg.Path(), cal.Name()
		switch {
		case pp == "os" && name != "ReadFile" && name != "IsNotExist" && name != "IsExist" && name != "IsPermission":
			return "os." + name
		case pp == "io/fs", pp == "math/rand", pp == "math/rand/v2":
			return pp + "." + name
		case pp == "path/filepath" && (name == "Glob" || name == "Walk" || name == "WalkDir" || name == "EvalSymlinks"):
			return "filepath." + name
		case pp == "time" && (name == "Now" || name == "Since" || name == "Until"):
			return "time." + name
		case strings.Contains(pp, "doublestar") && name != "ValidatePattern" && name != "Match" && name != "PathMatch":
			return "doublestar." + name
		}
		return ""
	}
	envIn := func(v ssa.Value) string {
		sl, _ := backSlicePrecise(v)
		var hits []string
		for w := range sl {
			if e := envRead(w); e != "" {
				hits = append(hits, e)
			}
		}
		sort.Strings(hits)
		if len(hits) > 0 {
			return hits[0]
		}
		return ""
	}
	var entryT types.Type
	nEnv := 0
	for _, f := range ls.fns {
		for _, b := range f.Blocks {
			for _, ins := range b.Instrs {
				mu, ok := ins.(*ssa.MapUpdate)
				if !ok || ls.cache == nil || mapFieldOf(mu.Map) != ls.cache {
					continue
				}
				entryT = mu.Value.Type()
				nEnv++
				bad := envIn(mu.Value)
				c.check(bad == "", "G-CACHEENV", funcName(f), "a cached entry is computed from the file's content alone", mu.Pos(),
					"nothing read from the environment but the file's text flows into the entry",
					"the per-file cache receives an entry that holds something read from the environment ("+bad+"): it describes the file system at the time of that load and is served on later loads although only a change of the file itself drops the entry")
			}
		}
	}
	if entryT != nil {
		isEntryPtr := func(t types.Type) bool { return types.Identical(t, entryT) }
		// the entry a write goes through: x.f = v, x.f[k] = v, x.f[i] = v, x.f = append(x.f, v)
		entryBase := func(addr ssa.Value) bool {
			for depth := 0; addr != nil && depth < 4; depth++ {
				switch x := addr.(type) {
				case *ssa.FieldAddr:
					if isEntryPtr(x.X.Type()) {
						if _, fresh := x.X.(*ssa.Alloc); !fresh {
							return true
						}
					}
					addr = x.X
				case *ssa.IndexAddr:
					addr = x.X
				case *ssa.UnOp:
					if x.Op != token.MUL {
						return false
					}
					addr = x.X
				default:
					return false
				}
			}
			return false
		}
		for _, f := range c.P.ModuleFuncs() {
			if f.Pkg == nil || (len(ls.fns) > 0 && f.Pkg != ls.fns[0].Pkg) {
				continue
			}
			k := 0
			for _, b := range f.Blocks {
				for _, ins := range b.Instrs {
					var val ssa.Value
					switch x := ins.(type) {
					case *ssa.Store:
						if entryBase(x.Addr) {
							val = x.Val
						}
					case *ssa.MapUpdate:
						if entryBase(x.Map) {
							val = x.Value
						}
					}
					if val == nil {
						continue
					}
					k++
					nEnv++
					bad := envIn(val)
					c.check(bad == "", "G-CACHEENV", funcName(f), fmt.Sprintf("write #%d into a cached entry is computed from the file's content alone", k), ins.Pos(),
						"nothing read from the environment flows into the entry",
						"something read from the environment ("+bad+") is written into an entry of the per-file cache after it was made: the entry now remembers the state of the file system at an earlier load (the matches of a glob pattern, a size, a time stamp) and later loads are answered from it although only a change of the file itself drops the entry")
				}
			}
		}
	}
	c.census("G-CACHEENV", "entries put into the per-file cache and writes into cached entries", nEnv, 1)
	// G-CACHEOWN: ... and it is the parse of THAT file only.  Nothing an entry holds is the outcome of the include
	// recursion (a resolved tree, the error list of a whole load): such a value also describes the files below the
	// cached one - their parse errors, missing includes, cycles - as they were when the entry was made; served on a
	// later load it repeats them next to the freshly computed ones and keeps them after the faulty file was repaired
	// and invalidated (C11-m28: `store(path, &cachedJournal{journal: result.Primary, parseErrors: errors})` with the
	// whole load's errors, both []LoadError).
	var loadIn func(v ssa.Value, depth int, seenP map[*ssa.Parameter]bool) string
	loadIn = func(v ssa.Value, depth int, seenP map[*ssa.Parameter]bool) string {
		sl, unbound := backSlicePrecise(v)
		var hits []string
		for w := range sl {
			if call, ok := w.(*ssa.Call); ok {
				if cal := call.Call.StaticCallee(); cal != nil && ls.scc[cal] {
					hits = append(hits, funcName(cal))
				}
			}
		}
		sort.Strings(hits)
		if len(hits) > 0 {
			return hits[0]
		}
		if depth >= 3 {
			return ""
		}
		var ps []*ssa.Parameter
		for p := range unbound {
			ps = append(ps, p)
		}
		// scalars that reach the entry through the state of a callee (a parser option set from an argument) are not
		// on a return path: take them from the call-insensitive slice
		for w := range backSlice(v) {
			if p, ok := w.(*ssa.Parameter); ok {
				if bt, isBasic := p.Type().Underlying().(*types.Basic); isBasic && bt.Info()&(types.IsInteger|types.IsBoolean) != 0 {
					if _, have := unbound[p]; !have {
						ps = append(ps, p)
					}
				}
			}
		}
		sort.Slice(ps, func(i, j int) bool { return ps[i].Pos() < ps[j].Pos() })
		for _, p := range ps {
			// a scalar handed down by the caller: it must not be read off another file's syntax tree (the default year
			// of the INCLUDING file threaded into the parse of the included one: the entry is keyed by the path alone,
			// so the first includer's year is served to every later one - C11-m32)
			if bt, isBasic := p.Type().Underlying().(*types.Basic); isBasic && !seenP[p] && bt.Info()&(types.IsInteger|types.IsBoolean) != 0 && depth < 2 {
				seenP[p] = true
				idx := -1
				for i, q := range p.Parent().Params {
					if q == p {
						idx = i
					}
				}
				for _, site := range cg.callersOf(p.Parent()) {
					if idx < 0 || idx >= len(site.Common().Args) {
						continue
					}
					asl, _ := backSlicePrecise(site.Common().Args[idx])
					for w := range asl {
						var bt2 types.Type
						switch x := w.(type) {
						case *ssa.FieldAddr:
							bt2 = x.X.Type().Underlying().(*types.Pointer).Elem()
						case *ssa.Field:
							bt2 = x.X.Type()
						}
						if bt2 != nil && strings.Contains(types.TypeString(bt2, nil), "/internal/ast.") {
							return "a value read off the syntax tree of the including file (" + funcName(site.Parent()) + ")"
						}
					}
				}
				continue
			}
			if seenP[p] || !carriesText(p.Type()) && !strings.Contains(types.TypeString(p.Type(), nil), "/internal/include.") {
				continue
			}
			seenP[p] = true
			idx := -1
			for i, q := range p.Parent().Params {
				if q == p {
					idx = i
				}
			}
			for _, site := range cg.callersOf(p.Parent()) {
				if idx >= 0 && idx < len(site.Common().Args) {
					if w := loadIn(site.Common().Args[idx], depth+1, seenP); w != "" {
						return w
					}
				}
			}
		}
		return ""
	}
	nOwn := 0
	for _, f := range ls.fns {
		for _, b := range f.Blocks {
			for _, ins := range b.Instrs {
				mu, ok := ins.(*ssa.MapUpdate)
				if !ok || ls.cache == nil || mapFieldOf(mu.Map) != ls.cache {
					continue
				}
				nOwn++
				bad := loadIn(mu.Value, 0, map[*ssa.Parameter]bool{})
				c.check(bad == "", "G-CACHEOWN", funcName(f), "a cached entry holds the parse of its own file only", mu.Pos(),
					"no outcome of the include recursion flows into the entry",
					"the per-file cache receives an entry that holds an outcome of the include recursion ("+bad+"): the errors or trees of the files below the cached one, as they were at that load, are served again on every later load that includes the file - reported twice next to the fresh ones, and still reported after the faulty file was repaired on disk and invalidated")
			}
		}
	}
	c.census("G-CACHEOWN", "entries put into the per-file cache", nOwn, 1)
}

// ruleEncoderFresh (T12-FRESH): the array a semantic-tokens response carries - and the token cache keeps for the
// next delta - is freshly built for that request.  The value returned by the encoder (the function from a token
// list to []uint32) does not come out of a buffer that outlives the call: not a []uint32 field of some struct,
// not an object taken from a sync.Pool.  (A reused buffer is shared between the array cached under the previous
// result id and the next encoding, which overwrites the cached array before the delta is computed against it.)
func ruleEncoderFresh(c *Ctx) {
	spk := c.P.SSAPkg("internal/server")
	n := 0
	for _, f := range c.P.ModuleFuncs() {
		if f.Pkg != spk || f.Parent() != nil || f.Signature.Results().Len() != 1 || types.TypeString(f.Signature.Results().At(0).Type(), nil) != "[]uint32" {
			continue
		}
		takesTokens := false
		for i := 0; i < f.Signature.Params().Len(); i++ {
			if strings.Contains(types.TypeString(f.Signature.Params().At(i).Type(), nil), "server.semanticToken") {
				takesTokens = true
			}
		}
		if !takesTokens {
			continue
		}
		n++
		bad := ""
		for _, b := range f.Blocks {
			r, ok := b.Instrs[len(b.Instrs)-1].(*ssa.Return)
			if !ok {
				continue
			}
			if w := sliceStorageOrigin(unspillResult(r.Results[0], b), nil, 0, map[ssa.Value]bool{}); w != "" {
				bad = w
			}
		}
		c.check(bad == "", "T12-FRESH", funcName(f), "the encoded array is built afresh for every request", f.Pos(),
			"the returned array does not come out of a buffer that outlives the call",
			"the encoded token array is "+bad+": the array cached under the previous result id shares its memory with the next encoding, which overwrites it before the delta against it is computed (deltas come out empty or wrong)")
	}
	c.census("T12-FRESH", "token encoders", n, 1)
}

// ruleOwnGuard (T3-OWN): a per-transaction check against a set of declared names is switched on by the size of
// that very set - never by the size of another set.  For every call that hands a transaction and a
// map[string]bool to a check of package analyzer, each `len(<map[string]bool>)` on which the call is control
// dependent (in its function or, the map being a parameter, at the call sites up the chain) measures the map
// that is passed.  (A joint gate `len(accounts) > 0 || len(commodities) > 0` checks every commodity against an
// empty set as soon as one account is declared.)
func ruleOwnGuard(c *Ctx) {
	apk := c.P.SSAPkg("internal/analyzer")
	cg := cgView{c}
	isNameSet := func(t types.Type) bool {
		m, ok := t.Underlying().(*types.Map)
		return ok && types.TypeString(m.Key(), nil) == "string" && types.TypeString(m.Elem(), nil) == "bool"
	}
	same := func(a, b ssa.Value) bool {
		a, b = stripConv(a), stripConv(b)
		return a == b || sameLoad(a, b)
	}
	var verify func(site ssa.CallInstruction, m ssa.Value, depth int) string
	verify = func(site ssa.CallInstruction, m ssa.Value, depth int) string {
		f := site.Parent()
		for _, cc := range controlDeps(site.Block()) {
			for v := range backSlice(cc.Cond) {
				call, ok := v.(*ssa.Call)
				if !ok {
					continue
				}
				bi, ok := call.Call.Value.(*ssa.Builtin)
				if !ok || bi.Name() != "len" || len(call.Call.Args) != 1 || !isNameSet(call.Call.Args[0].Type()) {
					continue
				}
				if !same(call.Call.Args[0], m) {
					return "len(" + call.Call.Args[0].Name() + ") at " + c.P.pos(call.Pos())
				}
			}
		}
		if p, ok := stripConv(m).(*ssa.Parameter); ok && p.Parent() == f && depth < 3 {
			for _, s2 := range cg.callersOf(f) {
				for i, q := range f.Params {
					if q == p && i < len(s2.Common().Args) {
						if w := verify(s2, s2.Common().Args[i], depth+1); w != "" {
							return w
						}
					}
				}
			}
		}
		return ""
	}
	n := 0
	for _, f := range c.P.ModuleFuncs() {
		top := f
		for top.Parent() != nil {
			top = top.Parent()
		}
		if top.Pkg != apk {
			continue
		}
		for _, b := range f.Blocks {
			for _, ins := range b.Instrs {
				call, ok := ins.(*ssa.Call)
				if !ok {
					continue
				}
				cal := call.Call.StaticCallee()
				if cal == nil || cal.Pkg != apk {
					continue
				}
				var sets []ssa.Value
				takesTx := false
				for _, a := range call.Call.Args {
					if typeHasSuffix(a.Type(), "ast.Transaction") {
						takesTx = true
					}
					if isNameSet(a.Type()) {
						sets = append(sets, a)
					}
				}
				if !takesTx || len(sets) != 1 {
					continue // not a check against one set (a dispatcher that is handed several sets is judged at its inner calls)
				}
				n++
				w := verify(call, sets[0], 0)
				c.check(w == "", "T3-OWN", funcName(f), "check "+cal.Name()+" is switched on by its own declared set", call.Pos(),
					"every set-size test guarding the call measures the set that is passed to it",
					"the check "+cal.Name()+" runs depending on the size of another set ("+w+"): as soon as that other kind of declaration exists, every name of this kind is checked against an empty set and reported as undeclared")
			}
		}
	}
	// no floor: a design that precomputes its switches elsewhere has no call of this shape; T3 still compares the
	// guards of the sibling entry points
	c.census("T3-OWN", "per-transaction checks against one declared set", n, 0)
}

// ruleLineStarts (C01-LINES): the position mapper's table of line starts is computed from the text itself: the
// offsets stored in it are sums of the lengths of untransformed pieces of the text (plus separator widths).  A
// length taken from a transformed copy of a line (trimmed, with the carriage return removed, lower-cased ...)
// makes every later line start too early or too late, and every ranged edit after that line is spliced at the
// wrong place.
func ruleLineStarts(c *Ctx) {
	lpk := c.P.SSAPkg("internal/lsputil")
	// the constructor of the mapper and the functions of the package it calls
	region := map[*ssa.Function]bool{}
	var work []*ssa.Function
	for _, f := range c.P.ModuleFuncs() {
		if f.Pkg == lpk && f.Parent() == nil && f.Signature.Recv() == nil && f.Signature.Results().Len() == 1 && typeHasSuffix(f.Signature.Results().At(0).Type(), "lsputil.PositionMapper") {
			region[f] = true
			work = append(work, f)
		}
	}
	for len(work) > 0 {
		f := work[len(work)-1]
		work = work[:len(work)-1]
		for _, b := range f.Blocks {
			for _, ins := range b.Instrs {
				if call, ok := ins.(ssa.CallInstruction); ok {
					if cal := call.Common().StaticCallee(); cal != nil && cal.Pkg == lpk && cal.Blocks != nil && !region[cal] {
						region[cal] = true
						work = append(work, cal)
					}
				}
			}
		}
	}
	isIntSlice := func(t types.Type) bool { return types.TypeString(t.Underlying(), nil) == "[]int" }
	isStrSlice := func(t types.Type) bool { return types.TypeString(t.Underlying(), nil) == "[]string" }
	// which list of strings an element address belongs to: the field it was loaded from, or the value itself
	listOf := func(ia *ssa.IndexAddr) any {
		if u, ok := ia.X.(*ssa.UnOp); ok && u.Op == token.MUL {
			if fa, ok := u.X.(*ssa.FieldAddr); ok {
				return fieldVarOfAddr(fa)
			}
		}
		return ia.X
	}
	transformedBy := func(v ssa.Value) string {
		bad := ""
		for w := range backSlice(v) {
			call, ok := w.(*ssa.Call)
			if !ok {
				continue
			}
			if _, isBuiltin := call.Call.Value.(*ssa.Builtin); isBuiltin {
				continue
			}
			if types.TypeString(call.Type(), nil) == "string" {
				bad = "a function value"
				if cal := call.Call.StaticCallee(); cal != nil {
					bad = funcName(cal)
				}
			}
		}
		return bad
	}
	measured := map[any]bool{} // the lists of pieces whose elements are measured for the offsets
	n := 0
	var fns []*ssa.Function
	for f := range region {
		fns = append(fns, f)
	}
	sort.Slice(fns, func(i, j int) bool { return funcName(fns[i]) < funcName(fns[j]) })
	for _, f := range fns {
		for _, b := range f.Blocks {
			for _, ins := range b.Instrs {
				// an int stored into an element of an []int, or appended to one, while the mapper is built
				var val ssa.Value
				switch x := ins.(type) {
				case *ssa.Store:
					if ia, ok := x.Addr.(*ssa.IndexAddr); ok && isIntSlice(ia.X.Type()) {
						val = x.Val
					}
				case *ssa.Call:
					if bi, ok := x.Call.Value.(*ssa.Builtin); ok && bi.Name() == "append" && isIntSlice(x.Type()) {
						val = x
					}
				}
				if val == nil {
					continue
				}
				n++
				bad := transformedBy(val)
				for v := range backSlice(val) {
					if u, ok := v.(*ssa.UnOp); ok && u.Op == token.MUL {
						if ia, ok := u.X.(*ssa.IndexAddr); ok && isStrSlice(ia.X.Type()) {
							measured[listOf(ia)] = true
						}
					}
				}
				c.check(bad == "", "C01-LINES", funcName(f), "line starts are sums of lengths of untransformed pieces of the text", ins.Pos(),
					"no transformed copy of a line feeds the offsets",
					"an offset stored in the table of line starts depends on the result of "+bad+" (a transformed copy of a piece of the text): its length is not the number of bytes the piece occupies, so the following line starts drift and ranged edits are spliced at the wrong byte")
			}
		}
	}
	// the pieces that are measured are not overwritten in place with transformed copies either
	for _, f := range fns {
		for _, b := range f.Blocks {
			for _, ins := range b.Instrs {
				st, ok := ins.(*ssa.Store)
				if !ok {
					continue
				}
				ia, ok := st.Addr.(*ssa.IndexAddr)
				if !ok || !isStrSlice(ia.X.Type()) || !measured[listOf(ia)] {
					continue
				}
				bad := transformedBy(st.Val)
				c.check(bad == "", "C01-LINES", funcName(f), "the pieces measured for the line starts are not replaced by transformed copies", ins.Pos(),
					"the element stored is an untransformed piece of the text",
					"an element of the list of lines whose lengths are summed into the table of line starts is overwritten with the result of "+bad+": the sum no longer counts the bytes the line occupies in the text, so the following line starts drift and ranged edits are spliced at the wrong byte")
			}
		}
	}
	c.census("C01-LINES", "stores into the table of line starts", n, 1)
	// ... and a line of the mapper is a line of the lexer: the lexer counts a line per '\n' and nothing else
	// (L-NEWLINE), the syntax tree's line numbers index the mapper's lines (formatting takes the posting's line from
	// the tree and the length of that line from the mapper), so the mapper must not break lines anywhere else - a
	// lone '\r' treated as a line end shifts every later line.
	for _, f := range fns {
		for _, b := range f.Blocks {
			for _, ins := range b.Instrs {
				for _, op := range ins.Operands(nil) {
					if op == nil || *op == nil {
						continue
					}
					k, ok := (*op).(*ssa.Const)
					if !ok || k.Value == nil {
						continue
					}
					bad := false
					switch k.Value.Kind() {
					case constant.Int:
						if v, exact := constant.Int64Val(k.Value); exact && v == 13 {
							if bt, isB := k.Type().Underlying().(*types.Basic); isB && (bt.Kind() == types.Uint8 || bt.Kind() == types.Int32 || bt.Kind() == types.UntypedRune) {
								bad = true
							}
						}
					case constant.String:
						if strings.Contains(constant.StringVal(k.Value), "\r") {
							bad = true
						}
					}
					if bad {
						c.finding("C01-LINES", funcName(f), "the mapper breaks lines at line feeds only", ins.Pos(),
							"the position mapper looks at carriage returns while it builds its lines: the lexer counts a line per line feed only, so after a lone '\\r' the mapper's line numbers run ahead of the syntax tree's - edits that take a line number from the tree and a line length from the mapper (formatting) end at the length of a different line")
					}
				}
			}
		}
	}
}

// ruleParserState (P-STATE): what the parser records for an entry is taken from that entry's own tokens.  The
// only state it carries from one entry to the entries after it is the default year of a Y directive, which
// completes partial dates.  A value read from any other field of the parser (not the current token, the lexer or
// the error list) must not flow - through locals, arithmetic, conversions, struct literals, helper parameters
// and helper results - into a field of a syntax-tree node: a remembered default commodity, account prefix or the
// like makes the structure extracted for an entry depend on directives elsewhere in the file.  (Sizing a slice
// with such a value is not a flow into the tree.)
func ruleParserState(c *Ctx) {
	ppk := c.P.SSAPkg("internal/parser")
	cg := cgView{c}
	isAST := func(t types.Type) bool { return strings.Contains(types.TypeString(t, nil), "/internal/ast.") }
	type hit struct {
		target string
		pos    token.Pos
		fn     *ssa.Function
		date   bool
	}
	// forward flow of a value inside the parser package
	var flowSub func(v ssa.Value, sub []string, depth int, seen map[ssa.Value]bool, out *[]hit)
	flow := func(v ssa.Value, depth int, seen map[ssa.Value]bool, out *[]hit) { flowSub(v, nil, depth, seen, out) }
	flowSub = func(v ssa.Value, sub []string, depth int, seen map[ssa.Value]bool, out *[]hit) {
		if v == nil || seen[v] || depth > 4 || v.Referrers() == nil {
			return
		}
		seen[v] = true
		for _, r := range *v.Referrers() {
			switch x := r.(type) {
			case *ssa.Field:
				// a part of a struct value of which only the part `sub` carries the state
				if len(sub) > 0 && sub[0] != fmt.Sprintf("f%d", x.Field) && sub[0] != "?" {
					continue
				}
				if len(sub) > 0 {
					flowSub(x, sub[1:], depth, seen, out)
				} else {
					flowSub(x, nil, depth, seen, out)
				}
				continue
			case *ssa.Store:
				if x.Val != v {
					continue
				}
				// into a syntax-tree node?
				root := x.Addr
				var inner *ssa.FieldAddr
				astField := false
				for {
					switch a := root.(type) {
					case *ssa.FieldAddr:
						if inner == nil {
							inner = a
						}
						if isAST(a.X.Type().Underlying().(*types.Pointer).Elem()) {
							astField = true
						}
						root = a.X
						continue
					case *ssa.IndexAddr:
						root = a.X
						continue
					}
					break
				}
				if astField && inner != nil {
					bt := inner.X.Type().Underlying().(*types.Pointer).Elem()
					*out = append(*out, hit{shortQual(types.TypeString(bt, nil)) + "." + fieldVarOfAddr(inner).Name(), x.Pos(), x.Parent(),
						typeHasSuffix(bt, "ast.Date") && fieldVarOfAddr(inner).Name() == "Year"})
					continue
				}
				// into a local: later loads of the same part of that local carry it
				if al, ok := root.(*ssa.Alloc); ok {
					want := append(localPath(x.Addr), sub...)
					var loads func(a ssa.Value)
					loads = func(a ssa.Value) {
						if a.Referrers() == nil {
							return
						}
						for _, r2 := range *a.Referrers() {
							switch y := r2.(type) {
							case *ssa.UnOp:
								if lp := localPath(y.X); y.Op == token.MUL && pathsOverlap(want, lp) {
									var rest []string
									if len(lp) < len(want) {
										rest = want[len(lp):] // a larger part was loaded: the state sits below `rest` of it
									}
									flowSub(y, rest, depth, seen, out)
								}
							case *ssa.FieldAddr:
								loads(y)
							case *ssa.IndexAddr:
								loads(y)
							}
						}
					}
					loads(al)
				}
			case *ssa.MakeSlice, *ssa.Jump:
				// a size: not a flow of the value
			case *ssa.If:
				// a branch is not a flow of the value - unless it compares the state with something read from the
				// entry (a commodity equal to the remembered one, a byte equal to the remembered mark): what is
				// computed under such a branch depends on the state's content, not merely on its being set
				cmp, ok := v.(*ssa.BinOp)
				if !ok {
					continue
				}
				switch cmp.Op {
				case token.EQL, token.NEQ, token.LSS, token.LEQ, token.GTR, token.GEQ:
				default:
					continue
				}
				if _, isConst := cmp.X.(*ssa.Const); isConst {
					continue
				}
				if _, isConst := cmp.Y.(*ssa.Const); isConst {
					continue
				}
				for _, b := range x.Parent().Blocks {
					dep := false
					for _, cc := range controlDeps(b) {
						if cc.Cond == x.Cond {
							dep = true
						}
					}
					if !dep {
						continue
					}
					for _, bi := range b.Instrs {
						switch y := bi.(type) {
						case *ssa.Phi, *ssa.If, *ssa.Jump, *ssa.Return:
						case *ssa.Store:
							if _, isC := y.Val.(*ssa.Const); !isC {
								flow(y.Val, depth+1, seen, out)
							}
						case ssa.Value:
							flow(y, depth+1, seen, out)
						}
					}
				}
			case *ssa.Return:
				for _, site := range cg.callersOf(x.Parent()) {
					if cv, ok := site.(*ssa.Call); ok {
						if len(x.Results) == 1 {
							flow(cv, depth+1, seen, out)
						} else {
							for i, rv := range x.Results {
								if rv != v || cv.Referrers() == nil {
									continue
								}
								for _, r3 := range *cv.Referrers() {
									if ex, ok := r3.(*ssa.Extract); ok && ex.Index == i {
										flow(ex, depth+1, seen, out)
									}
								}
							}
						}
					}
				}
			case ssa.CallInstruction:
				cal := x.Common().StaticCallee()
				if cal != nil && inModule(cal) && cal.Blocks != nil {
					for i, a := range x.Common().Args {
						if a == v && i < len(cal.Params) {
							flow(cal.Params[i], depth+1, seen, out)
						}
					}
					// what the callee returns may depend on the argument through its branches (a text rebuilt byte
					// by byte under comparisons with the argument)
					if cv, ok := r.(ssa.Value); ok && cal.Signature.Results().Len() > 0 && cal.Signature.Recv() == nil {
						flow(cv, depth+1, seen, out)
					}
					continue
				}
				if bi, ok := x.Common().Value.(*ssa.Builtin); ok && (bi.Name() == "len" || bi.Name() == "cap") {
					continue
				}
				if cv, ok := r.(ssa.Value); ok {
					flow(cv, depth, seen, out) // the result of a library call on the value (Sprintf, TrimSpace, ...)
				}
			default:
				if rv, ok := r.(ssa.Value); ok {
					flow(rv, depth, seen, out)
				}
			}
		}
	}
	n := 0
	var carried []string
	for _, f := range c.P.ModuleFuncs() {
		top := f
		for top.Parent() != nil {
			top = top.Parent()
		}
		if top.Pkg != ppk {
			continue
		}
		for _, b := range f.Blocks {
			for _, ins := range b.Instrs {
				ld, ok := ins.(*ssa.UnOp)
				if !ok || ld.Op != token.MUL {
					continue
				}
				var rootField *ssa.FieldAddr
				for a := ld.X; ; {
					x, ok := a.(*ssa.FieldAddr)
					if !ok {
						break
					}
					rootField = x
					a = x.X
				}
				if rootField == nil || !typeHasSuffix(rootField.X.Type().Underlying().(*types.Pointer).Elem(), "parser.Parser") {
					continue
				}
				ft := rootField.Type().Underlying().(*types.Pointer).Elem()
				fts := types.TypeString(ft, nil)
				if strings.HasSuffix(fts, "parser.Token") || strings.HasSuffix(fts, "parser.Lexer") || strings.HasSuffix(fts, "parser.ParseError") {
					continue
				}
				n++
				name := fieldVarOfAddr(rootField).Name()
				var hits []hit
				flow(ld, 0, map[ssa.Value]bool{}, &hits)
				_, isInt := ft.Underlying().(*types.Basic)
				for _, h := range hits {
					if h.date && isInt {
						carried = append(carried, name+" -> "+h.target)
						continue
					}
					c.finding("P-STATE", funcName(h.fn), "syntax-tree value "+h.target+" does not depend on parser state "+name, h.pos,
						"the value stored into "+h.target+" comes from the parser field "+name+", which is set while another entry is parsed: the structure recorded for an entry is no longer determined by the entry's own text (a bare amount silently gets a commodity, an account a prefix, ...)")
				}
			}
		}
	}
	sort.Strings(carried)
	c.note("parser state carried between entries: %s", strings.Join(carried, ", "))
	c.census("P-STATE", "reads of parser state other than the current token", n, 1)
}

// ruleGroupingSign (N-GROUP): digit grouping works on digits only.  Where the formatter cuts the textual form of
// a decimal quantity (String / StringFixed) at positions computed from its length - to insert group marks - the
// text has had its sign removed first (a "-" prefix test with the prefix cut off, TrimPrefix / CutPrefix, or the
// absolute value rendered).  Otherwise the minus sign is counted as a digit and a mark lands right after it
// for numbers of 3, 6, 9 ... integer digits ("-,500.00"), which no longer parses as a number.
func ruleGroupingSign(c *Ctx) {
	fpk := c.P.SSAPkg("internal/formatter")
	ci := buildConc(c)
	isDecimalText := func(v ssa.Value) bool {
		call, ok := v.(*ssa.Call)
		if !ok {
			return false
		}
		cal := call.Call.StaticCallee()
		return cal != nil && cal.Pkg != nil && cal.Pkg.Pkg.Path() == decimalPkg && (cal.Name() == "String" || cal.Name() == "StringFixed" || cal.Name() == "StringFixedBank")
	}
	n := 0
	for _, f := range c.P.ModuleFuncs() {
		top := f
		for top.Parent() != nil {
			top = top.Parent()
		}
		if top.Pkg != fpk {
			continue
		}
		for _, b := range f.Blocks {
			for _, ins := range b.Instrs {
				sl, ok := ins.(*ssa.Slice)
				if !ok || types.TypeString(sl.X.Type().Underlying(), nil) != "string" {
					continue
				}
				// a cut at a position computed from a length (or a loop index), not at a found separator
				positional := false
				for _, bound := range []ssa.Value{sl.Low, sl.High} {
					if bound == nil {
						continue
					}
					if k, isConst := bound.(*ssa.Const); isConst && k.Value != nil {
						continue
					}
					for v := range backSlice(bound) {
						if call, ok := v.(*ssa.Call); ok {
							if bi, ok := call.Call.Value.(*ssa.Builtin); ok && bi.Name() == "len" {
								positional = true
							}
						}
						if bin, ok := v.(*ssa.BinOp); ok && (bin.Op == token.REM || bin.Op == token.QUO) {
							positional = true
						}
					}
				}
				if !positional {
					continue
				}
				xs := sliceUp(ci, sl.X, f)
				fromDecimal := false
				for v := range xs {
					if isDecimalText(v) {
						fromDecimal = true
					}
				}
				if !fromDecimal {
					continue
				}
				n++
				signOff := false
				for v := range xs {
					switch x := v.(type) {
					case *ssa.Call:
						cal := x.Call.StaticCallee()
						if cal == nil {
							continue
						}
						switch funcName(cal) {
						case "strings.TrimPrefix", "strings.CutPrefix", "strings.TrimLeft":
							if len(x.Call.Args) == 2 {
								if s, ok := constString(x.Call.Args[1]); ok && strings.Contains(s, "-") {
									signOff = true
								}
							}
						}
						if cal.Pkg != nil && cal.Pkg.Pkg.Path() == decimalPkg && cal.Name() == "Abs" {
							signOff = true
						}
					case *ssa.Slice:
						// s[1:] behind a test for the "-" prefix
						if k, ok := x.Low.(*ssa.Const); ok && k.Value != nil && k.Int64() == 1 && x.High == nil {
							for _, cc := range controlCondsPol(x.Block()) {
								for w := range backSlice(cc.Cond) {
									if call, ok := w.(*ssa.Call); ok {
										if cal := call.Call.StaticCallee(); cal != nil && funcName(cal) == "strings.HasPrefix" && len(call.Call.Args) == 2 {
											if s, ok := constString(call.Call.Args[1]); ok && s == "-" {
												signOff = true
											}
										}
									}
									if ix, ok := w.(*ssa.Index); ok {
										_ = ix
										signOff = true // s[0] == '-'
									}
								}
							}
						}
					}
				}
				c.check(signOff, "N-GROUP", funcName(f), "digits are grouped after the sign has been removed", sl.Pos(),
					"the text that is cut into groups had its minus sign taken off first",
					"the textual form of a quantity is cut at positions computed from its length without removing the minus sign first: the sign is counted as a digit and a group mark lands right after it (-,500.00), which does not parse as a number any more")
			}
		}
	}
	c.census("N-GROUP", "positional cuts of a quantity's text in the formatter", n, 1)
}

// localPath: the path of field indices / constant element indices from the root allocation to the address
// ("?" for a non-constant index).
func localPath(a ssa.Value) []string {
	var path []string
	for {
		switch x := a.(type) {
		case *ssa.FieldAddr:
			path = append([]string{fmt.Sprintf("f%d", x.Field)}, path...)
			a = x.X
			continue
		case *ssa.IndexAddr:
			idx := "?"
			if k, ok := x.Index.(*ssa.Const); ok && k.Value != nil {
				idx = "i" + k.Value.ExactString()
			}
			path = append([]string{idx}, path...)
			a = x.X
			continue
		}
		return path
	}
}

// pathsOverlap: one path is a prefix of the other (an unknown index matches any index).
func pathsOverlap(a, b []string) bool {
	for i := 0; i < len(a) && i < len(b); i++ {
		if a[i] != b[i] && a[i] != "?" && b[i] != "?" {
			return false
		}
	}
	return true
}

// sliceStorageOrigin: where the memory behind a slice value comes from, following the operations that keep the
// backing array (re-slicing, append to it, phi, conversions, helpers that return such a value): "" when every
// origin is fresh (make, a literal, nil, a copying call), otherwise a description of the long-lived origin.
func sliceStorageOrigin(v ssa.Value, stack []*ssa.Call, depth int, seen map[ssa.Value]bool) string {
	if v == nil || seen[v] || depth > 6 {
		return ""
	}
	seen[v] = true
	switch x := v.(type) {
	case *ssa.Phi:
		for _, e := range x.Edges {
			if w := sliceStorageOrigin(e, stack, depth, seen); w != "" {
				return w
			}
		}
	case *ssa.Slice:
		return sliceStorageOrigin(x.X, stack, depth, seen)
	case *ssa.ChangeType:
		return sliceStorageOrigin(x.X, stack, depth, seen)
	case *ssa.Convert:
		return sliceStorageOrigin(x.X, stack, depth, seen)
	case *ssa.Parameter:
		if n := len(stack); n > 0 {
			call := stack[n-1]
			if cal := call.Call.StaticCallee(); cal != nil {
				for i, p := range cal.Params {
					if p == x && i < len(call.Call.Args) {
						return sliceStorageOrigin(call.Call.Args[i], stack[:n-1], depth+1, seen)
					}
				}
			}
		}
	case *ssa.UnOp:
		if x.Op != token.MUL {
			return ""
		}
		switch a := x.X.(type) {
		case *ssa.FieldAddr:
			if _, local := a.X.(*ssa.Alloc); local {
				// a field of a local struct value: what was stored there
				stores := map[string][]ssa.Value{}
				collectFieldStores(a.X, "", stores, 0)
				for _, sv := range stores["."+fieldVarOfAddr(a).Name()] {
					if w := sliceStorageOrigin(sv, stack, depth+1, seen); w != "" {
						return w
					}
				}
				return ""
			}
			return "the field " + fieldVarOfAddr(a).Name() + " (a buffer that outlives the call)"
		case *ssa.Global:
			return "the package variable " + a.Name()
		case *ssa.Alloc:
			for _, r := range *a.Referrers() {
				if st, ok := r.(*ssa.Store); ok && st.Addr == ssa.Value(a) {
					if w := sliceStorageOrigin(st.Val, stack, depth, seen); w != "" {
						return w
					}
				}
			}
		}
	case *ssa.Call:
		if bi, ok := x.Call.Value.(*ssa.Builtin); ok {
			if bi.Name() == "append" && len(x.Call.Args) > 0 {
				return sliceStorageOrigin(x.Call.Args[0], stack, depth, seen) // grows (or reuses) the first argument's array
			}
			return ""
		}
		cal := x.Call.StaticCallee()
		if cal == nil || !inModule(cal) || cal.Blocks == nil {
			return "" // library calls that return slices (slices.Clone, bytes, ...) allocate
		}
		for _, b := range cal.Blocks {
			if r, ok := b.Instrs[len(b.Instrs)-1].(*ssa.Return); ok {
				for _, rv := range r.Results {
					if _, isSlice := rv.Type().Underlying().(*types.Slice); !isSlice {
						continue
					}
					if w := sliceStorageOrigin(unspillResult(rv, b), append(append([]*ssa.Call{}, stack...), x), depth+1, seen); w != "" {
						return w
					}
				}
			}
		}
	}
	return ""
}

// ruleChangeApplied (C01-APPLY): a change notification for an open document is always applied.  The store of the
// new text into the document store is control dependent only on the notification and on the document store
// itself (is the document open, is the stored value a text) - never on other state the server keeps (a record of
// version numbers, a "recently seen" set, a flag): such a gate outlives the situation it was written for
// (a document that is closed and opened again restarts its version numbers) and silently drops edits.
func ruleChangeApplied(c *Ctx) {
	h, _, store, docField := changeHandler(c.P)
	if h == nil || store == nil {
		c.undecided("C01-APPLY", "server", "change handler", token.NoPos, "the handler that folds content changes into the document store was not found")
		return
	}
	cg := cgView{c}
	bad := ""
	// conditions of the store and of the call sites between it and the handler
	blks := []*ssa.BasicBlock{store.Block()}
	for f, depth := store.Parent(), 0; f != h && depth < 3; depth++ {
		sites := cg.callersOf(f)
		if len(sites) != 1 {
			break
		}
		blks = append(blks, sites[0].Block())
		f = sites[0].Parent()
	}
	for _, b := range blks {
		for _, cc := range controlDeps(b) {
			sl := map[ssa.Value]bool{}
			sliceWithControl(cc.Cond, 0, sl)
			for v := range sl {
				fa, ok := v.(*ssa.FieldAddr)
				if !ok || !typeHasSuffix(fa.X.Type().Underlying().(*types.Pointer).Elem(), "server.Server") {
					continue
				}
				if fk := fieldKey(fa.X.Type(), fa.Field); fk != docField {
					bad = fk + " (condition at " + c.P.pos(cc.Cond.Pos()) + ")"
				}
			}
		}
	}
	c.check(bad == "", "C01-APPLY", funcName(h), "a change to an open document is applied whatever else the server remembers", store.Pos(),
		"the store of the new text depends on the notification and the document store only",
		"whether a change notification is applied depends on server state other than the document store: "+bad+" - a gate on remembered versions or flags outlives the document's lifetime (close / re-open) and silently drops edits, so the server's text falls behind the client's")
	c.census("C01-APPLY", "stores of a changed text into the document store", 1, 1)
}

// ruleDiagnosticsOnlyGrow (B-ALL): every diagnostic the per-transaction checks produce reaches the analysis
// result: the Diagnostics list of an AnalysisResult is only ever extended (`append(result.Diagnostics, ...)`) or
// initialised - never replaced by a function of itself (a de-duplication, a filter, a cap).  Identical messages on
// different transactions are different findings.
func ruleDiagnosticsOnlyGrow(c *Ctx) {
	apk := c.P.SSAPkg("internal/analyzer")
	n := 0
	for _, f := range c.P.ModuleFuncs() {
		top := f
		for top.Parent() != nil {
			top = top.Parent()
		}
		if top.Pkg != apk {
			continue
		}
		for _, b := range f.Blocks {
			for _, ins := range b.Instrs {
				st, ok := ins.(*ssa.Store)
				if !ok {
					continue
				}
				fa, ok := st.Addr.(*ssa.FieldAddr)
				if !ok || !typeHasSuffix(fa.X.Type().Underlying().(*types.Pointer).Elem(), "analyzer.AnalysisResult") || fieldVarOfAddr(fa).Name() != "Diagnostics" {
					continue
				}
				n++
				// accepted: the field's current value extended by appends (directly, through locals, or through helpers
				// that only append to the list they are handed), or a fresh list
				okStore := growsOnly(st.Val, fieldVarOfAddr(fa), nil, 0, map[ssa.Value]bool{})
				c.check(okStore, "B-ALL", funcName(f), "the result's diagnostics are only extended", st.Pos(),
					"the list is extended in place (append to its current value) or initialised",
					"the diagnostics of the analysis result are replaced by a function of themselves (a filter, a de-duplication, a cap): findings of later transactions that look like earlier ones (the same residual, 'multiple postings without amounts') are dropped and an unbalanced transaction is published as clean")
			}
		}
	}
	c.census("B-ALL", "stores into AnalysisResult.Diagnostics", n, 2)
}

// growsOnly: the slice value is the current value of field fv, or a fresh list, extended only by appends - no
// re-slicing, no call that builds the list in another way.
var growsOnlyCarriers = map[*types.Var]bool{}

func growsOnly(v ssa.Value, fv *types.Var, stack []*ssa.Call, depth int, seen map[ssa.Value]bool) bool {
	if v == nil || depth > 8 {
		return false
	}
	if seen[v] {
		return true
	}
	seen[v] = true
	switch x := v.(type) {
	case *ssa.Const:
		return x.IsNil()
	case *ssa.MakeSlice:
		return true
	case *ssa.Slice:
		if al, fresh := x.X.(*ssa.Alloc); fresh {
			_, isArr := al.Type().Underlying().(*types.Pointer).Elem().Underlying().(*types.Array)
			return isArr // a literal
		}
		return false // a re-slice drops or hides elements
	case *ssa.Phi:
		for _, e := range x.Edges {
			if !growsOnly(e, fv, stack, depth, seen) {
				return false
			}
		}
		return true
	case *ssa.ChangeType:
		return growsOnly(x.X, fv, stack, depth, seen)
	case *ssa.Parameter:
		if n := len(stack); n > 0 {
			call := stack[n-1]
			if cal := call.Call.StaticCallee(); cal != nil {
				for i, p := range cal.Params {
					if p == x && i < len(call.Call.Args) {
						return growsOnly(call.Call.Args[i], fv, stack[:n-1], depth+1, seen)
					}
				}
			}
		}
		// no context: every call site of the function
		if curProg != nil {
			sites := (cgView{&Ctx{P: curProg}}).callersOf(x.Parent())
			if len(sites) == 0 {
				return false
			}
			for _, site := range sites {
				for i, p := range x.Parent().Params {
					if p == x && i < len(site.Common().Args) {
						if !growsOnly(site.Common().Args[i], fv, nil, depth+1, seen) {
							return false
						}
					}
				}
			}
			return true
		}
		return false
	case *ssa.UnOp:
		if x.Op != token.MUL {
			return false
		}
		switch a := x.X.(type) {
		case *ssa.FieldAddr:
			g := fieldVarOfAddr(a)
			if g == fv || growsOnlyCarriers[g] {
				return true
			}
			// another field that carries the list for a while (a report object's `diags`): every store into it, in
			// any function, must itself only extend the list
			if curProg == nil || !types.Identical(g.Type(), fv.Type()) {
				return false
			}
			growsOnlyCarriers[g] = true
			defer delete(growsOnlyCarriers, g)
			n := 0
			for _, h := range curProg.ModuleFuncs() {
				for _, b := range h.Blocks {
					for _, ins := range b.Instrs {
						st, ok := ins.(*ssa.Store)
						if !ok {
							continue
						}
						if fa2, ok := st.Addr.(*ssa.FieldAddr); ok && fieldVarOfAddr(fa2) == g {
							n++
							// a store in another function starts a new context: its parameters are followed to its call sites
							if !growsOnly(st.Val, fv, nil, depth+1, map[ssa.Value]bool{}) {
								return false
							}
						}
					}
				}
			}
			return n > 0
		case *ssa.Alloc:
			n := 0
			for _, r := range *a.Referrers() {
				if st, ok := r.(*ssa.Store); ok && st.Addr == ssa.Value(a) {
					n++
					if !growsOnly(st.Val, fv, stack, depth, seen) {
						return false
					}
				}
			}
			return n > 0
		}
		return false
	case *ssa.Call:
		if bi, ok := x.Call.Value.(*ssa.Builtin); ok {
			return bi.Name() == "append" && len(x.Call.Args) > 0 && growsOnly(x.Call.Args[0], fv, stack, depth, seen)
		}
		cal := x.Call.StaticCallee()
		if cal == nil || !inModule(cal) || cal.Blocks == nil || cal.Signature.Results().Len() != 1 {
			return false
		}
		n := 0
		for _, b := range cal.Blocks {
			if r, ok := b.Instrs[len(b.Instrs)-1].(*ssa.Return); ok {
				n++
				if !growsOnly(unspillResult(r.Results[0], b), fv, append(append([]*ssa.Call{}, stack...), x), depth+1, seen) {
					return false
				}
			}
		}
		return n > 0
	}
	return false
}

// ruleDecimalDivision (D-DIVZERO): a decimal division (Div, DivRound, QuoRem, Mod and their variants panic on a
// zero divisor - nothing in the server recovers) is only reached behind a test of the divisor (IsZero, Sign,
// Cmp, Equal, ...), in the function or, the divisor being a parameter, at every call site.  The census has no
// floor: the current tree does not divide decimals at all.
func ruleDecimalDivision(c *Ctx) {
	cg := cgView{c}
	isDiv := map[string]bool{"Div": true, "DivRound": true, "QuoRem": true, "Mod": true, "DivRoundBank": true}
	isTest := map[string]bool{"IsZero": true, "Sign": true, "Cmp": true, "Equal": true, "Equals": true, "IsPositive": true, "IsNegative": true, "GreaterThan": true, "LessThan": true, "GreaterThanOrEqual": true, "LessThanOrEqual": true}
	roots := func(v ssa.Value) map[ssa.Value]bool {
		out := map[ssa.Value]bool{}
		isDec := func(t types.Type) bool {
			if pt, ok := t.Underlying().(*types.Pointer); ok {
				t = pt.Elem()
			}
			return types.TypeString(t, nil) == decimalPkg+".Decimal"
		}
		for w := range backSlice(v) {
			switch w.(type) {
			case *ssa.FieldAddr, *ssa.Parameter, *ssa.Field:
				if isDec(w.Type()) {
					out[w] = true // the decimal itself, not the structure it sits in
				}
			}
		}
		return out
	}
	var tested func(b *ssa.BasicBlock, div ssa.Value, depth int) bool
	tested = func(b *ssa.BasicBlock, div ssa.Value, depth int) bool {
		dr := roots(div)
		for _, cc := range controlCondsPol(b) {
			for w := range backSlice(cc.Cond) {
				call, ok := w.(*ssa.Call)
				if !ok {
					continue
				}
				cal := call.Call.StaticCallee()
				if cal == nil || cal.Pkg == nil || cal.Pkg.Pkg.Path() != decimalPkg || !isTest[cal.Name()] || len(call.Call.Args) == 0 {
					continue
				}
				for r := range roots(call.Call.Args[0]) {
					if dr[r] {
						return true
					}
					for d := range dr {
						if fa, ok := r.(*ssa.FieldAddr); ok {
							if fb, ok := d.(*ssa.FieldAddr); ok && sameAddr(fa, fb, 0) {
								return true
							}
						}
					}
				}
			}
		}
		// the divisor comes in through a parameter: every call site tests it
		f := b.Parent()
		if depth < 2 {
			for p := range dr {
				prm, ok := p.(*ssa.Parameter)
				if !ok || prm.Parent() != f {
					continue
				}
				sites := cg.callersOf(f)
				if len(sites) == 0 {
					continue
				}
				all := true
				for _, site := range sites {
					for i, q := range f.Params {
						if q == prm && i < len(site.Common().Args) {
							if !tested(site.Block(), site.Common().Args[i], depth+1) {
								all = false
							}
						}
					}
				}
				if all {
					return true
				}
			}
		}
		return false
	}
	n := 0
	for _, f := range c.P.ModuleFuncs() {
		for _, b := range f.Blocks {
			for _, ins := range b.Instrs {
				call, ok := ins.(*ssa.Call)
				if !ok {
					continue
				}
				cal := call.Call.StaticCallee()
				if cal == nil || cal.Pkg == nil || cal.Pkg.Pkg.Path() != decimalPkg || !isDiv[cal.Name()] || len(call.Call.Args) < 2 {
					continue
				}
				n++
				c.check(tested(b, call.Call.Args[1], 0), "D-DIVZERO", funcName(f), "decimal "+cal.Name()+" behind a test of its divisor", call.Pos(),
					"the division is only reached after the divisor was tested",
					"a decimal "+cal.Name()+" is reached without a test of its divisor: a zero quantity (`0 AAA @@ 5 USD`) makes it panic with 'decimal division by 0', and nothing in the server recovers - the process dies")
			}
		}
	}
	c.census("D-DIVZERO", "decimal divisions in module code", n, 0)
}

// ruleAllSitesOfPosting (T9-ALL): a commodity can occur up to three times in one posting (amount, cost, balance
// assertion).  Where the reference collector walks over the commodities of a posting, a match does not end the
// walk: the loop over them has no `return` and no `break`, and a function that looks at the sites one after the
// other does not return between them.  (One location per posting is right for accounts, not for commodities:
// `10 EUR = 110 EUR` names EUR twice, and rename must change both.)
func ruleAllSitesOfPosting(c *Ctx) {
	fd := commodityReferenceCollector(c.P)
	if fd == nil {
		c.undecided("T9-ALL", "server", "commodity reference collector", token.NoPos, "function not found")
		return
	}
	pk := c.P.pkgOf[fd]
	// the collector, the functions of its package it calls (two levels), function literals included
	region := []*ast.FuncDecl{fd}
	seen := map[*ast.FuncDecl]bool{fd: true}
	for i := 0; i < len(region) && i < 12; i++ {
		info := c.P.InfoFor(region[i])
		ast.Inspect(region[i].Body, func(n ast.Node) bool {
			if call, ok := n.(*ast.CallExpr); ok {
				if o, ok := calleeOf(info, call).(*types.Func); ok {
					if d := c.P.declOf[o]; d != nil && d.Body != nil && c.P.pkgOf[d] == pk && !seen[d] {
						seen[d] = true
						region = append(region, d)
					}
				}
			}
			return true
		})
	}
	isCommodityList := func(t types.Type) bool {
		sl, ok := t.Underlying().(*types.Slice)
		if !ok {
			return false
		}
		et := sl.Elem()
		if pt, ok := et.Underlying().(*types.Pointer); ok {
			et = pt.Elem()
		}
		return typeHasSuffix(et, "ast.Commodity") || typeHasSuffix(et, "ast.Amount")
	}
	n := 0
	for _, d := range region {
		info := c.P.InfoFor(d)
		ast.Inspect(d.Body, func(x ast.Node) bool {
			rs, ok := x.(*ast.RangeStmt)
			if !ok {
				return true
			}
			t := info.TypeOf(rs.X)
			if t == nil || !isCommodityList(t) {
				return true
			}
			n++
			exit := token.NoPos
			var walk func(node ast.Node, inInner bool)
			walk = func(node ast.Node, inInner bool) {
				ast.Inspect(node, func(y ast.Node) bool {
					switch s := y.(type) {
					case *ast.FuncLit:
						return false
					case *ast.IfStmt:
						// the iterator protocol: `if ... && !yield(x) { return }` stops because the consumer asked to
						stops := false
						ast.Inspect(s.Cond, func(z ast.Node) bool {
							if u, ok := z.(*ast.UnaryExpr); ok && u.Op == token.NOT {
								if call, ok := ast.Unparen(u.X).(*ast.CallExpr); ok {
									if id, ok := ast.Unparen(call.Fun).(*ast.Ident); ok {
										if v, ok := info.Uses[id].(*types.Var); ok {
											if sig, ok := v.Type().Underlying().(*types.Signature); ok && sig.Results().Len() == 1 && types.TypeString(sig.Results().At(0).Type(), nil) == "bool" {
												stops = true
											}
										}
									}
								}
							}
							return true
						})
						if stops && len(s.Body.List) == 1 {
							if _, isRet := s.Body.List[0].(*ast.ReturnStmt); isRet {
								if s.Else != nil {
									walk(s.Else, inInner)
								}
								return false
							}
						}
					case *ast.ReturnStmt:
						exit = s.Pos()
					case *ast.BranchStmt:
						if s.Tok == token.BREAK && !inInner && s.Label == nil {
							exit = s.Pos()
						}
						if s.Tok == token.BREAK && s.Label != nil {
							exit = s.Pos()
						}
					case *ast.ForStmt, *ast.RangeStmt, *ast.SwitchStmt, *ast.TypeSwitchStmt, *ast.SelectStmt:
						if y != node {
							var body *ast.BlockStmt
							switch z := y.(type) {
							case *ast.ForStmt:
								body = z.Body
							case *ast.RangeStmt:
								body = z.Body
							case *ast.SwitchStmt:
								body = z.Body
							case *ast.TypeSwitchStmt:
								body = z.Body
							case *ast.SelectStmt:
								body = z.Body
							}
							walk(body, true)
							return false
						}
					}
					return true
				})
			}
			walk(rs.Body, false)
			c.check(exit == token.NoPos, "T9-ALL", c.P.declName(d), "every commodity of a posting is looked at", rs.Pos(),
				"the walk over the posting's commodities runs to its end",
				"the walk over the commodities of a posting stops at the first match ("+c.P.pos(exit)+"): a commodity that occurs twice in one posting (amount and balance assertion, amount and cost) is found once - references miss the second occurrence and rename leaves it with the old name")
			return true
		})
	}
	c.census("T9-ALL", "walks over the commodities of a posting in the reference collector", n, 0)
}

// ruleTreeReadOnly (AST-RO): the syntax tree is read-only for everything that consumes it.  Outside the parser,
// no `append` uses as its destination a re-slice (`x[:0]`, `x[:n]`) of a slice that is stored in a syntax-tree
// node (tx.Postings, journal.Transactions, ...) - directly or received through parameters: such an append
// overwrites the node's elements in place, and every later reader of the same transaction (the undeclared
// checks after the balance check, the next request) sees postings duplicated or missing.
func ruleTreeReadOnly(c *Ctx) {
	cg := cgView{c}
	isASTField := func(v ssa.Value) string {
		ld, ok := v.(*ssa.UnOp)
		if !ok || ld.Op != token.MUL {
			return ""
		}
		fa, ok := ld.X.(*ssa.FieldAddr)
		if !ok {
			return ""
		}
		bt := fa.X.Type().Underlying().(*types.Pointer).Elem()
		if !strings.Contains(types.TypeString(bt, nil), "/internal/ast.") {
			return ""
		}
		return shortQual(types.TypeString(bt, nil)) + "." + fieldVarOfAddr(fa).Name()
	}
	var origin func(v ssa.Value, f *ssa.Function, depth int, seen map[ssa.Value]bool) string
	origin = func(v ssa.Value, f *ssa.Function, depth int, seen map[ssa.Value]bool) string {
		if v == nil || seen[v] || depth > 4 {
			return ""
		}
		seen[v] = true
		if w := isASTField(v); w != "" {
			return w
		}
		switch x := v.(type) {
		case *ssa.Slice:
			return origin(x.X, f, depth, seen)
		case *ssa.Phi:
			for _, e := range x.Edges {
				if w := origin(e, f, depth, seen); w != "" {
					return w
				}
			}
		case *ssa.ChangeType:
			return origin(x.X, f, depth, seen)
		case *ssa.Field:
			if strings.Contains(types.TypeString(x.X.Type(), nil), "/internal/ast.") {
				if st, ok := x.X.Type().Underlying().(*types.Struct); ok {
					return shortQual(types.TypeString(x.X.Type(), nil)) + "." + st.Field(x.Field).Name()
				}
			}
		case *ssa.Parameter:
			for _, site := range cg.callersOf(x.Parent()) {
				for i, q := range x.Parent().Params {
					if q == x && i < len(site.Common().Args) {
						if w := origin(site.Common().Args[i], site.Parent(), depth+1, seen); w != "" {
							return w
						}
					}
				}
			}
		case *ssa.UnOp:
			if al, ok := x.X.(*ssa.Alloc); ok && x.Op == token.MUL {
				for _, r := range *al.Referrers() {
					if st, ok := r.(*ssa.Store); ok && st.Addr == ssa.Value(al) {
						if w := origin(st.Val, f, depth, seen); w != "" {
							return w
						}
					}
				}
			}
		}
		return ""
	}
	n := 0
	for _, f := range c.P.ModuleFuncs() {
		top := f
		for top.Parent() != nil {
			top = top.Parent()
		}
		if top.Pkg == nil || strings.HasSuffix(top.Pkg.Pkg.Path(), "/parser") || strings.HasSuffix(top.Pkg.Pkg.Path(), "/ast") {
			continue
		}
		for _, b := range f.Blocks {
			for _, ins := range b.Instrs {
				call, ok := ins.(*ssa.Call)
				if !ok {
					continue
				}
				bi, ok := call.Call.Value.(*ssa.Builtin)
				if !ok || bi.Name() != "append" || len(call.Call.Args) == 0 {
					continue
				}
				// the destination, through the loop-carried variable, back to a re-slice
				var reslice *ssa.Slice
				seenD := map[ssa.Value]bool{}
				var find func(v ssa.Value, depth int)
				find = func(v ssa.Value, depth int) {
					if v == nil || seenD[v] || depth > 4 || reslice != nil {
						return
					}
					seenD[v] = true
					switch x := v.(type) {
					case *ssa.Slice:
						if _, isArr := x.X.Type().Underlying().(*types.Pointer); !isArr {
							reslice = x
						}
					case *ssa.Phi:
						for _, e := range x.Edges {
							find(e, depth+1)
						}
					case *ssa.Call:
						if b2, ok := x.Call.Value.(*ssa.Builtin); ok && b2.Name() == "append" && len(x.Call.Args) > 0 {
							find(x.Call.Args[0], depth+1)
						}
					}
				}
				find(call.Call.Args[0], 0)
				if reslice == nil {
					continue
				}
				n++
				w := origin(reslice.X, f, 0, map[ssa.Value]bool{})
				c.check(w == "", "AST-RO", funcName(f), "no append into the storage of a syntax-tree slice", call.Pos(),
					"the re-sliced destination is not a slice held by a syntax-tree node",
					"an append writes into a re-slice of "+w+" (the syntax tree's own storage): the node's elements are overwritten in place, so later readers of the same node - the checks that run after this one, the next request - see elements duplicated or missing")
			}
		}
	}
	c.census("AST-RO", "appends into a re-slice outside the parser", n, 0)
	// ... and no element of a slice held by a syntax-tree node is assigned to outside the parser: the trees are
	// shared (the include loader's cache, the workspace's resolved tree, the analysis that runs next), so
	// `tx.Postings[i].Amount = inferred` changes what every later reader of that file sees.
	nSt := 0
	for _, f := range c.P.ModuleFuncs() {
		top := f
		for top.Parent() != nil {
			top = top.Parent()
		}
		if top.Pkg == nil || strings.HasSuffix(top.Pkg.Pkg.Path(), "/parser") || strings.HasSuffix(top.Pkg.Pkg.Path(), "/ast") || strings.HasSuffix(top.Pkg.Pkg.Path(), "/testutil") {
			continue
		}
		for _, b := range f.Blocks {
			for _, ins := range b.Instrs {
				st, ok := ins.(*ssa.Store)
				if !ok {
					continue
				}
				// walk the address down to an element of a slice
				addr := st.Addr
				w := ""
				for d := 0; d < 8 && w == ""; d++ {
					switch a := addr.(type) {
					case *ssa.FieldAddr:
						addr = a.X
						continue
					case *ssa.IndexAddr:
						if _, isSlice := a.X.Type().Underlying().(*types.Slice); isSlice {
							w = origin(a.X, f, 0, map[ssa.Value]bool{})
						}
						addr = a.X
						continue
					case *ssa.Phi:
						// p := &xs[i] chosen on several paths
						for _, e := range a.Edges {
							if ia, ok := e.(*ssa.IndexAddr); ok {
								if _, isSlice := ia.X.Type().Underlying().(*types.Slice); isSlice {
									if o := origin(ia.X, f, 0, map[ssa.Value]bool{}); o != "" {
										w = o
									}
								}
							}
						}
					}
					break
				}
				if _, isIdx := st.Addr.(*ssa.IndexAddr); !isIdx {
					if _, isFld := st.Addr.(*ssa.FieldAddr); !isFld {
						continue
					}
				}
				nSt++
				if w != "" {
					c.finding("AST-RO", funcName(f), "no store into an element of a syntax-tree slice", st.Pos(),
						"an element of "+w+" (storage owned by the syntax tree) is assigned to outside the parser: the tree is shared with the include cache, the workspace and the checks that run next, so every later reader of that file sees the modified node - answers depend on which requests were served before")
				}
			}
		}
	}
	c.note("AST-RO: %d field/element stores outside the parser examined", nSt)
}

// ruleWorkspaceReadsDisk (C12-DISK): the workspace's incremental update path (everything but Initialize) takes
// the text of a file from its caller or from disk - never through the include loader's per-file parse cache.
// The cache is invalidated by the server when a document changes; a file that was rewritten while it was not
// part of the tree is not invalidated on that path, so a cached parse that the update path picks up later can
// be older than the file: the incremental view then differs from a rebuild.
func ruleWorkspaceReadsDisk(c *Ctx) {
	wpk := c.P.SSAPkg("internal/workspace")
	ci := buildConc(c)
	readsCache := func(root *ssa.Function) bool {
		for g := range Reach(ci.g, []*ssa.Function{root}, true) {
			for _, b := range g.Blocks {
				for _, ins := range b.Instrs {
					if lk, ok := ins.(*ssa.Lookup); ok {
						if ld, ok := lk.X.(*ssa.UnOp); ok {
							if fa, ok := ld.X.(*ssa.FieldAddr); ok && typeHasSuffix(fa.X.Type().Underlying().(*types.Pointer).Elem(), "include.Loader") {
								if _, isMap := lk.X.Type().Underlying().(*types.Map); isMap {
									return true
								}
							}
						}
					}
				}
			}
		}
		return false
	}
	n := 0
	for _, f := range c.P.ModuleFuncs() {
		top := f
		for top.Parent() != nil {
			top = top.Parent()
		}
		if top.Pkg != wpk || ci.initFns[top] {
			continue
		}
		for _, b := range f.Blocks {
			for _, ins := range b.Instrs {
				call, ok := ins.(*ssa.Call)
				if !ok {
					continue
				}
				cal := call.Call.StaticCallee()
				if cal == nil || cal.Signature.Recv() == nil || !typeHasSuffix(cal.Signature.Recv().Type(), "include.Loader") {
					continue
				}
				// a full load of the tree (the result is a resolved tree) is the rebuild itself
				fullLoad := false
				for i := 0; i < cal.Signature.Results().Len(); i++ {
					if typeHasSuffix(cal.Signature.Results().At(i).Type(), "include.ResolvedJournal") {
						fullLoad = true
					}
				}
				if fullLoad {
					continue
				}
				n++
				c.check(!readsCache(cal), "C12-DISK", funcName(f), "the update path does not read through the loader's parse cache", call.Pos(),
					"the loader method called here does not look a file up in the per-file cache",
					"the workspace's update path obtains a file through "+funcName(cal)+", which answers from the include loader's parse cache: a file that was rewritten while it was not part of the tree is not invalidated there, so the workspace indexes an older text than the one on disk and its view differs from a rebuild")
			}
		}
	}
	c.census("C12-DISK", "loader calls on the workspace's update path", n, 0)
}

// ruleAnalysisFromAnalyzer (I-SOURCE): what completion (and every other feature) reads as "the analysis" of the
// journals is produced by the analyzer from the syntax trees.  An analyzer.AnalysisResult is only ever
// constructed inside package analyzer; assembling one elsewhere (from the workspace index, from a cache) feeds the
// features from a source with a different notion of what exists - the index lists names by use, so accounts and
// commodities that are only declared are never offered.
func ruleAnalysisFromAnalyzer(c *Ctx) {
	n := 0
	for _, f := range c.P.ModuleFuncs() {
		top := f
		for top.Parent() != nil {
			top = top.Parent()
		}
		inAnalyzer := top.Pkg != nil && strings.HasSuffix(top.Pkg.Pkg.Path(), "/internal/analyzer")
		for _, b := range f.Blocks {
			for _, ins := range b.Instrs {
				al, ok := ins.(*ssa.Alloc)
				if !ok || !typeHasSuffix(al.Type().Underlying().(*types.Pointer).Elem(), "analyzer.AnalysisResult") {
					continue
				}
				// a construction: some field is stored
				stores := map[string][]ssa.Value{}
				collectFieldStores(al, "", stores, 0)
				if len(stores) == 0 {
					continue
				}
				n++
				c.check(inAnalyzer, "I-SOURCE", funcName(f), "analysis results are produced by the analyzer", al.Pos(),
					"constructed in package analyzer",
					"an analyzer.AnalysisResult is assembled outside the analyzer: the features that read it (completion candidates and their counts) no longer see what the analyzer derives from the syntax trees - names that are declared but not yet used are missing")
			}
		}
	}
	c.census("I-SOURCE", "constructions of an analysis result", n, 1)
}

// ruleResolvedTreeReadOnly (TREE-RO): the features answer from the include tree they are handed (by the loader
// or by the workspace, as a snapshot); they never narrow or rewrite it.  In package server there is no delete
// from, update of or assignment to the Files / FileOrder / Primary of an include.ResolvedJournal: a tree with
// files removed "because the index does not mention the symbol" silently loses the occurrences the index does not
// list (commodities of balance assertions, ...).
func ruleResolvedTreeReadOnly(c *Ctx) {
	spk := c.P.SSAPkg("internal/server")
	treeField := func(addr ssa.Value) string {
		fa, ok := addr.(*ssa.FieldAddr)
		if !ok || !typeHasSuffix(fa.X.Type().Underlying().(*types.Pointer).Elem(), "include.ResolvedJournal") {
			return ""
		}
		return fieldVarOfAddr(fa).Name()
	}
	n, nReads := 0, 0
	for _, f := range c.P.ModuleFuncs() {
		top := f
		for top.Parent() != nil {
			top = top.Parent()
		}
		if top.Pkg != spk {
			continue
		}
		for _, b := range f.Blocks {
			for _, ins := range b.Instrs {
				what := ""
				switch x := ins.(type) {
				case *ssa.Store:
					if fld := treeField(x.Addr); fld != "" {
						if _, fresh := x.Addr.(*ssa.FieldAddr).X.(*ssa.Alloc); !fresh {
							what = "assigns " + fld
						}
					}
				case *ssa.MapUpdate:
					if ld, ok := x.Map.(*ssa.UnOp); ok && treeField(ld.X) != "" {
						what = "stores into " + treeField(ld.X)
					}
				case *ssa.Call:
					if bi, ok := x.Call.Value.(*ssa.Builtin); ok && (bi.Name() == "delete" || bi.Name() == "clear") && len(x.Call.Args) > 0 {
						if ld, ok := x.Call.Args[0].(*ssa.UnOp); ok && treeField(ld.X) != "" {
							what = bi.Name() + "s from " + treeField(ld.X)
						}
					}
				case *ssa.FieldAddr:
					if treeField(x) != "" {
						nReads++
					}
				}
				if what == "" {
					continue
				}
				n++
				c.finding("TREE-RO", funcName(f), "the include tree is not modified by the features", ins.Pos(),
					"package server "+what+" of a resolved include tree: the tree the references / rename / hover code walks is no longer the tree the loader or the workspace built - files and occurrences are silently left out")
			}
		}
	}
	c.census("TREE-RO", "accesses to a resolved tree's fields in package server", nReads, 3)
}

// ruleScanIndex (C06-SCAN): a counter that a loop moves by itself (i--, i++, i += k) and that is used as an index
// or slice bound inside that loop is compared with something on the way to that use - the use is control
// dependent on an ordering or equality test of the counter made inside the loop.  A scan like
// `for pred(lines[i]) { i-- }` ends, on input without a sentinel, in an index-out-of-range panic that takes the
// server down.  Only request-path code (reachable from a handler or a goroutine it starts) is examined.
func ruleScanIndex(c *Ctx) {
	ci := buildConc(c)
	n := 0
	derived := func(v ssa.Value, phi *ssa.Phi) bool {
		for d := 0; d < 4; d++ {
			v = stripConv(v)
			if v == ssa.Value(phi) {
				return true
			}
			bo, ok := v.(*ssa.BinOp)
			if !ok || (bo.Op != token.ADD && bo.Op != token.SUB) {
				return false
			}
			if _, isConst := bo.Y.(*ssa.Const); isConst {
				v = bo.X
			} else if _, isConst := bo.X.(*ssa.Const); isConst && bo.Op == token.ADD {
				v = bo.Y
			} else {
				return false
			}
		}
		return false
	}
	isCmp := map[token.Token]bool{token.LSS: true, token.LEQ: true, token.GTR: true, token.GEQ: true, token.NEQ: true, token.EQL: true}
	for _, f := range ci.funcs {
		if !(ci.reachH[f] || ci.reachG[f]) || f.Blocks == nil {
			continue
		}
		loopNo := 0
		for _, hb := range f.Blocks {
			for _, ins := range hb.Instrs {
				phi, ok := ins.(*ssa.Phi)
				if !ok {
					break
				}
				if !isIntType(phi.Type()) || !inCycle(hb) {
					continue
				}
				loopNo++
				// moved by itself: an edge from inside the loop that is phi +- something
				self := false
				for i, e := range phi.Edges {
					if i < len(hb.Preds) && reachesBlock(hb, hb.Preds[i]) {
						// a step by a constant (i++, i += 2); a step computed from a search in the rest of the
						// text (start += strings.IndexByte(s[start:], c) + 1) is bounded by construction
						if bo, ok := stripConv(e).(*ssa.BinOp); ok && (bo.Op == token.ADD || bo.Op == token.SUB) {
							_, cx := bo.X.(*ssa.Const)
							_, cy := bo.Y.(*ssa.Const)
							if (stripConv(bo.X) == ssa.Value(phi) && cy) || (stripConv(bo.Y) == ssa.Value(phi) && cx) {
								self = true
							}
						}
					}
				}
				if !self {
					continue
				}
				// blocks of the loop: reachable from the header and reaching it
				var uses []ssa.Instruction
				for _, b := range f.Blocks {
					if !(b == hb || (reachesBlock(hb, b) && reachesBlock(b, hb))) {
						continue
					}
					for _, in2 := range b.Instrs {
						switch x := in2.(type) {
						case *ssa.Index:
							if derived(x.Index, phi) {
								uses = append(uses, in2)
							}
						case *ssa.IndexAddr:
							if derived(x.Index, phi) {
								uses = append(uses, in2)
							}
						case *ssa.Slice:
							if (x.Low != nil && derived(x.Low, phi)) || (x.High != nil && derived(x.High, phi)) {
								uses = append(uses, in2)
							}
						}
					}
				}
				// a rotated loop (for i := range n; a bottom-tested loop) compares the counter on the edges
				// into the header instead of in a block that dominates the body: every edge into the header
				// is taken on the outcome of a comparison of the value it carries
				edgeGuarded := len(hb.Preds) > 0
				for i, e := range phi.Edges {
					if i >= len(hb.Preds) {
						edgeGuarded = false
						break
					}
					ok := false
					if ifi, isIf := lastInstr(hb.Preds[i]).(*ssa.If); isIf {
						for w := range backSlice(ifi.Cond) {
							bo, isBo := w.(*ssa.BinOp)
							if !isBo || !isCmp[bo.Op] {
								continue
							}
							for _, opnd := range []ssa.Value{bo.X, bo.Y} {
								if stripConv(opnd) == stripConv(e) || derived(opnd, phi) {
									ok = true
								}
								if c1, isC1 := stripConv(opnd).(*ssa.Const); isC1 {
									if c2, isC2 := stripConv(e).(*ssa.Const); isC2 && c1.Value != nil && c2.Value != nil && c1.Value.ExactString() == c2.Value.ExactString() {
										ok = true
									}
								}
							}
						}
					}
					if !ok {
						edgeGuarded = false
						break
					}
				}
				for k, u := range uses {
					n++
					tested := edgeGuarded
					var conds []ctrlCond
					conds = append(conds, controlCondsPol(u.Block())...)
					for _, cc := range conds {
						for w := range backSlice(cc.Cond) {
							bo, ok := w.(*ssa.BinOp)
							if !ok || !isCmp[bo.Op] {
								continue
							}
							if derived(bo.X, phi) || derived(bo.Y, phi) {
								tested = true
							}
						}
					}
					name := phi.Comment
					if name == "" {
						name = phi.Name()
					}
					c.check(tested, "C06-SCAN", funcName(f), fmt.Sprintf("index by the loop counter %s (counter %d) #%d", name, loopNo, k), u.Pos(),
						"the use is control dependent on a comparison of the counter made inside the loop",
						"the counter "+name+" is moved by the loop and used as an index or slice bound, but no comparison of it guards that use: on input without the expected sentinel the scan runs off the end of the slice (index out of range) and the panic takes the server down")
				}
			}
		}
	}
	c.census("C06-SCAN", "index uses of self-moved loop counters on request paths", n, 1)
}

// ruleTreeMemo (S-TREEMEMO): an include tree that request handlers keep in a map of the server and answer from
// depends on every file of the tree, not only on the document it is filed under.  Such a memo must therefore be
// emptied as a whole - a Range that deletes, or Clear - on the synchronous path of the change handler and of the
// save handler; a Delete under the URI of the notification leaves the trees of the documents that include the
// changed file in place, and answers keep aggregating the file as it was.  (The tree published by the background
// analysis is not such a memo: it is replaced by every analysis.)
func ruleTreeMemo(c *Ctx) {
	ci := buildConc(c)
	spk := c.P.SSAPkg("internal/server")
	type use struct {
		f    *ssa.Function
		call *ssa.Call
	}
	stores, wipes := map[string][]use{}, map[string][]use{}
	deletesIn := func(fn *ssa.Function, fld string) bool {
		for _, b := range fn.Blocks {
			for _, ins := range b.Instrs {
				if call, ok := ins.(*ssa.Call); ok {
					if f2, ok := isSyncMapCall(call, "Delete"); ok && f2 == fld {
						return true
					}
				}
			}
		}
		return false
	}
	for _, f := range c.P.ModuleFuncs() {
		top := f
		for top.Parent() != nil {
			top = top.Parent()
		}
		if top.Pkg != spk {
			continue
		}
		for _, b := range f.Blocks {
			for _, ins := range b.Instrs {
				call, ok := ins.(*ssa.Call)
				if !ok {
					continue
				}
				fld, op, _, val, ok := syncMapOpOf(call)
				if !ok || !strings.HasPrefix(fld, "server.Server.") {
					continue
				}
				switch op {
				case "Store", "LoadOrStore", "Swap":
					if val == nil {
						continue
					}
					t := val.Type()
					if mi, ok := val.(*ssa.MakeInterface); ok {
						t = mi.X.Type()
					}
					if typeReaches(t, "include.ResolvedJournal", map[types.Type]bool{}) {
						stores[fld] = append(stores[fld], use{f, call})
					}
				case "Clear":
					wipes[fld] = append(wipes[fld], use{f, call})
				case "Range":
					for _, a := range call.Call.Args {
						var fn *ssa.Function
						switch x := a.(type) {
						case *ssa.MakeClosure:
							fn, _ = x.Fn.(*ssa.Function)
						case *ssa.Function:
							fn = x
						}
						if fn != nil && deletesIn(fn, fld) {
							wipes[fld] = append(wipes[fld], use{f, call})
						}
					}
				}
			}
		}
	}
	// the handlers that learn of a changed file
	type hd struct {
		f    *ssa.Function
		role string
	}
	var handlers []hd
	if h, _, _, _ := changeHandler(c.P); h != nil {
		handlers = append(handlers, hd{h, "change"})
	}
	for _, f := range c.P.ModuleFuncs() {
		if f.Pkg != spk || f.Signature.Recv() == nil || f.Parent() != nil {
			continue
		}
		for i := 0; i < f.Signature.Params().Len(); i++ {
			if strings.HasSuffix(types.TypeString(f.Signature.Params().At(i).Type(), nil), "protocol.DidSaveTextDocumentParams") {
				handlers = append(handlers, hd{f, "save"})
			}
		}
	}
	var fields []string
	for fld, us := range stores {
		onRequest := false
		for _, u := range us {
			if ci.reachH[u.f] && (u.f.Parent() == nil || ci.reachH[u.f.Parent()]) {
				onRequest = true
			}
		}
		if onRequest {
			fields = append(fields, fld)
		}
	}
	sort.Strings(fields)
	c.note("S-TREEMEMO: include trees kept by request handlers: %v; handlers: %d", fields, len(handlers))
	c.census("S-TREEMEMO", "change and save handlers", len(handlers), 2)
	for _, fld := range fields {
		for _, h := range handlers {
			reach := Reach(ci.g, []*ssa.Function{h.f}, true)
			wiped := false
			for _, u := range wipes[fld] {
				if reach[u.f] && (u.f.Parent() == nil || reach[u.f.Parent()]) {
					wiped = true
				}
			}
			c.check(wiped, "S-TREEMEMO", funcName(h.f), "memo "+strings.TrimPrefix(fld, "server.Server.")+" emptied on "+h.role, h.f.Pos(),
				"the handler empties the memo of include trees as a whole",
				"request handlers keep include trees in "+fld+" and answer from them, but the "+h.role+" handler does not empty that memo as a whole (a Range that deletes, or Clear): the tree of a document that includes the changed file stays in place and answers keep aggregating the file as it was before the change")
		}
	}
}

// ruleServerCaches: C-CACHE and C-FRESH for properties other than C01 (answers that span files are computed from
// the current texts only if no handler-filled cache survives a change and no handler answers from the state the
// background analysis leaves behind).
func ruleServerCaches(c *Ctx) {
	h, _, store, docField := changeHandler(c.P)
	if h == nil {
		c.undecided("C-CACHE", "server", "change handler", token.NoPos, "the handler that folds content changes into the document store was not found")
		return
	}
	ruleCacheFresh(c, h, store, docField)
}

// isTextArgOf: p is the string argument of the parse call that carries the text (not the path): when the call
// takes two string parameters of f, the text is the one that is not used as a map key or passed to path functions
// anywhere in f; with a single string argument it is that one.
func isTextArgOf(call *ssa.Call, p *ssa.Parameter) bool {
	f := p.Parent()
	var strs []*ssa.Parameter
	for _, a := range call.Call.Args {
		if q, ok := stripConv(a).(*ssa.Parameter); ok && q.Parent() == f && types.TypeString(q.Type(), nil) == "string" {
			strs = append(strs, q)
		}
	}
	// a path names a file: it is handed to os / filepath functions or used as a map key; a text is parsed
	usedAsPath := func(q *ssa.Parameter) bool {
		for _, r := range *q.Referrers() {
			if call, ok := r.(ssa.CallInstruction); ok {
				if cal := call.Common().StaticCallee(); cal != nil && cal.Pkg != nil {
					switch cal.Pkg.Pkg.Path() {
					case "os", "path/filepath", "path", "io/ioutil":
						return true
					}
				}
			}
		}
		return false
	}
	if usedAsPath(p) {
		return false
	}
	if len(strs) <= 1 {
		return true
	}
	// a path is used as a key or handed to methods that look files up; the text is only parsed / hashed / compared
	usedAsKey := func(q *ssa.Parameter) bool {
		for _, r := range *q.Referrers() {
			switch x := r.(type) {
			case *ssa.Lookup:
				if x.Index == ssa.Value(q) {
					return true
				}
			case *ssa.MapUpdate:
				if x.Key == ssa.Value(q) {
					return true
				}
			}
		}
		return false
	}
	if usedAsKey(p) {
		return false
	}
	for _, q := range strs {
		if q != p && usedAsKey(q) {
			return true
		}
	}
	// fall back on position: the text follows the path
	return strs[len(strs)-1] == p
}
