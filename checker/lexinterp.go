package main

// Engine D, lexer part (DESIGN §3.D): abstract interpretation of the lexer over the AST.
//
// Abstract state (kept as a small disjunction, partitioned by the "advanced" facts):
//   ne    - pos < len(input) is known
//   B     - set of bytes that may be at input[pos] (meaningful when ne)
//   adv   - pos has strictly increased since Lexer.Next was entered (must)
//   since - per snapshot variable (start := l.pos): pos > snapshot (must)
// Rules decided from it:
//   L-PROGRESS  every return of a non-EOF token happens in a state with adv (or some since) true
//   L-NEWLINE   every position-advancing site outside the newline scanner runs in a state with '\n' not in B
// Anything outside the interpreter's vocabulary that touches the lexer state is reported as undecided.

import (
	"fmt"
	"go/ast"
	"go/constant"
	"go/token"
	"go/types"
	"sort"
	"strings"
	"unicode"
)

type bset [4]uint64

func (b bset) has(c int) bool { return b[c>>6]&(1<<(uint(c)&63)) != 0 }
func (b *bset) add(c int)     { b[c>>6] |= 1 << (uint(c) & 63) }
func (b *bset) del(c int)     { b[c>>6] &^= 1 << (uint(c) & 63) }
func (b bset) and(o bset) bset {
	return bset{b[0] & o[0], b[1] & o[1], b[2] & o[2], b[3] & o[3]}
}
func (b bset) or(o bset) bset { return bset{b[0] | o[0], b[1] | o[1], b[2] | o[2], b[3] | o[3]} }
func (b bset) not() bset      { return bset{^b[0], ^b[1], ^b[2], ^b[3]} }
func (b bset) empty() bool    { return b[0]|b[1]|b[2]|b[3] == 0 }
func fullSet() bset           { return bset{^uint64(0), ^uint64(0), ^uint64(0), ^uint64(0)} }
func highSet() bset           { return bset{0, 0, ^uint64(0), ^uint64(0)} }
func single(c int) bset       { var b bset; b.add(c); return b }
func (b bset) String() string {
	if b == fullSet() {
		return "any"
	}
	var parts []string
	n := 0
	for c := 0; c < 256; c++ {
		if b.has(c) {
			n++
			if len(parts) < 12 {
				if c >= 33 && c < 127 {
					parts = append(parts, string(rune(c)))
				} else {
					parts = append(parts, fmt.Sprintf("\\x%02x", c))
				}
			}
		}
	}
	if n > 12 {
		return fmt.Sprintf("{%s … %d bytes}", strings.Join(parts, ""), n)
	}
	return "{" + strings.Join(parts, "") + "}"
}

type snapState struct {
	ne  bool
	B   bset
	adv bool
	// token-scan facts at the time of the snapshot (restored when the position is reset to it)
	sig, sawNL, nlUnknown bool
	nl                    int
}

type lexState struct {
	ne      bool
	atEOF   bool // pos >= len(input) is known
	B       bset
	adv     bool
	since   map[types.Object]bool
	snaps   map[types.Object]snapState
	byteVar map[types.Object]bool         // locals that alias the current byte
	runeVar map[types.Object]bool         // locals that alias the current rune
	sizeVar map[types.Object]bool         // locals that hold the encoded width of the current rune (second result of the decoder)
	valSet  map[types.Object]bset         // locals assigned the current byte: the bytes they may hold (stays valid after advancing)
	valueOf map[types.Object]types.Object // value := input[start:pos]  ->  start
	boolDef map[types.Object]ast.Expr     // isSpace := r == ' '  (valid until the position moves)
	// facts about the token being scanned (reset when Next is entered)
	sig         bool                                   // a byte other than a blank may have been consumed
	nl          int                                    // line breaks consumed minus increments of the line counter
	nlUnknown   bool                                   // a byte that may or may not be a line break was consumed
	sawNL       bool                                   // a line break was consumed
	atStartSet  bool                                   // the line-start flag was set to true
	flagCleared bool                                   // the line-start flag was set to false: this token is scanned at the start of a line
	posSnap     map[types.Object]bool                  // start := l.position(): snapshot variables that hold a Position
	sigAt       map[types.Object]bool                  // per snapshot: value of sig when it was taken
	lead        map[types.Object]bool                  // per snapshot: input was consumed between an earlier position snapshot and this one
	notAfter    map[types.Object]map[types.Object]bool // per snapshot o: snapshots taken at a position <= o's (existing when o was taken)
	epoch       []types.Object                         // snapshots taken since the last advance (all at the current position)
}

// aliasVar: inside a callee, parameter p stands for the caller's variable a (a snapshot, or an alias of the
// current byte / rune / its width).
func (s *lexState) aliasVar(p, a types.Object) {
	if sn, ok := s.snaps[a]; ok {
		s.snaps[p] = sn
		s.since[p] = s.since[a]
		s.sigAt[p] = s.sigAt[a]
		s.lead[p] = s.lead[a]
		if s.posSnap[a] {
			s.posSnap[p] = true
		}
		na := map[types.Object]bool{a: true}
		for q := range s.notAfter[a] {
			na[q] = true
		}
		s.notAfter[p] = na
		if s.notAfter[a] == nil {
			s.notAfter[a] = map[types.Object]bool{}
		}
		s.notAfter[a][p] = true
	}
	if s.byteVar[a] {
		s.byteVar[p] = true
	}
	if s.runeVar[a] {
		s.runeVar[p] = true
	}
	if s.sizeVar[a] {
		s.sizeVar[p] = true
	}
}

// markSince records pos > snapshot(o); the same then holds for every snapshot taken at a position <= o's.
func (s *lexState) markSince(o types.Object) {
	s.since[o] = true
	for q := range s.notAfter[o] {
		if _, live := s.snaps[q]; live {
			s.since[q] = true
		}
	}
}

func newLexState() *lexState {
	return &lexState{B: fullSet(), since: map[types.Object]bool{}, snaps: map[types.Object]snapState{}, byteVar: map[types.Object]bool{}, runeVar: map[types.Object]bool{}, sizeVar: map[types.Object]bool{}, valSet: map[types.Object]bset{}, valueOf: map[types.Object]types.Object{}, boolDef: map[types.Object]ast.Expr{},
		posSnap: map[types.Object]bool{}, sigAt: map[types.Object]bool{}, lead: map[types.Object]bool{}, notAfter: map[types.Object]map[types.Object]bool{}}
}

func (s *lexState) clone() *lexState {
	n := &lexState{ne: s.ne, atEOF: s.atEOF, B: s.B, adv: s.adv, since: map[types.Object]bool{}, snaps: map[types.Object]snapState{}, byteVar: map[types.Object]bool{}, runeVar: map[types.Object]bool{}, sizeVar: map[types.Object]bool{}, valSet: map[types.Object]bset{}, valueOf: map[types.Object]types.Object{}, boolDef: map[types.Object]ast.Expr{},
		sig: s.sig, nl: s.nl, nlUnknown: s.nlUnknown, sawNL: s.sawNL, atStartSet: s.atStartSet, flagCleared: s.flagCleared, posSnap: map[types.Object]bool{}, sigAt: map[types.Object]bool{}, lead: map[types.Object]bool{},
		notAfter: map[types.Object]map[types.Object]bool{}, epoch: append([]types.Object(nil), s.epoch...)}
	for k, v := range s.notAfter {
		m := map[types.Object]bool{}
		for q := range v {
			m[q] = true
		}
		n.notAfter[k] = m
	}
	for k, v := range s.posSnap {
		n.posSnap[k] = v
	}
	for k, v := range s.sigAt {
		n.sigAt[k] = v
	}
	for k, v := range s.lead {
		n.lead[k] = v
	}
	for k, v := range s.since {
		n.since[k] = v
	}
	for k, v := range s.snaps {
		n.snaps[k] = v
	}
	for k, v := range s.byteVar {
		n.byteVar[k] = v
	}
	for k, v := range s.runeVar {
		n.runeVar[k] = v
	}
	for k, v := range s.sizeVar {
		n.sizeVar[k] = v
	}
	for k, v := range s.valSet {
		n.valSet[k] = v
	}
	for k, v := range s.valueOf {
		n.valueOf[k] = v
	}
	for k, v := range s.boolDef {
		n.boolDef[k] = v
	}
	return n
}

func (s *lexState) advanced() bool {
	if s.adv {
		return true
	}
	for _, v := range s.since {
		if v {
			return true
		}
	}
	return false
}

func (s *lexState) key() string {
	var ks []string
	for o, v := range s.since {
		if v {
			ks = append(ks, fmt.Sprintf("%s@%d", o.Name(), o.Pos()))
		}
	}
	sort.Strings(ks)
	return fmt.Sprintf("%v|%v|%v|%s|%v|%d|%v|%v|%v|%v", s.adv, s.ne, s.atEOF, strings.Join(ks, ","), s.sig, s.nl, s.nlUnknown, s.sawNL, s.atStartSet, s.flagCleared)
}

func joinStates(a, b *lexState) *lexState {
	n := a.clone()
	n.ne = a.ne && b.ne
	n.atEOF = a.atEOF && b.atEOF
	n.adv = a.adv && b.adv
	if a.ne && b.ne {
		n.B = a.B.or(b.B)
	} else {
		n.B = fullSet()
	}
	for k := range n.since {
		n.since[k] = a.since[k] && b.since[k]
	}
	for k := range n.posSnap {
		if !b.posSnap[k] {
			delete(n.posSnap, k)
		}
	}
	for k, v := range b.sigAt {
		n.sigAt[k] = n.sigAt[k] || v
	}
	for k, v := range b.lead {
		n.lead[k] = n.lead[k] || v
	}
	for k, v := range n.notAfter {
		for q := range v {
			if !b.notAfter[k][q] {
				delete(v, q)
			}
		}
	}
	var ep []types.Object
	for _, q := range n.epoch {
		for _, r := range b.epoch {
			if q == r {
				ep = append(ep, q)
			}
		}
	}
	n.epoch = ep
	for k := range n.byteVar {
		if !b.byteVar[k] {
			delete(n.byteVar, k)
		}
	}
	for k := range n.runeVar {
		if !b.runeVar[k] {
			delete(n.runeVar, k)
		}
	}
	for k := range n.sizeVar {
		if !b.sizeVar[k] {
			delete(n.sizeVar, k)
		}
	}
	for k, v := range n.valSet {
		if bv, ok := b.valSet[k]; ok {
			n.valSet[k] = v.or(bv)
		} else {
			delete(n.valSet, k)
		}
	}
	for k, v := range n.valueOf {
		if b.valueOf[k] != v {
			delete(n.valueOf, k)
		}
	}
	for k, v := range n.boolDef {
		if b.boolDef[k] != v {
			delete(n.boolDef, k)
		}
	}
	for k, v := range n.snaps {
		if bv, ok := b.snaps[k]; !ok || bv != v {
			// keep the weaker snapshot
			if ok {
				n.snaps[k] = snapState{ne: v.ne && bv.ne, B: v.B.or(bv.B), adv: v.adv && bv.adv, sig: v.sig || bv.sig, sawNL: v.sawNL || bv.sawNL, nlUnknown: v.nlUnknown || bv.nlUnknown || v.nl != bv.nl, nl: v.nl}
			} else {
				delete(n.snaps, k)
			}
		}
	}
	return n
}

func normalize(states []*lexState) []*lexState {
	m := map[string]*lexState{}
	var order []string
	for _, s := range states {
		if s == nil || (s.ne && s.B.empty()) {
			continue // infeasible
		}
		k := s.key()
		if prev, ok := m[k]; ok {
			m[k] = joinStates(prev, s)
		} else {
			m[k] = s
			order = append(order, k)
		}
	}
	sort.Strings(order)
	var out []*lexState
	for _, k := range order {
		out = append(out, m[k])
	}
	return out
}

func sameStates(a, b []*lexState) bool {
	if len(a) != len(b) {
		return false
	}
	for i := range a {
		if a[i].key() != b[i].key() || a[i].B != b[i].B || len(a[i].byteVar) != len(b[i].byteVar) || len(a[i].runeVar) != len(b[i].runeVar) {
			return false
		}
	}
	return true
}

type tri int

const (
	triFalse tri = iota
	triTrue
	triUnknown
)

type lexInterp struct {
	quiet         int // > 0: a speculative interpretation; constructs outside the vocabulary only set quietHit
	quietHit      bool
	nStop, nFirst int
	c             *Ctx
	pk            *packagesPackage
	info          *types.Info
	lexerT        types.Type
	methods       map[string]*ast.FuncDecl
	funcs         map[types.Object]*ast.FuncDecl
	stack         []string
	// results
	nReturns  int
	nAdvances int
	newlineFn string
	reported  map[string]bool
	depthErr  bool
	// roles (never names): fields of the lexer and its primitive methods
	fld         map[string]string // role (input, pos, line, column, atStart) -> field name
	peekByte    map[string]bool   // pure parameterless methods returning the current byte
	peekRune    map[string]bool   // ... the current rune
	positionFns map[string]bool   // ... a Position built from the lexer's counters
	curFrame    *lexFrame         // frame of the condition being evaluated (for function-valued parameters)
	only        map[string]bool   // rules whose obligations are recorded (nil = all)
	dropKinds   map[string]bool   // token kinds whose value starts after consumed input (leading delimiter)
	nTok        int
	boolCaps    []*lexBoolCap // boolean scanners being interpreted in condition position (innermost last)
}

// lexBoolCap collects the states at the returns of a boolean lexer method that consumes input (`if
// l.scanExponentMarker() { ... }`), split by the returned truth value.
type lexBoolCap struct {
	fd   *ast.FuncDecl
	t, f []*lexState
	bad  bool
}

type lexFrame struct {
	fd   *ast.FuncDecl
	rets []*lexState // states at (non-token) returns
	// what the caller passed for parameters that are functions or constants (higher-order scanners such as
	// advanceWhile(pred), scanEnclosed(typ, closer))
	parent   *lexFrame
	funcArgs map[types.Object]ast.Expr
	consts   map[types.Object]int64
	strs     map[types.Object]string
}

// funcVal: a predicate given as a function value: a declared function / method, or a function literal together
// with the frame it was written in (for the constants it captures).
type funcVal struct {
	typ  *ast.FuncType
	body *ast.BlockStmt
	fr   *lexFrame
}

func (fr *lexFrame) strConstOf(o types.Object) (string, bool) {
	for f := fr; f != nil; f = f.parent {
		if v, ok := f.strs[o]; ok {
			return v, true
		}
	}
	return "", false
}

func (fr *lexFrame) constOf(o types.Object) (int64, bool) {
	for f := fr; f != nil; f = f.parent {
		if v, ok := f.consts[o]; ok {
			return v, true
		}
	}
	return 0, false
}

// resolveFuncValue: e denotes a function value (literal, declared function, method value, or a function-typed
// parameter bound by a caller).
func (li *lexInterp) resolveFuncValue(e ast.Expr, fr *lexFrame, depth int) *funcVal {
	if depth > 4 {
		return nil
	}
	switch x := ast.Unparen(e).(type) {
	case *ast.FuncLit:
		return &funcVal{x.Type, x.Body, fr}
	case *ast.Ident:
		switch o := li.info.Uses[x].(type) {
		case *types.Func:
			if fd := li.funcs[o]; fd != nil {
				return &funcVal{fd.Type, fd.Body, nil}
			}
		case *types.Var:
			for f := fr; f != nil; f = f.parent {
				if a, ok := f.funcArgs[o]; ok {
					return li.resolveFuncValue(a, f.parent, depth+1)
				}
			}
		}
	case *ast.SelectorExpr:
		if o, ok := li.info.Uses[x.Sel].(*types.Func); ok {
			if fd := li.funcs[o]; fd != nil {
				return &funcVal{fd.Type, fd.Body, nil}
			}
		}
	}
	return nil
}

type lexFlow struct {
	next  []*lexState
	brk   []*lexState
	cont  []*lexState
	gotos map[string][]*lexState
}

func ruleLexer(c *Ctx) {
	li := runLexer(c, nil)
	if li == nil {
		return
	}
	c.census("L-PROGRESS", "token returns interpreted (over all calling contexts)", li.nReturns, 20)
	c.census("L-NEWLINE", "position-advancing sites interpreted (over all calling contexts)", li.nAdvances, 20)
	c.census("L-POS", "token constructions interpreted (over all calling contexts)", li.nTok, 20)
	if c.Prop == "C03" {
		c.census("L-STOP", "returns of free-text tokens with a known stop-byte set", li.nStop, 2)
		c.census("L-FIRST", "in-line comment tokens with a known first byte", li.nFirst, 1)
	}
}

// ruleLexPos: the interpreter's L-POS obligations only (for properties that need token positions but not
// the progress argument).
func ruleLexPos(c *Ctx) {
	li := runLexer(c, map[string]bool{"L-POS": true})
	if li == nil {
		return
	}
	c.census("L-POS", "token constructions interpreted (over all calling contexts)", li.nTok, 20)
}

// delimiterDroppingKinds: token kinds whose value starts after input consumed since the token's start
// position was captured (a leading delimiter that is not part of Value) - a by-product of the interpretation.
func delimiterDroppingKinds(c *Ctx) map[string]bool {
	li := runLexer(c, map[string]bool{})
	if li == nil {
		return map[string]bool{}
	}
	return li.dropKinds
}

// runLexer interprets the lexer; only obligations of the rules in `only` are recorded (nil = all).
func runLexer(c *Ctx, only map[string]bool) *lexInterp {
	pk := c.P.ByRel["internal/parser"]
	li := &lexInterp{c: c, pk: pk, info: pk.TypesInfo, methods: map[string]*ast.FuncDecl{}, funcs: map[types.Object]*ast.FuncDecl{}, reported: map[string]bool{}, only: only}
	// the lexer type: the type with a method Next() returning the token type
	var nextFd *ast.FuncDecl
	for _, f := range pk.Syntax {
		for _, d := range f.Decls {
			fd, ok := d.(*ast.FuncDecl)
			if !ok || fd.Body == nil {
				continue
			}
			li.funcs[li.info.Defs[fd.Name]] = fd
			if fd.Recv != nil && fd.Name.Name == "Next" && fd.Type.Results != nil && len(fd.Type.Results.List) == 1 {
				nextFd = fd
			}
		}
	}
	if nextFd == nil {
		c.undecided("L-PROGRESS", "parser", "lexer entry point", token.NoPos, "no method Next() Token found in package parser")
		return nil
	}
	recvName := recvTypeName(nextFd)
	for _, f := range pk.Syntax {
		for _, d := range f.Decls {
			if fd, ok := d.(*ast.FuncDecl); ok && fd.Body != nil && recvTypeName(fd) == recvName {
				li.methods[fd.Name.Name] = fd
			}
		}
	}
	li.findRoles(recvName)
	for _, role := range []string{"input", "pos", "line", "column", "atStart"} {
		if li.fld[role] == "" {
			c.undecided("L-PROGRESS", "parser."+recvName, "lexer field with role "+role, token.NoPos, "the field of the lexer that plays the role `"+role+"` could not be identified from its type and use")
			return nil
		}
	}
	fr := &lexFrame{fd: nextFd}
	li.stack = []string{"Next"}
	li.block(nextFd.Body.List, []*lexState{newLexState()}, fr)
	return li
}

// findRoles identifies the lexer's fields and primitive methods by type and use.
func (li *lexInterp) findRoles(recvName string) {
	li.fld = map[string]string{}
	li.peekByte, li.peekRune, li.positionFns = map[string]bool{}, map[string]bool{}, map[string]bool{}
	li.dropKinds = map[string]bool{}
	obj := li.pk.Types.Scope().Lookup(recvName)
	if obj == nil {
		return
	}
	st, ok := obj.Type().Underlying().(*types.Struct)
	if !ok {
		return
	}
	isField := func(name string) bool {
		for i := 0; i < st.NumFields(); i++ {
			if st.Field(i).Name() == name {
				return true
			}
		}
		return false
	}
	var boolFields []string
	for i := 0; i < st.NumFields(); i++ {
		f := st.Field(i)
		if b, ok := f.Type().Underlying().(*types.Basic); ok {
			switch {
			case b.Kind() == types.String:
				li.fld["input"] = f.Name()
			case b.Kind() == types.Bool:
				boolFields = append(boolFields, f.Name())
			}
		}
	}
	if len(boolFields) == 1 {
		li.fld["atStart"] = boolFields[0]
	}
	selOnRecv := func(e ast.Expr) (string, bool) {
		se, ok := ast.Unparen(e).(*ast.SelectorExpr)
		if !ok || !isField(se.Sel.Name) {
			return "", false
		}
		t := li.info.TypeOf(se.X)
		if t == nil {
			return "", false
		}
		if pt, ok := t.(*types.Pointer); ok {
			t = pt.Elem()
		}
		if n, ok := t.(*types.Named); ok && n.Obj() == obj {
			return se.Sel.Name, true
		}
		return "", false
	}
	var names []string
	for n := range li.methods {
		names = append(names, n)
	}
	sort.Strings(names)
	for _, n := range names {
		fd := li.methods[n]
		ast.Inspect(fd.Body, func(x ast.Node) bool {
			switch e := x.(type) {
			case *ast.IndexExpr:
				// input[pos]
				if in, ok := selOnRecv(e.X); ok && in == li.fld["input"] {
					if p, ok := selOnRecv(e.Index); ok {
						li.fld["pos"] = p
					}
				}
			case *ast.CompositeLit:
				if typeHasSuffix(li.info.TypeOf(e), "parser.Position") {
					for _, el := range e.Elts {
						if kv, ok := el.(*ast.KeyValueExpr); ok {
							if f, ok := selOnRecv(kv.Value); ok {
								switch identOf(kv.Key).Name {
								case "Line":
									li.fld["line"] = f
								case "Column":
									li.fld["column"] = f
								}
							}
						}
					}
				}
			}
			return true
		})
	}
	// primitive methods (need the field roles for purity)
	for _, n := range names {
		fd := li.methods[n]
		if fd.Type.Params != nil && len(fd.Type.Params.List) > 0 || fd.Type.Results == nil || len(fd.Type.Results.List) != 1 {
			continue
		}
		rt := li.info.TypeOf(fd.Type.Results.List[0].Type)
		if rt == nil || !li.isPure(fd, 0) {
			continue
		}
		switch ts := types.TypeString(rt, nil); {
		case ts == "byte" || ts == "uint8":
			li.peekByte[n] = true
		case ts == "rune" || ts == "int32":
			li.peekRune[n] = true
		case strings.HasSuffix(ts, "parser.Position"):
			li.positionFns[n] = true
		}
	}
}

func (li *lexInterp) fnName(fr *lexFrame) string { return li.c.P.declName(fr.fd) }

func (li *lexInterp) undecided(fr *lexFrame, n ast.Node, what string) {
	if li.quiet > 0 {
		li.quietHit = true
		return
	}
	k := fmt.Sprintf("%s|%d", what, n.Pos())
	if li.reported[k] {
		return
	}
	li.reported[k] = true
	rule := "L-PROGRESS"
	if li.only != nil && !li.only[rule] {
		rule = ""
		for r := range li.only {
			if rule == "" || r < rule {
				rule = r
			}
		}
		if rule == "" {
			return // facts only (token kinds): nothing is decided from this run
		}
	}
	li.c.undecided(rule, li.fnName(fr), "construct outside the interpreter's vocabulary: "+what, n.Pos(), "the lexer interpreter does not understand `"+exprStr(li.c.P.Fset, n)+"` ("+what+"); the tokenizer's behaviour cannot be established")
}

// isLexerField: e is `<lexer>.name`
func (li *lexInterp) isLexerField(e ast.Expr, name string) bool {
	se, ok := ast.Unparen(e).(*ast.SelectorExpr)
	if !ok {
		return false
	}
	if actual, known := li.fld[name]; known {
		name = actual
	}
	if se.Sel.Name != name {
		return false
	}
	t := li.info.TypeOf(se.X)
	if t == nil {
		return false
	}
	if pt, ok := t.(*types.Pointer); ok {
		t = pt.Elem()
	}
	n, ok := t.(*types.Named)
	return ok && n.Obj().Pkg() == li.pk.Types && li.methods["Next"] != nil && n.Obj().Name() == recvTypeName(li.methods["Next"])
}

// lexerMethodCall: call is `<lexer>.m(args)`; returns method name
func (li *lexInterp) lexerMethodCall(call *ast.CallExpr) (string, bool) {
	se, ok := ast.Unparen(call.Fun).(*ast.SelectorExpr)
	if !ok {
		return "", false
	}
	if _, ok := li.methods[se.Sel.Name]; !ok {
		return "", false
	}
	if o, ok := li.info.Uses[se.Sel].(*types.Func); ok && o.Pkg() == li.pk.Types && li.funcs[o] != nil && li.funcs[o].Recv != nil {
		return se.Sel.Name, true
	}
	return "", false
}

// isCurrentByteExpr: l.peek(), l.input[l.pos], or a local aliasing the current byte
func (li *lexInterp) isCurrentByteExpr(e ast.Expr, s *lexState) bool {
	e = ast.Unparen(e)
	switch x := e.(type) {
	case *ast.CallExpr:
		if m, ok := li.lexerMethodCall(x); ok && li.peekByte[m] && len(x.Args) == 0 {
			return true
		}
		// byte(x) / rune(x) conversions
		if tv, ok := li.info.Types[x.Fun]; ok && tv.IsType() && len(x.Args) == 1 {
			return li.isCurrentByteExpr(x.Args[0], s)
		}
	case *ast.IndexExpr:
		return li.isLexerField(x.X, "input") && li.isLexerField(x.Index, "pos")
	case *ast.Ident:
		if o := li.info.Uses[x]; o != nil {
			return s.byteVar[o]
		}
	}
	return false
}

func (li *lexInterp) isCurrentRuneExpr(e ast.Expr, s *lexState) bool {
	e = ast.Unparen(e)
	switch x := e.(type) {
	case *ast.CallExpr:
		if m, ok := li.lexerMethodCall(x); ok && li.peekRune[m] && len(x.Args) == 0 {
			return true
		}
	case *ast.Ident:
		if o := li.info.Uses[x]; o != nil {
			return s.runeVar[o]
		}
	}
	return false
}

func constInt(info *types.Info, e ast.Expr) (int64, bool) {
	if tv, ok := info.Types[e]; ok && tv.Value != nil {
		if v, ok := constant.Int64Val(constant.ToInt(tv.Value)); ok {
			return v, true
		}
	}
	return 0, false
}

// evalPred evaluates a bool-returning module function on one abstract argument: a concrete value 0..255
// (byte or ASCII rune) or HIGH (-1: some rune >= 0x80).
func (li *lexInterp) evalPred(fd *ast.FuncDecl, arg int, depth int) tri {
	return li.evalPredFV(&funcVal{fd.Type, fd.Body, nil}, arg, depth)
}

func (li *lexInterp) evalPredFV(fv *funcVal, arg int, depth int) tri {
	if depth > 4 || fv == nil || fv.typ.Params == nil || fv.body == nil {
		return triUnknown
	}
	var param types.Object
	n := 0
	for _, f := range fv.typ.Params.List {
		for _, nm := range f.Names {
			param = li.info.Defs[nm]
			n++
		}
	}
	if n != 1 {
		return triUnknown
	}
	var evalE func(e ast.Expr) tri
	evalE = func(e ast.Expr) tri {
		e = ast.Unparen(e)
		switch x := e.(type) {
		case *ast.Ident:
			if x.Name == "true" {
				return triTrue
			}
			if x.Name == "false" {
				return triFalse
			}
		case *ast.UnaryExpr:
			if x.Op == token.NOT {
				switch evalE(x.X) {
				case triTrue:
					return triFalse
				case triFalse:
					return triTrue
				}
				return triUnknown
			}
		case *ast.BinaryExpr:
			switch x.Op {
			case token.LAND:
				a, b := evalE(x.X), evalE(x.Y)
				if a == triFalse || b == triFalse {
					return triFalse
				}
				if a == triTrue && b == triTrue {
					return triTrue
				}
				return triUnknown
			case token.LOR:
				a, b := evalE(x.X), evalE(x.Y)
				if a == triTrue || b == triTrue {
					return triTrue
				}
				if a == triFalse && b == triFalse {
					return triFalse
				}
				return triUnknown
			case token.EQL, token.NEQ, token.LSS, token.GTR, token.LEQ, token.GEQ:
				var cv int64
				var okc bool
				op := x.Op
				constOf := func(e ast.Expr) (int64, bool) {
					if v, ok := constInt(li.info, e); ok {
						return v, true
					}
					if o := li.info.Uses[identOf(e)]; o != nil {
						return fv.fr.constOf(o)
					}
					return 0, false
				}
				if id, ok := ast.Unparen(x.X).(*ast.Ident); ok && li.info.Uses[id] == param {
					cv, okc = constOf(x.Y)
				} else if id, ok := ast.Unparen(x.Y).(*ast.Ident); ok && li.info.Uses[id] == param {
					cv, okc = constOf(x.X)
					switch op { // mirror
					case token.LSS:
						op = token.GTR
					case token.GTR:
						op = token.LSS
					case token.LEQ:
						op = token.GEQ
					case token.GEQ:
						op = token.LEQ
					}
				}
				if !okc {
					return triUnknown
				}
				if arg < 0 { // HIGH: some value >= 0x80
					if cv < 0x80 {
						switch op {
						case token.EQL, token.LSS, token.LEQ:
							return triFalse
						case token.NEQ, token.GTR, token.GEQ:
							return triTrue
						}
					}
					return triUnknown
				}
				v := int64(arg)
				var r bool
				switch op {
				case token.EQL:
					r = v == cv
				case token.NEQ:
					r = v != cv
				case token.LSS:
					r = v < cv
				case token.GTR:
					r = v > cv
				case token.LEQ:
					r = v <= cv
				case token.GEQ:
					r = v >= cv
				}
				if r {
					return triTrue
				}
				return triFalse
			}
		case *ast.CallExpr:
			if len(x.Args) == 1 {
				if id, ok := ast.Unparen(x.Args[0]).(*ast.Ident); ok && li.info.Uses[id] == param {
					return li.predOn(x, arg, depth+1)
				}
			}
		}
		return triUnknown
	}
	// body: sequence of `if cond { return X }`, `switch param { case consts: return X }`, final `return expr`
	var run func(list []ast.Stmt) (tri, bool)
	run = func(list []ast.Stmt) (tri, bool) {
		for _, st := range list {
			switch s := st.(type) {
			case *ast.ReturnStmt:
				if len(s.Results) != 1 {
					return triUnknown, true
				}
				return evalE(s.Results[0]), true
			case *ast.IfStmt:
				if s.Init != nil || s.Else != nil {
					return triUnknown, true
				}
				switch evalE(s.Cond) {
				case triTrue:
					if r, done := run(s.Body.List); done {
						return r, true
					}
				case triFalse:
				default:
					return triUnknown, true
				}
			case *ast.SwitchStmt:
				if s.Tag == nil || s.Init != nil {
					return triUnknown, true
				}
				if id, ok := ast.Unparen(s.Tag).(*ast.Ident); !ok || li.info.Uses[id] != param {
					return triUnknown, true
				}
				matched := false
				unknown := false
				for _, cl := range s.Body.List {
					cc := cl.(*ast.CaseClause)
					hit := cc.List == nil && !matched
					for _, ce := range cc.List {
						cv, ok := constInt(li.info, ce)
						if !ok {
							unknown = true
							continue
						}
						if arg >= 0 && int64(arg) == cv {
							hit = true
						}
						if arg < 0 && cv >= 0x80 {
							unknown = true
						}
					}
					if hit && cc.List != nil {
						matched = true
						if r, done := run(cc.Body); done {
							return r, true
						}
					}
				}
				if unknown {
					return triUnknown, true
				}
				if !matched {
					// default clause, if any
					for _, cl := range s.Body.List {
						cc := cl.(*ast.CaseClause)
						if cc.List == nil {
							if r, done := run(cc.Body); done {
								return r, true
							}
						}
					}
				}
			default:
				return triUnknown, true
			}
		}
		return triUnknown, false
	}
	r, _ := run(fv.body.List)
	return r
}

// predOn evaluates a predicate call (module function or unicode.Is*) on an abstract byte/rune.
func (li *lexInterp) predOn(call *ast.CallExpr, arg int, depth int) tri {
	o := calleeOf(li.info, call)
	switch qualName(o) {
	case "unicode.IsLetter", "unicode.IsUpper", "unicode.IsLower", "unicode.IsDigit", "unicode.IsSpace", "unicode.IsPunct":
		if arg < 0 {
			return triUnknown
		}
		var r bool
		switch o.Name() {
		case "IsLetter":
			r = unicode.IsLetter(rune(arg))
		case "IsUpper":
			r = unicode.IsUpper(rune(arg))
		case "IsLower":
			r = unicode.IsLower(rune(arg))
		case "IsDigit":
			r = unicode.IsDigit(rune(arg))
		case "IsSpace":
			r = unicode.IsSpace(rune(arg))
		case "IsPunct":
			r = unicode.IsPunct(rune(arg))
		}
		if arg >= 0x80 {
			return triUnknown // a byte >= 0x80 is not a rune value
		}
		if r {
			return triTrue
		}
		return triFalse
	}
	if fn, ok := o.(*types.Func); ok {
		if fd := li.funcs[fn]; fd != nil {
			return li.evalPred(fd, arg, depth)
		}
	}
	if _, isVar := o.(*types.Var); isVar {
		if fv := li.resolveFuncValue(call.Fun, li.curFrame, 0); fv != nil {
			return li.evalPredFV(fv, arg, depth)
		}
	}
	return triUnknown
}

// predSets: for a predicate call applied to the current byte (isRune=false) or rune (isRune=true),
// the bytes for which it may be true and may be false.
func (li *lexInterp) predSets(call *ast.CallExpr, isRune bool) (mayTrue, mayFalse bset) {
	for b := 0; b < 256; b++ {
		var r tri
		if isRune && b >= 0x80 {
			r = li.predOn(call, -1, 0)
		} else {
			r = li.predOn(call, b, 0)
		}
		if r != triFalse {
			mayTrue.add(b)
		}
		if r != triTrue {
			mayFalse.add(b)
		}
	}
	return
}

// cond evaluates a condition on a set of states, returning the states in which it may be true / false.
func (li *lexInterp) cond(e ast.Expr, in []*lexState, fr *lexFrame) (t, f []*lexState) {
	e = ast.Unparen(e)
	switch x := e.(type) {
	case *ast.UnaryExpr:
		if x.Op == token.NOT {
			tt, ff := li.cond(x.X, in, fr)
			return ff, tt
		}
	case *ast.BinaryExpr:
		switch x.Op {
		case token.LAND:
			t1, f1 := li.cond(x.X, in, fr)
			t2, f2 := li.cond(x.Y, t1, fr)
			return t2, normalize(append(f1, f2...))
		case token.LOR:
			t1, f1 := li.cond(x.X, in, fr)
			t2, f2 := li.cond(x.Y, f1, fr)
			return normalize(append(t1, t2...)), f2
		case token.EQL, token.NEQ, token.LSS, token.GTR, token.LEQ, token.GEQ:
			return li.compare(x, in, fr)
		}
	case *ast.CallExpr:
		return li.condCall(x, in, fr)
	case *ast.Ident:
		if o := li.info.Uses[x]; o != nil && len(in) > 0 {
			if def, ok := in0(in).boolDef[o]; ok {
				same := true
				for _, st := range in {
					if st.boolDef[o] != def {
						same = false
					}
				}
				if same {
					return li.cond(def, in, fr)
				}
			}
		}
	}
	// unknown boolean (locals such as hasDigits, followsAmount, l.atStart ...): both outcomes, no refinement
	if li.touchesLexerPos(e) {
		li.undecided(fr, e, "condition on the lexer position")
	}
	return cloneAll(in), cloneAll(in)
}

func cloneAll(in []*lexState) []*lexState {
	out := make([]*lexState, len(in))
	for i, s := range in {
		out[i] = s.clone()
	}
	return out
}

func (li *lexInterp) touchesLexerPos(e ast.Expr) bool {
	found := false
	ast.Inspect(e, func(x ast.Node) bool {
		if ex, ok := x.(ast.Expr); ok && li.isLexerField(ex, "pos") {
			found = true
		}
		return true
	})
	return found
}

// posPlusConst: e is l.pos or l.pos + k; returns k
func (li *lexInterp) posPlusConst(e ast.Expr) (int64, bool) {
	e = ast.Unparen(e)
	if li.isLexerField(e, "pos") {
		return 0, true
	}
	if be, ok := e.(*ast.BinaryExpr); ok && be.Op == token.ADD && li.isLexerField(be.X, "pos") {
		if k, ok := constInt(li.info, be.Y); ok {
			return k, true
		}
	}
	return 0, false
}

func (li *lexInterp) isLenInput(e ast.Expr) bool {
	call, ok := ast.Unparen(e).(*ast.CallExpr)
	return ok && identOf(call.Fun).Name == "len" && len(call.Args) == 1 && li.isLexerField(call.Args[0], "input")
}

func (li *lexInterp) compare(x *ast.BinaryExpr, in []*lexState, fr *lexFrame) (t, f []*lexState) {
	// l.pos (+k) </>= len(l.input)
	if k, ok := li.posPlusConst(x.X); ok && li.isLenInput(x.Y) {
		for _, s := range in {
			st, sf := s.clone(), s.clone()
			switch x.Op {
			case token.LSS: // pos+k < len
				st.ne, st.atEOF = true, false
				if k == 0 {
					sf.ne, sf.atEOF = false, true
					if s.ne {
						sf = nil
					}
				}
				if s.atEOF {
					st = nil
				}
			case token.GEQ: // pos+k >= len
				sf.ne, sf.atEOF = true, false
				if k == 0 {
					st.ne, st.atEOF = false, true
					if s.ne {
						st = nil
					}
				}
				if s.atEOF {
					sf = nil
				}
			default:
				li.undecided(fr, x, "comparison of the position with the input length")
			}
			if st != nil {
				t = append(t, st)
			}
			if sf != nil {
				f = append(f, sf)
			}
		}
		return normalize(t), normalize(f)
	}
	// l.pos > start  (snapshot)
	if li.isLexerField(x.X, "pos") {
		if id, ok := ast.Unparen(x.Y).(*ast.Ident); ok {
			if o := li.info.Uses[id]; o != nil {
				for _, s := range in {
					if _, isSnap := s.snaps[o]; !isSnap {
						li.undecided(fr, x, "comparison of the position with a value that is not a snapshot of it")
						return cloneAll(in), cloneAll(in)
					}
					st, sf := s.clone(), s.clone()
					switch x.Op {
					case token.GTR:
						st.markSince(o)
						if s.since[o] {
							sf = nil
						}
					case token.NEQ:
						st.markSince(o)
						if s.since[o] {
							sf = nil
						}
					case token.EQL, token.LEQ:
						sf.markSince(o)
						if s.since[o] {
							st = nil
						}
					default:
						li.undecided(fr, x, "comparison of the position with a snapshot")
					}
					if st != nil {
						t = append(t, st)
					}
					if sf != nil {
						f = append(f, sf)
					}
				}
				return normalize(t), normalize(f)
			}
		}
	}
	// len(value) == 0 where value is tied to a snapshot
	if call, ok := ast.Unparen(x.X).(*ast.CallExpr); ok && identOf(call.Fun).Name == "len" && len(call.Args) == 1 {
		if id, ok := ast.Unparen(call.Args[0]).(*ast.Ident); ok {
			if k, ok := constInt(li.info, x.Y); ok && k == 0 {
				if o := li.info.Uses[id]; o != nil {
					for _, s := range in {
						st, sf := s.clone(), s.clone()
						if snap, ok := s.valueOf[o]; ok {
							switch x.Op {
							case token.GTR, token.NEQ:
								st.markSince(snap)
							case token.EQL:
								sf.markSince(snap)
							}
						}
						t, f = append(t, st), append(f, sf)
					}
					return normalize(t), normalize(f)
				}
			}
		}
	}
	// current byte / rune compared with a constant
	var cur ast.Expr
	var cst ast.Expr
	op := x.Op
	isRune := false
	for _, s := range in {
		if li.isCurrentByteExpr(x.X, s) {
			cur, cst = x.X, x.Y
		} else if li.isCurrentRuneExpr(x.X, s) {
			cur, cst, isRune = x.X, x.Y, true
		}
		break
	}
	if cur != nil {
		// compared with a variable that was assigned the current byte earlier: equality confines the byte to
		// the values that variable may hold
		if o := li.info.Uses[identOf(cst)]; o != nil && (op == token.EQL || op == token.NEQ) {
			if _, isConst := constInt(li.info, cst); !isConst {
				if _, isFrameConst := fr.constOf(o); !isFrameConst {
					known := false
					for _, s := range in {
						if _, ok := s.valSet[o]; ok {
							known = true
						}
					}
					if known {
						for _, s := range in {
							vs, ok := s.valSet[o]
							if !ok {
								vs = fullSet()
							}
							eq, ne := li.refine(s, vs, !vs.has(0)), s.clone()
							if op == token.EQL {
								t, f = append(t, eq), append(f, ne)
							} else {
								t, f = append(t, ne), append(f, eq)
							}
						}
						return normalize(t), normalize(f)
					}
				}
			}
		}
		cv, ok := constInt(li.info, cst)
		if !ok {
			if o := li.info.Uses[identOf(cst)]; o != nil {
				cv, ok = fr.constOf(o)
			}
		}
		if !ok {
			// single[0] for a string parameter the caller bound to a literal
			if ix, isIx := ast.Unparen(cst).(*ast.IndexExpr); isIx {
				if k, isK := constInt(li.info, ix.Index); isK {
					if o := li.info.Uses[identOf(ix.X)]; o != nil {
						if str, has := fr.strConstOf(o); has && k >= 0 && int(k) < len(str) {
							cv, ok = int64(str[k]), true
						}
					}
				}
			}
		}
		if ok {
			var tset bset
			for b := 0; b < 256; b++ {
				// bytes >= 0x80 under a rune comparison with an ASCII constant: the rune is >= 0x80
				v := int64(b)
				if isRune && b >= 0x80 {
					if cv < 0x80 {
						switch op {
						case token.NEQ, token.GTR, token.GEQ:
							tset.add(b)
						}
					} else {
						tset.add(b) // unknown: may be true
					}
					continue
				}
				var r bool
				switch op {
				case token.EQL:
					r = v == cv
				case token.NEQ:
					r = v != cv
				case token.LSS:
					r = v < cv
				case token.GTR:
					r = v > cv
				case token.LEQ:
					r = v <= cv
				case token.GEQ:
					r = v >= cv
				}
				if r {
					tset.add(b)
				}
			}
			fset := tset.not()
			if isRune && cv >= 0x80 {
				fset = fset.or(highSet())
			}
			for _, s := range in {
				t = append(t, li.refine(s, tset, cv != 0 && (op == token.EQL || op == token.GTR || op == token.GEQ && cv > 0)))
				f = append(f, li.refine(s, fset, op == token.NEQ && cv == 0))
			}
			return normalize(t), normalize(f)
		}
	}
	if li.touchesLexerPos(x) && !li.isLookahead(x) {
		li.undecided(fr, x, "comparison involving the lexer position")
	}
	return cloneAll(in), cloneAll(in)
}

// isLookahead: the expression only reads input at pos+k (k>0) or at a local index: no refinement of the current byte
func (li *lexInterp) isLookahead(e ast.Expr) bool {
	ok := true
	ast.Inspect(e, func(x ast.Node) bool {
		if ix, isIx := x.(*ast.IndexExpr); isIx && li.isLexerField(ix.X, "input") {
			if k, isPos := li.posPlusConst(ix.Index); isPos && k == 0 {
				ok = false
			}
			return false
		}
		return true
	})
	return ok
}

// refine restricts the current byte to `set`.  The byte value 0 is also what peek() returns at the end
// of the input, so a state in which the end of input is possible survives a set that contains 0.
func (li *lexInterp) refine(s *lexState, set bset, impliesNonEOF bool) *lexState {
	n := s.clone()
	if s.atEOF {
		// peek() == 0, peekRune() == 0
		if !set.has(0) {
			return nil
		}
		return n
	}
	if s.ne {
		n.B = s.B.and(set)
		if n.B.empty() {
			return nil
		}
		return n
	}
	// unknown whether at EOF: the byte is either a real byte in `set`, or (if 0 in set) the EOF sentinel
	if impliesNonEOF || !set.has(0) {
		n.ne = true
		n.B = s.B.and(set)
		if n.B.empty() {
			return nil
		}
		return n
	}
	return n // no information
}

func (li *lexInterp) condCall(call *ast.CallExpr, in []*lexState, fr *lexFrame) (t, f []*lexState) {
	li.curFrame = fr
	o := calleeOf(li.info, call)
	// predicate on the current byte / rune
	if len(call.Args) == 1 && len(in) > 0 {
		isB, isR := li.isCurrentByteExpr(call.Args[0], in[0]), li.isCurrentRuneExpr(call.Args[0], in[0])
		if isB || isR {
			mt, mf := li.predSets(call, isR)
			for _, s := range in {
				t = append(t, li.refine(s, mt, !mt.has(0)))
				f = append(f, li.refine(s, mf, false))
			}
			return normalize(t), normalize(f)
		}
		// predicate on a value tied to a snapshot: true implies non-empty if the predicate rejects ""
		if id, ok := ast.Unparen(call.Args[0]).(*ast.Ident); ok {
			if vo := li.info.Uses[id]; vo != nil {
				if fn, ok := o.(*types.Func); ok && li.funcs[fn] != nil && li.rejectsEmpty(li.funcs[fn]) {
					for _, s := range in {
						st := s.clone()
						if snap, ok := s.valueOf[vo]; ok {
							st.markSince(snap)
						}
						t, f = append(t, st), append(f, s.clone())
					}
					return normalize(t), normalize(f)
				}
			}
		}
	}
	// pure lookahead helper of the lexer: must not modify the lexer
	if m, ok := li.lexerMethodCall(call); ok {
		if !li.isPure(li.methods[m], 0) {
			// a conditional scanner: interpreted in place, its returns split by the value they report
			fd := li.methods[m]
			isBool := fd.Type.Results != nil && len(fd.Type.Results.List) == 1 && types.TypeString(li.info.TypeOf(fd.Type.Results.List[0].Type), nil) == "bool"
			if isBool && len(li.boolCaps) < 3 {
				cap := &lexBoolCap{fd: fd}
				li.boolCaps = append(li.boolCaps, cap)
				li.inline(fd, cloneAll(in), fr, call)
				li.boolCaps = li.boolCaps[:len(li.boolCaps)-1]
				li.curFrame = fr
				if !cap.bad && len(cap.t)+len(cap.f) > 0 {
					return normalize(cap.t), normalize(cap.f)
				}
			}
			li.undecided(fr, call, "boolean lexer helper that modifies the lexer state")
		} else if len(in) > 0 && len(li.boolCaps) < 3 {
			// a pure helper that is handed the current byte or rune (`l.accountEndsAt(l.pos, r)`): interpreted in
			// place like a predicate, quietly - if anything in it is outside the vocabulary the call is an unknown
			// boolean as before
			fd := li.methods[m]
			handed := false
			for _, a := range call.Args {
				if li.isCurrentByteExpr(a, in[0]) || li.isCurrentRuneExpr(a, in[0]) {
					handed = true
				}
			}
			isBool := fd.Type.Results != nil && len(fd.Type.Results.List) == 1 && types.TypeString(li.info.TypeOf(fd.Type.Results.List[0].Type), nil) == "bool"
			if handed && isBool {
				cap := &lexBoolCap{fd: fd}
				li.boolCaps = append(li.boolCaps, cap)
				li.quiet++
				hitBefore := li.quietHit
				li.quietHit = false
				li.inline(fd, cloneAll(in), fr, call)
				hit := li.quietHit
				li.quietHit = hitBefore
				li.quiet--
				li.boolCaps = li.boolCaps[:len(li.boolCaps)-1]
				li.curFrame = fr
				if !hit && !cap.bad && len(cap.t)+len(cap.f) > 0 {
					return normalize(cap.t), normalize(cap.f)
				}
			}
		}
	}
	return cloneAll(in), cloneAll(in)
}

// rejectsEmpty: the function returns false for the empty string: it starts with `if len(p) == 0 { return false }`
// or ends with `return len(p) > 0` / `return ... && len(p) > 0`.
func (li *lexInterp) rejectsEmpty(fd *ast.FuncDecl) bool {
	if len(fd.Body.List) == 0 {
		return false
	}
	if ifs, ok := fd.Body.List[0].(*ast.IfStmt); ok {
		c := fullStr(li.c.P.Fset, ifs.Cond)
		if strings.HasPrefix(c, "len(") && strings.HasSuffix(c, ") == 0") && len(ifs.Body.List) == 1 {
			if r, ok := ifs.Body.List[0].(*ast.ReturnStmt); ok && len(r.Results) == 1 && identOf(r.Results[0]).Name == "false" {
				return true
			}
		}
	}
	return false
}

// isPure: the method never assigns a lexer field and calls only pure methods.
func (li *lexInterp) isPure(fd *ast.FuncDecl, depth int) bool {
	if fd == nil || depth > 5 {
		return false
	}
	pure := true
	ast.Inspect(fd.Body, func(x ast.Node) bool {
		switch s := x.(type) {
		case *ast.AssignStmt:
			for _, l := range s.Lhs {
				if se, ok := ast.Unparen(l).(*ast.SelectorExpr); ok {
					for _, fld := range []string{"pos", "column", "line", "atStart", "input"} {
						if li.isLexerField(se, fld) {
							pure = false
						}
					}
				}
			}
		case *ast.IncDecStmt:
			if se, ok := ast.Unparen(s.X).(*ast.SelectorExpr); ok {
				for _, fld := range []string{"pos", "column", "line"} {
					if li.isLexerField(se, fld) {
						pure = false
					}
				}
			}
		case *ast.CallExpr:
			if m, ok := li.lexerMethodCall(s); ok && li.methods[m] != fd {
				if !li.isPure(li.methods[m], depth+1) {
					pure = false
				}
			}
		}
		return true
	})
	return pure
}

// ---- statements ----

func (li *lexInterp) block(list []ast.Stmt, in []*lexState, fr *lexFrame) lexFlow {
	fl := lexFlow{next: in, gotos: map[string][]*lexState{}}
	for _, st := range list {
		if ls, ok := st.(*ast.LabeledStmt); ok {
			// merge pending gotos
			fl.next = normalize(append(fl.next, fl.gotos[ls.Label.Name]...))
			delete(fl.gotos, ls.Label.Name)
			st = ls.Stmt
		}
		if len(fl.next) == 0 {
			// unreachable tail; still look for labels
			continue
		}
		sub := li.stmt(st, fl.next, fr)
		fl.next = sub.next
		fl.brk = append(fl.brk, sub.brk...)
		fl.cont = append(fl.cont, sub.cont...)
		for k, v := range sub.gotos {
			fl.gotos[k] = append(fl.gotos[k], v...)
		}
	}
	return fl
}

func (li *lexInterp) stmt(st ast.Stmt, in []*lexState, fr *lexFrame) lexFlow {
	fl := lexFlow{gotos: map[string][]*lexState{}}
	switch s := st.(type) {
	case *ast.EmptyStmt:
		fl.next = in
	case *ast.BlockStmt:
		return li.block(s.List, in, fr)
	case *ast.ExprStmt:
		if call, ok := s.X.(*ast.CallExpr); ok {
			fl.next = li.callStmt(call, in, fr)
		} else {
			fl.next = in
		}
	case *ast.IncDecStmt:
		fl.next = li.assignLexerField(s.X, nil, s.Tok, s, in, fr)
	case *ast.AssignStmt:
		fl.next = li.assign(s, in, fr)
	case *ast.DeclStmt:
		fl.next = in
	case *ast.IfStmt:
		cur := in
		if s.Init != nil {
			cur = li.stmt(s.Init, cur, fr).next
		}
		t, f := li.cond(s.Cond, cur, fr)
		tb := li.block(s.Body.List, t, fr)
		var eb lexFlow
		if s.Else != nil {
			eb = li.stmt(s.Else, f, fr)
		} else {
			eb = lexFlow{next: f}
		}
		fl.next = normalize(append(tb.next, eb.next...))
		fl.brk = append(tb.brk, eb.brk...)
		fl.cont = append(tb.cont, eb.cont...)
		for k, v := range tb.gotos {
			fl.gotos[k] = append(fl.gotos[k], v...)
		}
		for k, v := range eb.gotos {
			fl.gotos[k] = append(fl.gotos[k], v...)
		}
	case *ast.SwitchStmt:
		rem := in
		if s.Init != nil {
			rem = li.stmt(s.Init, rem, fr).next
		}
		// `switch x { case a, b: }` is `switch { case x == a, x == b: }` when evaluating x has no effect
		caseCond := func(ce ast.Expr) ast.Expr { return ce }
		if s.Tag != nil {
			if li.touchesStmt(&ast.ExprStmt{X: s.Tag}) {
				li.undecided(fr, s, "switch on an expression that modifies the lexer state")
				fl.next = in
				return fl
			}
			tag := s.Tag
			caseCond = func(ce ast.Expr) ast.Expr {
				return &ast.BinaryExpr{X: tag, OpPos: ce.Pos(), Op: token.EQL, Y: ce}
			}
		}
		hasDefault := false
		var defBody []ast.Stmt
		for _, cl := range s.Body.List {
			cc := cl.(*ast.CaseClause)
			if cc.List == nil {
				hasDefault, defBody = true, cc.Body
				continue
			}
			var tAll []*lexState
			for _, ce := range cc.List {
				t, f := li.cond(caseCond(ce), rem, fr)
				tAll = append(tAll, t...)
				rem = f
			}
			sub := li.block(cc.Body, normalize(tAll), fr)
			fl.next = append(fl.next, sub.next...)
			fl.next = append(fl.next, sub.brk...) // break leaves the switch
			fl.cont = append(fl.cont, sub.cont...)
			for k, v := range sub.gotos {
				fl.gotos[k] = append(fl.gotos[k], v...)
			}
		}
		if hasDefault {
			sub := li.block(defBody, rem, fr)
			fl.next = append(fl.next, sub.next...)
			fl.next = append(fl.next, sub.brk...)
			fl.cont = append(fl.cont, sub.cont...)
			for k, v := range sub.gotos {
				fl.gotos[k] = append(fl.gotos[k], v...)
			}
		} else {
			fl.next = append(fl.next, rem...)
		}
		fl.next = normalize(fl.next)
	case *ast.ForStmt:
		cur := in
		if s.Init != nil {
			cur = li.stmt(s.Init, cur, fr).next
		}
		head := normalize(cur)
		var exits []*lexState
		for iter := 0; iter < 40; iter++ {
			t, f := head, []*lexState(nil)
			if s.Cond != nil {
				t, f = li.cond(s.Cond, head, fr)
			}
			body := li.block(s.Body.List, t, fr)
			back := append(body.next, body.cont...)
			if s.Post != nil && len(back) > 0 {
				back = li.stmt(s.Post, normalize(back), fr).next
			}
			exits = append(f, body.brk...)
			for k, v := range body.gotos {
				fl.gotos[k] = append(fl.gotos[k], v...)
			}
			nh := normalize(append(cloneAll(cur), back...))
			if sameStates(nh, head) {
				break
			}
			head = nh
			if iter == 39 {
				li.undecided(fr, s, "loop whose abstract state does not stabilise")
			}
		}
		fl.next = normalize(exits)
	case *ast.RangeStmt:
		// ranges over strings/values in helper code: body interpreted once with possible repetition ignored if it does not touch the lexer
		if li.touchesStmt(s.Body) {
			// `for range n { ... }` with an integer n: the body runs an unknown number of times (0, 1, 2, ...); the
			// states after any number of iterations leave the loop
			if t := li.info.TypeOf(s.X); t != nil {
				if b, ok := t.Underlying().(*types.Basic); ok && b.Info()&types.IsInteger != 0 && s.Value == nil {
					cur := in
					if li.touchesStmt(s.X) {
						li.undecided(fr, s, "range count that modifies the lexer state")
					}
					head := normalize(cloneAll(cur))
					var brks []*lexState
					for iter := 0; iter < 40; iter++ {
						body := li.block(s.Body.List, cloneAll(head), fr)
						back := append(body.next, body.cont...)
						brks = append(brks, body.brk...)
						for k, v := range body.gotos {
							fl.gotos[k] = append(fl.gotos[k], v...)
						}
						nh := normalize(append(cloneAll(head), back...))
						if sameStates(nh, head) {
							break
						}
						head = nh
						if iter == 39 {
							li.undecided(fr, s, "loop whose abstract state does not stabilise")
						}
					}
					fl.next = normalize(append(head, brks...))
					return fl
				}
			}
			li.undecided(fr, s, "range loop that modifies the lexer state")
		}
		fl.next = in
	case *ast.BranchStmt:
		switch s.Tok {
		case token.BREAK:
			fl.brk = in
		case token.CONTINUE:
			fl.cont = in
		case token.GOTO:
			fl.gotos[s.Label.Name] = in
		default:
			li.undecided(fr, s, "branch statement")
		}
	case *ast.ReturnStmt:
		li.ret(s, in, fr)
	case *ast.LabeledStmt:
		return li.stmt(s.Stmt, in, fr)
	default:
		if li.touchesStmt(st) {
			li.undecided(fr, st, "statement form")
		}
		fl.next = in
	}
	return fl
}

func (li *lexInterp) touchesStmt(n ast.Node) bool {
	found := false
	ast.Inspect(n, func(x ast.Node) bool {
		switch s := x.(type) {
		case *ast.AssignStmt:
			for _, l := range s.Lhs {
				for _, fld := range []string{"pos", "column", "line", "atStart"} {
					if li.isLexerField(l, fld) {
						found = true
					}
				}
			}
		case *ast.IncDecStmt:
			for _, fld := range []string{"pos", "column", "line"} {
				if li.isLexerField(s.X, fld) {
					found = true
				}
			}
		case *ast.CallExpr:
			if m, ok := li.lexerMethodCall(s); ok && !li.isPure(li.methods[m], 0) {
				found = true
			}
		}
		return true
	})
	return found
}

// effectiveAdvance models pos += size (size >= 1 when pos < len(input)).
func (li *lexInterp) effectiveAdvance(n ast.Node, in []*lexState, fr *lexFrame) []*lexState {
	var out []*lexState
	nlOnly := single('\n')
	var blanks bset
	blanks.add(' ')
	blanks.add('\t')
	for _, s := range in {
		li.nAdvances++
		n2 := s.clone()
		if s.atEOF {
			// cannot advance at the end of input (the decode of an empty string has size 0)
			out = append(out, n2)
			continue
		}
		site := fmt.Sprintf("advance #%d in %s (context %s)", ordinalIn(fr.fd, n), li.fnName(fr), strings.Join(li.stack, ">"))
		switch {
		case s.ne && !s.B.has('\n'):
			li.okOnce("L-NEWLINE", fr, site, n.Pos(), "current byte ∈ "+s.B.String()+": no line break is consumed here")
		case s.ne && s.B == nlOnly:
			// a line break is consumed: it must be matched by one increment of the line counter before the
			// token is returned (checked at the return)
			n2.nl++
			n2.sawNL = true
			li.okOnce("L-NEWLINE", fr, site, n.Pos(), "the byte consumed here is a line break; the matching increment of the line counter is checked at the token's return")
		default:
			why := "the current byte may be a line break (possible bytes: " + s.B.String() + ")"
			if !s.ne {
				why = "nothing is known about the current byte"
			}
			n2.nlUnknown = true
			li.findOnce("L-NEWLINE", fr, site, n.Pos(), "a scanner can consume '\\n' among other bytes: "+why+"; the token then spans a line break, line numbers drift and the lexer's state at the next line start depends on this line")
		}
		if !s.ne || !s.B.and(blanks.not()).empty() {
			n2.sig = true
		}
		n2.epoch = nil
		if s.ne {
			n2.adv = true
			for k := range n2.since {
				n2.since[k] = true
			}
			for k := range n2.snaps {
				n2.since[k] = true
			}
		}
		n2.ne, n2.atEOF = false, false
		n2.B = fullSet()
		n2.byteVar = map[types.Object]bool{}
		n2.runeVar = map[types.Object]bool{}
		n2.sizeVar = map[types.Object]bool{}
		n2.boolDef = map[types.Object]ast.Expr{}
		out = append(out, n2)
	}
	return normalize(out)
}

func (li *lexInterp) okOnce(rule string, fr *lexFrame, desc string, pos token.Pos, msg string) {
	if li.only != nil && !li.only[rule] {
		return
	}
	k := rule + "|" + desc
	if li.reported[k] {
		return
	}
	li.reported[k] = true
	li.c.ok(rule, li.fnName(fr), desc, pos, msg)
}

func (li *lexInterp) findOnce(rule string, fr *lexFrame, desc string, pos token.Pos, msg string) {
	if li.only != nil && !li.only[rule] {
		return
	}
	k := rule + "|F|" + desc
	if li.reported[k] {
		return
	}
	li.reported[k] = true
	// a finding supersedes an earlier ok for the same site
	for _, o := range li.c.Obligs {
		if o.Rule == rule && strings.HasSuffix(o.Key, "|"+desc) && o.Verdict == Discharged {
			o.Verdict = Finding
			o.Msg = msg
			return
		}
	}
	li.reported[rule+"|"+desc] = true
	li.c.finding(rule, li.fnName(fr), desc, pos, msg)
}

func (li *lexInterp) assign(s *ast.AssignStmt, in []*lexState, fr *lexFrame) []*lexState {
	// lexer field on the left
	if len(s.Lhs) == 1 {
		for _, fld := range []string{"pos", "column", "line", "atStart"} {
			if li.isLexerField(s.Lhs[0], fld) {
				return li.assignLexerField(s.Lhs[0], s.Rhs[0], s.Tok, s, in, fr)
			}
		}
	}
	out := cloneAll(in)
	if s.Tok != token.DEFINE && s.Tok != token.ASSIGN {
		return out
	}
	// bindings
	if len(s.Rhs) == 1 {
		rhs := ast.Unparen(s.Rhs[0])
		obj := func(i int) types.Object {
			if i >= len(s.Lhs) {
				return nil
			}
			id, ok := s.Lhs[i].(*ast.Ident)
			if !ok || id.Name == "_" {
				return nil
			}
			if o := li.info.Defs[id]; o != nil {
				return o
			}
			return li.info.Uses[id]
		}
		for _, st := range out {
			for i := range s.Lhs {
				if o := obj(i); o != nil {
					delete(st.byteVar, o)
					delete(st.boolDef, o)
					delete(st.runeVar, o)
					delete(st.sizeVar, o)
					delete(st.valSet, o)
					delete(st.valueOf, o)
					delete(st.snaps, o)
					delete(st.since, o)
					delete(st.posSnap, o)
					delete(st.sigAt, o)
					delete(st.lead, o)
				}
			}
		}
		// a condition hoisted into a local: isSpace := r == ' '
		if len(s.Lhs) == 1 {
			if o := obj(0); o != nil {
				if bt, ok := li.info.TypeOf(rhs).Underlying().(*types.Basic); ok && bt.Info()&types.IsBoolean != 0 && li.pureCond(rhs) {
					for _, st := range out {
						st.boolDef[o] = rhs
					}
				}
			}
		}
		isPosCall := false
		if call, ok := rhs.(*ast.CallExpr); ok && len(call.Args) == 0 {
			if m, ok := li.lexerMethodCall(call); ok && li.positionFns[m] {
				isPosCall = true
			}
		}
		switch {
		case (li.isLexerField(rhs, "pos") || isPosCall) && len(s.Lhs) == 1:
			if o := obj(0); o != nil {
				for _, st := range out {
					// input consumed between an earlier Position snapshot and this one: whatever is sliced from
					// here on does not include the beginning of the lexeme (a leading delimiter)
					lead := false
					for p := range st.posSnap {
						if st.since[p] {
							lead = true
						}
					}
					na := map[types.Object]bool{}
					for q := range st.snaps {
						if q != o {
							na[q] = true
						}
					}
					// snapshots taken since the last advance denote the same position: the relation is mutual
					for _, q := range st.epoch {
						if q != o {
							if st.notAfter[q] == nil {
								st.notAfter[q] = map[types.Object]bool{}
							}
							st.notAfter[q][o] = true
						}
					}
					st.notAfter[o] = na
					st.epoch = append(st.epoch, o)
					st.snaps[o] = snapState{ne: st.ne, B: st.B, adv: st.adv, sig: st.sig, nl: st.nl, sawNL: st.sawNL, nlUnknown: st.nlUnknown}
					st.since[o] = false
					st.sigAt[o] = st.sig
					st.lead[o] = lead
					delete(st.posSnap, o)
					if isPosCall {
						st.posSnap[o] = true
					}
				}
			}
		case len(s.Lhs) == 1 && (func() bool { return li.isCurrentByteExpr(rhs, in0(in)) })():
			if o := obj(0); o != nil {
				for _, st := range out {
					st.byteVar[o] = true
					if st.ne {
						st.valSet[o] = st.B
					} else {
						delete(st.valSet, o)
					}
				}
			}
		case len(s.Lhs) == 1 && li.isCurrentRuneExpr(rhs, in0(in)):
			if o := obj(0); o != nil {
				for _, st := range out {
					st.runeVar[o] = true
				}
			}
		default:
			// r, size := utf8.DecodeRuneInString(l.input[l.pos:])
			if call, ok := rhs.(*ast.CallExpr); ok && qualName(calleeOf(li.info, call)) == "unicode/utf8.DecodeRuneInString" && len(call.Args) == 1 {
				if sl, ok := ast.Unparen(call.Args[0]).(*ast.SliceExpr); ok && li.isLexerField(sl.X, "input") && sl.High == nil {
					if k, isPos := li.posPlusConst(sl.Low); isPos && k == 0 {
						if o := obj(0); o != nil {
							for _, st := range out {
								st.runeVar[o] = true
							}
						}
						if o := obj(1); o != nil {
							for _, st := range out {
								st.sizeVar[o] = true
							}
						}
					}
				}
			}
			// value := l.input[start:l.pos]  (also through strings.TrimSpace)
			var sl *ast.SliceExpr
			if x, ok := rhs.(*ast.SliceExpr); ok {
				sl = x
			} else if call, ok := rhs.(*ast.CallExpr); ok && len(call.Args) >= 1 && strings.HasPrefix(qualName(calleeOf(li.info, call)), "strings.Trim") {
				if x, ok := ast.Unparen(call.Args[0]).(*ast.SliceExpr); ok {
					sl = x
				}
			}
			if sl != nil && li.isLexerField(sl.X, "input") && sl.Low != nil && li.isLexerField(sl.High, "pos") && len(s.Lhs) == 1 {
				low := ast.Unparen(sl.Low)
				if se, ok := low.(*ast.SelectorExpr); ok && se.Sel.Name == "Offset" {
					low = ast.Unparen(se.X) // start.Offset of a Position snapshot
				}
				if id, ok := low.(*ast.Ident); ok {
					if so := li.info.Uses[id]; so != nil {
						if o := obj(0); o != nil {
							for _, st := range out {
								if _, isSnap := st.snaps[so]; isSnap {
									st.valueOf[o] = so
								}
							}
						}
					}
				}
			}
			// value := l.lexemeFrom(begin): a pure helper that returns input[<param>(.Offset) : pos]
			if call, ok := rhs.(*ast.CallExpr); ok && len(s.Lhs) == 1 {
				if so := li.sliceHelperStart(call); so != nil {
					if o := obj(0); o != nil {
						for _, st := range out {
							if _, isSnap := st.snaps[so]; isSnap {
								st.valueOf[o] = so
							}
						}
					}
				}
			}
			// a call on the right-hand side may be a lexer method with effects (e.g. value := l.scanDelimited(')')):
			// interpret it in place; its result is an unknown value
			if call, ok := rhs.(*ast.CallExpr); ok {
				if m, ok := li.lexerMethodCall(call); ok && !li.isPure(li.methods[m], 0) {
					fd := li.methods[m]
					if fd.Type.Results != nil && len(fd.Type.Results.List) == 1 && typeHasSuffix(li.info.TypeOf(fd.Type.Results.List[0].Type), "parser.Token") {
						li.undecided(fr, s, "token produced by a scanner and stored instead of returned")
					} else {
						res := li.inline(fd, out, fr, call)
						// value := l.scanUntil(stop), where the scanner returns input[start:pos] for a snapshot it took
						// itself: the value is tied to that snapshot
						if o := obj(0); o != nil && len(s.Lhs) == 1 {
							if so := li.returnedSliceStart(fd); so != nil {
								for _, st := range res {
									if _, isSnap := st.snaps[so]; isSnap {
										st.valueOf[o] = so
									}
								}
							}
						}
						return res
					}
				}
			}
		}
	}
	return out
}

func in0(in []*lexState) *lexState {
	if len(in) == 0 {
		return newLexState()
	}
	return in[0]
}

func (li *lexInterp) assignLexerField(lhs ast.Expr, rhs ast.Expr, tok token.Token, n ast.Node, in []*lexState, fr *lexFrame) []*lexState {
	switch {
	case li.isLexerField(lhs, "pos"):
		switch tok {
		case token.ADD_ASSIGN, token.INC:
			// pos += size / pos++ : the step must be the encoded width of the current rune (>= 1 and within the
			// input when pos < len), or 1 over a byte known to be ASCII
			for _, s := range in {
				site := fmt.Sprintf("step #%d in %s (context %s)", ordinalIn(fr.fd, n), li.fnName(fr), strings.Join(li.stack, ">"))
				okStep := false
				why := ""
				switch {
				case tok == token.INC || func() bool { k, isK := constInt(li.info, rhs); return rhs != nil && isK && k == 1 }():
					var ascii bset
					for b := 0; b < 128; b++ {
						ascii.add(b)
					}
					okStep = s.atEOF || (s.ne && s.B.and(ascii.not()).empty())
					why = "the position is advanced by one byte although the current byte may start a multi-byte character (possible bytes: " + s.B.String() + ")"
				case rhs != nil && s.sizeVar[li.info.Uses[identOf(rhs)]]:
					okStep = true
				default:
					why = "the position is advanced by `" + exprStr(li.c.P.Fset, rhs) + "`, which is not the width the decoder reported for the current rune"
				}
				if okStep {
					li.okOnce("L-STEP", fr, site, n.Pos(), "the position moves by the decoded width of the current rune")
				} else {
					li.findOnce("L-STEP", fr, site, n.Pos(), why+": the position can run past the end of the input (slice bounds panic in the scanners) or land inside a character, and bytes - including a line break - are skipped without being scanned")
				}
			}
			return li.effectiveAdvance(n, in, fr)
		case token.ASSIGN:
			src := ast.Unparen(rhs)
			if se, ok := src.(*ast.SelectorExpr); ok && se.Sel.Name == "Offset" {
				src = ast.Unparen(se.X) // the byte offset recorded in a Position snapshot
			}
			if id, ok := src.(*ast.Ident); ok {
				if o := li.info.Uses[id]; o != nil {
					var out []*lexState
					for _, s := range in {
						snap, ok := s.snaps[o]
						if !ok {
							li.undecided(fr, n, "position restored from a value that is not a snapshot")
							return cloneAll(in)
						}
						n2 := s.clone()
						n2.ne, n2.B, n2.adv, n2.atEOF = snap.ne, snap.B, snap.adv, false
						n2.sig, n2.nl, n2.sawNL, n2.nlUnknown = snap.sig, snap.nl, snap.sawNL, snap.nlUnknown
						n2.epoch = nil
						// facts established after the snapshot are gone
						n2.since[o] = false
						for q := range n2.notAfter[o] {
							if n2.notAfter[q][o] { // mutual: q denotes the same position as o
								n2.since[q] = false
							}
						}
						for k := range n2.snaps {
							if k.Pos() > o.Pos() {
								delete(n2.snaps, k)
								delete(n2.since, k)
							}
						}
						for k, v := range n2.valueOf {
							if v == o {
								delete(n2.valueOf, k)
							}
						}
						n2.byteVar = map[types.Object]bool{}
						n2.runeVar = map[types.Object]bool{}
						n2.sizeVar = map[types.Object]bool{}
						n2.boolDef = map[types.Object]ast.Expr{}
						out = append(out, n2)
					}
					return normalize(out)
				}
			}
		}
		li.undecided(fr, n, "write to the lexer position")
		return cloneAll(in)
	case li.isLexerField(lhs, "line"):
		out := cloneAll(in)
		for _, st := range out {
			switch tok {
			case token.INC:
				st.nl--
			case token.ADD_ASSIGN:
				if k, ok := constInt(li.info, rhs); ok && k == 1 {
					st.nl--
				} else {
					st.nlUnknown = true
				}
			default:
				st.nlUnknown = true
			}
		}
		return out
	case li.isLexerField(lhs, "atStart"):
		out := cloneAll(in)
		if rhs != nil && identOf(rhs).Name == "true" {
			for _, st := range out {
				st.atStartSet = true
			}
		} else if rhs == nil || identOf(rhs).Name != "false" {
			for _, st := range out {
				st.atStartSet = true // unknown value: may be true
				st.flagCleared = true
			}
		} else {
			for _, st := range out {
				st.flagCleared = true
			}
		}
		return out
	default:
		// column: no effect on progress
		return cloneAll(in)
	}
}

// callStmt interprets a call used as a statement (advance(), skipSpaces(), ...).
func (li *lexInterp) callStmt(call *ast.CallExpr, in []*lexState, fr *lexFrame) []*lexState {
	m, ok := li.lexerMethodCall(call)
	if !ok {
		return in
	}
	fd := li.methods[m]
	if li.isPure(fd, 0) {
		return in
	}
	return li.inline(fd, in, fr, call)
}

func (li *lexInterp) inline(fd *ast.FuncDecl, in []*lexState, fr *lexFrame, at ast.Node) []*lexState {
	if len(li.stack) > 8 {
		if !li.depthErr {
			li.depthErr = true
			li.undecided(fr, at, "call chain deeper than 8 (recursion?)")
		}
		return nil
	}
	for _, f := range li.stack {
		if f == fd.Name.Name {
			li.undecided(fr, at, "recursive lexer method "+fd.Name.Name)
			return nil
		}
	}
	li.stack = append(li.stack, fd.Name.Name)
	sub := &lexFrame{fd: fd, parent: fr, funcArgs: map[types.Object]ast.Expr{}, consts: map[types.Object]int64{}}
	if call, ok := at.(*ast.CallExpr); ok && fd.Type.Params != nil {
		i := 0
		for _, fl := range fd.Type.Params.List {
			for _, nm := range fl.Names {
				if i < len(call.Args) {
					po := li.info.Defs[nm]
					if _, isFn := po.Type().Underlying().(*types.Signature); isFn {
						sub.funcArgs[po] = call.Args[i]
					} else if tv, ok := li.info.Types[call.Args[i]]; ok && tv.Value != nil && tv.Value.Kind() == constant.String {
						if sub.strs == nil {
							sub.strs = map[types.Object]string{}
						}
						sub.strs[po] = constant.StringVal(tv.Value)
					} else if v, ok := constInt(li.info, call.Args[i]); ok {
						sub.consts[po] = v
					} else if o := li.info.Uses[identOf(call.Args[i])]; o != nil {
						if v, ok := fr.constOf(o); ok {
							sub.consts[po] = v
						}
					}
				}
				i++
			}
		}
	}
	// locals of the callee are fresh; caller's aliases of the current byte stay valid only if pos is unchanged,
	// which effectiveAdvance takes care of.  Parameters that are handed a snapshot / a current-byte alias of the
	// caller stand for the same thing inside the callee.
	start := cloneAll(in)
	if call, ok := at.(*ast.CallExpr); ok && fd.Type.Params != nil && len(call.Args) == 1 {
		// f(utf8.DecodeRuneInString(l.input[l.pos:])): the callee's (rune, size) parameters are the current rune and its width
		if dc, ok := ast.Unparen(call.Args[0]).(*ast.CallExpr); ok && qualName(calleeOf(li.info, dc)) == "unicode/utf8.DecodeRuneInString" && len(dc.Args) == 1 {
			if sl, ok := ast.Unparen(dc.Args[0]).(*ast.SliceExpr); ok && li.isLexerField(sl.X, "input") && sl.High == nil {
				if k, isPos := li.posPlusConst(sl.Low); isPos && k == 0 {
					var ps []types.Object
					for _, fl := range fd.Type.Params.List {
						for _, nm := range fl.Names {
							ps = append(ps, li.info.Defs[nm])
						}
					}
					if len(ps) == 2 {
						for _, st := range start {
							st.runeVar[ps[0]] = true
							st.sizeVar[ps[1]] = true
						}
					}
				}
			}
		}
	}
	if call, ok := at.(*ast.CallExpr); ok && fd.Type.Params != nil {
		i := 0
		for _, fl := range fd.Type.Params.List {
			for _, nm := range fl.Names {
				if i < len(call.Args) {
					po := li.info.Defs[nm]
					ao := li.info.Uses[identOf(call.Args[i])]
					if po != nil && ao != nil {
						for _, st := range start {
							st.aliasVar(po, ao)
						}
					}
				}
				i++
			}
		}
	}
	fl := li.block(fd.Body.List, start, sub)
	li.stack = li.stack[:len(li.stack)-1]
	return normalize(append(fl.next, sub.rets...))
}

func (li *lexInterp) ret(s *ast.ReturnStmt, in []*lexState, fr *lexFrame) {
	returnsToken := fr.fd.Type.Results != nil && len(fr.fd.Type.Results.List) == 1 && typeHasSuffix(li.info.TypeOf(fr.fd.Type.Results.List[0].Type), "parser.Token")
	if !returnsToken {
		if n := len(li.boolCaps); n > 0 && li.boolCaps[n-1].fd == fr.fd && len(s.Results) == 1 {
			cap := li.boolCaps[n-1]
			switch identOf(s.Results[0]).Name {
			case "true":
				cap.t = append(cap.t, cloneAll(in)...)
			case "false":
				cap.f = append(cap.f, cloneAll(in)...)
			default:
				if call, ok := ast.Unparen(s.Results[0]).(*ast.CallExpr); ok {
					if m, ok := li.lexerMethodCall(call); ok && !li.isPure(li.methods[m], 0) {
						cap.bad = true
					}
				}
				tt, ff := li.cond(s.Results[0], cloneAll(in), fr)
				cap.t, cap.f = append(cap.t, tt...), append(cap.f, ff...)
			}
		}
		fr.rets = append(fr.rets, cloneAll(in)...)
		if len(s.Results) > 0 {
			for _, r := range s.Results {
				if call, ok := ast.Unparen(r).(*ast.CallExpr); ok {
					if m, ok := li.lexerMethodCall(call); ok && !li.isPure(li.methods[m], 0) {
						li.undecided(fr, s, "state-changing call in a non-token return")
					}
				}
			}
		}
		return
	}
	if len(s.Results) != 1 {
		li.undecided(fr, s, "token return without a value")
		return
	}
	r := ast.Unparen(s.Results[0])
	if tp, ok := li.tokenParts(r, 0); ok {
		if tp.kind == "" && tp.kindExpr != nil {
			// Type: <parameter of the scanner>, bound to a constant by the caller
			if o := li.info.Uses[identOf(tp.kindExpr)]; o != nil {
				if v, ok := fr.constOf(o); ok {
					tp.kind = li.tokenKindName(v)
				}
			}
		}
		li.checkReturn(s, in, fr, tp)
		return
	}
	if x, ok := r.(*ast.CallExpr); ok {
		if m, ok := li.lexerMethodCall(x); ok {
			// tail call of another scanner: its returns are checked in its own body, in this context
			li.inline(li.methods[m], in, fr, x)
			return
		}
		li.undecided(fr, s, "token returned from an unknown call")
		return
	}
	li.undecided(fr, s, "token return of an unknown form")
}

// tokenPartsT: how a returned token is put together.
type tokenPartsT struct {
	kindExpr ast.Expr // the expression stored in Type when it is not (yet) a constant: a parameter of a constructor
	kind     string   // name of the TokenType constant ("" = not a constant)
	pos      ast.Expr // expression stored in Pos (nil: unknown)
	posNow   bool     // Pos is the lexer's position at the moment of construction
	value    ast.Expr
}

// tokenParts understands a Token composite literal and calls of pure constructors (methods or functions of
// the package that return such a literal built from their parameters).
func (li *lexInterp) tokenParts(r ast.Expr, depth int) (tokenPartsT, bool) {
	var tp tokenPartsT
	switch x := ast.Unparen(r).(type) {
	case *ast.CompositeLit:
		if !typeHasSuffix(li.info.TypeOf(x), "parser.Token") {
			return tp, false
		}
		for _, el := range x.Elts {
			kv, ok := el.(*ast.KeyValueExpr)
			if !ok {
				return tp, false
			}
			switch identOf(kv.Key).Name {
			case "Type":
				if k, ok := li.info.Uses[identOf(kv.Value)].(*types.Const); ok {
					tp.kind = k.Name()
				} else {
					tp.kindExpr = kv.Value
				}
			case "Pos":
				tp.pos = kv.Value
				if call, ok := ast.Unparen(kv.Value).(*ast.CallExpr); ok {
					if m, ok := li.lexerMethodCall(call); ok && li.positionFns[m] {
						tp.posNow = true
					}
				}
			case "Value":
				tp.value = kv.Value
			}
		}
		return tp, true
	case *ast.CallExpr:
		if depth > 2 {
			return tp, false
		}
		fn, ok := calleeOf(li.info, x).(*types.Func)
		if !ok {
			return tp, false
		}
		fd := li.funcs[fn]
		if fd == nil || fd.Body == nil || !li.isPure(fd, 0) || fd.Type.Results == nil || len(fd.Type.Results.List) != 1 ||
			!typeHasSuffix(li.info.TypeOf(fd.Type.Results.List[0].Type), "parser.Token") {
			return tp, false
		}
		// the constructor's single return
		var ret *ast.ReturnStmt
		n := 0
		ast.Inspect(fd.Body, func(y ast.Node) bool {
			if rs, ok := y.(*ast.ReturnStmt); ok {
				ret = rs
				n++
			}
			return true
		})
		if n != 1 || len(ret.Results) != 1 {
			return tp, false
		}
		inner, ok := li.tokenParts(ret.Results[0], depth+1)
		if !ok {
			return tp, false
		}
		// bind the constructor's parameters to the arguments of this call
		var params []types.Object
		if fd.Type.Params != nil {
			for _, fl := range fd.Type.Params.List {
				for _, nm := range fl.Names {
					params = append(params, li.info.Defs[nm])
				}
			}
		}
		bind := func(e ast.Expr) (ast.Expr, bool) {
			if e == nil {
				return nil, false
			}
			o := li.info.Uses[identOf(e)]
			for i, q := range params {
				if o != nil && o == q && i < len(x.Args) {
					return x.Args[i], true
				}
			}
			return nil, false
		}
		tp = inner
		if inner.kind == "" && inner.kindExpr != nil {
			if a, ok := bind(inner.kindExpr); ok {
				if k, ok := li.info.Uses[identOf(a)].(*types.Const); ok {
					tp.kind, tp.kindExpr = k.Name(), nil
				} else {
					tp.kindExpr = a
				}
			}
		}
		if a, ok := bind(inner.pos); ok {
			tp.pos, tp.posNow = a, false
			if call, ok := ast.Unparen(a).(*ast.CallExpr); ok {
				if m, ok := li.lexerMethodCall(call); ok && li.positionFns[m] {
					tp.pos, tp.posNow = nil, true // constructed at the position where the (outer) constructor is called
				}
			}
		} else if !inner.posNow {
			// a local of the constructor: the position when the constructor runs
			tp.pos, tp.posNow = nil, li.localFromPosition(fd, inner.pos)
		}
		if a, ok := bind(inner.value); ok {
			tp.value = a
		} else {
			tp.value = nil
		}
		return tp, true
	}
	return tp, false
}

// sliceHelperStart: call is `l.h(x)` where h is a pure method whose body is `return l.input[p(.Offset):l.pos]`
// (possibly trimmed) with p one of its parameters; returns the caller's variable passed for p.
func (li *lexInterp) sliceHelperStart(call *ast.CallExpr) types.Object {
	m, ok := li.lexerMethodCall(call)
	if !ok {
		return nil
	}
	fd := li.methods[m]
	if fd == nil || !li.isPure(fd, 0) || len(fd.Body.List) != 1 || fd.Type.Params == nil {
		return nil
	}
	r, ok := fd.Body.List[0].(*ast.ReturnStmt)
	if !ok || len(r.Results) != 1 {
		return nil
	}
	v := ast.Unparen(r.Results[0])
	if c2, ok := v.(*ast.CallExpr); ok && len(c2.Args) >= 1 && strings.HasPrefix(qualName(calleeOf(li.info, c2)), "strings.Trim") {
		v = ast.Unparen(c2.Args[0])
	}
	sl, ok := v.(*ast.SliceExpr)
	if !ok || !li.isLexerField(sl.X, "input") || sl.Low == nil || !li.isLexerField(sl.High, "pos") {
		return nil
	}
	low := ast.Unparen(sl.Low)
	if se, ok := low.(*ast.SelectorExpr); ok && se.Sel.Name == "Offset" {
		low = ast.Unparen(se.X)
	}
	po := li.info.Uses[identOf(low)]
	i := 0
	for _, fl := range fd.Type.Params.List {
		for _, nm := range fl.Names {
			if li.info.Defs[nm] == po && po != nil && i < len(call.Args) {
				return li.info.Uses[identOf(call.Args[i])]
			}
			i++
		}
	}
	return nil
}

// tokenKindName: the name of the TokenType constant with the given value.
func (li *lexInterp) tokenKindName(v int64) string {
	sc := li.pk.Types.Scope()
	for _, n := range sc.Names() {
		if k, ok := sc.Lookup(n).(*types.Const); ok && typeHasSuffix(k.Type(), "parser.TokenType") {
			if kv, ok := constant.Int64Val(constant.ToInt(k.Val())); ok && kv == v {
				return n
			}
		}
	}
	return ""
}

// localFromPosition: e is a local of fd defined once as a call of a position method.
func (li *lexInterp) localFromPosition(fd *ast.FuncDecl, e ast.Expr) bool {
	o := li.info.Uses[identOf(e)]
	if o == nil {
		return false
	}
	found := false
	ast.Inspect(fd.Body, func(y ast.Node) bool {
		if as, ok := y.(*ast.AssignStmt); ok && len(as.Lhs) == 1 && len(as.Rhs) == 1 && li.info.Defs[identOf(as.Lhs[0])] == o {
			if call, ok := ast.Unparen(as.Rhs[0]).(*ast.CallExpr); ok {
				if m, ok := li.lexerMethodCall(call); ok && li.positionFns[m] {
					found = true
				}
			}
		}
		return true
	})
	return found
}

func (li *lexInterp) checkReturn(s *ast.ReturnStmt, in []*lexState, fr *lexFrame, tp tokenPartsT) {
	kind := tp.kind
	for _, st := range in {
		li.nReturns++
		li.nTok++
		desc := fmt.Sprintf("return #%d of %s in %s (context %s)", ordinalIn(fr.fd, s), kind, li.fnName(fr), strings.Join(li.stack, ">"))
		// ---- L-NEWLINE: line breaks consumed = increments of the line counter; line-start flag only after a line break
		switch {
		case st.nlUnknown:
			// reported at the advance / write itself
		case st.nl != 0:
			li.findOnce("L-NEWLINE", fr, "line accounting at "+desc, s.Pos(), fmt.Sprintf("while this token was scanned the number of line breaks consumed and the number of increments of the line counter differ by %d: line numbers of everything that follows are off", st.nl))
		case st.atStartSet && !st.sawNL:
			li.findOnce("L-NEWLINE", fr, "line accounting at "+desc, s.Pos(), "the line-start flag is set although no line break was consumed for this token: the lexer's state at a line start would depend on earlier lines")
		default:
			li.okOnce("L-NEWLINE", fr, "line accounting at "+desc, s.Pos(), "line breaks consumed and line-counter increments match; the line-start flag is only set together with a consumed line break")
		}
		// ---- L-POS: where the token starts
		li.checkPos(s, st, fr, tp, desc)
		li.checkStop(s, st, fr, tp, desc)
		if kind == "TokenEOF" {
			if st.atEOF {
				li.okOnce("L-PROGRESS", fr, desc, s.Pos(), "the end-of-input token is returned only when pos >= len(input)")
			} else {
				li.findOnce("L-PROGRESS", fr, desc, s.Pos(), "the end-of-input token can be returned while input remains (pos < len(input) is not excluded): tokenisation stops early")
			}
			continue
		}
		if st.advanced() {
			li.okOnce("L-PROGRESS", fr, desc, s.Pos(), "on every path to this return the position has strictly increased since Next was entered")
		} else {
			b := "unknown"
			if st.ne {
				b = st.B.String()
			}
			li.findOnce("L-PROGRESS", fr, desc, s.Pos(), "a non-EOF token can be returned without consuming any input (possible current bytes: "+b+"): Next() would return the same token forever and every caller that loops until EOF hangs")
		}
	}
}

// checkPos (L-POS): the token's Pos is a position captured before any significant byte of the scan was
// consumed, and - except for the end-of-input token - input was consumed after it.
func (li *lexInterp) checkPos(s *ast.ReturnStmt, st *lexState, fr *lexFrame, tp tokenPartsT, desc string) {
	pdesc := "token start at " + desc
	if tp.posNow {
		// Pos = End = current position: an empty token
		if tp.kind == "TokenEOF" {
			li.okOnce("L-POS", fr, pdesc, s.Pos(), "zero-width token at the current position: the end-of-input token")
		} else {
			li.findOnce("L-POS", fr, pdesc, s.Pos(), "a non-EOF token is built with Pos = the position at construction time: it is empty and, if built after consuming its character, sits behind its lexeme")
		}
		return
	}
	o := li.info.Uses[identOf(tp.pos)]
	if tp.pos == nil || o == nil || !st.posSnap[o] {
		li.findOnce("L-POS", fr, pdesc, s.Pos(), "a token is positioned after (part of) its lexeme: Pos is not a variable captured from the lexer's position")
		return
	}
	switch {
	case st.sigAt[o]:
		li.findOnce("L-POS", fr, pdesc, s.Pos(), "a token is positioned after (part of) its lexeme: the start position is captured after the scanner has already consumed input other than blanks")
	case tp.kind != "TokenEOF" && !st.since[o]:
		li.findOnce("L-POS", fr, pdesc, s.Pos(), "no input is consumed between the capture of Pos and the construction of the token: the token is empty or positioned behind its lexeme")
	default:
		li.okOnce("L-POS", fr, pdesc, s.Pos(), "Pos is a position captured before the scanner consumed anything but blanks, and input was consumed after it")
	}
	// value sliced from a point after consumed input: the token kind drops a leading delimiter
	if tp.value != nil && tp.kind != "" {
		if vo := li.info.Uses[identOf(tp.value)]; vo != nil {
			if so, ok := st.valueOf[vo]; ok && st.lead[so] {
				li.dropKinds[tp.kind] = true
			}
		} else {
			// Value: l.input[start:l.pos] (possibly trimmed) written in place, or a slice helper applied to a snapshot
			v := ast.Unparen(tp.value)
			if call, ok := v.(*ast.CallExpr); ok {
				if so := li.sliceHelperStart(call); so != nil && st.lead[so] {
					li.dropKinds[tp.kind] = true
				}
			}
			if call, ok := v.(*ast.CallExpr); ok && len(call.Args) >= 1 && strings.HasPrefix(qualName(calleeOf(li.info, call)), "strings.Trim") {
				v = ast.Unparen(call.Args[0])
			}
			if sl, ok := v.(*ast.SliceExpr); ok && li.isLexerField(sl.X, "input") && sl.Low != nil {
				low := ast.Unparen(sl.Low)
				if se, ok := low.(*ast.SelectorExpr); ok && se.Sel.Name == "Offset" {
					low = ast.Unparen(se.X)
				}
				if so := li.info.Uses[identOf(low)]; so != nil && st.lead[so] {
					li.dropKinds[tp.kind] = true
				}
			}
		}
	}
}

// stopSets: the bytes at which the scanner of a free-text token kind may stop, by the grammar of DESIGN §4.2
// (a description is any text without ';' '|' and a line break; a comment runs to the end of its line; an account
// name ends at a blank (followed by a second one), a tab, a line end, or one of ; @ = ( ) [ ]).
var stopSets = map[string]string{
	"TokenText":    "\n;|",
	"TokenComment": "\n",
	"TokenAccount": " \t\n\r;@=()[]",
}

func setOf(chars string) bset {
	var b bset
	for i := 0; i < len(chars); i++ {
		b.add(int(chars[i]))
	}
	return b
}

func (b bset) count() int {
	n := 0
	for c := 0; c < 256; c++ {
		if b.has(c) {
			n++
		}
	}
	return n
}

// checkStop (L-STOP, L-FIRST): lexical facts read off the interpretation at a token return.
// L-STOP: for the free-text kinds the byte the scanner stopped at (the possible current bytes at the return,
// when the interpretation knows them as a small set) is one of the kind's delimiters: a further stop byte cuts
// every description / comment / account name that contains it.
// L-FIRST: a comment token whose scan did not start at the beginning of a line (the line-start flag was not
// cleared on the way) begins with ';'.
func (li *lexInterp) checkStop(s *ast.ReturnStmt, st *lexState, fr *lexFrame, tp tokenPartsT, desc string) {
	if li.c.Prop != "C03" {
		return // a lexical-grammar fact: part of "supported journals parse faithfully" only
	}
	if allowed, ok := stopSets[tp.kind]; ok && st.ne && st.B.count() <= 32 {
		li.nStop++
		extra := st.B.and(setOf(allowed).not())
		if extra.empty() {
			li.okOnce("L-STOP", fr, "stop bytes at "+desc, s.Pos(), "the scanner of this free-text token stops only at the delimiters of its kind ("+st.B.String()+")")
		} else {
			li.findOnce("L-STOP", fr, "stop bytes at "+desc, s.Pos(), "the scanner of "+tp.kind+" also stops at "+extra.String()+", which the journal grammar allows inside such text: a description, comment or account name containing that character is cut there and the rest of the line is read as something else")
		}
	}
	if tp.kind == "TokenComment" && !st.flagCleared {
		if o := li.info.Uses[identOf(tp.pos)]; tp.pos != nil && o != nil {
			if sn, ok := st.snaps[o]; ok && sn.ne && sn.B.count() <= 32 {
				li.nFirst++
				extra := sn.B.and(single(';').not())
				if extra.empty() {
					li.okOnce("L-FIRST", fr, "first byte at "+desc, s.Pos(), "inside a line a comment token starts at ';' only")
				} else {
					li.findOnce("L-FIRST", fr, "first byte at "+desc, s.Pos(), "inside a line (not at its first column) a comment token can start at "+extra.String()+": text after that character in a description, note or account is swallowed as a comment")
				}
			}
		}
	}
}

// pureCond: the boolean expression has no effect on the lexer (comparisons, pure look-ahead helpers, predicates).
func (li *lexInterp) pureCond(e ast.Expr) bool {
	pure := true
	ast.Inspect(e, func(n ast.Node) bool {
		if call, ok := n.(*ast.CallExpr); ok {
			if m, ok := li.lexerMethodCall(call); ok && !li.isPure(li.methods[m], 0) {
				pure = false
			}
		}
		return true
	})
	return pure
}

// returnedSliceStart: every return of the method is `l.input[start:l.pos]` (possibly trimmed) for one local `start`
// of the method; that local.
func (li *lexInterp) returnedSliceStart(fd *ast.FuncDecl) types.Object {
	var so types.Object
	ok := true
	n := 0
	ast.Inspect(fd.Body, func(y ast.Node) bool {
		if _, isLit := y.(*ast.FuncLit); isLit {
			return false
		}
		r, isRet := y.(*ast.ReturnStmt)
		if !isRet {
			return true
		}
		n++
		if len(r.Results) != 1 {
			ok = false
			return true
		}
		v := ast.Unparen(r.Results[0])
		if c2, isCall := v.(*ast.CallExpr); isCall && len(c2.Args) >= 1 && strings.HasPrefix(qualName(calleeOf(li.info, c2)), "strings.Trim") {
			v = ast.Unparen(c2.Args[0])
		}
		sl, isSl := v.(*ast.SliceExpr)
		if !isSl || !li.isLexerField(sl.X, "input") || sl.Low == nil || !li.isLexerField(sl.High, "pos") {
			ok = false
			return true
		}
		low := ast.Unparen(sl.Low)
		if se, isSel := low.(*ast.SelectorExpr); isSel && se.Sel.Name == "Offset" {
			low = ast.Unparen(se.X)
		}
		o := li.info.Uses[identOf(low)]
		if o == nil || (so != nil && so != o) {
			ok = false
			return true
		}
		so = o
		return true
	})
	if !ok || n == 0 {
		return nil
	}
	return so
}
