package main

// Engine F (DESIGN §3.F): sibling and writer/reader agreement (AST + types).

import (
	"fmt"
	"go/ast"
	"go/constant"
	"go/token"
	"go/types"
	"golang.org/x/tools/go/ssa"
	"sort"
	"strings"
)

// ---------- helpers ----------

// enclosingConds returns the conditions (innermost last) of the if/switch statements that enclose
// `target` inside `root`, each rendered as a shape string; negated when target sits in the else branch.
// Loops are reported as "for" / "range" markers.
type condFrame struct {
	Kind  string // "if", "else", "case", "for", "range"
	Cond  ast.Expr
	Shape string
}

func pathTo(root ast.Node, target ast.Node) []ast.Node {
	var path []ast.Node
	var found []ast.Node
	ast.Inspect(root, func(n ast.Node) bool {
		if found != nil {
			return false
		}
		if n == nil {
			path = path[:len(path)-1]
			return true
		}
		path = append(path, n)
		if n == target {
			found = append([]ast.Node{}, path...)
			return false
		}
		return true
	})
	return found
}

func enclosingConds(p *Prog, info *types.Info, root ast.Node, target ast.Node) []condFrame {
	path := pathTo(root, target)
	var out []condFrame
	for i := 0; i+1 < len(path); i++ {
		switch s := path[i].(type) {
		case *ast.IfStmt:
			next := path[i+1]
			if next == ast.Node(s.Body) {
				out = append(out, condFrame{"if", s.Cond, condShape(p, info, s.Cond)})
			} else if s.Else != nil && next == ast.Node(s.Else) {
				out = append(out, condFrame{"else", s.Cond, "!(" + condShape(p, info, s.Cond) + ")"})
			}
		case *ast.CaseClause:
			inBody := false
			for _, st := range s.Body {
				if path[i+1] == ast.Node(st) {
					inBody = true
				}
			}
			// a tagless switch is an if / else-if chain: the clause's own condition holds, the earlier ones do not
			if sw, ok := taglessSwitchOf(path, i); ok {
				for _, cl := range sw.Body.List {
					cc := cl.(*ast.CaseClause)
					if cc == s {
						break
					}
					for _, e := range cc.List {
						out = append(out, condFrame{"else", e, "!(" + condShape(p, info, e) + ")"})
					}
				}
				if inBody && len(s.List) == 1 {
					out = append(out, condFrame{"if", s.List[0], condShape(p, info, s.List[0])})
					continue
				}
				if !inBody {
					// the target is one of the clause's own conditions: the earlier conditions of this clause were false
					for _, e := range s.List {
						if path[i+1] == ast.Node(e) {
							break
						}
						out = append(out, condFrame{"else", e, "!(" + condShape(p, info, e) + ")"})
					}
					continue
				}
			}
			if !inBody {
				continue
			}
			var parts []string
			for _, e := range s.List {
				parts = append(parts, condShape(p, info, e))
			}
			out = append(out, condFrame{"case", nil, "case " + strings.Join(parts, ",")})
		case *ast.ForStmt:
			if path[i+1] == ast.Node(s.Body) {
				out = append(out, condFrame{"for", s.Cond, "for"})
			}
		case *ast.RangeStmt:
			if path[i+1] == ast.Node(s.Body) {
				out = append(out, condFrame{"range", s.X, "range"})
			}
		}
	}
	return out
}

func taglessSwitchOf(path []ast.Node, i int) (*ast.SwitchStmt, bool) {
	if i >= 2 {
		if sw, ok := path[i-2].(*ast.SwitchStmt); ok && sw.Tag == nil {
			return sw, true
		}
	}
	return nil, false
}

// guardT is a condition together with the statements it guards: an `if` or one clause of a tagless switch.
type guardT struct {
	Cond ast.Expr
	Body []ast.Stmt
	Node ast.Node
}

func guardsIn(root ast.Node) []guardT {
	var out []guardT
	ast.Inspect(root, func(n ast.Node) bool {
		switch s := n.(type) {
		case *ast.FuncLit:
			return false
		case *ast.IfStmt:
			out = append(out, guardT{s.Cond, s.Body.List, s})
		case *ast.SwitchStmt:
			if s.Tag == nil {
				for _, cl := range s.Body.List {
					cc := cl.(*ast.CaseClause)
					for _, e := range cc.List {
						out = append(out, guardT{e, cc.Body, cc})
					}
				}
			}
		}
		return true
	})
	return out
}

func stmtsContain(body []ast.Stmt, pred func(ast.Node) bool) bool {
	found := false
	for _, st := range body {
		ast.Inspect(st, func(n ast.Node) bool {
			if n != nil && pred(n) {
				found = true
			}
			return !found
		})
	}
	return found
}

// condShape renders an expression with local identifiers replaced by "_" but with field names,
// callee names, operators and constants kept: `!balanceResult.Balanced` -> `!_.Balanced`.
func condShape(p *Prog, info *types.Info, e ast.Expr) string {
	if e == nil {
		return ""
	}
	switch x := ast.Unparen(e).(type) {
	case *ast.Ident:
		if tv, ok := info.Types[x]; ok && tv.Value != nil {
			return tv.Value.ExactString()
		}
		switch o := info.Uses[x].(type) {
		case *types.Func:
			return o.Name()
		case *types.Builtin:
			return o.Name()
		case *types.Const:
			return o.Name()
		case *types.Nil:
			return "nil"
		case *types.TypeName:
			return o.Name()
		case *types.Var:
			if o.IsField() {
				return o.Name()
			}
		}
		if x.Name == "true" || x.Name == "false" {
			return x.Name
		}
		return "_"
	case *ast.BasicLit:
		return x.Value
	case *ast.SelectorExpr:
		if o := info.Uses[x.Sel]; o != nil {
			if _, isPkg := info.Uses[identOf(x.X)].(*types.PkgName); isPkg {
				return identOf(x.X).Name + "." + x.Sel.Name
			}
		}
		return condShape(p, info, x.X) + "." + x.Sel.Name
	case *ast.UnaryExpr:
		return x.Op.String() + condShape(p, info, x.X)
	case *ast.BinaryExpr:
		return condShape(p, info, x.X) + " " + x.Op.String() + " " + condShape(p, info, x.Y)
	case *ast.CallExpr:
		var args []string
		for _, a := range x.Args {
			args = append(args, condShape(p, info, a))
		}
		return condShape(p, info, x.Fun) + "(" + strings.Join(args, ",") + ")"
	case *ast.IndexExpr:
		return condShape(p, info, x.X) + "[" + condShape(p, info, x.Index) + "]"
	case *ast.StarExpr:
		return "*" + condShape(p, info, x.X)
	case *ast.TypeAssertExpr:
		return condShape(p, info, x.X) + ".(" + exprStr(p.Fset, x.Type) + ")"
	}
	return exprStr(p.Fset, e)
}

func identOf(e ast.Expr) *ast.Ident {
	if id, ok := ast.Unparen(e).(*ast.Ident); ok {
		return id
	}
	return &ast.Ident{Name: ""}
}

func stringConst(info *types.Info, e ast.Expr) (string, bool) {
	if tv, ok := info.Types[e]; ok && tv.Value != nil && tv.Value.Kind() == constant.String {
		return constant.StringVal(tv.Value), true
	}
	return "", false
}

// callsIn lists the calls (resolved callee qualified names) in a node.
func callsIn(info *types.Info, n ast.Node, f func(call *ast.CallExpr, q string)) {
	ast.Inspect(n, func(x ast.Node) bool {
		if call, ok := x.(*ast.CallExpr); ok {
			f(call, shortQual(qualName(calleeOf(info, call))))
		}
		return true
	})
}

// ---------- T3: the analysis entry points run the same checks under the same guards ----------

// Entry points are found by role: functions of package analyzer whose result type is *AnalysisResult and
// whose body calls the balance checker (the function returning *BalanceResult).
// handsOnTransactions: the function calls something with a transaction (or a list of transactions) as argument.
func handsOnTransactions(info *types.Info, decl *ast.FuncDecl) bool {
	found := false
	ast.Inspect(decl.Body, func(n ast.Node) bool {
		if call, ok := n.(*ast.CallExpr); ok {
			for _, a := range call.Args {
				if t := info.TypeOf(a); t != nil && strings.HasSuffix(types.TypeString(t, nil), "ast.Transaction") {
					found = true
				}
			}
		}
		return !found
	})
	return found
}

func ruleT3(c *Ctx) {
	pk := c.P.ByRel["internal/analyzer"]
	var balanceFn *types.Func
	for _, f := range pk.Syntax {
		for _, d := range f.Decls {
			fd, ok := d.(*ast.FuncDecl)
			if !ok || fd.Recv != nil || fd.Type.Results == nil || len(fd.Type.Results.List) != 1 {
				continue
			}
			if t := pk.TypesInfo.TypeOf(fd.Type.Results.List[0].Type); t != nil && strings.HasSuffix(types.TypeString(t, nil), "analyzer.BalanceResult") {
				if fd.Type.Params != nil && len(fd.Type.Params.List) == 1 && strings.HasSuffix(types.TypeString(pk.TypesInfo.TypeOf(fd.Type.Params.List[0].Type), nil), "ast.Transaction") {
					balanceFn, _ = pk.TypesInfo.Defs[fd.Name].(*types.Func)
				}
			}
		}
	}
	if balanceFn == nil {
		c.undecided("T3", "analyzer", "balance checker", token.NoPos, "no function (tx *ast.Transaction) *BalanceResult found in package analyzer")
		return
	}
	type scopeT struct {
		fd     *ast.FuncDecl
		prefix []string // guards under which the function is reached from the transaction loop
	}
	type entry struct {
		fd     *ast.FuncDecl
		checks map[string]string // callee -> guard shape inside the transaction loop
		scopes []scopeT          // the entry point itself and the helpers it hands the transaction to
	}
	var entries []entry
	info := pk.TypesInfo
	for _, f := range pk.Syntax {
		for _, d := range f.Decls {
			fd, ok := d.(*ast.FuncDecl)
			if !ok || fd.Body == nil || fd.Type.Results == nil {
				continue
			}
			isRes := false
			for _, r := range fd.Type.Results.List {
				if t := pk.TypesInfo.TypeOf(r.Type); t != nil && strings.HasSuffix(types.TypeString(t, nil), "analyzer.AnalysisResult") {
					isRes = true
				}
			}
			if !isRes {
				continue
			}
			e := entry{fd: fd, checks: map[string]string{}}
			hasBalance := false
			var collect func(cur *ast.FuncDecl, inLoop0 bool, prefix []string, depth int)
			collect = func(cur *ast.FuncDecl, inLoop0 bool, prefix []string, depth int) {
				e.scopes = append(e.scopes, scopeT{cur, prefix})
				ast.Inspect(cur.Body, func(n ast.Node) bool {
					call, ok := n.(*ast.CallExpr)
					if !ok {
						return true
					}
					o := calleeOf(info, call)
					fn, ok := o.(*types.Func)
					if !ok || fn.Pkg() != pk.Types {
						return true
					}
					// only calls that take the transaction (per-transaction checks), or the list of transactions
					// (a helper that holds the loop)
					takesTx, takesList := false, false
					for _, a := range call.Args {
						if t := info.TypeOf(a); t != nil && strings.HasSuffix(types.TypeString(t, nil), "ast.Transaction") {
							if _, isSlice := t.Underlying().(*types.Slice); isSlice {
								takesList = true
							} else {
								takesTx = true
							}
						}
					}
					if !takesList && !takesTx {
						// a helper that is handed the journal and holds the loop over its transactions
						if decl := c.P.declOf[fn]; decl != nil && decl.Body != nil && decl != cur {
							for _, a := range call.Args {
								if t := info.TypeOf(a); t != nil && strings.HasSuffix(types.TypeString(t, nil), "ast.Journal") && handsOnTransactions(info, decl) {
									takesList = true
								}
							}
						}
					}
					if takesList && !takesTx {
						if decl := c.P.declOf[fn]; decl != nil && decl.Body != nil && depth < 3 && decl != cur {
							collect(decl, inLoop0, prefix, depth+1)
						}
						return true
					}
					if !takesTx {
						return true
					}
					frames := enclosingConds(c.P, info, cur.Body, call)
					guards := append([]string(nil), prefix...)
					inLoop := inLoop0
					for _, fr := range frames {
						switch fr.Kind {
						case "range", "for":
							if !inLoop0 {
								inLoop = true
								guards = nil // guards outside the loop apply to all checks alike
							}
						default:
							guards = append(guards, fr.Shape)
						}
					}
					if !inLoop {
						return true
					}
					if fn == balanceFn {
						hasBalance = true
					}
					// a check is a function that (transitively) produces diagnostics or verdicts; a helper that merely
					// reads the transaction (its payee name, its tags for an index) is not
					if fn != balanceFn && !producesDiagnostics(c, info, fn, 0, map[*types.Func]bool{}) {
						return true
					}
					if _, dup := e.checks[fn.Name()]; !dup {
						e.checks[fn.Name()] = strings.Join(guards, " && ")
					}
					// a helper that is handed the transaction runs checks on the entry point's behalf
					if decl := c.P.declOf[fn]; decl != nil && decl.Body != nil && fn != balanceFn && depth < 3 && decl != cur {
						collect(decl, true, guards, depth+1)
					}
					return true
				})
			}
			collect(fd, false, nil, 0)
			if hasBalance {
				entries = append(entries, e)
			}
		}
	}
	c.census("T3", "analysis entry points that call the balance checker", len(entries), 2)
	if len(entries) == 0 {
		return
	}
	for _, e := range entries {
		fname := c.P.declName(e.fd)
		// the balance check itself must be unconditional inside the loop
		c.check(e.checks[balanceFn.Name()] == "", "T3", fname, "balance check per transaction", e.fd.Pos(),
			"balance check is called for every transaction",
			"the balance check is skipped for some transactions: guarded by "+e.checks[balanceFn.Name()])
	}
	// sibling agreement
	ref := entries[0]
	for _, e := range entries[1:] {
		fname := c.P.declName(e.fd)
		names := map[string]bool{}
		for k := range ref.checks {
			names[k] = true
		}
		for k := range e.checks {
			names[k] = true
		}
		var keys []string
		for k := range names {
			keys = append(keys, k)
		}
		sort.Strings(keys)
		for _, k := range keys {
			a, okA := ref.checks[k]
			b, okB := e.checks[k]
			switch {
			case !okA || !okB:
				missing := fname
				if !okA {
					missing = c.P.declName(ref.fd)
				}
				c.finding("T3", fname, "per-transaction check "+k, e.fd.Pos(), fmt.Sprintf("check %s is run by one analysis entry point but not by %s", k, missing))
			case a != b:
				c.finding("T3", fname, "per-transaction check "+k, e.fd.Pos(), fmt.Sprintf("check %s runs under guard [%s] in %s but under [%s] in %s", k, a, c.P.declName(ref.fd), b, fname))
			default:
				c.ok("T3", fname, "per-transaction check "+k, e.fd.Pos(), "same guard as sibling: ["+a+"]")
			}
		}
	}
	// emit-iff: the diagnostic builder that takes the *BalanceResult is called under exactly `!_.Balanced`
	for _, e := range entries {
		fname := c.P.declName(e.fd)
		n := 0
		seenScope := map[*ast.FuncDecl]bool{}
		for _, sc := range e.scopes {
			if seenScope[sc.fd] {
				continue
			}
			seenScope[sc.fd] = true
			isEntry := sc.fd == e.fd
			ast.Inspect(sc.fd.Body, func(nn ast.Node) bool {
				call, ok := nn.(*ast.CallExpr)
				if !ok {
					return true
				}
				takesBR := false
				for _, a := range call.Args {
					if t := info.TypeOf(a); t != nil && strings.HasSuffix(types.TypeString(t, nil), "analyzer.BalanceResult") {
						takesBR = true
					}
				}
				if !takesBR {
					return true
				}
				n++
				guards := append([]string(nil), sc.prefix...)
				for _, fr := range enclosingConds(c.P, info, sc.fd.Body, call) {
					if fr.Kind == "range" || fr.Kind == "for" {
						if isEntry {
							guards = nil
						}
						continue
					}
					guards = append(guards, fr.Shape)
				}
				g := strings.Join(guards, " && ")
				c.check(g == "!_.Balanced", "T3", fname, "emit iff unbalanced", call.Pos(),
					"balance diagnostic is built exactly when !Balanced",
					"balance diagnostic is built under guard ["+g+"], expected exactly [!_.Balanced]")
				return true
			})
		}
		if n == 0 {
			c.finding("T3", fname, "emit iff unbalanced", e.fd.Pos(), "no diagnostic is built from the balance result")
		}
	}
}

// ---------- T4: diagnostic codes written by the analyzer = codes filtered by the server ----------

func ruleT4(c *Ctx) {
	spk := c.P.ByRel["internal/server"]
	// W: codes stored into analyzer.Diagnostic.Code, per producing function (SSA: a composite literal and a
	// field assignment are the same store)
	written := map[string]string{} // code -> producer function
	for _, f := range c.P.ModuleFuncs() {
		top := f
		for top.Parent() != nil {
			top = top.Parent()
		}
		if top.Pkg != c.P.SSAPkg("internal/analyzer") {
			continue
		}
		for _, b := range f.Blocks {
			for _, ins := range b.Instrs {
				st, ok := ins.(*ssa.Store)
				if !ok {
					continue
				}
				fa, ok := st.Addr.(*ssa.FieldAddr)
				if !ok || !typeHasSuffix(fa.X.Type(), "internal/analyzer.Diagnostic") {
					continue
				}
				if fa.X.Type().Underlying().(*types.Pointer).Elem().Underlying().(*types.Struct).Field(fa.Field).Name() != "Code" {
					continue
				}
				vals := map[string]bool{}
				if stringConsts(st.Val, map[ssa.Value]bool{}, vals) {
					for v := range vals {
						written[v] = top.Name()
					}
				} else {
					c.undecided("T4", funcName(f), "non-constant diagnostic code", st.Pos(), "diagnostic code is not a string constant")
				}
			}
		}
	}
	c.census("T4", "diagnostic codes written by the analyzer", len(written), 3)
	// filter: function in server with a switch over a string whose case literals intersect W
	type caseInfo struct {
		codes []string
		field string
		pos   token.Pos
	}
	var filterFd *ast.FuncDecl
	var cases []caseInfo
	var defaultTrue, hasDefault bool
	sinfo := spk.TypesInfo
	// codesOf: the string constants a condition compares one string expression with (x == "A" || x == "B")
	var codesOf func(e ast.Expr) []string
	codesOf = func(e ast.Expr) []string {
		switch x := ast.Unparen(e).(type) {
		case *ast.BinaryExpr:
			switch x.Op {
			case token.LOR:
				l, r := codesOf(x.X), codesOf(x.Y)
				if l == nil || r == nil {
					return nil
				}
				return append(l, r...)
			case token.EQL:
				for _, side := range []ast.Expr{x.X, x.Y} {
					if s, ok := stringConst(sinfo, side); ok {
						return []string{s}
					}
				}
			}
		}
		return nil
	}
	singleReturn := func(body []ast.Stmt) ast.Expr {
		if len(body) == 1 {
			if r, ok := body[0].(*ast.ReturnStmt); ok && len(r.Results) == 1 {
				return r.Results[0]
			}
		}
		return nil
	}
	isTrue := func(e ast.Expr) bool {
		tv, ok := sinfo.Types[e]
		return ok && tv.Value != nil && tv.Value.Kind() == constant.Bool && constant.BoolVal(tv.Value)
	}
	for _, f := range spk.Syntax {
		for _, d := range f.Decls {
			fd, ok := d.(*ast.FuncDecl)
			if !ok || fd.Body == nil || filterFd != nil || fd.Type.Results == nil || len(fd.Type.Results.List) != 1 || types.TypeString(sinfo.TypeOf(fd.Type.Results.List[0].Type), nil) != "bool" {
				continue
			}
			var cs []caseInfo
			hit := 0
			dT, hD := false, false
			add := func(codes []string, ret ast.Expr, pos token.Pos) {
				ci := caseInfo{codes: codes, pos: pos}
				for _, s := range codes {
					if _, w := written[s]; w {
						hit++
					}
				}
				if ret != nil {
					if se, ok := ast.Unparen(ret).(*ast.SelectorExpr); ok {
						ci.field = se.Sel.Name
					}
				}
				cs = append(cs, ci)
			}
			ast.Inspect(fd.Body, func(n ast.Node) bool {
				switch sw := n.(type) {
				case *ast.SwitchStmt:
					for _, st := range sw.Body.List {
						cc := st.(*ast.CaseClause)
						if cc.List == nil {
							if r := singleReturn(cc.Body); r != nil {
								hD, dT = true, isTrue(r)
							}
							continue
						}
						var codes []string
						for _, e := range cc.List {
							if sw.Tag != nil {
								if s, ok := stringConst(sinfo, e); ok {
									codes = append(codes, s)
								}
							} else {
								codes = append(codes, codesOf(e)...)
							}
						}
						if len(codes) > 0 {
							add(codes, singleReturn(cc.Body), cc.Pos())
						}
					}
				case *ast.IfStmt:
					if codes := codesOf(sw.Cond); len(codes) > 0 {
						add(codes, singleReturn(sw.Body.List), sw.Pos())
					}
				}
				return true
			})
			// an if chain ends in a plain return: that is the default
			if !hD && len(fd.Body.List) > 0 {
				if r, ok := fd.Body.List[len(fd.Body.List)-1].(*ast.ReturnStmt); ok && len(r.Results) == 1 {
					hD, dT = true, isTrue(r.Results[0])
				}
			}
			if hit >= 2 {
				filterFd, cases, defaultTrue, hasDefault = fd, cs, dT, hD
			}
		}
	}
	if filterFd == nil {
		// table-driven form: a package-level map from codes to switches (`func(settings) bool` returning one field),
		// consulted by a function that publishes codes without an entry (`!found || on(settings)`)
		var table types.Object
		var tcases []caseInfo
		for _, f := range spk.Syntax {
			for _, d := range f.Decls {
				gd, ok := d.(*ast.GenDecl)
				if !ok || gd.Tok != token.VAR {
					continue
				}
				for _, sp := range gd.Specs {
					vs := sp.(*ast.ValueSpec)
					for i, v := range vs.Values {
						cl, ok := ast.Unparen(v).(*ast.CompositeLit)
						if !ok || i >= len(vs.Names) {
							continue
						}
						mt, ok := sinfo.TypeOf(cl).Underlying().(*types.Map)
						if !ok || types.TypeString(mt.Key(), nil) != "string" {
							continue
						}
						var cs []caseInfo
						hit := 0
						for _, el := range cl.Elts {
							kv, ok := el.(*ast.KeyValueExpr)
							if !ok {
								continue
							}
							code, ok := stringConst(sinfo, kv.Key)
							if !ok {
								continue
							}
							if _, w := written[code]; w {
								hit++
							}
							ci := caseInfo{codes: []string{code}, pos: kv.Pos()}
							switch val := ast.Unparen(kv.Value).(type) {
							case *ast.FuncLit:
								if r := singleReturn(val.Body.List); r != nil {
									if se, ok := ast.Unparen(r).(*ast.SelectorExpr); ok {
										ci.field = se.Sel.Name
									}
								}
							case *ast.SelectorExpr:
								ci.field = val.Sel.Name
							}
							cs = append(cs, ci)
						}
						if hit >= 2 {
							table, tcases = sinfo.Defs[vs.Names[i]], cs
						}
					}
				}
			}
		}
		if table != nil {
			for _, f := range spk.Syntax {
				for _, d := range f.Decls {
					fd, ok := d.(*ast.FuncDecl)
					if !ok || fd.Body == nil || filterFd != nil || fd.Type.Results == nil || len(fd.Type.Results.List) != 1 || types.TypeString(sinfo.TypeOf(fd.Type.Results.List[0].Type), nil) != "bool" {
						continue
					}
					var okVar types.Object
					ast.Inspect(fd.Body, func(n ast.Node) bool {
						as, ok := n.(*ast.AssignStmt)
						if !ok || len(as.Lhs) != 2 || len(as.Rhs) != 1 {
							return true
						}
						if ix, ok := ast.Unparen(as.Rhs[0]).(*ast.IndexExpr); ok && sinfo.Uses[identOf(ix.X)] == table {
							okVar = sinfo.Defs[identOf(as.Lhs[1])]
							if okVar == nil {
								okVar = sinfo.Uses[identOf(as.Lhs[1])]
							}
						}
						return true
					})
					if okVar == nil {
						continue
					}
					filterFd, cases = fd, tcases
					// default: `return !found || ...` or `if !found { return true }`
					ast.Inspect(fd.Body, func(n ast.Node) bool {
						switch x := n.(type) {
						case *ast.ReturnStmt:
							if len(x.Results) == 1 {
								if be, ok := ast.Unparen(x.Results[0]).(*ast.BinaryExpr); ok && be.Op == token.LOR {
									if u, ok := ast.Unparen(be.X).(*ast.UnaryExpr); ok && u.Op == token.NOT && sinfo.Uses[identOf(u.X)] == okVar {
										hasDefault, defaultTrue = true, true
									}
								}
							}
						case *ast.IfStmt:
							if u, ok := ast.Unparen(x.Cond).(*ast.UnaryExpr); ok && u.Op == token.NOT && sinfo.Uses[identOf(u.X)] == okVar {
								if r := singleReturn(x.Body.List); r != nil {
									hasDefault, defaultTrue = true, isTrue(r)
								}
							}
						}
						return true
					})
				}
			}
		}
	}
	if filterFd == nil {
		c.undecided("T4", "server", "diagnostic filter", token.NoPos, "no function deciding by diagnostic code (switch or if chain over the codes the analyzer writes) found in package server")
		return
	}
	fname := c.P.declName(filterFd)
	c.check(hasDefault && defaultTrue, "T4", fname, "default case", filterFd.Pos(), "codes without a setting are always published", "the filter's default case does not return true: diagnostics without a setting can be suppressed")
	fieldOfProducer := map[string]string{}
	fieldUsed := map[string]string{}
	for _, ci := range cases {
		for _, code := range ci.codes {
			prod, w := written[code]
			if !w {
				c.finding("T4", fname, "case "+code, ci.pos, "the filter switches on code "+code+" which the analyzer never writes (writer/reader tables disagree)")
				continue
			}
			if ci.field == "" {
				c.finding("T4", fname, "case "+code, ci.pos, "case for "+code+" does not return a single settings field")
				continue
			}
			if prev, ok := fieldOfProducer[prod]; ok && prev != ci.field {
				c.finding("T4", fname, "case "+code, ci.pos, fmt.Sprintf("codes produced by %s are gated by different settings (%s, %s)", prod, prev, ci.field))
				continue
			}
			if prevProd, ok := fieldUsed[ci.field]; ok && prevProd != prod {
				c.finding("T4", fname, "case "+code, ci.pos, fmt.Sprintf("setting %s gates codes of two different checks (%s and %s): switching one warning kind off would hide another", ci.field, prevProd, prod))
				continue
			}
			fieldOfProducer[prod] = ci.field
			fieldUsed[ci.field] = prod
			c.ok("T4", fname, "case "+code, ci.pos, "code written by "+prod+" is gated by settings field "+ci.field)
		}
	}
	// the three per-transaction checks with their own setting must all be filtered
	for code, prod := range written {
		gated := false
		for _, ci := range cases {
			if contains(ci.codes, code) {
				gated = true
			}
		}
		if !gated && (strings.HasPrefix(code, "UNDECLARED") || strings.HasPrefix(code, "UNBALANCED") || code == "MULTIPLE_INFERRED") {
			c.finding("T4", fname, "code "+code, filterFd.Pos(), "code "+code+" written by "+prod+" is not gated by any setting")
		} else if field, sibling := fieldOfProducer[prod]; !gated && sibling {
			// a second code of a check whose other codes have a setting: switching the check off must silence it too
			c.finding("T4", fname, "code "+code, filterFd.Pos(), "code "+code+" is written by "+prod+", whose other codes are gated by the setting "+field+", but the filter has no case for it: switching that check off does not silence this diagnostic")
		}
	}
	// the filter is consulted for every analyzer diagnostic that is published: every protocol.Diagnostic whose
	// code comes from an analyzer diagnostic is built under the control of a call of the filter on that code
	// (control dependence on SSA: `if !f(..) { continue }` and `if f(..) { build }` are the same thing)
	nUse := 0
	filterObj := spk.TypesInfo.Defs[filterFd.Name]
	for _, f := range c.P.ModuleFuncs() {
		if f.Pkg != c.P.SSAPkg("internal/server") {
			continue
		}
		for _, b := range f.Blocks {
			for _, ins := range b.Instrs {
				st, ok := ins.(*ssa.Store)
				if !ok {
					continue
				}
				fa, ok := st.Addr.(*ssa.FieldAddr)
				if !ok || !typeHasSuffix(fa.X.Type(), "*go.lsp.dev/protocol.Diagnostic") {
					continue
				}
				fst := fa.X.Type().Underlying().(*types.Pointer).Elem().Underlying().(*types.Struct)
				if fst.Field(fa.Field).Name() != "Message" {
					continue
				}
				// message taken from an analyzer diagnostic?
				var src ssa.Value
				for v := range backSlice(st.Val) {
					switch x := v.(type) {
					case *ssa.Field:
						if typeHasSuffix(x.X.Type(), "internal/analyzer.Diagnostic") {
							src = x.X
						}
					case *ssa.FieldAddr:
						if typeHasSuffix(x.X.Type(), "internal/analyzer.Diagnostic") {
							src = x.X
						}
					}
				}
				if src == nil {
					continue
				}
				nUse++
				okGuard := false
				// the conditions of the store and, when the conversion sits in a helper, of the call sites leading to it
				blks := []*ssa.BasicBlock{b}
				sameFn := true
				for fn, depth := f, 0; depth < 3; depth++ {
					sites := cgView{c}.callersOf(fn)
					if len(sites) != 1 || !isDiagParamFn(fn) {
						break
					}
					blks = append(blks, sites[0].Block())
					fn = sites[0].Parent()
					sameFn = false
				}
				for _, blk := range blks {
					for _, cc := range controlCondsPol(blk) {
						call, ok := cc.Cond.(*ssa.Call)
						if !ok || !cc.Taken {
							continue
						}
						if cal := call.Common().StaticCallee(); cal != nil && cal.Object() == filterObj {
							for _, a := range call.Common().Args {
								for v := range backSlice(a) {
									var base ssa.Value
									switch x := v.(type) {
									case *ssa.Field:
										base = x.X
									case *ssa.FieldAddr:
										base = x.X
									}
									if base != nil && typeHasSuffix(base.Type(), "internal/analyzer.Diagnostic") && (base == src || !sameFn) {
										okGuard = true
									}
								}
							}
						}
					}
				}
				c.check(okGuard, "T4", funcName(f), "filter applied to analyzer diagnostics", st.Pos(),
					"every analyzer diagnostic passes the settings filter before it is published",
					"analyzer diagnostics are converted for publishing without passing the settings filter first")
				// ... and the settings filter is the only thing that decides: no other condition on the diagnostic itself
				// (its code, range or message) lies between the analyzer and the publication
				other := ""
				for _, blk := range blks {
					for _, cc := range controlDeps(blk) {
						sl := backSlice(cc.Cond)
						viaFilter, readsDiag := false, false
						for v := range sl {
							if call, ok := v.(*ssa.Call); ok {
								if cal := call.Common().StaticCallee(); cal != nil && cal.Object() == filterObj {
									viaFilter = true
								}
							}
							var base ssa.Value
							switch x := v.(type) {
							case *ssa.Field:
								base = x.X
							case *ssa.FieldAddr:
								base = x.X
							}
							if base != nil && typeHasSuffix(base.Type(), "internal/analyzer.Diagnostic") {
								readsDiag = true
							}
						}
						if readsDiag && !viaFilter {
							other = c.P.pos(cc.Cond.Pos())
						}
					}
				}
				c.check(other == "", "T4", funcName(f), "only the settings filter decides which analyzer diagnostics are published", st.Pos(),
					"no other condition on the diagnostic guards its conversion",
					"besides the settings filter another condition on the analyzer diagnostic (at "+other+") decides whether it is published: a warning can be suppressed although its setting is on (e.g. depending on syntax errors elsewhere in the file)")
			}
		}
	}
	c.census("T4", "conversions of analyzer diagnostics for publishing", nUse, 1)
}

// isDiagParamFn: the function takes an analyzer diagnostic (a conversion helper).
func isDiagParamFn(f *ssa.Function) bool {
	for _, p := range f.Params {
		if typeHasSuffix(p.Type(), "internal/analyzer.Diagnostic") {
			return true
		}
	}
	return false
}

// stringConsts collects the constant strings a value can take (constants merged by phi nodes); false if some
// source is not a constant.
func stringConsts(v ssa.Value, seen map[ssa.Value]bool, out map[string]bool) bool {
	if seen[v] {
		return true
	}
	seen[v] = true
	switch x := v.(type) {
	case *ssa.Const:
		if x.Value != nil && x.Value.Kind() == constant.String {
			out[constant.StringVal(x.Value)] = true
			return true
		}
	case *ssa.Phi:
		for _, e := range x.Edges {
			if !stringConsts(e, seen, out) {
				return false
			}
		}
		return true
	}
	return false
}

// ---------- T9: occurrence coverage of commodity sites ----------

// commodityPaths: the access paths from ast.Posting to an ast.Amount, derived from the type definitions.
func postingAmountPaths(p *Prog) []string {
	apk := p.ByRel["internal/ast"]
	obj := apk.Types.Scope().Lookup("Posting")
	if obj == nil {
		return nil
	}
	var out []string
	var walk func(t types.Type, prefix string, depth int)
	walk = func(t types.Type, prefix string, depth int) {
		if depth > 3 {
			return
		}
		if pt, ok := t.(*types.Pointer); ok {
			t = pt.Elem()
		}
		st, ok := t.Underlying().(*types.Struct)
		if !ok {
			return
		}
		for i := 0; i < st.NumFields(); i++ {
			f := st.Field(i)
			ft := f.Type()
			if pt, ok := ft.(*types.Pointer); ok {
				ft = pt.Elem()
			}
			name := types.TypeString(ft, nil)
			path := f.Name()
			if prefix != "" {
				path = prefix + "." + f.Name()
			}
			if strings.HasSuffix(name, "/ast.Amount") {
				out = append(out, path)
			} else if strings.HasSuffix(name, "/ast.Cost") || strings.HasSuffix(name, "/ast.BalanceAssertion") {
				walk(ft, path, depth+1)
			}
		}
	}
	walk(obj.Type(), "", 0)
	sort.Strings(out)
	return out
}

// commodityPathsVisited: selector chains `<posting>.<path>.Commodity` in a function body.
func commodityPathsVisited(p *Prog, fd *ast.FuncDecl) map[string]token.Pos {
	return commodityPathsVisitedDepth(p, fd, 0)
}

func commodityPathsVisitedDepth(p *Prog, fd *ast.FuncDecl, depth int) map[string]token.Pos {
	info := p.InfoFor(fd)
	out := map[string]token.Pos{}
	ast.Inspect(fd.Body, func(n ast.Node) bool {
		// a module function that is handed the posting visits sites on the caller's behalf
		if call, ok := n.(*ast.CallExpr); ok && depth < 3 {
			if o, ok := calleeOf(info, call).(*types.Func); ok {
				if decl := p.declOf[o]; decl != nil && decl.Body != nil && decl != fd {
					takesPosting := false
					for _, a := range call.Args {
						if t := info.TypeOf(a); t != nil {
							if pt, ok := t.(*types.Pointer); ok {
								t = pt.Elem()
							}
							if strings.HasSuffix(types.TypeString(t, nil), "/ast.Posting") || typeReaches(t, "/ast.Posting", map[types.Type]bool{}) {
								takesPosting = true // the posting itself, or a container of postings (transaction, journal, slices of them)
							}
						}
					}
					if takesPosting {
						for k := range commodityPathsVisitedDepth(p, decl, depth+1) {
							if _, dup := out[k]; !dup {
								out[k] = call.Pos()
							}
						}
					}
				}
			}
			return true
		}
		se, ok := n.(*ast.SelectorExpr)
		if !ok || se.Sel.Name != "Commodity" {
			return true
		}
		t := info.TypeOf(se.X)
		if t == nil {
			return true
		}
		if pt, ok := t.(*types.Pointer); ok {
			t = pt.Elem()
		}
		if !strings.HasSuffix(types.TypeString(t, nil), "/ast.Amount") {
			return true
		}
		var parts []string
		e := ast.Unparen(se.X)
		for {
			s2, ok := e.(*ast.SelectorExpr)
			if !ok {
				break
			}
			parts = append([]string{s2.Sel.Name}, parts...)
			e = ast.Unparen(s2.X)
		}
		if len(parts) > 0 {
			// root must be a posting
			rt := info.TypeOf(e)
			if rt != nil {
				if pt, ok := rt.(*types.Pointer); ok {
					rt = pt.Elem()
				}
				if strings.HasSuffix(types.TypeString(rt, nil), "/ast.Posting") {
					out[strings.Join(parts, ".")] = se.Pos()
				}
			}
		}
		return true
	})
	return out
}

// ruleT9 checks that each named function visits every commodity site of a posting.
func ruleT9(rule string, funcs ...[2]string) func(*Ctx) {
	return func(c *Ctx) {
		all := postingAmountPaths(c.P)
		c.census(rule, "amount-bearing access paths of ast.Posting (from the type definitions)", len(all), 3)
		for _, fq := range funcs {
			var fd *ast.FuncDecl
			switch fq[1] {
			case "checkUndeclaredCommodities":
				fd = undeclaredCommodityCheck(c.P)
			case "findCommodityReferences":
				fd = commodityReferenceCollector(c.P)
			default:
				fd = c.P.FuncDecl(fq[0], fq[1])
			}
			if fd == nil {
				c.undecided(rule, fq[0]+"."+fq[1], "anchor", token.NoPos, "function not found: commodity-site coverage cannot be decided")
				continue
			}
			vis := commodityPathsVisited(c.P, fd)
			fname := c.P.declName(fd)
			var viaFlow map[string]bool
			for _, path := range all {
				_, ok := vis[path]
				if !ok && fq[1] == "checkUndeclaredCommodities" {
					// the visitor may be handed the commodity by its callers (a check object, an iterator): follow
					// the range of the emitted diagnostic back to the posting fields it is read from
					if viaFlow == nil {
						viaFlow = postingFieldsBehindEmission(c, fd)
					}
					ok = viaFlow[strings.SplitN(path, ".", 2)[0]]
				}
				c.check(ok, rule, fname, "visits posting."+path+".Commodity", fd.Pos(),
					"commodity site is visited",
					"commodity occurrences at posting."+path+".Commodity are not visited (sibling collectors do visit them): such occurrences are silently skipped")
			}
		}
	}
}

// ---------- T7 / T8: keyword and token-kind tables of lexer and parser agree (C03) ----------

func ruleT7T8(c *Ctx) {
	pk := c.P.ByRel["internal/parser"]
	info := pk.TypesInfo
	// T7: lexer keyword set
	lexKeys := map[string]bool{}
	for _, f := range pk.Syntax {
		ast.Inspect(f, func(x ast.Node) bool {
			vs, ok := x.(*ast.ValueSpec)
			if !ok {
				return true
			}
			for _, v := range vs.Values {
				cl, ok := v.(*ast.CompositeLit)
				if !ok {
					continue
				}
				if t := info.TypeOf(cl); t != nil {
					if m, ok := t.Underlying().(*types.Map); ok && types.TypeString(m.Key(), nil) == "string" && types.TypeString(m.Elem(), nil) == "struct{}" {
						for _, el := range cl.Elts {
							if kv, ok := el.(*ast.KeyValueExpr); ok {
								if s, ok := stringConst(info, kv.Key); ok {
									lexKeys[s] = true
								}
							}
						}
					}
				}
			}
			return true
		})
	}
	c.census("T7", "directive keywords recognised by the lexer", len(lexKeys), 6)
	// parser: the switch on the directive word
	parseKeys := map[string]token.Pos{}
	var dirFd *ast.FuncDecl
	for _, f := range pk.Syntax {
		for _, d := range f.Decls {
			fd, ok := d.(*ast.FuncDecl)
			if !ok || fd.Body == nil || recvTypeName(fd) != "Parser" {
				continue
			}
			ast.Inspect(fd.Body, func(x ast.Node) bool {
				sw, ok := x.(*ast.SwitchStmt)
				if !ok || sw.Tag == nil {
					return true
				}
				if t := info.TypeOf(sw.Tag); t == nil || types.TypeString(t, nil) != "string" {
					return true
				}
				n := 0
				for _, cl := range sw.Body.List {
					for _, e := range cl.(*ast.CaseClause).List {
						if s, ok := stringConst(info, e); ok && lexKeys[s] {
							n++
						}
					}
				}
				if n >= 3 {
					dirFd = fd
					for _, cl := range sw.Body.List {
						for _, e := range cl.(*ast.CaseClause).List {
							if s, ok := stringConst(info, e); ok {
								parseKeys[s] = e.Pos()
							}
						}
					}
				}
				return true
			})
		}
	}
	if dirFd == nil {
		c.undecided("T7", "parser.Parser", "directive dispatch", token.NoPos, "no switch over directive keywords found in the parser")
		return
	}
	dname := c.P.declName(dirFd)
	var ks []string
	for k := range parseKeys {
		ks = append(ks, k)
	}
	sort.Strings(ks)
	for _, k := range ks {
		c.check(lexKeys[k], "T7", dname, "directive `"+k+"` handled by the parser is a lexer keyword", parseKeys[k],
			"the lexer emits a Directive token for it", "the parser has a case for the directive `"+k+"` but the lexer's keyword set does not contain it: the word is lexed as text/account and the directive never reaches its parser")
	}
	// the directives the property names must be handled
	for _, k := range []string{"account", "commodity", "include", "P", "Y", "D"} {
		_, ok := parseKeys[k]
		c.check(ok, "T7", dname, "supported directive `"+k+"` has a parser case", dirFd.Pos(), "handled", "the supported directive `"+k+"` has no case in the parser's directive dispatch: it is skipped silently and its payload is lost")
	}
	c.census("T7", "directive keywords handled by the parser", len(parseKeys), 6)

	// T8: token kinds emitted by the lexer are kinds some parser branch tests for
	emitted := map[string]token.Pos{}
	tested := map[string]bool{}
	for _, f := range pk.Syntax {
		for _, d := range f.Decls {
			fd, ok := d.(*ast.FuncDecl)
			if !ok || fd.Body == nil {
				continue
			}
			switch recvTypeName(fd) {
			case "Lexer":
				ast.Inspect(fd.Body, func(x ast.Node) bool {
					switch n := x.(type) {
					case *ast.CompositeLit:
						if typeHasSuffix(info.TypeOf(n), "parser.Token") {
							for _, el := range n.Elts {
								if kv, ok := el.(*ast.KeyValueExpr); ok && identOf(kv.Key).Name == "Type" {
									if id := identOf(kv.Value); strings.HasPrefix(id.Name, "Token") {
										emitted[id.Name] = kv.Pos()
									}
								}
							}
						}
					case *ast.CallExpr:
						for _, a := range n.Args {
							if id, ok := ast.Unparen(a).(*ast.Ident); ok && strings.HasPrefix(id.Name, "Token") {
								if cn, ok := info.Uses[id].(*types.Const); ok && strings.HasSuffix(types.TypeString(cn.Type(), nil), "parser.TokenType") {
									emitted[id.Name] = a.Pos()
								}
							}
						}
					}
					return true
				})
			case "Parser":
				ast.Inspect(fd.Body, func(x ast.Node) bool {
					if id, ok := x.(*ast.Ident); ok && strings.HasPrefix(id.Name, "Token") {
						if cn, ok := info.Uses[id].(*types.Const); ok && strings.HasSuffix(types.TypeString(cn.Type(), nil), "parser.TokenType") {
							tested[id.Name] = true
						}
					}
					return true
				})
			}
		}
	}
	// ... also through a package-level table the parser's methods consult (`virtualBrackets[p.current.Type]`)
	parserUses := map[types.Object]bool{}
	for _, f := range pk.Syntax {
		for _, d := range f.Decls {
			if fd, ok := d.(*ast.FuncDecl); ok && fd.Body != nil && recvTypeName(fd) == "Parser" {
				ast.Inspect(fd.Body, func(x ast.Node) bool {
					if id, ok := x.(*ast.Ident); ok {
						if v, ok := info.Uses[id].(*types.Var); ok && v.Parent() == pk.Types.Scope() {
							parserUses[v] = true
						}
					}
					return true
				})
			}
		}
	}
	for _, f := range pk.Syntax {
		for _, d := range f.Decls {
			gd, ok := d.(*ast.GenDecl)
			if !ok || gd.Tok != token.VAR {
				continue
			}
			for _, sp := range gd.Specs {
				vs := sp.(*ast.ValueSpec)
				used := false
				for _, n := range vs.Names {
					if parserUses[info.Defs[n]] {
						used = true
					}
				}
				if !used {
					continue
				}
				for _, v := range vs.Values {
					ast.Inspect(v, func(x ast.Node) bool {
						if id, ok := x.(*ast.Ident); ok && strings.HasPrefix(id.Name, "Token") {
							if cn, ok := info.Uses[id].(*types.Const); ok && strings.HasSuffix(types.TypeString(cn.Type(), nil), "parser.TokenType") {
								tested[id.Name] = true
							}
						}
						return true
					})
				}
			}
		}
	}
	var es []string
	for k := range emitted {
		es = append(es, k)
	}
	sort.Strings(es)
	for _, k := range es {
		c.check(tested[k], "T8", "parser.Parser", "token kind "+k+" emitted by the lexer is consumed by some parser branch", emitted[k],
			"the parser refers to "+k, "the lexer emits "+k+" but no parser branch ever tests for it: such a token can only fall into the error path, so a construct the lexer recognises produces a syntax error")
	}
	c.census("T8", "token kinds emitted by the lexer", len(es), 15)
}

// postingFieldsBehindEmission: the fields of ast.Posting that the range of the diagnostic emitted in fd is read
// from, following parameters up through the call sites (and the yields of iterators).
func postingFieldsBehindEmission(c *Ctx, fd *ast.FuncDecl) map[string]bool {
	out := map[string]bool{}
	F := c.P.ssaOf(fd)
	if F == nil {
		return out
	}
	ci := buildConc(c)
	fns := append([]*ssa.Function{F}, F.AnonFuncs...)
	for _, f := range fns {
		for _, b := range f.Blocks {
			for _, ins := range b.Instrs {
				st, ok := ins.(*ssa.Store)
				if !ok {
					continue
				}
				fa, ok := st.Addr.(*ssa.FieldAddr)
				if !ok || !typeHasSuffix(fa.X.Type(), "internal/analyzer.Diagnostic") || fieldVarOfAddr(fa).Name() != "Range" {
					continue
				}
				for v := range sliceUpN(ci, st.Val, f, 4) {
					switch x := v.(type) {
					case *ssa.FieldAddr:
						if typeHasSuffix(x.X.Type().Underlying().(*types.Pointer).Elem(), "ast.Posting") {
							out[fieldVarOfAddr(x).Name()] = true
						}
					case *ssa.Field:
						if typeHasSuffix(x.X.Type(), "ast.Posting") {
							if stt, ok := x.X.Type().Underlying().(*types.Struct); ok {
								out[stt.Field(x.Field).Name()] = true
							}
						}
					}
				}
			}
		}
	}
	return out
}

// producesDiagnostics: the function returns diagnostics / a balance verdict, builds an analyzer.Diagnostic, or
// calls a function of its package that does.
func producesDiagnostics(c *Ctx, info *types.Info, fn *types.Func, depth int, seen map[*types.Func]bool) bool {
	if seen[fn] || depth > 3 {
		return false
	}
	seen[fn] = true
	sig, _ := fn.Type().(*types.Signature)
	if sig != nil {
		for i := 0; i < sig.Results().Len(); i++ {
			ts := types.TypeString(sig.Results().At(i).Type(), nil)
			if strings.Contains(ts, "analyzer.Diagnostic") || strings.Contains(ts, "analyzer.BalanceResult") {
				return true
			}
		}
		for i := 0; i < sig.Params().Len(); i++ {
			ts := types.TypeString(sig.Params().At(i).Type(), nil)
			if strings.Contains(ts, "analyzer.Diagnostic") || strings.Contains(ts, "analyzer.AnalysisResult") {
				return true // appends to a list / result it is handed
			}
		}
	}
	decl := c.P.declOf[fn]
	if decl == nil || decl.Body == nil {
		return false
	}
	found := false
	ast.Inspect(decl.Body, func(n ast.Node) bool {
		switch x := n.(type) {
		case *ast.CompositeLit:
			if t := info.TypeOf(x); t != nil && strings.Contains(types.TypeString(t, nil), "analyzer.Diagnostic") {
				found = true
			}
		case *ast.CallExpr:
			if f2, ok := calleeOf(info, x).(*types.Func); ok && f2.Pkg() == fn.Pkg() && producesDiagnostics(c, info, f2, depth+1, seen) {
				found = true
			}
		}
		return !found
	})
	return found
}
