package main

// C19 rules (DESIGN §3.F T6, §5 C19-TOTAL, C19-CONVERT).

import (
	"fmt"
	"go/ast"
	"go/token"
	"go/types"
	"sort"
	"strings"

	"golang.org/x/tools/go/ssa"
)

type settingsLeaf struct {
	path string // "Features.Hover"
	typ  types.Type
}

func settingsLeaves(t types.Type, prefix string, out *[]settingsLeaf) {
	st, ok := t.Underlying().(*types.Struct)
	if !ok {
		return
	}
	for i := 0; i < st.NumFields(); i++ {
		f := st.Field(i)
		p := f.Name()
		if prefix != "" {
			p = prefix + "." + f.Name()
		}
		if _, isStruct := f.Type().Underlying().(*types.Struct); isStruct && !strings.HasPrefix(types.TypeString(f.Type(), nil), "time.") {
			settingsLeaves(f.Type(), p, out)
		} else {
			*out = append(*out, settingsLeaf{p, f.Type()})
		}
	}
}

// selectorPath renders settings.A.B as "A.B" if rooted at obj.
func selectorPath(info *types.Info, e ast.Expr, root types.Object) (string, bool) {
	var parts []string
	e = ast.Unparen(e)
	for {
		switch x := e.(type) {
		case *ast.SelectorExpr:
			parts = append([]string{x.Sel.Name}, parts...)
			e = ast.Unparen(x.X)
		case *ast.Ident:
			if info.Uses[x] == root || info.Defs[x] == root {
				return strings.Join(parts, "."), true
			}
			return "", false
		default:
			return "", false
		}
	}
}

type settingsAssign struct {
	section string // "" for top-level dotted keys
	key     string
	conv    string
	target  string
	guarded bool
	pos     token.Pos
}

type settingsModelT struct {
	applyFd, normFd *ast.FuncDecl
	root, rawObj    types.Object
	leaves          []settingsLeaf
	assigns         []settingsAssign
}

// settingsModel reads the settings parser: which configuration key is converted by which converter and
// stored into which field of the settings structure.
func settingsModel(c *Ctx, report bool) *settingsModelT {
	spk := c.P.ByRel["internal/server"]
	info := spk.TypesInfo
	// settings root type: the struct type of the Server field guarded by the settings mutex: by role, the
	// type returned by the function that the apply function returns.
	var applyFd, normFd *ast.FuncDecl
	var applyCands []*ast.FuncDecl
	for _, f := range spk.Syntax {
		for _, d := range f.Decls {
			fd, ok := d.(*ast.FuncDecl)
			if !ok || fd.Body == nil || fd.Recv != nil || fd.Type.Params == nil || fd.Type.Results == nil {
				continue
			}
			var ptypes []string
			for _, fl := range fd.Type.Params.List {
				n := len(fl.Names)
				if n == 0 {
					n = 1
				}
				for i := 0; i < n; i++ {
					ptypes = append(ptypes, types.TypeString(info.TypeOf(fl.Type), nil))
				}
			}
			if len(fd.Type.Results.List) != 1 {
				continue
			}
			rt := types.TypeString(info.TypeOf(fd.Type.Results.List[0].Type), nil)
			if !strings.HasSuffix(rt, "server.serverSettings") {
				continue
			}
			if len(ptypes) == 2 && ptypes[0] == rt && strings.HasPrefix(ptypes[1], "map[string]") {
				applyCands = append(applyCands, fd)
			}
			if len(ptypes) == 1 && ptypes[0] == rt {
				normFd = fd
			}
		}
	}
	// several functions of that shape (one per section): the entry is the one no other candidate calls
	calledByCand := map[*ast.FuncDecl]bool{}
	for _, cand := range applyCands {
		ast.Inspect(cand.Body, func(x ast.Node) bool {
			if call, ok := x.(*ast.CallExpr); ok {
				if o, ok := calleeOf(info, call).(*types.Func); ok {
					if d := c.P.declOf[o]; d != nil && d != cand {
						calledByCand[d] = true
					}
				}
			}
			return true
		})
	}
	for _, cand := range applyCands {
		if !calledByCand[cand] {
			applyFd = cand
		}
	}
	if applyFd == nil || normFd == nil {
		if report {
			c.undecided("T6", "server", "settings parser", token.NoPos, "could not identify the settings apply function (serverSettings, map[string]any) serverSettings and the normaliser (serverSettings) serverSettings")
		}
		return nil
	}
	var root types.Object
	var rawObj types.Object
	for _, fl := range applyFd.Type.Params.List {
		for _, n := range fl.Names {
			if strings.HasSuffix(types.TypeString(info.TypeOf(fl.Type), nil), "serverSettings") {
				root = info.Defs[n]
			} else {
				rawObj = info.Defs[n]
			}
		}
	}
	var leaves []settingsLeaf
	settingsLeaves(root.Type(), "", &leaves)

	assigns := interpretSettings(c, info, applyFd, root, rawObj)
	return &settingsModelT{applyFd, normFd, root, rawObj, leaves, assigns}
}

// fieldForKey returns the name of the settings field that the configuration key (dotted form,
// e.g. "completion.maxResults") is stored into, or the fallback if the parser does not mention the key.
func (m *settingsModelT) fieldForKey(key, fallback string) string {
	if m != nil {
		for _, a := range m.assigns {
			k := a.key
			if a.section != "" {
				k = a.section + "." + a.key
			}
			if k == key {
				parts := strings.Split(a.target, ".")
				return parts[len(parts)-1]
			}
		}
	}
	return fallback
}

func ruleSettings(c *Ctx) {
	m := settingsModel(c, true)
	if m == nil {
		return
	}
	spk := c.P.ByRel["internal/server"]
	info := spk.TypesInfo
	applyFd, normFd, root, leaves, assigns := m.applyFd, m.normFd, m.root, m.leaves, m.assigns
	aname, nname := c.P.declName(applyFd), c.P.declName(normFd)
	c.census("T6", "settings leaves (from the type definitions)", len(leaves), 15)
	c.census("T6", "guarded settings assignments in the apply function", len(assigns), 30)

	byTarget := map[string][]settingsAssign{}
	for _, a := range assigns {
		byTarget[a.target] = append(byTarget[a.target], a)
	}
	convFor := func(t types.Type) []string {
		switch types.TypeString(t, nil) {
		case "bool":
			return []string{"toBool"}
		case "int":
			return []string{"toInt"}
		case "int64":
			return []string{"toInt64"}
		case "string":
			return []string{"toString"}
		case "time.Duration":
			return []string{"toInt", "toInt64"}
		}
		return nil
	}
	_ = convFor
	leafSet := map[string]bool{}
	for _, lf := range leaves {
		leafSet[lf.path] = true
		as := byTarget[lf.path]
		nested := map[string]bool{}
		dotted := map[string]bool{}
		unguarded := ""
		kinds := map[string]bool{}
		for _, a := range as {
			if !a.guarded {
				unguarded = c.P.pos(a.pos)
			}
			if a.section == "" {
				dotted[a.key] = true
			} else {
				nested[a.section+"."+a.key] = true
			}
			kinds[a.conv] = true
		}
		desc := "leaf " + lf.path
		switch {
		case len(as) == 0:
			c.finding("T6", aname, desc, applyFd.Pos(), "settings leaf "+lf.path+" is never assigned by the settings parser: a recognised, well-typed value can never take effect")
		case unguarded != "":
			c.finding("T6", aname, desc, applyFd.Pos(), "settings leaf "+lf.path+" is assigned at "+unguarded+" without being guarded by the converter's ok result (or not from the converted value): an ill-typed entry overwrites the previous value")
		case len(nested) == 0 || len(dotted) == 0:
			c.finding("T6", aname, desc, applyFd.Pos(), fmt.Sprintf("settings leaf %s is accepted in only one key form (nested %v, dotted %v)", lf.path, keysOf(nested), keysOf(dotted)))
		case !sameKeys(nested, dotted):
			c.finding("T6", aname, desc, applyFd.Pos(), fmt.Sprintf("nested and dotted key spellings of %s differ: nested %v vs dotted %v", lf.path, keysOf(nested), keysOf(dotted)))
		case len(kinds) != 1:
			c.finding("T6", aname, desc, applyFd.Pos(), fmt.Sprintf("settings leaf %s is converted by different converters in its key forms: %v", lf.path, keysOf(kinds)))
		default:
			c.ok("T6", aname, desc, as[0].pos, fmt.Sprintf("keys %v (nested and dotted), converter %v, ok-guarded", keysOf(dotted), keysOf(kinds)))
		}
	}
	// no key form is shared by two different leaves
	keyOwner := map[string]string{}
	for _, a := range assigns {
		k := a.key
		if a.section != "" {
			k = a.section + "." + a.key
		}
		if prev, ok := keyOwner[k]; ok && prev != a.target {
			c.finding("T6", aname, "key "+k, a.pos, "configuration key "+k+" is written to two different settings ("+prev+" and "+a.target+")")
		}
		keyOwner[k] = a.target
	}

	// normaliser: value-range analysis.  Whatever the input, a numeric leaf leaves the normaliser at least as large
	// as 1 when its default is positive (a non-positive value falls back to something valid), and non-negative
	// otherwise.
	_ = info
	ranges, rt := resultRanges(c.P.ssaOf(normFd))
	var defaults structState
	for _, f := range c.P.ModuleFuncs() {
		if f.Pkg == c.P.SSAPkg("internal/server") && f.Signature.Recv() == nil && f.Signature.Params().Len() == 0 && f.Signature.Results().Len() == 1 &&
			rt != nil && types.Identical(f.Signature.Results().At(0).Type(), rt) {
			defaults, _ = resultRanges(f)
		}
	}
	byName := map[string]ival{}
	defByName := map[string]ival{}
	for _, p := range sortedLeafPaths(ranges) {
		byName[leafName(rt, p)] = ranges[p]
	}
	for _, p := range sortedLeafPaths(defaults) {
		defByName[leafName(rt, p)] = defaults[p]
	}
	nNum := 0
	for _, lf := range leaves {
		ts := types.TypeString(lf.typ, nil)
		if ts != "int" && ts != "int64" && ts != "time.Duration" {
			continue
		}
		nNum++
		r, okR := byName[lf.path]
		if !okR {
			c.undecided("T6", nname, "non-positive "+lf.path+" normalised", normFd.Pos(), "the value-range analysis did not produce a range for this leaf")
			continue
		}
		need := int64(0)
		if d, ok := defByName[lf.path]; ok && !d.loInf && d.lo >= 1 {
			need = 1
		}
		okG := !r.loInf && r.lo >= need
		c.check(okG, "T6", nname, "non-positive "+lf.path+" normalised", normFd.Pos(),
			fmt.Sprintf("the normalised value lies in %s for every input (needed: >= %d)", r, need),
			fmt.Sprintf("numeric settings leaf %s can leave the normaliser in %s (needed: >= %d): a non-positive value does not fall back to a valid one", lf.path, r, need))
	}
	c.census("T6", "numeric settings leaves", nNum, 5)
	// every leaf is read outside the settings parser (effective)
	reads := map[string]bool{}
	for _, fd := range c.P.AllFuncDecls() {
		if c.P.pkgOf[fd] != spk || fd == applyFd || fd == normFd || fd.Name.Name == "defaultServerSettings" {
			continue
		}
		finfo := spk.TypesInfo
		// a store into a settings field is not a use of the setting
		stored := map[ast.Node]bool{}
		ast.Inspect(fd.Body, func(x ast.Node) bool {
			if as, ok := x.(*ast.AssignStmt); ok && as.Tok == token.ASSIGN {
				for _, l := range as.Lhs {
					stored[ast.Unparen(l)] = true
				}
			}
			return true
		})
		ast.Inspect(fd.Body, func(x ast.Node) bool {
			se, ok := x.(*ast.SelectorExpr)
			if !ok {
				return true
			}
			if stored[se] {
				return false
			}
			// build type-based path: walk selectors while the base type is one of the settings structs
			var parts []string
			e := ast.Expr(se)
			for {
				s2, ok := ast.Unparen(e).(*ast.SelectorExpr)
				if !ok {
					break
				}
				parts = append([]string{s2.Sel.Name}, parts...)
				e = s2.X
				// the settings value may itself be a part of something else (change.after.Limits): the path starts
				// where the settings struct is reached
				if t := finfo.TypeOf(e); t != nil && strings.HasSuffix(types.TypeString(t, nil), "server.serverSettings") {
					break
				}
			}
			bt := finfo.TypeOf(e)
			if bt == nil {
				return true
			}
			if strings.HasSuffix(types.TypeString(bt, nil), "server.serverSettings") {
				for i := 1; i <= len(parts); i++ {
					reads[strings.Join(parts[:i], ".")] = true
				}
			} else {
				// e.g. `settings completionSettings` parameter: map by type name -> section
				for _, lf := range leaves {
					secs := strings.SplitN(lf.path, ".", 2)
					if len(secs) == 2 && len(parts) >= 1 {
						if f := fieldOfRoot(root.Type(), secs[0]); f != nil && types.Identical(f.Type(), bt) && parts[0] == secs[1] {
							reads[lf.path] = true
						}
					}
				}
			}
			return true
		})
	}
	for _, lf := range leaves {
		sec := strings.SplitN(lf.path, ".", 2)[0]
		eff := reads[lf.path] || (reads[sec] && !hasSubRead(reads, sec))
		// a whole section passed on as a value (e.g. Limits handed to the loader, CLI to reinitCLI) counts for its leaves
		if !eff && reads[sec] {
			eff = sectionPassedWhole(c.P, spk, sec)
		}
		c.check(eff, "T6", "server", "leaf "+lf.path+" is read outside the settings parser", token.NoPos,
			"the setting is consulted by a feature", "settings leaf "+lf.path+" is parsed but never read by any feature: a recognised value cannot take effect")
	}
	ruleConverters(c)
	ruleSettingsTotal(c)
}

// guardedPointerStore: decl is `func(dst *T, raw any) { if v, ok := conv(raw); ok { *dst = v } }`; returns the
// converter's name and whether the store is guarded by the converter's ok result.
func guardedPointerStore(p *Prog, info *types.Info, decl *ast.FuncDecl) (string, bool, bool) {
	if decl == nil || decl.Body == nil || decl.Type.Params == nil {
		return "", false, false
	}
	var ps []types.Object
	for _, fl := range decl.Type.Params.List {
		for _, n := range fl.Names {
			ps = append(ps, info.Defs[n])
		}
	}
	if len(ps) != 2 {
		return "", false, false
	}
	conv, stores, guarded := "", 0, true
	var visit func(list []ast.Stmt, okObj, valObj types.Object)
	visit = func(list []ast.Stmt, okObj, valObj types.Object) {
		for _, st := range list {
			switch x := st.(type) {
			case *ast.IfStmt:
				if init, ok := x.Init.(*ast.AssignStmt); ok && len(init.Lhs) == 2 && len(init.Rhs) == 1 {
					if call, ok := ast.Unparen(init.Rhs[0]).(*ast.CallExpr); ok && len(call.Args) == 1 && info.Uses[identOf(call.Args[0])] == ps[1] {
						if o := calleeOf(info, call); o != nil {
							conv = o.Name()
						}
						ok2 := info.Defs[identOf(init.Lhs[1])]
						if id, isId := ast.Unparen(x.Cond).(*ast.Ident); isId && info.Uses[id] == ok2 && x.Else == nil {
							visit(x.Body.List, ok2, info.Defs[identOf(init.Lhs[0])])
							continue
						}
					}
				}
				visit(x.Body.List, nil, nil) // stores in here count as unguarded
			case *ast.AssignStmt:
				for i, l := range x.Lhs {
					if star, ok := ast.Unparen(l).(*ast.StarExpr); ok && info.Uses[identOf(star.X)] == ps[0] {
						stores++
						if okObj == nil || i >= len(x.Rhs) || info.Uses[identOf(x.Rhs[i])] != valObj {
							guarded = false
						}
					}
				}
			}
		}
	}
	visit(decl.Body.List, nil, nil)
	if stores == 0 || conv == "" {
		return "", false, false
	}
	return conv, guarded, true
}

// returnsParam: every return statement of the function returns the given parameter itself.
func returnsParam(info *types.Info, decl *ast.FuncDecl, param types.Object) bool {
	n, ok := 0, true
	ast.Inspect(decl.Body, func(x ast.Node) bool {
		if _, isLit := x.(*ast.FuncLit); isLit {
			return false
		}
		if r, isRet := x.(*ast.ReturnStmt); isRet {
			n++
			if len(r.Results) != 1 || info.Uses[identOf(r.Results[0])] != param {
				ok = false
			}
		}
		return true
	})
	return ok && n > 0
}

func fieldOfRoot(t types.Type, name string) *types.Var {
	st, ok := t.Underlying().(*types.Struct)
	if !ok {
		return nil
	}
	for i := 0; i < st.NumFields(); i++ {
		if st.Field(i).Name() == name {
			return st.Field(i)
		}
	}
	return nil
}

func hasSubRead(reads map[string]bool, sec string) bool {
	for k := range reads {
		if strings.HasPrefix(k, sec+".") {
			return true
		}
	}
	return false
}

// sectionPassedWhole: `settings.<Sec>` is used as a call argument or compared as a whole somewhere.
func sectionPassedWhole(p *Prog, spk *packagesPackage, sec string) bool {
	found := false
	for _, fd := range p.AllFuncDecls() {
		if p.pkgOf[fd] != spk {
			continue
		}
		ast.Inspect(fd.Body, func(x ast.Node) bool {
			call, ok := x.(*ast.CallExpr)
			if !ok {
				return true
			}
			for _, a := range call.Args {
				if se, ok := ast.Unparen(a).(*ast.SelectorExpr); ok && se.Sel.Name == sec {
					if t := spk.TypesInfo.TypeOf(se.X); t != nil && strings.HasSuffix(types.TypeString(t, nil), "server.serverSettings") {
						found = true
					}
				}
			}
			return true
		})
	}
	return found
}

func keysOf(m map[string]bool) []string {
	var l []string
	for k := range m {
		l = append(l, k)
	}
	sort.Strings(l)
	return l
}

func sameKeys(a, b map[string]bool) bool {
	if len(a) != len(b) {
		return false
	}
	for k := range a {
		if !b[k] {
			return false
		}
	}
	return true
}

// ruleConverters (C19-CONVERT): converters func(interface{}) (T, bool) accept a value by its type alone.
func ruleConverters(c *Ctx) {
	spk := c.P.ByRel["internal/server"]
	info := spk.TypesInfo
	n := 0
	for _, f := range spk.Syntax {
		for _, d := range f.Decls {
			fd, ok := d.(*ast.FuncDecl)
			if !ok || fd.Body == nil || fd.Recv != nil || fd.Type.Params == nil || fd.Type.Results == nil {
				continue
			}
			if len(fd.Type.Params.List) != 1 || len(fd.Type.Results.List) != 2 {
				continue
			}
			pt := info.TypeOf(fd.Type.Params.List[0].Type)
			if pt == nil || !types.IsInterface(pt) {
				continue
			}
			if rt := info.TypeOf(fd.Type.Results.List[1].Type); rt == nil || types.TypeString(rt, nil) != "bool" {
				continue
			}
			n++
			fname := c.P.declName(fd)
			resT := types.TypeString(info.TypeOf(fd.Type.Results.List[0].Type), nil)
			bad := ""
			ast.Inspect(fd.Body, func(x ast.Node) bool {
				switch e := x.(type) {
				case *ast.BinaryExpr:
					switch e.Op {
					case token.LSS, token.GTR, token.LEQ, token.GEQ:
						bad = "range test `" + exprStr(c.P.Fset, e) + "` (range handling belongs to the normaliser, which falls back to the default)"
					}
				case *ast.CallExpr:
					q := qualName(calleeOf(info, e))
					if q == "strconv.ParseBool" {
						bad = "strconv.ParseBool accepts \"1\", \"t\", \"T\", \"0\", \"f\", ... as booleans and rejects mixed-case spellings"
					}
				case *ast.BasicLit:
					if e.Kind == token.STRING && resT == "bool" {
						if s, ok := stringConst(info, e); ok && s != "true" && s != "false" && s != "" {
							bad = "boolean spelling " + e.Value + " accepted besides true/false"
						}
					}
				}
				return true
			})
			c.check(bad == "", "C19-CONVERT", fname, "converter accepts by type only", fd.Pos(),
				"no value-range filtering and only the spellings true/false in the converter",
				"converter "+fd.Name.Name+": "+bad)
		}
	}
	c.census("C19-CONVERT", "converters func(any) (T, bool)", n, 3)
}

// ruleSettingsTotal (C19-TOTAL): nothing reachable from the settings parser can panic.
func ruleSettingsTotal(c *Ctx) {
	var root *ssa.Function
	if root == nil {
		// role fallback: any function (serverSettings, interface{}) serverSettings
		for _, f := range c.P.ModuleFuncs() {
			if f.Signature.Params().Len() == 2 && f.Signature.Results().Len() == 1 &&
				strings.HasSuffix(types.TypeString(f.Signature.Results().At(0).Type(), nil), "server.serverSettings") &&
				types.IsInterface(f.Signature.Params().At(1).Type()) {
				root = f
			}
		}
	}
	if root == nil {
		c.undecided("C19-TOTAL", "server", "settings entry point", token.NoPos, "function (serverSettings, any) serverSettings not found")
		return
	}
	g := c.P.CallGraph("vta")
	n := 0
	var fs []*ssa.Function
	for f := range Reach(g, []*ssa.Function{root}, true) {
		if inModule(f) {
			fs = append(fs, f)
		}
	}
	sort.Slice(fs, func(i, j int) bool { return funcName(fs[i]) < funcName(fs[j]) })
	for _, f := range fs {
		n++
		bad := ""
		for _, b := range f.Blocks {
			for _, ins := range b.Instrs {
				switch x := ins.(type) {
				case *ssa.TypeAssert:
					if !x.CommaOk {
						bad = "unchecked type assertion at " + c.P.pos(x.Pos())
					}
				case *ssa.Panic:
					if !x.Pos().IsValid() {
						continue // synthesised for range-over-func loops, not written in the source
					}
					bad = "explicit panic at " + c.P.pos(x.Pos())
				case *ssa.IndexAddr:
					if !safeIndexAddr(x) {
						bad = "slice/array indexing at " + c.P.pos(x.Pos())
					}
				case *ssa.Index:
					bad = "indexing at " + c.P.pos(x.Pos())
				case *ssa.Slice:
					if _, fresh := x.X.(*ssa.Alloc); fresh && x.Low == nil && x.High == nil && x.Max == nil {
						continue // `[]T{...}`: the whole of a freshly allocated array
					}
					bad = "slicing at " + c.P.pos(x.Pos())
				case *ssa.BinOp:
					if x.Op == token.QUO || x.Op == token.REM {
						if _, isConst := x.Y.(*ssa.Const); !isConst {
							bad = "division by a non-constant at " + c.P.pos(x.Pos())
						}
					}
				case *ssa.Lookup:
					if _, isMap := x.X.Type().Underlying().(*types.Map); !isMap {
						bad = "string indexing at " + c.P.pos(x.Pos())
					}
				}
			}
		}
		c.check(bad == "", "C19-TOTAL", funcName(f), "no panicking instruction", f.Pos(),
			"no unchecked assertion, index, slice, division or panic: any payload shape is accepted without failure",
			"reachable from the settings parser and can panic on some payload: "+bad+" (there is no recover anywhere in the server)")
	}
	c.census("C19-TOTAL", "module functions reachable from the settings parser", n, 5)
	// recursion is structural: the only recursive call passes a value obtained by a map lookup on the argument
	rec := 0
	for _, b := range root.Blocks {
		for _, ins := range b.Instrs {
			if call, ok := ins.(*ssa.Call); ok && call.Common().StaticCallee() == root {
				rec++
				arg := call.Common().Args[len(call.Common().Args)-1]
				okS := false
				if ex, ok := arg.(*ssa.Extract); ok {
					if _, ok := ex.Tuple.(*ssa.Lookup); ok {
						okS = true
					}
				}
				if _, ok := arg.(*ssa.Lookup); ok {
					okS = true
				}
				c.check(okS, "C19-TOTAL", funcName(root), "recursion on a strictly smaller value", call.Pos(),
					"the recursive call receives a member of the map it was given", "the settings parser recurses on a value that is not a member of its argument: unbounded recursion on a crafted payload")
			}
		}
	}
}

// safeIndexAddr: the element address cannot be out of range: a constant index into a freshly allocated array
// (composite literal), or a loop counter (starting at a constant, stepped by one) that is tested against the
// length of the same slice on the way to the access.
func safeIndexAddr(x *ssa.IndexAddr) bool {
	if al, ok := x.X.(*ssa.Alloc); ok {
		if at, ok := al.Type().Underlying().(*types.Pointer).Elem().Underlying().(*types.Array); ok {
			if k, ok := x.Index.(*ssa.Const); ok && k.Value != nil && k.Int64() >= 0 && k.Int64() < at.Len() {
				return true
			}
		}
	}
	counter := func(v ssa.Value) bool {
		// i = phi(const, i+1)  or  i+1 of such a phi
		if bo, ok := v.(*ssa.BinOp); ok && bo.Op == token.ADD {
			if k, ok := bo.Y.(*ssa.Const); ok && k.Value != nil && k.Int64() == 1 {
				v = bo.X
			}
		}
		phi, ok := v.(*ssa.Phi)
		if !ok {
			return false
		}
		for _, e := range phi.Edges {
			switch y := e.(type) {
			case *ssa.Const:
				if y.Value == nil || y.Int64() < -1 {
					return false
				}
			case *ssa.BinOp:
				k, ok := y.Y.(*ssa.Const)
				if y.Op != token.ADD || y.X != ssa.Value(phi) || !ok || k.Value == nil || k.Int64() != 1 {
					return false
				}
			default:
				return false
			}
		}
		return true
	}
	if !counter(x.Index) {
		return false
	}
	for _, cc := range controlCondsPol(x.Block()) {
		bo, ok := cc.Cond.(*ssa.BinOp)
		if !ok || bo.Op != token.LSS || !cc.Taken || bo.X != x.Index {
			continue
		}
		if call, ok := bo.Y.(*ssa.Call); ok {
			if bi, ok := call.Call.Value.(*ssa.Builtin); ok && bi.Name() == "len" && len(call.Call.Args) == 1 {
				if call.Call.Args[0] == x.X || sameLoad(call.Call.Args[0], x.X) {
					return true
				}
			}
		}
	}
	return false
}
