package main

// C19 rules (DESIGN §3.F T6, §5 C19-TOTAL, C19-CONVERT).

import (
	"fmt"
	"go/ast"
	"go/token"
	"go/types"
	"sort"
	"strings"

	"golang.org/x/tools/go/ssa"
)

type settingsLeaf struct {
	path string // "Features.Hover"
	typ  types.Type
}

func settingsLeaves(t types.Type, prefix string, out *[]settingsLeaf) {
	st, ok := t.Underlying().(*types.Struct)
	if !ok {
		return
	}
	for i := 0; i < st.NumFields(); i++ {
		f := st.Field(i)
		p := f.Name()
		if prefix != "" {
			p = prefix + "." + f.Name()
		}
		if _, isStruct := f.Type().Underlying().(*types.Struct); isStruct && !strings.HasPrefix(types.TypeString(f.Type(), nil), "time.") {
			settingsLeaves(f.Type(), p, out)
		} else {
			*out = append(*out, settingsLeaf{p, f.Type()})
		}
	}
}

// selectorPath renders settings.A.B as "A.B" if rooted at obj.
func selectorPath(info *types.Info, e ast.Expr, root types.Object) (string, bool) {
	var parts []string
	e = ast.Unparen(e)
	for {
		switch x := e.(type) {
		case *ast.SelectorExpr:
			parts = append([]string{x.Sel.Name}, parts...)
			e = ast.Unparen(x.X)
		case *ast.Ident:
			if info.Uses[x] == root || info.Defs[x] == root {
				return strings.Join(parts, "."), true
			}
			return "", false
		default:
			return "", false
		}
	}
}

type settingsAssign struct {
	section string // "" for top-level dotted keys
	key     string
	conv    string
	target  string
	guarded bool
	pos     token.Pos
}

type settingsModelT struct {
	applyFd, normFd *ast.FuncDecl
	root, rawObj    types.Object
	leaves          []settingsLeaf
	assigns         []settingsAssign
}

// settingsModel reads the settings parser: which configuration key is converted by which converter and
// stored into which field of the settings structure.
func settingsModel(c *Ctx, report bool) *settingsModelT {
	spk := c.P.ByRel["internal/server"]
	info := spk.TypesInfo
	// settings root type: the struct type of the Server field guarded by the settings mutex: by role, the
	// type returned by the function that the apply function returns.
	var applyFd, normFd *ast.FuncDecl
	var applyCands []*ast.FuncDecl
	for _, f := range spk.Syntax {
		for _, d := range f.Decls {
			fd, ok := d.(*ast.FuncDecl)
			if !ok || fd.Body == nil || fd.Recv != nil || fd.Type.Params == nil || fd.Type.Results == nil {
				continue
			}
			var ptypes []string
			for _, fl := range fd.Type.Params.List {
				n := len(fl.Names)
				if n == 0 {
					n = 1
				}
				for i := 0; i < n; i++ {
					ptypes = append(ptypes, types.TypeString(info.TypeOf(fl.Type), nil))
				}
			}
			if len(fd.Type.Results.List) != 1 {
				continue
			}
			rt := types.TypeString(info.TypeOf(fd.Type.Results.List[0].Type), nil)
			if !strings.HasSuffix(rt, "server.serverSettings") {
				continue
			}
			if len(ptypes) == 2 && ptypes[0] == rt && strings.HasPrefix(ptypes[1], "map[string]") {
				applyCands = append(applyCands, fd)
			}
			if len(ptypes) == 1 && ptypes[0] == rt {
				normFd = fd
			}
		}
	}
	// several functions of that shape (one per section): the entry is the one no other candidate calls
	calledByCand := map[*ast.FuncDecl]bool{}
	for _, cand := range applyCands {
		ast.Inspect(cand.Body, func(x ast.Node) bool {
			if call, ok := x.(*ast.CallExpr); ok {
				if o, ok := calleeOf(info, call).(*types.Func); ok {
					if d := c.P.declOf[o]; d != nil && d != cand {
						calledByCand[d] = true
					}
				}
			}
			return true
		})
	}
	for _, cand := range applyCands {
		if !calledByCand[cand] {
			applyFd = cand
		}
	}
	if applyFd == nil || normFd == nil {
		if report {
			c.undecided("T6", "server", "settings parser", token.NoPos, "could not identify the settings apply function (serverSettings, map[string]any) serverSettings and the normaliser (serverSettings) serverSettings")
		}
		return nil
	}
	var root types.Object
	var rawObj types.Object
	for _, fl := range applyFd.Type.Params.List {
		for _, n := range fl.Names {
			if strings.HasSuffix(types.TypeString(info.TypeOf(fl.Type), nil), "serverSettings") {
				root = info.Defs[n]
			} else {
				rawObj = info.Defs[n]
			}
		}
	}
	var leaves []settingsLeaf
	settingsLeaves(root.Type(), "", &leaves)

	// collect assignments
	var assigns []settingsAssign
	// walk visits the statements of the apply function (and of the helpers it hands a part of the settings
	// and a raw map to); `root` is the variable holding the settings (or a section of them, then `prefix`
	// is that section's path), `mapObj` the raw map being read, `section` the nested key it was found under.
	var walk func(list []ast.Stmt, root types.Object, prefix string, section string, mapObj types.Object, depth int)
	pathOf := func(e ast.Expr, root types.Object, prefix string) (string, bool) {
		p, ok := selectorPath(info, e, root)
		if !ok {
			return "", false
		}
		if prefix != "" && p != "" {
			return prefix + "." + p, true
		}
		return prefix + p, true
	}
	walk = func(list []ast.Stmt, root types.Object, prefix string, section string, mapObj types.Object, depth int) {
		for _, st := range list {
			ifs, ok := st.(*ast.IfStmt)
			if !ok {
				// `settings.Sec = helper(settings.Sec, secRaw)`: the helper applies the keys of secRaw to the section
				if as, ok := st.(*ast.AssignStmt); ok && len(as.Lhs) == 1 && len(as.Rhs) == 1 && depth < 3 {
					if call, ok := ast.Unparen(as.Rhs[0]).(*ast.CallExpr); ok && len(call.Args) == 2 {
						lp, okL := pathOf(as.Lhs[0], root, prefix)
						ap, okA := pathOf(call.Args[0], root, prefix)
						if o, isFn := calleeOf(info, call).(*types.Func); isFn && okL && okA && lp == ap && info.Uses[identOf(call.Args[1])] == mapObj && mapObj != nil {
							if decl := c.P.declOf[o]; decl != nil && decl.Body != nil && decl.Type.Params != nil {
								var ps []types.Object
								for _, fl := range decl.Type.Params.List {
									for _, n := range fl.Names {
										ps = append(ps, info.Defs[n])
									}
								}
								if len(ps) == 2 && returnsParam(info, decl, ps[0]) {
									walk(decl.Body.List, ps[0], lp, section, ps[1], depth+1)
									continue
								}
							}
						}
					}
				}
				// `assign(&settings.Sec.Leaf, secRaw["key"])`: a helper that stores the converted value through the
				// pointer only when the conversion succeeded
				if es, ok := st.(*ast.ExprStmt); ok {
					if call, ok := es.X.(*ast.CallExpr); ok && len(call.Args) == 2 {
						if u, ok := ast.Unparen(call.Args[0]).(*ast.UnaryExpr); ok && u.Op == token.AND {
							if pth, ok := pathOf(u.X, root, prefix); ok && pth != prefix {
								if ix, ok := ast.Unparen(call.Args[1]).(*ast.IndexExpr); ok && info.Uses[identOf(ix.X)] == mapObj && mapObj != nil {
									if key, isConst := stringConst(info, ix.Index); isConst {
										if o, isFn := calleeOf(info, call).(*types.Func); isFn {
											if conv, guarded, ok := guardedPointerStore(c.P, info, c.P.declOf[o]); ok {
												assigns = append(assigns, settingsAssign{section, key, conv, pth, guarded, call.Pos()})
												continue
											}
										}
									}
								}
							}
						}
					}
				}
				// assignments to settings outside an ok-guard
				ast.Inspect(st, func(x ast.Node) bool {
					if as, ok := x.(*ast.AssignStmt); ok {
						for _, l := range as.Lhs {
							if p, ok := pathOf(l, root, prefix); ok && p != prefix {
								assigns = append(assigns, settingsAssign{section, "?", "?", p, false, as.Pos()})
							}
						}
					}
					return true
				})
				continue
			}
			init, ok := ifs.Init.(*ast.AssignStmt)
			if !ok || len(init.Rhs) != 1 || len(init.Lhs) != 2 {
				walk(ifs.Body.List, root, prefix, section, mapObj, depth)
				continue
			}
			okObj := info.Defs[identOf(init.Lhs[1])]
			condIsOK := false
			if id, ok := ast.Unparen(ifs.Cond).(*ast.Ident); ok && info.Uses[id] == okObj && okObj != nil {
				condIsOK = true
			}
			switch rhs := ast.Unparen(init.Rhs[0]).(type) {
			case *ast.TypeAssertExpr:
				// section: raw["sec"].(map[string]interface{})
				if ix, ok := ast.Unparen(rhs.X).(*ast.IndexExpr); ok {
					if key, ok := stringConst(info, ix.Index); ok && info.Uses[identOf(ix.X)] == mapObj {
						walk(ifs.Body.List, root, prefix, key, info.Defs[identOf(init.Lhs[0])], depth)
						continue
					}
				}
			case *ast.CallExpr:
				conv := ""
				if o := calleeOf(info, rhs); o != nil {
					conv = o.Name()
				}
				if len(rhs.Args) == 1 {
					if ix, ok := ast.Unparen(rhs.Args[0]).(*ast.IndexExpr); ok {
						key, isConst := stringConst(info, ix.Index)
						if isConst && info.Uses[identOf(ix.X)] == mapObj {
							valObj := info.Defs[identOf(init.Lhs[0])]
							for _, bs := range ifs.Body.List {
								as, ok := bs.(*ast.AssignStmt)
								if !ok {
									continue
								}
								for i, l := range as.Lhs {
									if p, ok := pathOf(l, root, prefix); ok && p != prefix {
										// RHS must be the converted value (possibly scaled by a constant)
										usesVal := false
										if i < len(as.Rhs) {
											ast.Inspect(as.Rhs[i], func(y ast.Node) bool {
												if id, ok := y.(*ast.Ident); ok && info.Uses[id] == valObj {
													usesVal = true
												}
												return true
											})
										}
										assigns = append(assigns, settingsAssign{section, key, conv, p, condIsOK && usesVal && ifs.Else == nil, as.Pos()})
									}
								}
							}
							continue
						}
					}
				}
			}
			walk(ifs.Body.List, root, prefix, section, mapObj, depth)
		}
	}
	walk(applyFd.Body.List, root, "", "", rawObj, 0)
	return &settingsModelT{applyFd, normFd, root, rawObj, leaves, assigns}
}

// fieldForKey returns the name of the settings field that the configuration key (dotted form,
// e.g. "completion.maxResults") is stored into, or the fallback if the parser does not mention the key.
func (m *settingsModelT) fieldForKey(key, fallback string) string {
	if m != nil {
		for _, a := range m.assigns {
			k := a.key
			if a.section != "" {
				k = a.section + "." + a.key
			}
			if k == key {
				parts := strings.Split(a.target, ".")
				return parts[len(parts)-1]
			}
		}
	}
	return fallback
}

func ruleSettings(c *Ctx) {
	m := settingsModel(c, true)
	if m == nil {
		return
	}
	spk := c.P.ByRel["internal/server"]
	info := spk.TypesInfo
	applyFd, normFd, root, leaves, assigns := m.applyFd, m.normFd, m.root, m.leaves, m.assigns
	aname, nname := c.P.declName(applyFd), c.P.declName(normFd)
	c.census("T6", "settings leaves (from the type definitions)", len(leaves), 15)
	c.census("T6", "guarded settings assignments in the apply function", len(assigns), 30)

	byTarget := map[string][]settingsAssign{}
	for _, a := range assigns {
		byTarget[a.target] = append(byTarget[a.target], a)
	}
	convFor := func(t types.Type) []string {
		switch types.TypeString(t, nil) {
		case "bool":
			return []string{"toBool"}
		case "int":
			return []string{"toInt"}
		case "int64":
			return []string{"toInt64"}
		case "string":
			return []string{"toString"}
		case "time.Duration":
			return []string{"toInt", "toInt64"}
		}
		return nil
	}
	_ = convFor
	leafSet := map[string]bool{}
	for _, lf := range leaves {
		leafSet[lf.path] = true
		as := byTarget[lf.path]
		nested := map[string]bool{}
		dotted := map[string]bool{}
		unguarded := ""
		kinds := map[string]bool{}
		for _, a := range as {
			if !a.guarded {
				unguarded = c.P.pos(a.pos)
			}
			if a.section == "" {
				dotted[a.key] = true
			} else {
				nested[a.section+"."+a.key] = true
			}
			kinds[a.conv] = true
		}
		desc := "leaf " + lf.path
		switch {
		case len(as) == 0:
			c.finding("T6", aname, desc, applyFd.Pos(), "settings leaf "+lf.path+" is never assigned by the settings parser: a recognised, well-typed value can never take effect")
		case unguarded != "":
			c.finding("T6", aname, desc, applyFd.Pos(), "settings leaf "+lf.path+" is assigned at "+unguarded+" without being guarded by the converter's ok result (or not from the converted value): an ill-typed entry overwrites the previous value")
		case len(nested) == 0 || len(dotted) == 0:
			c.finding("T6", aname, desc, applyFd.Pos(), fmt.Sprintf("settings leaf %s is accepted in only one key form (nested %v, dotted %v)", lf.path, keysOf(nested), keysOf(dotted)))
		case !sameKeys(nested, dotted):
			c.finding("T6", aname, desc, applyFd.Pos(), fmt.Sprintf("nested and dotted key spellings of %s differ: nested %v vs dotted %v", lf.path, keysOf(nested), keysOf(dotted)))
		case len(kinds) != 1:
			c.finding("T6", aname, desc, applyFd.Pos(), fmt.Sprintf("settings leaf %s is converted by different converters in its key forms: %v", lf.path, keysOf(kinds)))
		default:
			c.ok("T6", aname, desc, as[0].pos, fmt.Sprintf("keys %v (nested and dotted), converter %v, ok-guarded", keysOf(dotted), keysOf(kinds)))
		}
	}
	// no key form is shared by two different leaves
	keyOwner := map[string]string{}
	for _, a := range assigns {
		k := a.key
		if a.section != "" {
			k = a.section + "." + a.key
		}
		if prev, ok := keyOwner[k]; ok && prev != a.target {
			c.finding("T6", aname, "key "+k, a.pos, "configuration key "+k+" is written to two different settings ("+prev+" and "+a.target+")")
		}
		keyOwner[k] = a.target
	}

	// normaliser: every numeric leaf has a non-positive (or negative) guard that restores a default
	ninfo := info
	var nroot types.Object
	for _, fl := range normFd.Type.Params.List {
		for _, n := range fl.Names {
			nroot = ninfo.Defs[n]
		}
	}
	guardedLeaves := map[string]string{}
	for _, g := range guardsIn(normFd.Body) {
		be, ok := ast.Unparen(g.Cond).(*ast.BinaryExpr)
		if !ok {
			continue
		}
		p, ok := selectorPath(ninfo, be.X, nroot)
		if !ok {
			continue
		}
		// body assigns the same leaf
		for _, bs := range g.Body {
			if as, ok := bs.(*ast.AssignStmt); ok {
				for _, l := range as.Lhs {
					if p2, ok := selectorPath(ninfo, l, nroot); ok && p2 == p {
						guardedLeaves[p] += be.Op.String() + exprStr(c.P.Fset, be.Y) + " "
					}
				}
			}
		}
	}
	nNum := 0
	for _, lf := range leaves {
		ts := types.TypeString(lf.typ, nil)
		if ts != "int" && ts != "int64" && ts != "time.Duration" {
			continue
		}
		nNum++
		g := guardedLeaves[lf.path]
		okG := strings.Contains(g, "<=0") || strings.Contains(g, "<0") || strings.Contains(g, "<= 0") || strings.Contains(g, "< 0")
		c.check(okG, "T6", nname, "non-positive "+lf.path+" normalised", normFd.Pos(),
			"numeric leaf has a non-positive guard restoring a valid value ("+strings.TrimSpace(g)+")",
			"numeric settings leaf "+lf.path+" has no `<= 0` guard in the normaliser: a non-positive value does not fall back to the default")
	}
	c.census("T6", "numeric settings leaves", nNum, 5)
	// every leaf is read outside the settings parser (effective)
	reads := map[string]bool{}
	for _, fd := range c.P.AllFuncDecls() {
		if c.P.pkgOf[fd] != spk || fd == applyFd || fd == normFd || fd.Name.Name == "defaultServerSettings" {
			continue
		}
		finfo := spk.TypesInfo
		// a store into a settings field is not a use of the setting
		stored := map[ast.Node]bool{}
		ast.Inspect(fd.Body, func(x ast.Node) bool {
			if as, ok := x.(*ast.AssignStmt); ok && as.Tok == token.ASSIGN {
				for _, l := range as.Lhs {
					stored[ast.Unparen(l)] = true
				}
			}
			return true
		})
		ast.Inspect(fd.Body, func(x ast.Node) bool {
			se, ok := x.(*ast.SelectorExpr)
			if !ok {
				return true
			}
			if stored[se] {
				return false
			}
			// build type-based path: walk selectors while the base type is one of the settings structs
			var parts []string
			e := ast.Expr(se)
			for {
				s2, ok := ast.Unparen(e).(*ast.SelectorExpr)
				if !ok {
					break
				}
				parts = append([]string{s2.Sel.Name}, parts...)
				e = s2.X
			}
			bt := finfo.TypeOf(e)
			if bt == nil {
				return true
			}
			if strings.HasSuffix(types.TypeString(bt, nil), "server.serverSettings") {
				for i := 1; i <= len(parts); i++ {
					reads[strings.Join(parts[:i], ".")] = true
				}
			} else {
				// e.g. `settings completionSettings` parameter: map by type name -> section
				for _, lf := range leaves {
					secs := strings.SplitN(lf.path, ".", 2)
					if len(secs) == 2 && len(parts) >= 1 {
						if f := fieldOfRoot(root.Type(), secs[0]); f != nil && types.Identical(f.Type(), bt) && parts[0] == secs[1] {
							reads[lf.path] = true
						}
					}
				}
			}
			return true
		})
	}
	for _, lf := range leaves {
		sec := strings.SplitN(lf.path, ".", 2)[0]
		eff := reads[lf.path] || (reads[sec] && !hasSubRead(reads, sec))
		// a whole section passed on as a value (e.g. Limits handed to the loader, CLI to reinitCLI) counts for its leaves
		if !eff && reads[sec] {
			eff = sectionPassedWhole(c.P, spk, sec)
		}
		c.check(eff, "T6", "server", "leaf "+lf.path+" is read outside the settings parser", token.NoPos,
			"the setting is consulted by a feature", "settings leaf "+lf.path+" is parsed but never read by any feature: a recognised value cannot take effect")
	}
	ruleConverters(c)
	ruleSettingsTotal(c)
}

// guardedPointerStore: decl is `func(dst *T, raw any) { if v, ok := conv(raw); ok { *dst = v } }`; returns the
// converter's name and whether the store is guarded by the converter's ok result.
func guardedPointerStore(p *Prog, info *types.Info, decl *ast.FuncDecl) (string, bool, bool) {
	if decl == nil || decl.Body == nil || decl.Type.Params == nil {
		return "", false, false
	}
	var ps []types.Object
	for _, fl := range decl.Type.Params.List {
		for _, n := range fl.Names {
			ps = append(ps, info.Defs[n])
		}
	}
	if len(ps) != 2 {
		return "", false, false
	}
	conv, stores, guarded := "", 0, true
	var visit func(list []ast.Stmt, okObj, valObj types.Object)
	visit = func(list []ast.Stmt, okObj, valObj types.Object) {
		for _, st := range list {
			switch x := st.(type) {
			case *ast.IfStmt:
				if init, ok := x.Init.(*ast.AssignStmt); ok && len(init.Lhs) == 2 && len(init.Rhs) == 1 {
					if call, ok := ast.Unparen(init.Rhs[0]).(*ast.CallExpr); ok && len(call.Args) == 1 && info.Uses[identOf(call.Args[0])] == ps[1] {
						if o := calleeOf(info, call); o != nil {
							conv = o.Name()
						}
						ok2 := info.Defs[identOf(init.Lhs[1])]
						if id, isId := ast.Unparen(x.Cond).(*ast.Ident); isId && info.Uses[id] == ok2 && x.Else == nil {
							visit(x.Body.List, ok2, info.Defs[identOf(init.Lhs[0])])
							continue
						}
					}
				}
				visit(x.Body.List, nil, nil) // stores in here count as unguarded
			case *ast.AssignStmt:
				for i, l := range x.Lhs {
					if star, ok := ast.Unparen(l).(*ast.StarExpr); ok && info.Uses[identOf(star.X)] == ps[0] {
						stores++
						if okObj == nil || i >= len(x.Rhs) || info.Uses[identOf(x.Rhs[i])] != valObj {
							guarded = false
						}
					}
				}
			}
		}
	}
	visit(decl.Body.List, nil, nil)
	if stores == 0 || conv == "" {
		return "", false, false
	}
	return conv, guarded, true
}

// returnsParam: every return statement of the function returns the given parameter itself.
func returnsParam(info *types.Info, decl *ast.FuncDecl, param types.Object) bool {
	n, ok := 0, true
	ast.Inspect(decl.Body, func(x ast.Node) bool {
		if _, isLit := x.(*ast.FuncLit); isLit {
			return false
		}
		if r, isRet := x.(*ast.ReturnStmt); isRet {
			n++
			if len(r.Results) != 1 || info.Uses[identOf(r.Results[0])] != param {
				ok = false
			}
		}
		return true
	})
	return ok && n > 0
}

func fieldOfRoot(t types.Type, name string) *types.Var {
	st, ok := t.Underlying().(*types.Struct)
	if !ok {
		return nil
	}
	for i := 0; i < st.NumFields(); i++ {
		if st.Field(i).Name() == name {
			return st.Field(i)
		}
	}
	return nil
}

func hasSubRead(reads map[string]bool, sec string) bool {
	for k := range reads {
		if strings.HasPrefix(k, sec+".") {
			return true
		}
	}
	return false
}

// sectionPassedWhole: `settings.<Sec>` is used as a call argument or compared as a whole somewhere.
func sectionPassedWhole(p *Prog, spk *packagesPackage, sec string) bool {
	found := false
	for _, fd := range p.AllFuncDecls() {
		if p.pkgOf[fd] != spk {
			continue
		}
		ast.Inspect(fd.Body, func(x ast.Node) bool {
			call, ok := x.(*ast.CallExpr)
			if !ok {
				return true
			}
			for _, a := range call.Args {
				if se, ok := ast.Unparen(a).(*ast.SelectorExpr); ok && se.Sel.Name == sec {
					if t := spk.TypesInfo.TypeOf(se.X); t != nil && strings.HasSuffix(types.TypeString(t, nil), "server.serverSettings") {
						found = true
					}
				}
			}
			return true
		})
	}
	return found
}

func keysOf(m map[string]bool) []string {
	var l []string
	for k := range m {
		l = append(l, k)
	}
	sort.Strings(l)
	return l
}

func sameKeys(a, b map[string]bool) bool {
	if len(a) != len(b) {
		return false
	}
	for k := range a {
		if !b[k] {
			return false
		}
	}
	return true
}

// ruleConverters (C19-CONVERT): converters func(interface{}) (T, bool) accept a value by its type alone.
func ruleConverters(c *Ctx) {
	spk := c.P.ByRel["internal/server"]
	info := spk.TypesInfo
	n := 0
	for _, f := range spk.Syntax {
		for _, d := range f.Decls {
			fd, ok := d.(*ast.FuncDecl)
			if !ok || fd.Body == nil || fd.Recv != nil || fd.Type.Params == nil || fd.Type.Results == nil {
				continue
			}
			if len(fd.Type.Params.List) != 1 || len(fd.Type.Results.List) != 2 {
				continue
			}
			pt := info.TypeOf(fd.Type.Params.List[0].Type)
			if pt == nil || !types.IsInterface(pt) {
				continue
			}
			if rt := info.TypeOf(fd.Type.Results.List[1].Type); rt == nil || types.TypeString(rt, nil) != "bool" {
				continue
			}
			n++
			fname := c.P.declName(fd)
			resT := types.TypeString(info.TypeOf(fd.Type.Results.List[0].Type), nil)
			bad := ""
			ast.Inspect(fd.Body, func(x ast.Node) bool {
				switch e := x.(type) {
				case *ast.BinaryExpr:
					switch e.Op {
					case token.LSS, token.GTR, token.LEQ, token.GEQ:
						bad = "range test `" + exprStr(c.P.Fset, e) + "` (range handling belongs to the normaliser, which falls back to the default)"
					}
				case *ast.CallExpr:
					q := qualName(calleeOf(info, e))
					if q == "strconv.ParseBool" {
						bad = "strconv.ParseBool accepts \"1\", \"t\", \"T\", \"0\", \"f\", ... as booleans and rejects mixed-case spellings"
					}
				case *ast.BasicLit:
					if e.Kind == token.STRING && resT == "bool" {
						if s, ok := stringConst(info, e); ok && s != "true" && s != "false" && s != "" {
							bad = "boolean spelling " + e.Value + " accepted besides true/false"
						}
					}
				}
				return true
			})
			c.check(bad == "", "C19-CONVERT", fname, "converter accepts by type only", fd.Pos(),
				"no value-range filtering and only the spellings true/false in the converter",
				"converter "+fd.Name.Name+": "+bad)
		}
	}
	c.census("C19-CONVERT", "converters func(any) (T, bool)", n, 3)
}

// ruleSettingsTotal (C19-TOTAL): nothing reachable from the settings parser can panic.
func ruleSettingsTotal(c *Ctx) {
	var root *ssa.Function
	if root == nil {
		// role fallback: any function (serverSettings, interface{}) serverSettings
		for _, f := range c.P.ModuleFuncs() {
			if f.Signature.Params().Len() == 2 && f.Signature.Results().Len() == 1 &&
				strings.HasSuffix(types.TypeString(f.Signature.Results().At(0).Type(), nil), "server.serverSettings") &&
				types.IsInterface(f.Signature.Params().At(1).Type()) {
				root = f
			}
		}
	}
	if root == nil {
		c.undecided("C19-TOTAL", "server", "settings entry point", token.NoPos, "function (serverSettings, any) serverSettings not found")
		return
	}
	g := c.P.CallGraph("vta")
	n := 0
	var fs []*ssa.Function
	for f := range Reach(g, []*ssa.Function{root}, true) {
		if inModule(f) {
			fs = append(fs, f)
		}
	}
	sort.Slice(fs, func(i, j int) bool { return funcName(fs[i]) < funcName(fs[j]) })
	for _, f := range fs {
		n++
		bad := ""
		for _, b := range f.Blocks {
			for _, ins := range b.Instrs {
				switch x := ins.(type) {
				case *ssa.TypeAssert:
					if !x.CommaOk {
						bad = "unchecked type assertion at " + c.P.pos(x.Pos())
					}
				case *ssa.Panic:
					if !x.Pos().IsValid() {
						continue // synthesised for range-over-func loops, not written in the source
					}
					bad = "explicit panic at " + c.P.pos(x.Pos())
				case *ssa.IndexAddr:
					bad = "slice/array indexing at " + c.P.pos(x.Pos())
				case *ssa.Index:
					bad = "indexing at " + c.P.pos(x.Pos())
				case *ssa.Slice:
					bad = "slicing at " + c.P.pos(x.Pos())
				case *ssa.BinOp:
					if x.Op == token.QUO || x.Op == token.REM {
						if _, isConst := x.Y.(*ssa.Const); !isConst {
							bad = "division by a non-constant at " + c.P.pos(x.Pos())
						}
					}
				case *ssa.Lookup:
					if _, isMap := x.X.Type().Underlying().(*types.Map); !isMap {
						bad = "string indexing at " + c.P.pos(x.Pos())
					}
				}
			}
		}
		c.check(bad == "", "C19-TOTAL", funcName(f), "no panicking instruction", f.Pos(),
			"no unchecked assertion, index, slice, division or panic: any payload shape is accepted without failure",
			"reachable from the settings parser and can panic on some payload: "+bad+" (there is no recover anywhere in the server)")
	}
	c.census("C19-TOTAL", "module functions reachable from the settings parser", n, 5)
	// recursion is structural: the only recursive call passes a value obtained by a map lookup on the argument
	rec := 0
	for _, b := range root.Blocks {
		for _, ins := range b.Instrs {
			if call, ok := ins.(*ssa.Call); ok && call.Common().StaticCallee() == root {
				rec++
				arg := call.Common().Args[len(call.Common().Args)-1]
				okS := false
				if ex, ok := arg.(*ssa.Extract); ok {
					if _, ok := ex.Tuple.(*ssa.Lookup); ok {
						okS = true
					}
				}
				if _, ok := arg.(*ssa.Lookup); ok {
					okS = true
				}
				c.check(okS, "C19-TOTAL", funcName(root), "recursion on a strictly smaller value", call.Pos(),
					"the recursive call receives a member of the map it was given", "the settings parser recurses on a value that is not a member of its argument: unbounded recursion on a crafted payload")
			}
		}
	}
}
