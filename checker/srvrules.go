package main

// Server-side rules: C18-SOURCES, C20 (T10, C20-TREE, C20-ONCE), C09 (H-PRIMARY, T11, C12-PAIR).

import (
	"fmt"
	"go/ast"
	"go/constant"
	"go/token"
	"go/types"
	"os"
	"sort"
	"strings"

	"golang.org/x/tools/go/ssa"
)

// ---------- C18-SOURCES ----------

func ruleC18Sources(c *Ctx) {
	var host *ssa.Function
	var extCall *ssa.Call
	for _, f := range c.P.ModuleFuncs() {
		if f.Pkg != c.P.SSAPkg("internal/server") {
			continue
		}
		for _, call := range findCalls(f, func(cal *ssa.Function) bool {
			return calleeNameIs(cal, "analyzer.Analyzer).AnalyzeWithExternalDeclarations")
		}) {
			host, extCall = f, call
		}
	}
	if host == nil {
		c.undecided("C18-SOURCES", "server", "call of AnalyzeWithExternalDeclarations", token.NoPos, "the diagnostics path does not pass external declarations to the analyzer any more")
		return
	}
	hname := funcName(host)
	args := extCall.Common().Args
	ext := args[len(args)-1]
	sl := sliceUp(buildConc(c), ext, host) // through parameters to the call sites: the declarations may be gathered by a caller
	for _, getter := range []string{"GetDeclaredAccounts", "GetDeclaredCommodities"} {
		has := sliceHasCall(sl, func(cal *ssa.Function, _ *ssa.Call) bool {
			return calleeNameIs(cal, "workspace.Workspace)."+getter)
		})
		c.check(has, "C18-SOURCES", hname, "workspace "+getter+" reaches the checks", extCall.Pos(),
			"the workspace's declared set flows into the external declarations",
			"the external declarations handed to the analyzer do not depend on Workspace."+getter+": workspace declarations are ignored")
	}
	// the tree parameter: in the function that calls the analyzer, or in the nearest caller up the chain that
	// still holds the declarations' sources
	var resolvedParam *ssa.Parameter
	{
		cur, val := host, ext
		for depth := 0; depth < 4 && resolvedParam == nil; depth++ {
			local := backSlice(val)
			var other *ssa.Parameter
			for v := range local {
				if p, ok := v.(*ssa.Parameter); ok && p.Parent() == cur {
					if typeHasSuffix(p.Type(), "include.ResolvedJournal") {
						resolvedParam = p
					} else if other == nil || p.Name() < other.Name() {
						other = p
					}
				}
			}
			if resolvedParam != nil || other == nil {
				break
			}
			sites := cgView{c}.callersOf(cur)
			if len(sites) != 1 {
				break
			}
			for i, q := range cur.Params {
				if q == other && i < len(sites[0].Common().Args) {
					val = sites[0].Common().Args[i]
				}
			}
			cur = sites[0].Parent()
		}
	}
	c.check(resolvedParam != nil && sl[resolvedParam], "C18-SOURCES", hname, "include-tree declarations reach the checks", extCall.Pos(),
		"the document's resolved include tree flows into the external declarations",
		"the include tree loaded for the document does not flow into the declarations used by the undeclared-account/commodity checks: without a workspace root, declarations in included files are ignored")
	// ... and it does so whether or not a workspace exists: no read of the document's include tree that feeds the
	// declarations is control dependent on the server's workspace (a document outside the workspace root's tree
	// still needs the declarations of the files it includes itself)
	{
		isWorkspaceCond := func(cond ssa.Value) bool {
			for v := range backSlice(cond) {
				switch x := v.(type) {
				case *ssa.FieldAddr:
					if pt, ok := x.X.Type().Underlying().(*types.Pointer); ok && typeHasSuffix(pt.Elem(), "server.Server") {
						if typeHasSuffix(fieldVarOfAddr(x).Type(), "workspace.Workspace") {
							return true
						}
					}
				case *ssa.Call:
					if cal := x.Call.StaticCallee(); cal != nil && cal.Signature.Recv() != nil && typeHasSuffix(cal.Signature.Recv().Type(), "workspace.Workspace") {
						return true
					}
				}
			}
			return false
		}
		isTreeRead := func(v ssa.Value) (*ssa.BasicBlock, token.Pos, bool) {
			switch x := v.(type) {
			case *ssa.FieldAddr:
				if pt, ok := x.X.Type().Underlying().(*types.Pointer); ok && typeHasSuffix(pt.Elem(), "include.ResolvedJournal") && fieldVarOfAddr(x).Name() == "Files" {
					return x.Block(), x.Pos(), true
				}
			}
			return nil, token.NoPos, false
		}
		nReads := 0
		cgv2 := cgView{c}
		// the functions that take part in building the declarations (a value of theirs is in the slice), and the
		// tree reads in them
		region := map[*ssa.Function]bool{}
		for v := range sl {
			if ins, ok := v.(ssa.Instruction); ok && ins.Parent() != nil && ins.Parent().Pkg == host.Pkg {
				region[ins.Parent()] = true
			}
		}
		var reads []ssa.Value
		for _, f := range c.P.ModuleFuncs() {
			if !region[f] {
				continue
			}
			for _, b := range f.Blocks {
				for _, ins := range b.Instrs {
					if v, ok := ins.(ssa.Value); ok {
						if _, _, isR := isTreeRead(v); isR {
							// only reads that are iterated or looked up (not a mere emptiness test)
							reads = append(reads, v)
						}
					}
				}
			}
		}
		for _, v := range reads {
			blk, pos, ok := isTreeRead(v)
			if !ok || blk == nil {
				continue
			}
			// a `len(tree.Files) == 0` short cut is not a use of the declarations
			onlyLen := true
			for _, r := range *v.Referrers() {
				ld, ok := r.(*ssa.UnOp)
				if !ok {
					onlyLen = false
					continue
				}
				for _, r2 := range *ld.Referrers() {
					if call, ok := r2.(*ssa.Call); ok {
						if bi, ok := call.Call.Value.(*ssa.Builtin); ok && bi.Name() == "len" {
							continue
						}
					}
					onlyLen = false
				}
			}
			if onlyLen {
				continue
			}
			nReads++
			// the read's own function and the call sites that lead to it from the analysis function
			blks := []*ssa.BasicBlock{blk}
			for f, depth := blk.Parent(), 0; f != host && depth < 3; depth++ {
				sites := cgv2.callersOf(f)
				if len(sites) != 1 {
					break
				}
				blks = append(blks, sites[0].Block())
				f = sites[0].Parent()
			}
			dep := false
			for _, b2 := range blks {
				for _, cc := range controlDeps(b2) {
					if isWorkspaceCond(cc.Cond) {
						dep = true
					}
				}
			}
			c.check(!dep, "C18-SOURCES", funcName(blk.Parent()), "include-tree declarations are used with and without a workspace", pos,
				"the read of the document's include tree is not conditioned on the workspace",
				"the declarations of the document's own include tree are only consulted depending on whether a workspace exists: a document outside the workspace root's tree loses the declarations of the files it includes")
		}
		c.census("C18-SOURCES", "reads of the document's include tree that feed the declarations", nReads, 1)
		// ... file by file: nothing that is computed from the tree on its way into the declarations (a journal
		// picked from tree.Files, a list of journals still to visit, a name taken from a directive) is control
		// dependent on the workspace - "files the workspace knows are skipped" drops the declarations of a file that
		// the workspace tracks for another root
		nSteps := 0
		fwd := map[ssa.Instruction]bool{}
		var order []ssa.Instruction
		var follow func(v ssa.Value, depth int)
		mark := func(ins ssa.Instruction) bool {
			if fwd[ins] {
				return false
			}
			fwd[ins] = true
			order = append(order, ins)
			return true
		}
		follow = func(v ssa.Value, depth int) {
			refs := v.Referrers()
			if refs == nil {
				return
			}
			for _, r := range *refs {
				switch x := r.(type) {
				case *ssa.Store:
					if x.Val == v && mark(x) {
						if al, ok := x.Addr.(*ssa.Alloc); ok {
							follow(al, depth)
						}
					}
				case *ssa.MapUpdate:
					mark(x)
				case *ssa.Call:
					if !mark(x) {
						continue
					}
					if bi, ok := x.Call.Value.(*ssa.Builtin); ok {
						if bi.Name() == "append" {
							follow(x, depth)
						}
						continue
					}
					if cal := x.Call.StaticCallee(); cal != nil && cal.Blocks != nil && inModule(cal) && depth < 2 {
						for i, a := range x.Call.Args {
							if a == v && i < len(cal.Params) {
								follow(cal.Params[i], depth+1)
							}
						}
					}
				case ssa.Value:
					switch r.(type) {
					case *ssa.UnOp, *ssa.Range, *ssa.Next, *ssa.Extract, *ssa.Lookup, *ssa.Index, *ssa.IndexAddr, *ssa.FieldAddr, *ssa.Field,
						*ssa.TypeAssert, *ssa.ChangeInterface, *ssa.MakeInterface, *ssa.Phi, *ssa.Slice, *ssa.Convert, *ssa.ChangeType:
						if mark(r) {
							follow(x, depth)
						}
					}
				}
			}
		}
		for _, v := range reads {
			follow(v, 0)
		}
		for _, ins := range order {
			if ins.Block() == nil {
				continue
			}
			wsDep := false
			for _, cc := range controlDeps(ins.Block()) {
				if isWorkspaceCond(cc.Cond) {
					wsDep = true
				}
			}
			if !wsDep {
				continue
			}
			nSteps++
			if nSteps > 3 {
				continue
			}
			c.check(false, "C18-SOURCES", funcName(ins.Parent()), fmt.Sprintf("every file of the include tree contributes its declarations, workspace or not #%d", nSteps), ins.Pos(),
				"", "a value computed from the document's include tree is used only under a condition on the workspace: a file the workspace knows for another reason (a second root in the same folder) is skipped and its declarations are lost")
		}
		if nSteps == 0 {
			c.check(true, "C18-SOURCES", hname, "every file of the include tree contributes its declarations, workspace or not", extCall.Pos(),
				"no step from the include tree to the declarations is conditioned on the workspace", "")
		}
	}
	// the getters are fetched independently of the diagnostics settings (wherever the lookups live: in the
	// analysis function or in a helper whose result flows into the declarations)
	n := 0
	sm := settingsModel(c, false)
	isSettingsType := func(t types.Type) bool {
		rt := settingsRootType(sm)
		if rt == nil {
			return strings.Contains(types.TypeString(t, nil), "ettings")
		}
		if pt, ok := t.Underlying().(*types.Pointer); ok {
			t = pt.Elem()
		}
		if types.Identical(t, rt) {
			return true
		}
		if st, ok := rt.Underlying().(*types.Struct); ok {
			for i := 0; i < st.NumFields(); i++ {
				if types.Identical(st.Field(i).Type(), t) {
					return true
				}
			}
		}
		return false
	}
	cgv := cgView{c}
	var lookups []*ssa.Call
	for v := range sl {
		if call, ok := v.(*ssa.Call); ok {
			if cal := call.Common().StaticCallee(); cal != nil && (calleeNameIs(cal, "workspace.Workspace).GetDeclaredAccounts") || calleeNameIs(cal, "workspace.Workspace).GetDeclaredCommodities")) {
				lookups = append(lookups, call)
			}
		}
	}
	sort.Slice(lookups, func(i, j int) bool { return lookups[i].Pos() < lookups[j].Pos() })
	for _, call := range lookups {
		n++
		bad := ""
		blks := []*ssa.BasicBlock{call.Block()}
		hostReach := Reach(c.P.CallGraph("vta"), []*ssa.Function{call.Parent()}, true)
		for f, depth := call.Parent(), 0; f != host && !hostReach[host] && depth < 3; depth++ {
			sites := cgv.callersOf(f)
			if len(sites) != 1 {
				break
			}
			blks = append(blks, sites[0].Block())
			f = sites[0].Parent()
			hostReach = Reach(c.P.CallGraph("vta"), []*ssa.Function{f}, true)
		}
		for _, blk := range blks {
			for _, cond := range controlConds(blk) {
				cs := backSlice(cond)
				if sliceHasCall(cs, func(cal *ssa.Function, _ *ssa.Call) bool { return isSettingsSnapshot(cal, sm) }) {
					bad = "a condition derived from the settings"
				}
				for v := range cs {
					switch x := v.(type) {
					case *ssa.FieldAddr:
						if isSettingsType(x.X.Type()) {
							bad = "a condition reading a settings field"
						}
					case *ssa.Field:
						if isSettingsType(x.X.Type()) {
							bad = "a condition reading a settings field"
						}
					case *ssa.Parameter:
						if isSettingsType(x.Type()) {
							bad = "a condition on a settings parameter"
						}
					}
				}
			}
		}
		c.check(bad == "", "C18-SOURCES", funcName(call.Parent()), "declaration lookup independent of settings: "+call.Common().StaticCallee().Name(), call.Pos(),
			"the lookup is conditioned only on the presence of a workspace",
			"the workspace declaration lookup is conditioned on "+bad+": switching one warning kind off changes what the other kind sees")
	}
	c.census("C18-SOURCES", "workspace declaration lookups on the diagnostics path", n, 2)
	// callers hand over the tree they just loaded: followed upwards through functions that merely pass their own
	// tree parameter on
	g := c.P.CallGraph("vta")
	nCallers := 0
	var up func(fn *ssa.Function, param *ssa.Parameter, depth int)
	up = func(fn *ssa.Function, param *ssa.Parameter, depth int) {
		node := g.Nodes[fn]
		if node == nil || param == nil || depth > 3 {
			return
		}
		idx := -1
		for i, p := range fn.Params {
			if p == param {
				idx = i
			}
		}
		for _, e := range node.In {
			call, ok := e.Site.(*ssa.Call)
			if !ok || call.Common().StaticCallee() != fn || idx < 0 || idx >= len(call.Common().Args) {
				continue
			}
			arg := call.Common().Args[idx]
			if p, isParam := stripConv(arg).(*ssa.Parameter); isParam && p.Parent() == e.Caller.Func {
				up(e.Caller.Func, p, depth+1)
				continue
			}
			nCallers++
			okArg := sliceHasCall(backSlice(arg), func(cal *ssa.Function, _ *ssa.Call) bool { return calleeNameIs(cal, "include.Loader).LoadFromContent") })
			c.check(okArg, "C18-SOURCES", funcName(e.Caller.Func), "passes the tree loaded for this content", call.Pos(),
				"the include tree passed to the analysis is the one loaded from the analysed content",
				"the analysis is not given the include tree loaded from the analysed content")
		}
	}
	if resolvedParam != nil {
		up(resolvedParam.Parent(), resolvedParam, 0)
	}
	c.census("C18-SOURCES", "callers of the analysis function", nCallers, 1)
}

// ruleSeenOnce: the undeclared-commodity check reports each symbol once per transaction: the emission of the
// warning is control dependent on the symbol being neither in the declared set (a map that reaches the check
// from outside) nor in a seen set that is created once per checked transaction, and the symbol is put into that
// seen set.  The tests may be written in the emitting function, in a boolean helper, or at the call sites of
// the emitting function (a visitor object); the sets may be locals, captured variables or fields of a local
// check object.
func ruleSeenOnce(c *Ctx) {
	fd := undeclaredCommodityCheck(c.P)
	if fd == nil {
		c.undecided("C18-ONCE", "analyzer.checkUndeclaredCommodities", "anchor", token.NoPos, "function not found")
		return
	}
	F := c.P.ssaOf(fd)
	if F == nil {
		c.undecided("C18-ONCE", c.P.declName(fd), "anchor", token.NoPos, "no SSA form")
		return
	}
	cg := cgView{c}
	fname := c.P.declName(fd)
	fns := []*ssa.Function{F}
	fns = append(fns, F.AnonFuncs...)
	// the region: the emitting function, its closures, and the functions of the package that call it up to the one
	// that is handed the transaction
	root := F
	region := map[*ssa.Function]bool{}
	for _, f := range fns {
		region[f] = true
	}
	takesTx := func(f *ssa.Function) bool {
		for _, p := range f.Params {
			if typeHasSuffix(p.Type(), "ast.Transaction") {
				return true
			}
		}
		return false
	}
	for cur, depth := F, 0; !takesTx(cur) && depth < 3; depth++ {
		sites := cg.callersOf(cur)
		if len(sites) == 0 {
			break
		}
		up := sites[0].Parent()
		for up.Parent() != nil {
			up = up.Parent()
		}
		same := true
		for _, st := range sites {
			t := st.Parent()
			for t.Parent() != nil {
				t = t.Parent()
			}
			if t != up {
				same = false
			}
		}
		if !same || up.Pkg != F.Pkg {
			break
		}
		cur, root = up, up
		region[up] = true
		for _, a := range up.AnonFuncs {
			region[a] = true
		}
	}
	// origins of a set inside the region: "make@pos" for a map made in the region, "outside" for a value that
	// enters through a parameter of the root function (or anything else from outside the region); locals,
	// captured variables, parameters of inner functions and fields of a local check object are looked through
	var deepOrigins func(v ssa.Value, depth int, out map[string]bool)
	deepOrigins = func(v ssa.Value, depth int, out map[string]bool) {
		if depth > 6 || v == nil {
			return
		}
		v = stripConv(v)
		fromCell := func(cell ssa.Value) {
			if refs := cell.Referrers(); refs != nil {
				for _, r := range *refs {
					if st, ok := r.(*ssa.Store); ok && st.Addr == cell {
						deepOrigins(st.Val, depth+1, out)
					}
				}
			}
		}
		switch x := v.(type) {
		case *ssa.MakeMap:
			out[fmt.Sprintf("make@%d", x.Pos())] = true
		case *ssa.Parameter:
			if x.Parent() == root || !region[x.Parent()] {
				out["outside"] = true
				return
			}
			for _, site := range cg.callersOf(x.Parent()) {
				for i, q := range x.Parent().Params {
					if q == x && i < len(site.Common().Args) {
						deepOrigins(site.Common().Args[i], depth+1, out)
					}
				}
			}
		case *ssa.Phi:
			for _, e := range x.Edges {
				deepOrigins(e, depth+1, out)
			}
		case *ssa.Call:
			if cal := x.Call.StaticCallee(); cal != nil && cal.Blocks != nil && inModule(cal) {
				for _, b := range cal.Blocks {
					if r, ok := b.Instrs[len(b.Instrs)-1].(*ssa.Return); ok {
						for _, rv := range r.Results {
							if _, isMap := rv.Type().Underlying().(*types.Map); isMap {
								if mm, ok := unspillResult(rv, b).(*ssa.MakeMap); ok {
									out[fmt.Sprintf("make@%d", mm.Pos())] = true
								} else {
									out["outside"] = true
								}
							}
						}
					}
				}
			} else {
				out["outside"] = true
			}
		case *ssa.UnOp:
			if x.Op != token.MUL {
				return
			}
			switch a := x.X.(type) {
			case *ssa.Alloc:
				fromCell(a)
			case *ssa.FreeVar:
				cell := ssa.Value(a)
				for range 6 {
					fv, ok := cell.(*ssa.FreeVar)
					if !ok {
						break
					}
					cell = freeVarBinding(fv)
					if cell == nil {
						return
					}
				}
				fromCell(cell)
			case *ssa.FieldAddr:
				st := a.X.Type().Underlying().(*types.Pointer).Elem().Underlying().(*types.Struct)
				fieldName := st.Field(a.Field).Name()
				var bases []ssa.Value
				switch b := a.X.(type) {
				case *ssa.Alloc:
					bases = append(bases, b)
				case *ssa.Parameter:
					if b.Parent() == root || !region[b.Parent()] {
						out["outside"] = true
						return
					}
					for _, site := range cg.callersOf(b.Parent()) {
						for i, q := range b.Parent().Params {
							if q == b && i < len(site.Common().Args) {
								bases = append(bases, site.Common().Args[i])
							}
						}
					}
				default:
					out["outside"] = true
				}
				// resolve every base to the allocations it can denote: through closures, through parameters of the
				// region's functions (a method of the check object called from another method of it) and through a
				// constructor that returns the freshly built object
				var allocs []*ssa.Alloc
				var resolve func(base ssa.Value, d int)
				resolve = func(base ssa.Value, d int) {
					if base == nil || d > 5 {
						out["outside"] = true
						return
					}
					switch bb := stripConv(base).(type) {
					case *ssa.FreeVar:
						resolve(freeVarBinding(bb), d+1)
					case *ssa.Alloc:
						allocs = append(allocs, bb)
					case *ssa.Parameter:
						if bb.Parent() == root || !region[bb.Parent()] {
							out["outside"] = true
							return
						}
						for _, site := range cg.callersOf(bb.Parent()) {
							for i, q := range bb.Parent().Params {
								if q == bb && i < len(site.Common().Args) {
									resolve(site.Common().Args[i], d+1)
								}
							}
						}
					case *ssa.Phi:
						for _, e := range bb.Edges {
							resolve(e, d+1)
						}
					case *ssa.UnOp:
						// a local that holds the pointer to the check object
						if al, ok := bb.X.(*ssa.Alloc); ok && bb.Op == token.MUL && al.Referrers() != nil {
							for _, r := range *al.Referrers() {
								if st, ok := r.(*ssa.Store); ok && st.Addr == ssa.Value(al) {
									resolve(st.Val, d+1)
								}
							}
							return
						}
						out["outside"] = true
					case *ssa.Call:
						cal := bb.Call.StaticCallee()
						if cal == nil || cal.Blocks == nil || !inModule(cal) {
							out["outside"] = true
							return
						}
						found := false
						for _, blk := range cal.Blocks {
							if r, ok := lastInstr(blk).(*ssa.Return); ok {
								for _, rv := range r.Results {
									if al, ok := unspillResult(rv, blk).(*ssa.Alloc); ok {
										allocs = append(allocs, al)
										found = true
									}
								}
							}
						}
						if !found {
							out["outside"] = true
						}
					default:
						out["outside"] = true
					}
				}
				for _, base := range bases {
					resolve(base, 0)
				}
				for _, al := range allocs {
					stores := map[string][]ssa.Value{}
					collectFieldStores(al, "", stores, 0)
					if len(stores["."+fieldName]) == 0 {
						out["outside"] = true
					}
					for _, sv := range stores["."+fieldName] {
						deepOrigins(sv, depth+1, out)
					}
				}
			default:
				out["outside"] = true
			}
		case *ssa.Field:
			out["outside"] = true
		default:
			out["outside"] = true
		}
	}
	classify := func(x ssa.Value) (kind string, or map[string]bool) {
		or = map[string]bool{}
		deepOrigins(x, 0, or)
		outside, made := or["outside"], false
		for o := range or {
			if strings.HasPrefix(o, "make@") {
				made = true
			}
		}
		switch {
		case made && !outside:
			return "seen", or
		case outside && !made:
			return "declared", or
		}
		return "", or
	}
	// control conditions of a block, extended by those of the call sites of its function inside the region
	var condsOf func(b *ssa.BasicBlock, depth int, seen map[*ssa.BasicBlock]bool) []ctrlCond
	condsOf = func(b *ssa.BasicBlock, depth int, seen map[*ssa.BasicBlock]bool) []ctrlCond {
		if b == nil || seen[b] || depth > 3 {
			return nil
		}
		seen[b] = true
		out := append([]ctrlCond{}, controlCondsPol(b)...)
		f := b.Parent()
		if f != root && region[f] {
			for _, site := range cg.callersOf(f) {
				out = append(out, condsOf(site.Block(), depth+1, seen)...)
			}
		}
		return out
	}
	sameKey := func(a, b ssa.Value) bool {
		return a != nil && b != nil && (stripConv(a) == stripConv(b) || sameLoad(stripConv(a), stripConv(b)))
	}
	n := 0
	seenMakes := map[string]bool{}
	for _, f := range fns {
		for _, b := range f.Blocks {
			for _, ins := range b.Instrs {
				// emission site: a store into the Code field of an analyzer diagnostic under construction
				st, ok := ins.(*ssa.Store)
				if !ok {
					continue
				}
				fa, ok := st.Addr.(*ssa.FieldAddr)
				if !ok || !typeHasSuffix(fa.X.Type(), "internal/analyzer.Diagnostic") {
					continue
				}
				if fa.X.Type().Underlying().(*types.Pointer).Elem().Underlying().(*types.Struct).Field(fa.Field).Name() != "Code" {
					continue
				}
				n++
				// control dependence: neither in the declared set nor in a set created once per call
				var declKey, seenKey ssa.Value
				var seenOrigins map[string]bool
				for _, cc := range condsOf(b, 0, map[*ssa.BasicBlock]bool{}) {
					mt, ok := setMembership(cc.Cond)
					if !ok || cc.Taken {
						continue
					}
					switch kind, or := classify(mt.X); kind {
					case "declared":
						declKey = mt.Index
					case "seen":
						seenKey, seenOrigins = mt.Index, or
					}
				}
				// the symbol is marked in the seen set on the way to the emission
				marks := false
				for g := range region {
					for _, b2 := range g.Blocks {
						for _, i2 := range b2.Instrs {
							muMap, muKey, ok := setInsertion(i2)
							if !ok || seenKey == nil || !sameKey(muKey, seenKey) {
								continue
							}
							or := map[string]bool{}
							deepOrigins(muMap, 0, or)
							for o := range or {
								if strings.HasPrefix(o, "make@") && seenOrigins[o] && (g != f || b2 == b || b2.Dominates(b) || b.Dominates(b2)) {
									marks = true
								}
							}
						}
					}
				}
				for o := range seenOrigins {
					if strings.HasPrefix(o, "make@") {
						seenMakes[o] = true
					}
				}
				okBoth := declKey != nil && seenKey != nil && sameKey(declKey, seenKey)
				c.check(okBoth && marks, "C18-ONCE", fname, "one warning per undeclared symbol and transaction", st.Pos(),
					"the warning is built only for symbols that are neither in the declared set nor in the per-call seen set, and the symbol is then marked",
					fmt.Sprintf("the undeclared-commodity warning is not guarded by both the declared set and a per-transaction seen set (declared test: %v, seen test: %v, marks seen: %v)", declKey != nil, seenKey != nil, marks))
			}
		}
	}
	c.census("C18-ONCE", "diagnostic emission sites in the undeclared-commodity check", n, 1)
	// the seen set is created once per call (per transaction), outside any loop
	okOnce := false
	for g := range region {
		if g.Parent() != nil {
			continue
		}
		for _, b := range g.Blocks {
			for _, ins := range b.Instrs {
				if mm, ok := ins.(*ssa.MakeMap); ok {
					if m, ok := mm.Type().Underlying().(*types.Map); ok && isSetElem(m.Elem()) && !inCycle(b) && (len(seenMakes) == 0 || seenMakes[fmt.Sprintf("make@%d", mm.Pos())]) {
						okOnce = true
					}
				}
				// made by a constructor of the check object that is called once per transaction
				if call, ok := ins.(*ssa.Call); ok && !inCycle(b) {
					if cal := call.Call.StaticCallee(); cal != nil && cal.Blocks != nil && inModule(cal) && !region[cal] {
						for _, cb := range cal.Blocks {
							for _, ci := range cb.Instrs {
								if mm, ok := ci.(*ssa.MakeMap); ok && !inCycle(cb) && seenMakes[fmt.Sprintf("make@%d", mm.Pos())] {
									okOnce = true
								}
							}
						}
					}
				}
			}
		}
	}
	c.check(okOnce, "C18-ONCE", fname, "seen set lives for the whole transaction", fd.Pos(), "the seen set is created once per checked transaction, outside the posting loop", "no per-transaction seen set is created outside the loops of the function")
}

// ---------- C20 ----------

func ruleC20(c *Ctx) {
	apk := c.P.ByRel["internal/analyzer"]
	info := apk.TypesInfo
	// T10: the balance calculators (functions returning AccountBalances) have the same posting-loop body
	type calc struct {
		fd   *ast.FuncDecl
		body string
	}
	var calcs []calc
	nDelegating := 0
	for _, f := range apk.Syntax {
		for _, d := range f.Decls {
			fd, ok := d.(*ast.FuncDecl)
			if !ok || fd.Body == nil || fd.Type.Results == nil || len(fd.Type.Results.List) != 1 {
				continue
			}
			if !strings.HasSuffix(types.TypeString(info.TypeOf(fd.Type.Results.List[0].Type), nil), "analyzer.AccountBalances") {
				continue
			}
			var inner *ast.RangeStmt
			ast.Inspect(fd.Body, func(x ast.Node) bool {
				if rs, ok := x.(*ast.RangeStmt); ok {
					if se, ok := ast.Unparen(rs.X).(*ast.SelectorExpr); ok && se.Sel.Name == "Postings" {
						inner = rs
					} else if t := info.TypeOf(rs.X); t != nil && strings.HasSuffix(types.TypeString(t, nil), "[]"+modPath+"/internal/ast.Posting") {
						inner = rs // a local holding the transaction's postings
					}
				}
				return true
			})
			if inner == nil {
				// a calculator that hands its transactions on to a sibling aggregates exactly like that sibling
				if delegatesTo(info, fd, func(o *types.Func) bool {
					d := c.P.declOf[o]
					return d != nil && d != fd && d.Type.Results != nil && len(d.Type.Results.List) == 1 &&
						strings.HasSuffix(types.TypeString(info.TypeOf(d.Type.Results.List[0].Type), nil), "analyzer.AccountBalances")
				}) {
					nDelegating++
					c.ok("T10", c.P.declName(fd), "same posting aggregation as sibling", fd.Pos(), "the calculator returns the result of its sibling (delegation)")
					continue
				}
				// the aggregation lives in helpers (methods of the balances type): the calculator is identified with
				// the set of accumulation sites it reaches; siblings that reach the same sites aggregate identically
				if sites := balanceAddSites(c, c.P.ssaOf(fd)); len(sites) > 0 {
					var keys []string
					for _, st := range sites {
						keys = append(keys, c.P.pos(st.call.Pos()))
					}
					sort.Strings(keys)
					_ = keys
					var descs []string
					for _, st := range sites {
						descs = append(descs, fmt.Sprintf("%s guarded=%v", st.desc, st.guarded))
					}
					sort.Strings(descs)
					calcs = append(calcs, calc{fd, strings.Join(descs, " ;; ")})
					continue
				}
				c.undecided("T10", c.P.declName(fd), "posting loop", fd.Pos(), "balance calculator without a loop over Postings")
				continue
			}
			// the aggregation as access paths (which fields key the sums, which field is added), independent of the
			// names of locals and of the statement layout
			var descs []string
			for _, st := range balanceAddSites(c, c.P.ssaOf(fd)) {
				descs = append(descs, fmt.Sprintf("%s guarded=%v", st.desc, st.guarded))
			}
			sort.Strings(descs)
			calcs = append(calcs, calc{fd, strings.Join(descs, " ;; ")})
		}
	}
	c.census("T10", "account-balance calculators", len(calcs)+nDelegating, 1)
	c.census("T10", "account-balance calculators with a posting loop", len(calcs), 1)
	for i := 1; i < len(calcs); i++ {
		c.check(calcs[i].body == calcs[0].body && calcs[0].body != "", "T10", c.P.declName(calcs[i].fd), "same posting aggregation as sibling", calcs[i].fd.Pos(),
			"the per-posting aggregation is identical to "+c.P.declName(calcs[0].fd)+": "+calcs[0].body,
			"the two account-balance calculators aggregate postings differently: hover figures depend on whether a resolved tree exists")
	}
	// aggregation uses explicitly posted amounts only: the quantity is accumulated with the exact Add, and only
	// for postings that carry an amount (control dependence on the amount pointer being non-nil, written either
	// as `if p.Amount == nil { continue }` or as `if p.Amount != nil { ... }`)
	for _, cl := range calcs {
		okSkip, okAdd := false, false
		sites := balanceAddSites(c, c.P.ssaOf(cl.fd))
		okAdd = len(sites) > 0
		okSkip = okAdd
		for _, st := range sites {
			if !st.guarded {
				okSkip = false
			}
		}
		c.check(okSkip && okAdd, "T10", c.P.declName(cl.fd), "sums explicitly posted amounts with Add", cl.fd.Pos(),
			"postings without an amount are skipped and quantities are accumulated with the exact Add", "the calculator does not skip amount-less postings or does not accumulate with Add")
	}
	// C20-TREE (SSA, in the hover handler): when a resolved tree exists, balances and the transaction list
	// handed to the hover builder derive from the same AllTransactions() value
	var hover *ssa.Function
	if fd := c.P.handlerByParam("protocol.HoverParams"); fd != nil {
		hover = c.P.ssaOf(fd)
	}
	if hover == nil {
		c.undecided("C20-TREE", "server.Server.Hover", "anchor", token.NoPos, "hover handler not found")
		return
	}
	hname := funcName(hover)
	_ = hname
	// by data flow, wherever the code lives below the hover handler: the list handed to the balance calculator
	// derives from AllTransactions() of the resolved tree, and every other consumer of a transaction list on
	// the hover path derives its list from the same AllTransactions() call(s)
	ciH := buildConc(c)
	reachHover := Reach(ciH.g, []*ssa.Function{hover}, true)
	isTxList := func(t types.Type) bool {
		sl, ok := t.Underlying().(*types.Slice)
		return ok && typeHasSuffix(sl.Elem(), "ast.Transaction")
	}
	isAllTx := func(cal *ssa.Function) bool {
		return cal != nil && cal.Signature.Recv() != nil && typeHasSuffix(cal.Signature.Recv().Type(), "include.ResolvedJournal") &&
			cal.Signature.Params().Len() == 0 && cal.Signature.Results().Len() == 1 && isTxList(cal.Signature.Results().At(0).Type())
	}
	isListCalculator := func(cal *ssa.Function) bool {
		return cal != nil && cal.Pkg != nil && strings.HasSuffix(cal.Pkg.Pkg.Path(), "internal/analyzer") && cal.Signature.Params().Len() == 1 &&
			isTxList(cal.Signature.Params().At(0).Type()) && cal.Signature.Results().Len() == 1 && typeHasSuffix(cal.Signature.Results().At(0).Type(), "analyzer.AccountBalances")
	}
	allTxCalls := func(sl map[ssa.Value]bool) map[ssa.Value]bool {
		out := map[ssa.Value]bool{}
		for v := range sl {
			if call, ok := v.(*ssa.Call); ok && isAllTx(call.Call.StaticCallee()) {
				out[v] = true
			}
		}
		return out
	}
	type listUse struct {
		f    *ssa.Function
		call *ssa.Call
		arg  ssa.Value
	}
	var listCalcs, consumers []listUse
	spkH := c.P.SSAPkg("internal/server")
	for _, f := range c.P.ModuleFuncs() {
		top := f
		for top.Parent() != nil {
			top = top.Parent()
		}
		if top.Pkg != spkH || !reachHover[f] {
			continue
		}
		for _, b := range f.Blocks {
			for _, ins := range b.Instrs {
				call, ok := ins.(*ssa.Call)
				if !ok {
					continue
				}
				cal := call.Call.StaticCallee()
				if cal == nil || !inModule(cal) || isAllTx(cal) {
					continue
				}
				for _, a := range call.Call.Args {
					if !isTxList(a.Type()) {
						continue
					}
					if isListCalculator(cal) {
						listCalcs = append(listCalcs, listUse{f, call, a})
					} else {
						consumers = append(consumers, listUse{f, call, a})
					}
				}
			}
		}
	}
	// the single-document calculator (it takes one journal) is the fallback for "no tree": every call of it on the
	// hover path is control dependent on the tree lookup having returned nil
	isJournalCalculator := func(cal *ssa.Function) bool {
		if cal == nil || cal.Pkg == nil || !strings.HasSuffix(cal.Pkg.Pkg.Path(), "internal/analyzer") || cal.Signature.Params().Len() != 1 || cal.Signature.Results().Len() != 1 {
			return false
		}
		pt, ok := cal.Signature.Params().At(0).Type().Underlying().(*types.Pointer)
		return ok && typeHasSuffix(pt.Elem(), "ast.Journal") && typeHasSuffix(cal.Signature.Results().At(0).Type(), "analyzer.AccountBalances")
	}
	nFallback := 0
	for _, f := range c.P.ModuleFuncs() {
		top := f
		for top.Parent() != nil {
			top = top.Parent()
		}
		if top.Pkg != spkH || !reachHover[f] {
			continue
		}
		for _, call := range findCalls(f, isJournalCalculator) {
			nFallback++
			blks := []*ssa.BasicBlock{call.Block()}
			for g, depth := f, 0; g != hover && depth < 3; depth++ {
				sites := (cgView{c}).callersOf(g)
				if len(sites) != 1 {
					break
				}
				blks = append(blks, sites[0].Block())
				g = sites[0].Parent()
			}
			onlyWithoutTree := false
			for _, blk := range blks {
				for _, cc := range controlCondsPol(blk) {
					bo, ok := cc.Cond.(*ssa.BinOp)
					if !ok {
						continue
					}
					isTreeNil := func(x, y ssa.Value) bool {
						k, isK := y.(*ssa.Const)
						pt, isP := x.Type().Underlying().(*types.Pointer)
						return isK && k.IsNil() && isP && typeHasSuffix(pt.Elem(), "include.ResolvedJournal")
					}
					if (isTreeNil(bo.X, bo.Y) || isTreeNil(bo.Y, bo.X)) && ((bo.Op == token.EQL && cc.Taken) || (bo.Op == token.NEQ && !cc.Taken)) {
						onlyWithoutTree = true
					}
				}
			}
			c.check(onlyWithoutTree, "C20-TREE", funcName(f), "single-document balances only when there is no tree", call.Pos(),
				"the one-journal calculator is reached only when the tree lookup returned nil",
				"balances are computed from the hovered document alone on a path that does not depend on the include tree being absent: in a workspace, a hover from an included file shows that file's figures instead of the totals over the tree")
		}
	}
	c.note("C20-TREE: %d calls of the one-journal balance calculator on the hover path", nFallback)
	c.census("C20-TREE", "balance computations from a transaction list on the hover path", len(listCalcs), 1)
	c.census("C20-TREE", "other consumers of a transaction list on the hover path", len(consumers), 1)
	want := map[ssa.Value]bool{}
	for _, u := range listCalcs {
		got := allTxCalls(sliceUpN(ciH, u.arg, u.f, 8))
		for v := range got {
			want[v] = true
		}
		c.check(len(got) > 0, "C20-TREE", funcName(u.f), "balances computed over AllTransactions of the resolved tree", u.call.Pos(),
			"balances are summed over the resolved tree's AllTransactions()", "balances are not computed from the resolved tree's AllTransactions()")
	}
	for _, u := range consumers {
		got := allTxCalls(sliceUpN(ciH, u.arg, u.f, 8))
		same := len(want) > 0
		for v := range want {
			if !got[v] {
				same = false
			}
		}
		c.check(same, "C20-TREE", funcName(u.f), "counts use the list the sums were computed from: "+u.call.Call.StaticCallee().Name(), u.call.Pos(),
			"the transaction list used here (posting/transaction counts) derives from the AllTransactions() call the balances were summed over",
			"a consumer of the transaction list on the hover path receives a list that does not derive from the AllTransactions() call the balances were computed from: sums and counts disagree")
	}
	// C20-ONCE: AllTransactions = primary once + every FileOrder entry once
	all := c.P.FindDecl("internal/include", func(fd *ast.FuncDecl, info *types.Info) bool {
		return recvTypeName(fd) == "ResolvedJournal" && hasSuffixAny(resultTypes(fd, info), "ast.Transaction")
	})
	if all == nil {
		c.undecided("C20-ONCE", "include.ResolvedJournal.AllTransactions", "anchor", token.NoPos, "method not found")
		return
	}
	// contribution analysis on SSA: which parts of the tree end up in the returned list, and how often.  The list
	// may be assembled in stages (a list of journals first, then their transactions; generic helpers; a selector
	// function): every append site that feeds the returned value contributes the sources its operand derives
	// from - the primary journal (P), the file listed at the current position of FileOrder (F, once per position
	// when the site sits in exactly one loop and that loop runs over FileOrder), or whatever the elements of an
	// intermediate list stand for (when the one enclosing loop runs over that list).  A walk over the Files map,
	// a nested or foreign loop, or a second site for the same source makes the multiplicity "many".
	nPrimary, nLoop := 0, 0
	if AT := c.P.ssaOf(all); AT != nil {
		contrib := listContrib(AT, 0, map[*ssa.Function]bool{})
		nPrimary, nLoop = contrib["P"], contrib["F"]
	}
	c.check(nPrimary == 1 && nLoop == 1, "C20-ONCE", c.P.declName(all), "primary once, then each ordered file", all.Pos(),
		"AllTransactions appends the primary journal once and then walks FileOrder once", fmt.Sprintf("AllTransactions does not have the shape 'primary once + one pass over FileOrder' (primary appends: %d, loops: %d)", nPrimary, nLoop))
	ruleFileOrderGrowth(c)
}

// ruleFileOrderGrowth (C20-ONCE, second part): FileOrder is duplicate-free and positions are stable: every append
// to a FileOrder field happens only when the path is not listed yet (a file that is updated keeps its place: the
// order of the aggregated files does not depend on which file was edited last).
func ruleFileOrderGrowth(c *Ctx) {
	// FileOrder is duplicate-free: every append to a FileOrder field is de-duplicated
	nApp := 0
	for _, fd := range c.P.AllFuncDecls() {
		finfo := c.P.InfoFor(fd)
		ast.Inspect(fd.Body, func(x ast.Node) bool {
			as, ok := x.(*ast.AssignStmt)
			if !ok || len(as.Lhs) != 1 || len(as.Rhs) != 1 {
				return true
			}
			se, ok := ast.Unparen(as.Lhs[0]).(*ast.SelectorExpr)
			if !ok || se.Sel.Name != "FileOrder" {
				return true
			}
			call, ok := ast.Unparen(as.Rhs[0]).(*ast.CallExpr)
			if !ok {
				return true
			}
			fname := c.P.declName(fd)
			if identOf(call.Fun).Name == "append" {
				// a spread append of a cloned slice (snapshot copy) or of an empty base is a copy, not growth
				if call.Ellipsis.IsValid() {
					return true
				}
				// direct growth: decided on SSA below
				return true
			}
			// via helper: a module function that appends to its slice parameter must hand the slice back
			// unchanged when the element is already present
			if o, ok := calleeOf(finfo, call).(*types.Func); ok {
				if decl := c.P.declOf[o]; decl != nil && decl.Body != nil && appendsToParam(c.P, decl) {
					nApp++
					c.check(returnsEarlyWhenPresent(c.P, decl), "C20-ONCE", fname, "FileOrder append is de-duplicated", as.Pos(),
						"the helper "+o.Name()+" returns the slice unchanged when the path is already present", "helper "+o.Name()+" appends without checking for presence")
				}
			}
			return true
		})
	}
	// direct growth `x.FileOrder = append(x.FileOrder, p)`: the store is only reached behind a membership test of p in
	// a set of already listed files - made in the function itself or by a verdict helper it calls (the loader's
	// typestate is checked in detail by G-ONCE)
	for _, f := range c.P.ModuleFuncs() {
		for _, b := range f.Blocks {
			for _, ins := range b.Instrs {
				st, ok := ins.(*ssa.Store)
				if !ok {
					continue
				}
				fa, ok := st.Addr.(*ssa.FieldAddr)
				if !ok || fieldVarOfAddr(fa) == nil || fieldVarOfAddr(fa).Name() != "FileOrder" {
					continue
				}
				call, ok := st.Val.(*ssa.Call)
				if !ok {
					continue
				}
				if bi, ok := call.Call.Value.(*ssa.Builtin); !ok || bi.Name() != "append" || len(call.Call.Args) != 2 {
					continue
				}
				sl, ok := call.Call.Args[1].(*ssa.Slice)
				if !ok {
					continue // a spread append of an existing slice (snapshot copy)
				}
				arr, ok := sl.X.(*ssa.Alloc)
				if !ok {
					continue
				}
				// the appended element(s)
				var elems []ssa.Value
				for _, r := range *arr.Referrers() {
					if ia, ok := r.(*ssa.IndexAddr); ok {
						for _, r2 := range *ia.Referrers() {
							if s2, ok := r2.(*ssa.Store); ok {
								elems = append(elems, s2.Val)
							}
						}
					}
				}
				nApp++
				isSetLookup := func(x ssa.Value) (*ssa.Lookup, bool) {
					lk, ok := x.(*ssa.Lookup)
					if !ok {
						return nil, false
					}
					m, ok := lk.X.Type().Underlying().(*types.Map)
					return lk, ok && types.TypeString(m.Elem(), nil) == "bool"
				}
				hasTest := false
				// a verdict helper / set type: absence from some set is necessary for reaching the append
				{
					// ... at the append itself, or at every call site of its function (two levels)
					var absent func(blk *ssa.BasicBlock, depth int) bool
					absent = func(blk *ssa.BasicBlock, depth int) bool {
						for _, m := range blockMemberships(blk) {
							if !m.pos {
								return true
							}
						}
						if depth >= 2 {
							return false
						}
						sites := (cgView{c}).callersOf(blk.Parent())
						if len(sites) == 0 {
							return false
						}
						for _, site := range sites {
							if !absent(site.Block(), depth+1) {
								return false
							}
						}
						return true
					}
					if absent(b, 0) {
						hasTest = true
					}
				}
				for _, cc := range controlCondsPol(b) {
					if lk, ok := isSetLookup(cc.Cond); ok {
						// a test in the function itself: of the appended path, and the append is on its negative branch
						for _, e := range elems {
							if (lk.Index == e || sameLoad(lk.Index, e)) && !cc.Taken {
								hasTest = true
							}
						}
						continue
					}
					// a verdict helper: its key is bound to the caller's argument
					out := map[ssa.Value]bool{}
					sliceWithControl(cc.Cond, 0, out)
					for v := range out {
						if lk, ok := isSetLookup(v); ok && lk.Parent() != f {
							hasTest = true
						}
					}
				}
				c.check(hasTest, "C20-ONCE", funcName(f), "FileOrder append is de-duplicated", st.Pos(),
					"the appended path was tested against a set of already listed files", "a path is appended to FileOrder without a membership test: a file reached twice is aggregated twice")
			}
		}
	}
	c.census("C20-ONCE", "growth sites of FileOrder", nApp, 2)
}

// ---------- C09 ----------

func ruleC09(c *Ctx) {
	spk := c.P.SSAPkg("internal/server")
	// H-PRIMARY (a): the function that returns (tree, primary path) pairs them correctly
	var pairFn *ssa.Function
	for _, f := range c.P.ModuleFuncs() {
		if f.Pkg != spk || f.Signature.Results().Len() != 2 {
			continue
		}
		if typeHasSuffix(f.Signature.Results().At(0).Type(), "include.ResolvedJournal") && types.TypeString(f.Signature.Results().At(1).Type(), nil) == "string" {
			pairFn = f
		}
	}
	if pairFn == nil {
		c.finding("H-PRIMARY", "server", "tree/primary-path pairing function", token.NoPos,
			"no function returns a resolved tree together with the path of its primary journal: handlers pair the workspace tree (primary = workspace root) with the requesting document's path, so a request from an included file attributes the root's occurrences to the wrong file")
		return
	}
	pname := funcName(pairFn)
	nRet := 0
	for _, b := range pairFn.Blocks {
		for _, ins := range b.Instrs {
			r, ok := ins.(*ssa.Return)
			if !ok || len(r.Results) != 2 {
				continue
			}
			nRet++
			tree, path := backSlice(r.Results[0]), backSlice(r.Results[1])
			fromWS := sliceHasCall(tree, func(cal *ssa.Function, _ *ssa.Call) bool {
				return calleeNameIs(cal, "workspace.Workspace).GetResolved")
			})
			fromDoc := sliceHasCall(tree, func(cal *ssa.Function, _ *ssa.Call) bool {
				return calleeNameIs(cal, "server.Server).GetResolved") || calleeNameIs(cal, "include.Loader).LoadFromContent")
			})
			pathRoot := sliceHasCall(path, func(cal *ssa.Function, _ *ssa.Call) bool {
				return calleeNameIs(cal, "workspace.Workspace).RootJournalPath")
			})
			pathDoc := sliceHasCall(path, func(cal *ssa.Function, _ *ssa.Call) bool { return calleeNameIs(cal, "server.uriToPath") })
			okPair := (fromWS && !fromDoc && pathRoot) || (fromDoc && !fromWS && pathDoc && !pathRoot) || (!fromWS && !fromDoc)
			if fromWS {
				// the workspace tree follows the open buffers; it must also serve the root journal itself: no
				// controlling condition may require the document to differ from the workspace root
				excl := false
				for _, cc := range controlCondsPol(b) {
					bo, ok := cc.Cond.(*ssa.BinOp)
					if !ok || !((bo.Op == token.NEQ && cc.Taken) || (bo.Op == token.EQL && !cc.Taken)) {
						continue
					}
					isRoot := func(v ssa.Value) bool {
						return sliceHasCall(backSlice(v), func(cal *ssa.Function, _ *ssa.Call) bool {
							return calleeNameIs(cal, "workspace.Workspace).RootJournalPath")
						})
					}
					isDoc := func(v ssa.Value) bool {
						for w := range backSlice(v) {
							if p, ok := w.(*ssa.Parameter); ok && p.Parent() == pairFn {
								return true
							}
						}
						return false
					}
					if (isRoot(bo.X) && isDoc(bo.Y)) || (isRoot(bo.Y) && isDoc(bo.X)) {
						excl = true
					}
				}
				c.check(!excl, "H-PRIMARY", pname, "the workspace tree also serves the workspace root", r.Pos(),
					"no condition on the way to this return excludes the root journal", "the workspace tree is only used when the requesting document is not the workspace root: a request made from the root is answered from files as they are on disk, ignoring unsaved edits in included files that the workspace tracks")
			}
			c.check(okPair, "H-PRIMARY", pname, "returned tree is paired with its own primary path", r.Pos(),
				fmt.Sprintf("workspace tree -> root journal path, per-document tree -> document path (ws=%v doc=%v root=%v docpath=%v)", fromWS, fromDoc, pathRoot, pathDoc),
				"a resolved tree is returned together with a path that is not the file its Primary journal was parsed from (workspace tree must go with Workspace.RootJournalPath(), the per-document tree with the document's path)")
		}
	}
	c.census("H-PRIMARY", "return sites of the tree/primary-path function", nRet, 2)
	// H-PRIMARY (b) by data flow: the journal-map builder (role: returns a map of journals by path and stores a
	// tree's Primary in it) keys the primary by a path that comes - through parameters, struct fields and helper
	// results, up to the handlers - from the same call of the pairing function as the tree itself.
	ci := buildConc(c)
	isTreePtr := func(t types.Type) bool {
		pt, ok := t.Underlying().(*types.Pointer)
		return ok && typeHasSuffix(pt.Elem(), "include.ResolvedJournal")
	}
	pairTuples := func(sl map[ssa.Value]bool, idx int) map[ssa.Value]bool {
		out := map[ssa.Value]bool{}
		for v := range sl {
			if ex, ok := v.(*ssa.Extract); ok && ex.Index == idx {
				if tc, ok := ex.Tuple.(*ssa.Call); ok && tc.Common().StaticCallee() == pairFn {
					out[ex.Tuple] = true
				}
			}
		}
		return out
	}
	var builder *ssa.Function
	nPrimaryStores := 0
	allTuples := map[ssa.Value]bool{}
	for _, f := range c.P.ModuleFuncs() {
		top := f
		for top.Parent() != nil {
			top = top.Parent()
		}
		if top.Pkg != spk || f.Signature.Results().Len() != 1 {
			continue
		}
		if mt, ok := f.Signature.Results().At(0).Type().Underlying().(*types.Map); !ok || !typeHasSuffix(mt.Elem(), "ast.Journal") || types.TypeString(mt.Key(), nil) != "string" {
			continue
		}
		for _, b := range f.Blocks {
			for _, ins := range b.Instrs {
				mu, ok := ins.(*ssa.MapUpdate)
				if !ok {
					continue
				}
				// the stored value is <tree>.Primary
				ld, ok := mu.Value.(*ssa.UnOp)
				if !ok || ld.Op != token.MUL {
					continue
				}
				fa, ok := ld.X.(*ssa.FieldAddr)
				if !ok || !isTreePtr(fa.X.Type()) || fieldVarOfAddr(fa).Name() != "Primary" {
					continue
				}
				builder = f
				nPrimaryStores++
				keyT := pairTuples(sliceUp(ci, mu.Key, f), 1)
				treeT := pairTuples(sliceUp(ci, fa.X, f), 0)
				same := len(keyT) > 0 && len(keyT) == len(treeT)
				for t := range keyT {
					allTuples[t] = true
					if !treeT[t] {
						same = false
					}
				}
				c.check(same, "H-PRIMARY", funcName(f), "primary stored under the path that came with the tree", mu.Pos(),
					fmt.Sprintf("key and tree both come from the same %d call(s) of %s", len(keyT), pairFn.Name()),
					fmt.Sprintf("the tree's Primary journal is stored under a path that does not come from the same lookup as the tree (lookups behind the key: %d, behind the tree: %d): the primary can be labelled with the wrong file", len(keyT), len(treeT)))
			}
		}
	}
	c.census("H-PRIMARY", "stores of a tree's primary journal in the journal map", nPrimaryStores, 1)
	c.census("H-PRIMARY", "lookups of a tree with its primary path that reach the journal map", len(allTuples), 1)
	// C09-TREE: whenever a tree is given, the map that is searched is built from the tree: every return of a
	// map that does not contain the tree's files is control dependent on the tree being nil
	if F := builder; F != nil {
		// the tree as seen inside the builder: a parameter, or a field of a parameter
		isTree := func(v ssa.Value) bool {
			if v == nil || !isTreePtr(v.Type()) {
				return false
			}
			switch x := v.(type) {
			case *ssa.Parameter:
				return true
			case *ssa.UnOp:
				if x.Op == token.MUL {
					_, isFA := x.X.(*ssa.FieldAddr)
					return isFA
				}
			case *ssa.Field:
				return true
			}
			return false
		}
		sliceHasTree := func(v ssa.Value) bool {
			for w := range backSlice(v) {
				if isTree(w) {
					return true
				}
			}
			return false
		}
		usesTree := map[*ssa.BasicBlock]bool{}
		for _, b := range F.Blocks {
			for _, ins := range b.Instrs {
				for _, op := range ins.Operands(nil) {
					if op != nil && *op != nil && isTree(*op) {
						usesTree[b] = true
					}
				}
			}
		}
		afterUse := func(b *ssa.BasicBlock) bool {
			if usesTree[b] {
				return true
			}
			seen := map[*ssa.BasicBlock]bool{}
			w := []*ssa.BasicBlock{F.Blocks[0]}
			for len(w) > 0 {
				x := w[len(w)-1]
				w = w[:len(w)-1]
				if seen[x] || usesTree[x] {
					continue
				}
				seen[x] = true
				if x == b {
					return false
				}
				w = append(w, x.Succs...)
			}
			return true
		}
		nR := 0
		for _, b := range F.Blocks {
			for _, ins := range b.Instrs {
				r, ok := ins.(*ssa.Return)
				if !ok || len(r.Results) != 1 {
					continue
				}
				nR++
				whenNil := false
				for _, cc := range controlCondsPol(b) {
					if bo, ok := cc.Cond.(*ssa.BinOp); ok {
						nilCmp := isTree(bo.X) || isTree(bo.Y)
						if nilCmp && ((bo.Op == token.EQL && cc.Taken) || (bo.Op == token.NEQ && !cc.Taken)) {
							whenNil = true
						}
					}
				}
				fills := false
				rs := backSlice(unspillResult(r.Results[0], b))
				for _, b2 := range F.Blocks {
					for _, i2 := range b2.Instrs {
						mu, ok := i2.(*ssa.MapUpdate)
						if !ok || !rs[mu.Map] && mu.Map != r.Results[0] {
							continue
						}
						if sliceHasTree(mu.Value) && (b2.Dominates(b) || reachesBlock(b2, b)) {
							fills = true
						}
					}
				}
				early := !whenNil && !afterUse(b)
				c.check(whenNil || (fills && !early), "C09-TREE", funcName(F), fmt.Sprintf("return #%d covers the whole tree", nR), r.Pos(),
					"the journals of the given tree are in the returned map (or no tree was given)", "the set of journals that is searched can be returned without the files of the given include tree (a short cut that looks at the requesting document only): references, rename and definition then depend on the file the request is made from")
			}
		}
		c.census("C09-TREE", "return sites of the journal-map builder", nR, 1)
	} else {
		c.undecided("H-PRIMARY", "server", "journal-map builder", token.NoPos, "no function of the server returns a map of journals by path that holds a tree's primary journal")
	}
	ruleT11(c)
}

// ruleT11 (SSA): every reference location carries the URI of the file it was found in; the collectors' results
// pass the common sort+dedup step, whose equality covers file and range; rename maps references 1:1 to edits.
func ruleT11(c *Ctx) {
	spk := c.P.SSAPkg("internal/server")
	cg := cgView{c}
	isLocSlice := func(t types.Type) bool { return types.TypeString(t, nil) == "[]go.lsp.dev/protocol.Location" }
	// ---- location constructions
	type locInst struct {
		fn   *ssa.Function // function the values live in (the caller, for a constructor helper)
		site ssa.CallInstruction
		uri  ssa.Value
		rng  ssa.Value
		pos  token.Pos
	}
	var insts []locInst
	for _, f := range c.P.ModuleFuncs() {
		top := f
		for top.Parent() != nil {
			top = top.Parent()
		}
		if top.Pkg != spk {
			continue
		}
		for _, b := range f.Blocks {
			for _, ins := range b.Instrs {
				var root ssa.Value
				switch x := ins.(type) {
				case *ssa.Alloc:
					if typeHasSuffix(x.Type(), "*go.lsp.dev/protocol.Location") {
						root = x
					}
				case *ssa.IndexAddr:
					if typeHasSuffix(x.Type(), "*go.lsp.dev/protocol.Location") {
						if _, local := x.X.(*ssa.Alloc); local {
							root = x
						}
					}
				}
				if root == nil {
					continue
				}
				st := map[string][]ssa.Value{}
				collectFieldStores(root, "", st, 0)
				if len(st[".URI"]) != 1 {
					continue
				}
				var rng ssa.Value
				for k, v := range st {
					if strings.HasPrefix(k, ".Range") && len(v) > 0 {
						rng = v[0]
					}
				}
				if rng == nil {
					continue
				}
				// a constructor helper (URI / range from parameters): one instance per call site
				usesParam := false
				for _, v := range []ssa.Value{st[".URI"][0], rng} {
					for w := range backSlice(v) {
						if p, ok := w.(*ssa.Parameter); ok && p.Parent() == f {
							usesParam = true
						}
					}
				}
				sites := cg.callersOf(f)
				if usesParam && len(sites) > 0 && !isLocSlice(resultOrNil(f)) {
					for _, s := range sites {
						insts = append(insts, locInst{s.Parent(), s, st[".URI"][0], rng, s.Pos()})
					}
					continue
				}
				insts = append(insts, locInst{f, nil, st[".URI"][0], rng, root.Pos()})
			}
		}
	}
	// de-duplicate copies (literal built in a local, then copied into the append argument)
	{
		seen := map[string]bool{}
		var u []locInst
		for _, in := range insts {
			k := fmt.Sprintf("%p|%p|%p", in.uri, in.rng, in.site)
			if !seen[k] {
				seen[k] = true
				u = append(u, in)
			}
		}
		insts = u
	}
	sort.SliceStable(insts, func(i, j int) bool { return insts[i].pos < insts[j].pos })
	sliceBound := func(in locInst, v ssa.Value) map[ssa.Value]bool {
		sl := backSlice(v)
		if in.site == nil {
			return sl
		}
		cal := in.site.Common().StaticCallee()
		for w := range sl {
			if p, ok := w.(*ssa.Parameter); ok && cal != nil && p.Parent() == cal {
				for i, q := range cal.Params {
					if q == p && i < len(in.site.Common().Args) {
						for z := range backSlice(in.site.Common().Args[i]) {
							sl[z] = true
						}
					}
				}
			}
		}
		return sl
	}
	nColl := 0
	collectors := map[*ssa.Function]bool{}
	for i, in := range insts {
		// only locations built while walking a set of journals keyed by path
		rs := sliceBound(in, in.rng)
		var keys []ssa.Value
		for w := range rs {
			switch x := w.(type) {
			case *ssa.Lookup:
				if mt, ok := x.X.Type().Underlying().(*types.Map); ok && typeHasSuffix(mt.Elem(), "ast.Journal") {
					keys = append(keys, stripConv(x.Index))
				}
			case *ssa.Extract:
				if nx, ok := x.Tuple.(*ssa.Next); ok && x.Index == 2 {
					if rg, ok := nx.Iter.(*ssa.Range); ok {
						if mt, ok := rg.X.Type().Underlying().(*types.Map); ok && typeHasSuffix(mt.Elem(), "ast.Journal") {
							// the key of the same iteration step
							for _, r := range *nx.Referrers() {
								if e2, ok := r.(*ssa.Extract); ok && e2.Index == 1 {
									keys = append(keys, e2)
								}
							}
						}
					}
				}
			}
		}
		if len(keys) == 0 {
			continue
		}
		nColl++
		collectors[in.fn] = true
		us := sliceBound(in, in.uri)
		okURI := false
		for _, k := range keys {
			if us[k] {
				okURI = true
			}
		}
		desc := "each location carries the URI of the file it was found in"
		if i > 0 {
			desc = fmt.Sprintf("%s #%d", desc, i+1)
		}
		c.check(okURI, "T11", funcName(in.fn), desc, in.pos,
			"the location's URI is computed from the path under which the journal that contains the range is stored", "a location is built with a URI that is not derived from the path of the journal being walked")
	}
	c.census("T11", "reference locations built while walking the journals of the include tree", nColl, 3)
	// ---- the sort+dedup step
	var dedupFn *ssa.Function
	for _, f := range c.P.ModuleFuncs() {
		if f.Pkg == spk && f.Signature.Recv() == nil && f.Signature.Params().Len() == 1 && isLocSlice(f.Signature.Params().At(0).Type()) && isLocSlice(resultOrNil(f)) {
			dedupFn = f
		}
	}
	if dedupFn == nil {
		c.undecided("T11", "server", "sort+dedup step", token.NoPos, "no function ([]Location) []Location found")
	} else {
		var fs []*ssa.Function
		for f := range collectors {
			fs = append(fs, f)
		}
		sort.Slice(fs, func(i, j int) bool { return funcName(fs[i]) < funcName(fs[j]) })
		for _, f := range fs {
			if !isLocSlice(resultOrNil(f)) {
				continue
			}
			all := true
			nRet := 0
			for _, b := range f.Blocks {
				for _, ins := range b.Instrs {
					if r, ok := ins.(*ssa.Return); ok && len(r.Results) == 1 {
						nRet++
						if k, isConst := r.Results[0].(*ssa.Const); isConst && k.IsNil() {
							continue
						}
						if !sliceHasCall(backSlice(r.Results[0]), func(cal *ssa.Function, _ *ssa.Call) bool { return cal == dedupFn }) {
							all = false
						}
					}
				}
			}
			c.check(all && nRet > 0, "T11", funcName(f), "result is sorted and de-duplicated", f.Pos(), "every returned list passes "+dedupFn.Name(), "reference collector returns its locations without the common sort+dedup step")
		}
		// equality used to drop duplicates: which components of two locations are compared
		covered := map[string]bool{}
		var eqFns []*ssa.Function
		// the body of the step itself and the boolean helpers it calls; the comparator closure handed to the
		// sort orders the list and is not the equality
		eqFns = append(eqFns, dedupFn)
		for _, b := range dedupFn.Blocks {
			for _, ins := range b.Instrs {
				if call, ok := ins.(ssa.CallInstruction); ok {
					if cal := call.Common().StaticCallee(); cal != nil && inModule(cal) && cal.Blocks != nil && types.TypeString(resultOrNil(cal), nil) == "bool" {
						eqFns = append(eqFns, cal)
					}
				}
			}
		}
		for _, f := range eqFns {
			for _, b := range f.Blocks {
				for _, ins := range b.Instrs {
					bo, ok := ins.(*ssa.BinOp)
					if !ok || (bo.Op != token.EQL && bo.Op != token.NEQ) {
						continue
					}
					px, okx := locPath(stripConv(bo.X))
					py, oky := locPath(stripConv(bo.Y))
					if okx && oky && px == py {
						covered[px] = true
					}
				}
			}
		}
		need := []string{"URI", "Range.Start.Line", "Range.Start.Character", "Range.End.Line", "Range.End.Character"}
		var missing []string
		for _, n := range need {
			ok := covered[""] || covered[n]
			for p := range covered {
				if p != "" && strings.HasPrefix(n, p+".") {
					ok = true
				}
			}
			if !ok {
				missing = append(missing, n)
			}
		}
		c.check(len(missing) == 0, "T11", funcName(dedupFn), "dedup equality covers file and range", dedupFn.Pos(),
			"two locations are equal only if URI and all four coordinates agree", "the equality used to drop duplicate locations ignores part of the location ("+strings.Join(missing, ", ")+"): occurrences at the same range in different files collapse into one")
	}
	// ---- rename: one TextEdit per reference location, with the location's own range, under the location's URI
	fd := c.P.handlerByParam("protocol.RenameParams")
	var rn *ssa.Function
	if fd != nil {
		rn = c.P.ssaOf(fd)
	}
	if rn == nil {
		c.undecided("T11", "server.Server.Rename", "anchor", token.NoPos, "rename handler not found")
		return
	}
	ok1, incl := false, false
	fns := append([]*ssa.Function{rn}, rn.AnonFuncs...)
	// ... and the helpers of the package the handler hands the locations to
	for _, b := range rn.Blocks {
		for _, ins := range b.Instrs {
			if call, ok := ins.(*ssa.Call); ok {
				if cal := call.Call.StaticCallee(); cal != nil && cal.Pkg == rn.Pkg && cal.Blocks != nil {
					for _, a := range call.Call.Args {
						if isLocSlice(a.Type()) {
							fns = append(fns, cal)
						}
					}
				}
			}
		}
	}
	ciT11 := buildConc(c)
	for _, f := range fns {
		for _, b := range f.Blocks {
			for _, ins := range b.Instrs {
				mu, ok := ins.(*ssa.MapUpdate)
				if !ok {
					continue
				}
				mt, ok := mu.Map.Type().Underlying().(*types.Map)
				if !ok || !typeHasSuffix(mt.Elem(), "protocol.TextEdit") {
					continue
				}
				// key = <loc>.URI; the appended edit's range = <same loc>.Range; text = the new name from the request
				kp, kok := locPath(stripConv(mu.Key))
				if !kok || kp != "URI" {
					continue
				}
				keyBase := locBase(stripConv(mu.Key))
				rangeOK, textOK := false, false
				for v := range sliceUp(ciT11, mu.Value, f) {
					if p, ok := locPath(v); ok && p == "Range" && locBase(v) == keyBase {
						rangeOK = true
					}
					switch x := v.(type) {
					case *ssa.FieldAddr:
						if typeHasSuffix(x.X.Type(), "protocol.RenameParams") && types.TypeString(x.Type().Underlying().(*types.Pointer).Elem(), nil) == "string" {
							textOK = true
						}
					case *ssa.Field:
						if typeHasSuffix(x.X.Type(), "protocol.RenameParams") && types.TypeString(x.Type(), nil) == "string" {
							textOK = true
						}
					}
				}
				if rangeOK && textOK {
					ok1 = true
				}
				// the locations come from a collector asked to include declarations
				for v := range sliceUp(ciT11, mu.Key, f) {
					if call, ok := v.(*ssa.Call); ok && isLocSlice(call.Type()) {
						for _, a := range call.Common().Args {
							if k, ok := a.(*ssa.Const); ok && k.Value != nil && k.Value.Kind() == constant.Bool && constant.BoolVal(k.Value) {
								incl = true
							}
						}
					}
				}
			}
		}
	}
	c.check(ok1 && incl, "T11", c.P.declName(fd), "rename edits are a 1:1 map of the references (declarations included)", fd.Pos(),
		"one edit per location with the location's own range, grouped by the location's URI", "rename does not turn every reference location (with declarations) into exactly one edit at that location")
}

// locPath: v is (a component of) a protocol.Location value: "" for the whole location, "URI", "Range.Start.Line", ...
func locPath(v ssa.Value) (string, bool) {
	var parts []string
	for {
		switch x := v.(type) {
		case *ssa.Field:
			st := x.X.Type().Underlying().(*types.Struct)
			parts = append([]string{st.Field(x.Field).Name()}, parts...)
			if typeHasSuffix(x.X.Type(), "protocol.Location") {
				return strings.Join(parts, "."), true
			}
			v = x.X
			continue
		case *ssa.UnOp:
			if x.Op == token.MUL {
				a := x.X
				var p2 []string
				for {
					fa, ok := a.(*ssa.FieldAddr)
					if !ok {
						break
					}
					bt := fa.X.Type().Underlying().(*types.Pointer).Elem()
					p2 = append([]string{bt.Underlying().(*types.Struct).Field(fa.Field).Name()}, p2...)
					if typeHasSuffix(bt, "protocol.Location") {
						return strings.Join(append(p2, parts...), "."), true
					}
					a = fa.X
				}
				if typeHasSuffix(x.Type(), "protocol.Location") && len(parts) == 0 {
					return "", true
				}
			}
		case *ssa.Parameter:
			if typeHasSuffix(x.Type(), "protocol.Location") && len(parts) == 0 {
				return "", true
			}
		}
		if typeHasSuffix(v.Type(), "protocol.Location") {
			return strings.Join(parts, "."), true
		}
		return "", false
	}
}

func resultOrNil(f *ssa.Function) types.Type {
	if f.Signature.Results().Len() != 1 {
		return types.Typ[types.Invalid]
	}
	return f.Signature.Results().At(0).Type()
}

// locBase: the Location value (or address) a field access is rooted at.
func locBase(v ssa.Value) ssa.Value {
	for {
		switch x := v.(type) {
		case *ssa.Field:
			if typeHasSuffix(x.X.Type(), "protocol.Location") {
				return x.X
			}
			v = x.X
		case *ssa.UnOp:
			if x.Op != token.MUL {
				return v
			}
			a := x.X
			for {
				fa, ok := a.(*ssa.FieldAddr)
				if !ok {
					return a
				}
				if typeHasSuffix(fa.X.Type().Underlying().(*types.Pointer).Elem(), "protocol.Location") {
					return fa.X
				}
				a = fa.X
			}
		default:
			return v
		}
	}
}

// ruleC12Pair: the resolved tree's Files map and FileOrder slice are updated together.  On SSA: per function of
// the workspace package, the membership events on the workspace's own tree (not on a fresh copy handed out as a
// snapshot) are classified - Files: map update / delete; FileOrder: a store whose value appends an element that
// does not come from the old list (growth) or is assembled from elements of the old list only (removal), wherever
// the list manipulation lives (helpers are entered with their parameters bound).
func ruleC12Pair(c *Ctx) {
	wpk := c.P.SSAPkg("internal/workspace")
	isTreeField := func(v ssa.Value, name string) (*ssa.FieldAddr, bool) {
		fa, ok := v.(*ssa.FieldAddr)
		if !ok {
			return nil, false
		}
		pt, ok := fa.X.Type().Underlying().(*types.Pointer)
		if !ok || !typeHasSuffix(pt.Elem(), "include.ResolvedJournal") || fieldVarOfAddr(fa).Name() != name {
			return nil, false
		}
		return fa, true
	}
	// the tree pointer is the workspace's own (loaded from a struct field / a parameter), not a fresh journal
	ownTree := func(ptr ssa.Value) bool {
		switch x := ptr.(type) {
		case *ssa.Call, *ssa.Alloc:
			return false
		case *ssa.Phi:
			for _, e := range x.Edges {
				if _, isCall := e.(*ssa.Call); isCall {
					return false
				}
			}
		}
		return true
	}
	readsOldOrder := func(v ssa.Value) bool {
		for w := range backSlice(v) {
			if _, ok := isTreeField(w, "FileOrder"); ok {
				return true
			}
		}
		return false
	}
	n := 0
	for _, f := range c.P.ModuleFuncs() {
		top := f
		for top.Parent() != nil {
			top = top.Parent()
		}
		if top.Pkg != wpk {
			continue
		}
		var filesAdd, filesDel, orderAdd, orderDel int
		for _, b := range f.Blocks {
			for _, ins := range b.Instrs {
				switch x := ins.(type) {
				case *ssa.MapUpdate:
					if ld, ok := x.Map.(*ssa.UnOp); ok && ld.Op == token.MUL {
						if fa, ok := isTreeField(ld.X, "Files"); ok && ownTree(fa.X) {
							filesAdd++
						}
					}
				case *ssa.Call:
					if bi, ok := x.Call.Value.(*ssa.Builtin); ok && bi.Name() == "delete" && len(x.Call.Args) == 2 {
						if ld, ok := x.Call.Args[0].(*ssa.UnOp); ok && ld.Op == token.MUL {
							if fa, ok := isTreeField(ld.X, "Files"); ok && ownTree(fa.X) {
								filesDel++
							}
						}
					}
				case *ssa.Store:
					fa, ok := isTreeField(x.Addr, "FileOrder")
					if !ok || !ownTree(fa.X) {
						continue
					}
					// the appends that build the stored list itself (not those behind scalar operands such as the path)
					grows, shrinks := false, false
					apps := listBuilders(x.Val, nil, 0, map[ssa.Value]bool{})
					for _, call := range apps {
						if sl, ok := call.Call.Args[1].(*ssa.Slice); ok {
							if arr, ok := sl.X.(*ssa.Alloc); ok {
								// append(s, e1, e2...): the elements stored into the fresh array
								for _, r := range *arr.Referrers() {
									ia, ok := r.(*ssa.IndexAddr)
									if !ok {
										continue
									}
									for _, r2 := range *ia.Referrers() {
										if st, ok := r2.(*ssa.Store); ok {
											if sliceOfWithStack(st.Val, call, x.Val) {
												shrinks = true
											} else {
												grows = true
											}
										}
									}
								}
								continue
							}
						}
						// append(a, b...): a spread of an existing list
						if readsOldOrderVia(call.Call.Args[1], x.Val) {
							shrinks = true
						} else {
							grows = true
						}
					}
					if len(apps) == 0 {
						// a re-slice or another value derived from the old list: elements are dropped at most
						if readsOldOrder(x.Val) {
							shrinks = true
						} else {
							grows = true
						}
					}
					if grows {
						orderAdd++
					}
					if shrinks && !grows {
						orderDel++
					}
				}
			}
		}
		if filesAdd+filesDel+orderAdd+orderDel == 0 {
			continue
		}
		n++
		okPair := (filesAdd > 0) == (orderAdd > 0) && (filesDel > 0) == (orderDel > 0)
		c.check(okPair, "C12-PAIR", funcName(f), "Files and FileOrder updated together", f.Pos(),
			fmt.Sprintf("adds: Files %d / FileOrder %d, removals: Files %d / FileOrder %d", filesAdd, orderAdd, filesDel, orderDel),
			fmt.Sprintf("the resolved tree's Files map and FileOrder slice are not updated together (adds: Files %d / FileOrder %d, removals: Files %d / FileOrder %d): a file dropped from the tree stays visible to consumers of the other structure", filesAdd, orderAdd, filesDel, orderDel))
	}
	c.census("C12-PAIR", "workspace functions that modify the resolved tree's membership", n, 2)
}

// sliceOfWithStack: the appended element e (found inside the slice of root, possibly in a helper) derives from
// the tree's old FileOrder.  The element is sliced in the context it was reached in: helper parameters are
// bound by re-slicing root and intersecting - an element that derives from the old list has, in the whole
// slice of root restricted to what e depends on, a read of the tree's FileOrder.
func sliceOfWithStack(e ssa.Value, appendCall ssa.Value, root ssa.Value) bool {
	// direct: e's own slice reads the old list (same function)
	direct := backSlice(e)
	for w := range direct {
		if fa, ok := w.(*ssa.FieldAddr); ok {
			if pt, ok := fa.X.Type().Underlying().(*types.Pointer); ok && typeHasSuffix(pt.Elem(), "include.ResolvedJournal") && fieldVarOfAddr(fa).Name() == "FileOrder" {
				return true
			}
		}
	}
	// through a helper: e depends on a parameter of the helper that is a list (the old list handed in), not on
	// a scalar parameter (the path to add)
	for w := range direct {
		if p, ok := w.(*ssa.Parameter); ok {
			if _, isSlice := p.Type().Underlying().(*types.Slice); isSlice {
				return true
			}
		}
	}
	return false
}

// readsOldOrderVia: the spread operand derives from a list (the old FileOrder or a list parameter of a helper).
func readsOldOrderVia(v ssa.Value, root ssa.Value) bool {
	for w := range backSlice(v) {
		if fa, ok := w.(*ssa.FieldAddr); ok {
			if pt, ok := fa.X.Type().Underlying().(*types.Pointer); ok && typeHasSuffix(pt.Elem(), "include.ResolvedJournal") && fieldVarOfAddr(fa).Name() == "FileOrder" {
				return true
			}
		}
		if p, ok := w.(*ssa.Parameter); ok {
			if _, isSlice := p.Type().Underlying().(*types.Slice); isSlice {
				return true
			}
		}
	}
	return false
}

// undeclaredCommodityCheck: the analyzer function whose diagnostics carry a code mentioning COMMODITY.
func undeclaredCommodityCheck(p *Prog) *ast.FuncDecl {
	return p.FindDecl("internal/analyzer", func(fd *ast.FuncDecl, info *types.Info) bool {
		found := false
		ast.Inspect(fd.Body, func(x ast.Node) bool {
			if kv, ok := x.(*ast.KeyValueExpr); ok && identOf(kv.Key).Name == "Code" {
				if s, ok := stringConst(info, kv.Value); ok && strings.Contains(s, "COMMODITY") {
					found = true
				}
			}
			return true
		})
		return found
	})
}

// commodityReferenceCollector: the reference collector (returns []protocol.Location) that selects .Commodity -
// itself or in a helper it calls.
func commodityReferenceCollector(p *Prog) *ast.FuncDecl {
	var selects func(fd *ast.FuncDecl, depth int, seen map[*ast.FuncDecl]bool) bool
	selects = func(fd *ast.FuncDecl, depth int, seen map[*ast.FuncDecl]bool) bool {
		if fd == nil || fd.Body == nil || seen[fd] || depth > 3 {
			return false
		}
		seen[fd] = true
		info := p.InfoFor(fd)
		sel := false
		ast.Inspect(fd.Body, func(x ast.Node) bool {
			switch n := x.(type) {
			case *ast.SelectorExpr:
				if n.Sel.Name == "Commodity" {
					if t := info.TypeOf(n.X); t != nil && (typeHasSuffix(t, "ast.Amount") || typeHasSuffix(t, "ast.Cost")) {
						sel = true
					}
				}
			case *ast.CallExpr:
				if o, ok := calleeOf(info, n).(*types.Func); ok {
					if d := p.declOf[o]; d != nil && p.pkgOf[d] == p.pkgOf[fd] && selects(d, depth+1, seen) {
						sel = true
					}
				}
			}
			return true
		})
		return sel
	}
	var cands []*ast.FuncDecl
	for _, fd := range p.AllFuncDecls() {
		if p.pkgOf[fd] != p.ByRel["internal/server"] || fd.Recv != nil {
			continue
		}
		info := p.InfoFor(fd)
		rt := resultTypes(fd, info)
		if len(rt) != 1 || rt[0] != "[]go.lsp.dev/protocol.Location" {
			continue
		}
		if selects(fd, 0, map[*ast.FuncDecl]bool{}) {
			cands = append(cands, fd)
		}
	}
	// a dispatcher that merely hands over to the collector is not the collector: take the candidate that calls
	// no other candidate
	isCand := map[*ast.FuncDecl]bool{}
	for _, cnd := range cands {
		isCand[cnd] = true
	}
	for _, cnd := range cands {
		info := p.InfoFor(cnd)
		callsCand := false
		ast.Inspect(cnd.Body, func(x ast.Node) bool {
			if call, ok := x.(*ast.CallExpr); ok {
				if o, ok := calleeOf(info, call).(*types.Func); ok {
					if d := p.declOf[o]; d != nil && d != cnd && isCand[d] {
						callsCand = true
					}
				}
			}
			return true
		})
		if !callsCand {
			return cnd
		}
	}
	return nil
}

// appendsToParam: the function contains `append(p, ...)` for one of its slice parameters p.
func appendsToParam(p *Prog, decl *ast.FuncDecl) bool {
	info := p.InfoFor(decl)
	found := false
	ast.Inspect(decl.Body, func(n ast.Node) bool {
		if call, ok := n.(*ast.CallExpr); ok && identOf(call.Fun).Name == "append" && len(call.Args) >= 2 && !call.Ellipsis.IsValid() {
			if v, ok := info.Uses[identOf(call.Args[0])].(*types.Var); ok && isParamOfDecl(info, decl, v) {
				found = true
			}
		}
		return true
	})
	return found
}

// returnsEarlyWhenPresent: the function has a guard that returns and whose condition is a membership
// test of one parameter in another: `v == target` inside a range over the slice parameter, or
// slices.Contains(values, target) (or a module function of that shape).
func returnsEarlyWhenPresent(p *Prog, decl *ast.FuncDecl) bool {
	info := p.InfoFor(decl)
	isParam := func(e ast.Expr) bool {
		v, ok := info.Uses[identOf(e)].(*types.Var)
		return ok && isParamOfDecl(info, decl, v)
	}
	for _, g := range guardsIn(decl.Body) {
		if !stmtsContain(g.Body, func(m ast.Node) bool { _, ok := m.(*ast.ReturnStmt); return ok }) {
			continue
		}
		switch x := ast.Unparen(g.Cond).(type) {
		case *ast.BinaryExpr:
			if x.Op == token.EQL {
				// one side is the range value of a loop over a parameter, the other a parameter
				for _, pr := range [][2]ast.Expr{{x.X, x.Y}, {x.Y, x.X}} {
					if !isParam(pr[1]) {
						continue
					}
					vobj := info.Uses[identOf(pr[0])]
					if vobj == nil {
						continue
					}
					ok := false
					ast.Inspect(decl.Body, func(n ast.Node) bool {
						if rs, isR := n.(*ast.RangeStmt); isR && rs.Value != nil && info.Defs[identOf(rs.Value)] == vobj && isParam(rs.X) {
							ok = true
						}
						return true
					})
					if ok {
						return true
					}
				}
			}
		case *ast.CallExpr:
			if len(x.Args) == 2 && isParam(x.Args[0]) && isParam(x.Args[1]) {
				if q := qualName(calleeOf(info, x)); q == "slices.Contains" {
					return true
				}
			}
		}
	}
	return false
}

// delegatesTo: the function body is a single `return g(...)` with g satisfying pred.
func delegatesTo(info *types.Info, fd *ast.FuncDecl, pred func(*types.Func) bool) bool {
	if len(fd.Body.List) != 1 {
		return false
	}
	r, ok := fd.Body.List[0].(*ast.ReturnStmt)
	if !ok || len(r.Results) != 1 {
		return false
	}
	call, ok := ast.Unparen(r.Results[0]).(*ast.CallExpr)
	if !ok {
		return false
	}
	o, ok := calleeOf(info, call).(*types.Func)
	return ok && pred(o)
}

// reachesBlock: b is reachable from a.
func reachesBlock(a, b *ssa.BasicBlock) bool {
	seen := map[*ssa.BasicBlock]bool{}
	w := []*ssa.BasicBlock{a}
	for len(w) > 0 {
		x := w[len(w)-1]
		w = w[:len(w)-1]
		if x == b {
			return true
		}
		if seen[x] {
			continue
		}
		seen[x] = true
		w = append(w, x.Succs...)
	}
	return false
}

// blockAfterUse: every path from the entry of f to block b passes an instruction that reads the parameter
// (a comparison, a field access): the return in b is not taken before the parameter was looked at.
func blockAfterUse(f *ssa.Function, b *ssa.BasicBlock, p *ssa.Parameter) bool {
	uses := map[*ssa.BasicBlock]bool{}
	if refs := p.Referrers(); refs != nil {
		for _, r := range *refs {
			uses[r.Block()] = true
		}
	}
	if uses[b] {
		return true
	}
	// reach b from the entry avoiding blocks that use p
	seen := map[*ssa.BasicBlock]bool{}
	w := []*ssa.BasicBlock{f.Blocks[0]}
	for len(w) > 0 {
		x := w[len(w)-1]
		w = w[:len(w)-1]
		if seen[x] || uses[x] {
			continue
		}
		seen[x] = true
		if x == b {
			return false
		}
		w = append(w, x.Succs...)
	}
	return true
}

// sameLoad: two values are the same, or loads of the same location (go/ssa has no common subexpression
// elimination: `p.Amount` read twice gives two loads of structurally identical addresses).
func sameLoad(a, b ssa.Value) bool {
	if a == b {
		return true
	}
	la, ok1 := a.(*ssa.UnOp)
	lb, ok2 := b.(*ssa.UnOp)
	if !ok1 || !ok2 || la.Op != token.MUL || lb.Op != token.MUL {
		return false
	}
	return sameAddr(la.X, lb.X, 0)
}

func sameAddr(a, b ssa.Value, depth int) bool {
	if a == b {
		return true
	}
	if depth > 6 {
		return false
	}
	switch x := a.(type) {
	case *ssa.FieldAddr:
		y, ok := b.(*ssa.FieldAddr)
		return ok && x.Field == y.Field && sameAddr(x.X, y.X, depth+1)
	case *ssa.IndexAddr:
		y, ok := b.(*ssa.IndexAddr)
		return ok && x.Index == y.Index && (sameAddr(x.X, y.X, depth+1) || sameLoad(x.X, y.X))
	case *ssa.UnOp:
		return sameLoad(a, b)
	}
	return false
}

func sliceHasParamOf(sl map[ssa.Value]bool, f *ssa.Function) bool {
	for v := range sl {
		if p, ok := v.(*ssa.Parameter); ok && p.Parent() == f {
			return true
		}
	}
	return false
}

// treeFieldRead: the slice reads field `name` of an include.ResolvedJournal.
func treeFieldRead(sl map[ssa.Value]bool, name string) bool {
	for v := range sl {
		switch x := v.(type) {
		case *ssa.FieldAddr:
			bt := x.X.Type().Underlying().(*types.Pointer).Elem()
			if typeHasSuffix(bt, "include.ResolvedJournal") && bt.Underlying().(*types.Struct).Field(x.Field).Name() == name {
				return true
			}
		case *ssa.Field:
			if typeHasSuffix(x.X.Type(), "include.ResolvedJournal") && x.X.Type().Underlying().(*types.Struct).Field(x.Field).Name() == name {
				return true
			}
		}
	}
	return false
}

// enclosingListLoops: the lists whose index loops (`i < len(L)`) control the block and contain it.
func enclosingListLoops(b *ssa.BasicBlock) []ssa.Value {
	var out []ssa.Value
	for _, cc := range controlCondsPol(b) {
		bo, ok := cc.Cond.(*ssa.BinOp)
		if !ok || bo.Op != token.LSS || !cc.Taken {
			continue
		}
		call, ok := bo.Y.(*ssa.Call)
		if !ok {
			continue
		}
		if bi, ok := call.Call.Value.(*ssa.Builtin); !ok || bi.Name() != "len" || len(call.Call.Args) != 1 {
			continue
		}
		if !inCycle(bo.Block()) || !reachesBlock(b, bo.Block()) {
			continue
		}
		out = append(out, call.Call.Args[0])
	}
	return out
}

// listContrib: source -> multiplicity (100 and more = many) of what the list returned by f is made of.
func listContrib(f *ssa.Function, depth int, busy map[*ssa.Function]bool) map[string]int {
	out := map[string]int{}
	if f == nil || f.Blocks == nil || depth > 4 || busy[f] {
		return out
	}
	busy[f] = true
	defer delete(busy, f)
	// the values returned
	ret := map[ssa.Value]bool{}
	for _, b := range f.Blocks {
		for _, ins := range b.Instrs {
			if r, ok := ins.(*ssa.Return); ok && len(r.Results) >= 1 {
				rv := unspillResult(r.Results[0], b)
				// a plain hand-over: `return helper(r, ...)`
				if call, ok := rv.(*ssa.Call); ok {
					if cal := call.Call.StaticCallee(); cal != nil && inModule(cal) && cal.Blocks != nil {
						for k, v := range listContrib(cal, depth+1, busy) {
							out[k] += v
						}
						continue
					}
				}
				for v := range backSlice(rv) {
					ret[v] = true
				}
			}
		}
	}
	// appends in the body of a loop over an iterator function (`for j := range r.journals()`): the body is a
	// function of its own; each append in it (outside loops of its own) contributes, per invocation, whatever the
	// iterator yields - and the iterator's yield sites are classified like append sites
	for _, y := range f.AnonFuncs {
		// ... the same holds for an explicit visitor: `r.eachJournal(func(j *ast.Journal) { result = append(...) })`
		var iters []*ssa.Function
		for _, b := range f.Blocks {
			for _, ins := range b.Instrs {
				mc, ok := ins.(*ssa.MakeClosure)
				if !ok || mc.Fn != ssa.Value(y) {
					continue
				}
				for _, r := range *mc.Referrers() {
					if c, ok := r.(*ssa.Call); ok && c.Call.Value != ssa.Value(mc) {
						iters = append(iters, receiversOfCall(c)...)
					}
				}
			}
		}
		for _, b := range y.Blocks {
			for _, ins := range b.Instrs {
				call, ok := ins.(*ssa.Call)
				if !ok || !ret[call] {
					continue
				}
				if bi, ok := call.Call.Value.(*ssa.Builtin); !ok || bi.Name() != "append" || len(call.Call.Args) < 2 {
					continue
				}
				mult := 1
				if inCycle(b) {
					mult = 100
				}
				if len(iters) == 0 {
					out["F"] += 100 // an iterator that cannot be resolved: multiplicity unknown
				}
				for _, it := range iters {
					for k, v := range yieldContrib(it) {
						out[k] += v * mult
					}
				}
			}
		}
	}
	for _, b := range f.Blocks {
		for _, ins := range b.Instrs {
			call, ok := ins.(*ssa.Call)
			if !ok || !ret[call] {
				continue
			}
			if bi, ok := call.Call.Value.(*ssa.Builtin); !ok || bi.Name() != "append" || len(call.Call.Args) < 2 {
				continue
			}
			sl := backSlice(call.Call.Args[1])
			loops := enclosingListLoops(b)
			mult := 1
			if inCycle(b) && len(loops) != 1 {
				mult = 100
			}
			// a walk over the Files map: neither order nor multiplicity are the listed ones
			for v := range sl {
				if ex, ok := v.(*ssa.Extract); ok {
					if nx, ok := ex.Tuple.(*ssa.Next); ok {
						if rg, ok := nx.Iter.(*ssa.Range); ok {
							if _, isMap := rg.X.Type().Underlying().(*types.Map); isMap && treeFieldRead(backSlice(rg.X), "Files") {
								out["F"] += 100
							}
						}
					}
				}
			}
			if inCycle(b) && len(loops) == 1 {
				lsl := backSlice(loops[0])
				// the loop runs over an intermediate list built by a module function: its elements stand for
				// that list's sources
				var inner map[string]int
				if lc, ok := stripConv(loops[0]).(*ssa.Call); ok {
					if cal := lc.Call.StaticCallee(); cal != nil && inModule(cal) && cal.Blocks != nil {
						inner = listContrib(cal, depth+1, busy)
					}
				}
				switch {
				case inner != nil && len(inner) > 0:
					for k, v := range inner {
						out[k] += v * mult
					}
					continue
				case treeFieldRead(lsl, "FileOrder"):
					if treeFieldRead(sl, "Files") || treeFieldRead(sl, "FileOrder") {
						out["F"] += mult
					}
					if treeFieldRead(sl, "Primary") {
						out["P"] += 100 // the primary once per listed file
					}
					continue
				default:
					// a loop over something else
					if treeFieldRead(sl, "Primary") {
						out["P"] += 100
					}
					if treeFieldRead(sl, "Files") {
						out["F"] += 100
					}
					continue
				}
			}
			if treeFieldRead(sl, "Primary") {
				out["P"] += mult
			}
			if treeFieldRead(sl, "Files") && !inCycle(b) {
				out["F"] += 100 // files added outside any loop over FileOrder
			}
		}
	}
	return out
}

type balanceAddSite struct {
	call    *ssa.Call
	guarded bool   // control dependent on the posting's amount being present
	desc    string // what is accumulated where, as access paths below the posting
}

// balanceAddSites: the decimal Add calls that accumulate <posting>.Amount.Quantity, in f or in functions of its
// package that f reaches through static calls.
func balanceAddSites(c *Ctx, f *ssa.Function) []balanceAddSite {
	if f == nil {
		return nil
	}
	var fns []*ssa.Function
	seen := map[*ssa.Function]bool{}
	var walk func(g *ssa.Function, depth int)
	walk = func(g *ssa.Function, depth int) {
		if g == nil || g.Blocks == nil || seen[g] || depth > 4 {
			return
		}
		seen[g] = true
		fns = append(fns, g)
		for _, b := range g.Blocks {
			for _, ins := range b.Instrs {
				if call, ok := ins.(ssa.CallInstruction); ok {
					if cal := call.Common().StaticCallee(); cal != nil && cal.Pkg == f.Pkg {
						walk(cal, depth+1)
					}
				}
			}
		}
		for _, a := range g.AnonFuncs {
			walk(a, depth+1) // visitors and loop bodies over iterators
		}
	}
	walk(f, 0)
	var out []balanceAddSite
	for _, g := range fns {
		for _, blk := range g.Blocks {
			for _, ins := range blk.Instrs {
				call, ok := ins.(*ssa.Call)
				if !ok {
					continue
				}
				cal := call.Common().StaticCallee()
				if cal == nil || cal.Name() != "Add" || cal.Pkg == nil || cal.Pkg.Pkg.Path() != decimalPkg {
					continue
				}
				var amountPtr ssa.Value
				for _, a := range call.Common().Args {
					for v := range backSlice(a) {
						if fa, ok := v.(*ssa.FieldAddr); ok {
							bt := fa.X.Type().Underlying().(*types.Pointer).Elem()
							if typeHasSuffix(bt, "/ast.Amount") && bt.Underlying().(*types.Struct).Field(fa.Field).Name() == "Quantity" {
								amountPtr = fa.X
							}
						}
					}
				}
				guarded := false
				if amountPtr == nil {
					// the quantity is a parameter of a helper (`balances.add(account, commodity, quantity)`): it is read from
					// the posting at the helper's call sites, where the nil test sits as well
					for _, a := range call.Common().Args {
						prm, isParam := stripConv(a).(*ssa.Parameter)
						if !isParam || prm.Parent() != g {
							continue
						}
						idx := -1
						for i, q := range g.Params {
							if q == prm {
								idx = i
							}
						}
						sites := (cgView{c}).callersOf(g)
						all := len(sites) > 0 && idx >= 0
						for _, site := range sites {
							okSite := false
							if idx < len(site.Common().Args) {
								for v := range backSlice(site.Common().Args[idx]) {
									fa, ok := v.(*ssa.FieldAddr)
									if !ok {
										continue
									}
									bt := fa.X.Type().Underlying().(*types.Pointer).Elem()
									if !typeHasSuffix(bt, "/ast.Amount") || bt.Underlying().(*types.Struct).Field(fa.Field).Name() != "Quantity" {
										continue
									}
									amountPtr = fa.X
									for _, cc := range controlCondsPol(site.Block()) {
										bo, ok := cc.Cond.(*ssa.BinOp)
										if !ok {
											continue
										}
										isNil := func(x, y ssa.Value) bool {
											k, isK := y.(*ssa.Const)
											return isK && k.IsNil() && (x == fa.X || sameLoad(x, fa.X))
										}
										if (isNil(bo.X, bo.Y) || isNil(bo.Y, bo.X)) && ((bo.Op == token.NEQ && cc.Taken) || (bo.Op == token.EQL && !cc.Taken)) {
											okSite = true
										}
									}
								}
							}
							if !okSite {
								all = false
							}
						}
						if amountPtr != nil {
							guarded = all
						}
					}
				}
				if amountPtr == nil {
					continue
				}
				for _, cc := range controlCondsPol(blk) {
					bo, ok := cc.Cond.(*ssa.BinOp)
					if !ok {
						continue
					}
					isNilCmp := func(x, y ssa.Value) bool {
						k, isK := y.(*ssa.Const)
						return isK && k.IsNil() && sameLoad(x, amountPtr)
					}
					if (isNilCmp(bo.X, bo.Y) || isNilCmp(bo.Y, bo.X)) && ((bo.Op == token.NEQ && cc.Taken) || (bo.Op == token.EQL && !cc.Taken)) {
						guarded = true
					}
				}
				// the amount is handed to a visitor / loop body by value or by pointer: the nil test sits where the
				// callback is invoked
				if !guarded {
					var cbParam *ssa.Parameter
					switch r := amountPtr.(type) {
					case *ssa.Parameter:
						cbParam = r
					case *ssa.Alloc:
						for _, ref := range *r.Referrers() {
							if st, ok := ref.(*ssa.Store); ok && st.Addr == ssa.Value(r) {
								if p, ok := st.Val.(*ssa.Parameter); ok {
									cbParam = p
								}
							}
						}
					}
					if cbParam != nil && g.Parent() != nil {
						invs := callbackInvocations(cbParam)
						all := len(invs) > 0
						for _, inv := range invs {
							ptr := inv.arg
							if ld, ok := ptr.(*ssa.UnOp); ok && ld.Op == token.MUL {
								if _, isPtr := ld.X.Type().Underlying().(*types.Pointer); isPtr {
									ptr = ld.X // passed by value: *ptr
								}
							}
							okInv := false
							for _, cc := range controlCondsPol(inv.call.Block()) {
								bo, ok := cc.Cond.(*ssa.BinOp)
								if !ok {
									continue
								}
								isNil := func(x, y ssa.Value) bool {
									k, isK := y.(*ssa.Const)
									return isK && k.IsNil() && (x == ptr || sameLoad(x, ptr))
								}
								if (isNil(bo.X, bo.Y) || isNil(bo.Y, bo.X)) && ((bo.Op == token.NEQ && cc.Taken) || (bo.Op == token.EQL && !cc.Taken)) {
									okInv = true
								}
							}
							if !okInv {
								all = false
							}
						}
						guarded = all
					}
				}
				// the amount is a parameter of a helper: the nil test sits at the helper's call sites
				if prm, isParam := amountPtr.(*ssa.Parameter); isParam && !guarded {
					idx := -1
					for i, q := range g.Params {
						if q == prm {
							idx = i
						}
					}
					sites := (cgView{c}).callersOf(g)
					all := len(sites) > 0 && idx >= 0
					if os.Getenv("HLDEBUG") == "t10" {
						fmt.Fprintf(os.Stderr, "T10 helper %s idx=%d sites=%d\n", funcName(g), idx, len(sites))
					}
					for _, site := range sites {
						okSite := false
						if idx < len(site.Common().Args) {
							arg := site.Common().Args[idx]
							for _, cc := range controlCondsPol(site.Block()) {
								bo, ok := cc.Cond.(*ssa.BinOp)
								if !ok {
									continue
								}
								isNil := func(x, y ssa.Value) bool {
									k, isK := y.(*ssa.Const)
									return isK && k.IsNil() && (x == arg || sameLoad(x, arg))
								}
								if (isNil(bo.X, bo.Y) || isNil(bo.Y, bo.X)) && ((bo.Op == token.NEQ && cc.Taken) || (bo.Op == token.EQL && !cc.Taken)) {
									okSite = true
								}
							}
						}
						if !okSite {
							all = false
						}
					}
					guarded = all
				}
				// where the sum goes: the map update that stores the result, its keys as access paths of the posting
				cg := cgView{c}
				desc := ""
				var argDescs []string
				for _, a := range call.Common().Args {
					if d := postingFieldDesc(cg, a, 0); d != "" {
						argDescs = append(argDescs, d)
					}
				}
				sort.Strings(argDescs)
				for _, b2 := range g.Blocks {
					for _, i2 := range b2.Instrs {
						mu, ok := i2.(*ssa.MapUpdate)
						if !ok || !(mu.Value == ssa.Value(call) || backSlice(mu.Value)[call]) {
							continue
						}
						inner := postingFieldDesc(cg, mu.Key, 0)
						outer := ""
						for w := range backSlice(mu.Map) {
							if lk, ok := w.(*ssa.Lookup); ok {
								if d := postingFieldDesc(cg, lk.Index, 0); d != "" {
									outer = d
								}
							}
						}
						desc = fmt.Sprintf("sum[%s][%s] += %s", outer, inner, strings.Join(argDescs, ","))
					}
				}
				out = append(out, balanceAddSite{call, guarded, desc})
			}
		}
	}
	return out
}

// listBuilders: the append calls that produce the list value v: followed through phis, re-slices, local
// variables and module functions that return a list (whose list-typed parameters are followed to the
// arguments); scalar operands (an element to compare with, a path) are not entered.
func listBuilders(v ssa.Value, stack []*ssa.Call, depth int, seen map[ssa.Value]bool) []*ssa.Call {
	if v == nil || depth > 12 || seen[v] {
		return nil
	}
	seen[v] = true
	if _, isSlice := v.Type().Underlying().(*types.Slice); !isSlice {
		return nil
	}
	var out []*ssa.Call
	switch x := v.(type) {
	case *ssa.Call:
		if bi, ok := x.Call.Value.(*ssa.Builtin); ok {
			if bi.Name() == "append" && len(x.Call.Args) == 2 {
				out = append(out, x)
				out = append(out, listBuilders(x.Call.Args[0], stack, depth+1, seen)...)
			}
			return out
		}
		if cal := x.Call.StaticCallee(); cal != nil && cal.Blocks != nil && inModule(cal) && len(stack) < 3 {
			for _, b := range cal.Blocks {
				for _, ins := range b.Instrs {
					if r, ok := ins.(*ssa.Return); ok && len(r.Results) >= 1 {
						out = append(out, listBuilders(unspillResult(r.Results[0], b), append(append([]*ssa.Call{}, stack...), x), depth+1, seen)...)
					}
				}
			}
		}
	case *ssa.Phi:
		for _, e := range x.Edges {
			out = append(out, listBuilders(e, stack, depth+1, seen)...)
		}
	case *ssa.Slice:
		out = append(out, listBuilders(x.X, stack, depth+1, seen)...)
	case *ssa.Parameter:
		if n := len(stack); n > 0 {
			call := stack[n-1]
			if cal := call.Call.StaticCallee(); cal != nil {
				for i, p := range cal.Params {
					if p == x && i < len(call.Call.Args) {
						out = append(out, listBuilders(call.Call.Args[i], stack[:n-1], depth+1, seen)...)
					}
				}
			}
		}
	case *ssa.UnOp:
		if x.Op == token.MUL {
			if al, ok := x.X.(*ssa.Alloc); ok {
				for _, r := range *al.Referrers() {
					if st, ok := r.(*ssa.Store); ok && st.Addr == ssa.Value(al) {
						out = append(out, listBuilders(st.Val, stack, depth+1, seen)...)
					}
				}
			}
		}
	}
	return out
}

// yieldContrib: what an iterator function hands to its consumer, and how often: its yield calls classified like
// the append sites of listContrib (primary journal outside loops: P once; the file at the current position of a
// loop over FileOrder: F once per position; anything else: many).
func yieldContrib(it *ssa.Function) map[string]int {
	out := map[string]int{}
	if it == nil || len(it.Params) == 0 {
		return out
	}
	yp := it.Params[len(it.Params)-1]
	for _, b := range it.Blocks {
		for _, ins := range b.Instrs {
			d, ok := ins.(*ssa.Call)
			if !ok || d.Call.Value != ssa.Value(yp) {
				continue
			}
			sl := map[ssa.Value]bool{}
			for _, a := range d.Call.Args {
				for v := range backSlice(a) {
					sl[v] = true
				}
			}
			loops := enclosingListLoops(b)
			switch {
			case !inCycle(b):
				if treeFieldRead(sl, "Primary") {
					out["P"]++
				}
				if treeFieldRead(sl, "Files") {
					out["F"] += 100
				}
			case len(loops) == 1 && treeFieldRead(backSlice(loops[0]), "FileOrder"):
				if treeFieldRead(sl, "Files") || treeFieldRead(sl, "FileOrder") {
					out["F"]++
				}
				if treeFieldRead(sl, "Primary") {
					out["P"] += 100
				}
			default:
				if treeFieldRead(sl, "Primary") {
					out["P"] += 100
				}
				if treeFieldRead(sl, "Files") || treeFieldRead(sl, "FileOrder") {
					out["F"] += 100
				}
			}
		}
	}
	return out
}

// setInsertion: the instruction puts a key into a set-like map: a map update, or a call of a helper whose only
// map update stores its key parameter into its map parameter (`set.add(k)`).
func setInsertion(ins ssa.Instruction) (m, key ssa.Value, ok bool) {
	switch x := ins.(type) {
	case *ssa.MapUpdate:
		return x.Map, x.Key, true
	case *ssa.Call:
		h := x.Call.StaticCallee()
		if h == nil || h.Blocks == nil || !inModule(h) {
			return nil, nil, false
		}
		var mu *ssa.MapUpdate
		n := 0
		for _, b := range h.Blocks {
			for _, i2 := range b.Instrs {
				if u, ok := i2.(*ssa.MapUpdate); ok {
					n++
					mu = u
				}
			}
		}
		if n != 1 {
			return nil, nil, false
		}
		bind := func(v ssa.Value) ssa.Value {
			if p, ok := stripConv(v).(*ssa.Parameter); ok && p.Parent() == h {
				for i, q := range h.Params {
					if q == p && i < len(x.Call.Args) {
						return x.Call.Args[i]
					}
				}
			}
			return nil
		}
		mm, kk := bind(mu.Map), bind(mu.Key)
		if mm == nil || kk == nil {
			return nil, nil, false
		}
		return mm, kk, true
	}
	return nil, nil, false
}
