package main

// Engine I (DESIGN §3.I): the completion pipeline (go/ssa + dominance).

import (
	"fmt"
	"go/token"
	"go/types"
	"strings"

	"golang.org/x/tools/go/ssa"
)

func fieldAddrNamed(v ssa.Value, name string) bool {
	fa, ok := v.(*ssa.FieldAddr)
	if !ok {
		return false
	}
	pt, ok := fa.X.Type().Underlying().(*types.Pointer)
	if !ok {
		return false
	}
	st, ok := pt.Elem().Underlying().(*types.Struct)
	return ok && st.Field(fa.Field).Name() == name
}

func sliceHasFieldRead(sl map[ssa.Value]bool, name string) bool {
	for v := range sl {
		if fieldAddrNamed(v, name) {
			return true
		}
		if f, ok := v.(*ssa.Field); ok {
			if st, ok := f.X.Type().Underlying().(*types.Struct); ok && st.Field(f.Field).Name() == name {
				return true
			}
		}
	}
	return false
}

func rulePipeline(c *Ctx) {
	spk := c.P.SSAPkg("internal/server")
	var h *ssa.Function
	for _, f := range c.P.ModuleFuncs() {
		if f.Pkg == spk && f.Signature.Recv() != nil && f.Signature.Params().Len() == 2 && typeHasSuffix(f.Signature.Params().At(1).Type(), "protocol.CompletionParams") {
			h = f
		}
	}
	if h == nil {
		c.undecided("I-ORDER", "server", "completion handler", token.NoPos, "no Server method taking *protocol.CompletionParams")
		return
	}
	hname := funcName(h)
	sm := settingsModel(c, false)
	limitField := sm.fieldForKey("completion.maxResults", "MaxResults")
	fuzzyField := sm.fieldForKey("completion.fuzzyMatching", "FuzzyMatching")
	// the Items value of the returned list on the main path (the list that is filled from ranked items)
	var itemsVals []ssa.Value
	for _, b := range h.Blocks {
		for _, ins := range b.Instrs {
			st, ok := ins.(*ssa.Store)
			if !ok || !fieldAddrNamed(st.Addr, "Items") {
				continue
			}
			if !typeHasSuffix(st.Addr.(*ssa.FieldAddr).X.Type(), "protocol.CompletionList") {
				continue
			}
			itemsVals = append(itemsVals, st.Val)
		}
	}
	isRank := func(v ssa.Value) *ssa.Call {
		call, ok := v.(*ssa.Call)
		if !ok {
			return nil
		}
		cal := call.Common().StaticCallee()
		if cal == nil || len(cal.Params) == 0 {
			return nil
		}
		if cal.Signature.Results().Len() == 1 && isScoredSlice(cal.Params[0].Type()) && strings.HasSuffix(types.TypeString(cal.Signature.Results().At(0).Type(), nil), "[]go.lsp.dev/protocol.CompletionItem") {
			return call
		}
		return nil
	}
	nMain := 0
	for _, v := range itemsVals {
		// skip the empty list returned when the document is unknown (slice of a fresh zero-length array)
		if sl, ok := v.(*ssa.Slice); ok {
			if _, isAlloc := sl.X.(*ssa.Alloc); isAlloc {
				continue
			}
		}
		nMain++
		// the values the list can be: merge points are split, and a helper of the package that hands its list
		// parameter on (unchanged, or as a prefix) is entered with its parameters bound to the call's arguments
		type edgeT struct {
			v    ssa.Value
			bind map[ssa.Value]ssa.Value
		}
		resolve := func(x ssa.Value, bind map[ssa.Value]ssa.Value) ssa.Value {
			for range 4 {
				b, ok := bind[stripConv(x)]
				if !ok {
					break
				}
				x = b
			}
			return x
		}
		var edgesB []edgeT
		var expand func(x ssa.Value, bind map[ssa.Value]ssa.Value, depth int)
		expand = func(x ssa.Value, bind map[ssa.Value]ssa.Value, depth int) {
			x = resolve(x, bind)
			if phi, ok := x.(*ssa.Phi); ok && depth < 4 {
				for _, e := range phi.Edges {
					expand(e, bind, depth+1)
				}
				return
			}
			if call, ok := x.(*ssa.Call); ok && isRank(x) == nil && depth < 4 {
				if cal := call.Call.StaticCallee(); cal != nil && cal.Pkg == spk && cal.Blocks != nil && cal.Signature.Results().Len() == 1 {
					nb := map[ssa.Value]ssa.Value{}
					for k, w := range bind {
						nb[k] = w
					}
					for i, p := range cal.Params {
						if i < len(call.Call.Args) {
							nb[p] = resolve(call.Call.Args[i], bind)
						}
					}
					n := 0
					for _, b := range cal.Blocks {
						if r, ok := b.Instrs[len(b.Instrs)-1].(*ssa.Return); ok {
							n++
							expand(unspillResult(r.Results[0], b), nb, depth+1)
						}
					}
					if n > 0 {
						return
					}
				}
			}
			edgesB = append(edgesB, edgeT{x, bind})
		}
		expand(v, map[ssa.Value]ssa.Value{}, 0)
		sliceB := func(x ssa.Value, bind map[ssa.Value]ssa.Value) map[ssa.Value]bool {
			out := backSlice(x)
			for w := range out {
				if b, ok := bind[w]; ok {
					for z := range backSlice(resolve(b, bind)) {
						out[z] = true
					}
				}
			}
			return out
		}
		var rank *ssa.Call
		okShape := true
		why := ""
		nSlice := 0
		for _, eb := range edgesB {
			e, bind := eb.v, eb.bind
			if r := isRank(e); r != nil {
				rank = r
				continue
			}
			sl, ok := e.(*ssa.Slice)
			if !ok {
				okShape = false
				why = "the returned list is neither the ranked list nor a prefix slice of it (" + e.String() + ")"
				continue
			}
			r := isRank(resolve(sl.X, bind))
			if r == nil {
				okShape = false
				why = "the list is truncated before ranking (the sliced value is not the result of the ranking step)"
				continue
			}
			rank = r
			nSlice++
			if sl.Low != nil {
				okShape = false
				why = "truncation does not keep a zero-based prefix"
			}
			if sl.High == nil || !sliceHasFieldRead(sliceB(sl.High, bind), limitField) {
				okShape = false
				why = "the truncation bound is not the configured maximum"
			}
			// control dependence: len(ranked) > MaxResults
			guard := false
			for _, cc := range controlCondsPol(sl.Block()) {
				bin, ok := cc.Cond.(*ssa.BinOp)
				if !ok {
					continue
				}
				// `len(list) > max` holds: written that way, or as the failed test `len(list) <= max` (an early return),
				// or with the operands swapped
				lenSide, maxSide := bin.X, bin.Y
				op := bin.Op
				if _, isLen := lenSide.(*ssa.Call); !isLen {
					lenSide, maxSide = bin.Y, bin.X
					switch op {
					case token.LSS:
						op = token.GTR
					case token.GEQ:
						op = token.LEQ
					default:
						continue
					}
				}
				holds := (op == token.GTR && cc.Taken) || (op == token.LEQ && !cc.Taken)
				if !holds {
					continue
				}
				if lc, ok := lenSide.(*ssa.Call); ok {
					if bi, ok := lc.Call.Value.(*ssa.Builtin); ok && bi.Name() == "len" && lc.Call.Args[0] == sl.X && sliceHasFieldRead(sliceB(maxSide, bind), limitField) {
						guard = true
					}
				}
			}
			// or: the bound is min(len(ranked), maximum) under maximum > 0
			if mc, ok := stripConv(sl.High).(*ssa.Call); ok && !guard {
				if bi, ok := mc.Call.Value.(*ssa.Builtin); ok && bi.Name() == "min" {
					hasLen, hasMax := false, false
					for _, a := range mc.Call.Args {
						if lc, ok := a.(*ssa.Call); ok {
							if lb, ok := lc.Call.Value.(*ssa.Builtin); ok && lb.Name() == "len" && (lc.Call.Args[0] == sl.X || sameLoad(lc.Call.Args[0], sl.X)) {
								hasLen = true
								continue
							}
						}
						if sliceHasFieldRead(sliceB(a, bind), limitField) {
							hasMax = true
						}
					}
					positive := false
					for _, cond := range controlConds(sl.Block()) {
						if bin, ok := cond.(*ssa.BinOp); ok && sliceHasFieldRead(sliceB(bin.X, bind), limitField) {
							if k, ok := bin.Y.(*ssa.Const); ok && k.Value != nil {
								if (bin.Op == token.GTR && k.Int64() == 0) || (bin.Op == token.GEQ && k.Int64() == 1) {
									positive = true
								}
							}
						}
					}
					guard = hasLen && hasMax && positive
				}
			}
			if !guard {
				okShape = false
				why = "the truncation is not guarded by len(ranked) > maximum"
			}
		}
		if nSlice == 0 && okShape {
			okShape = false
			why = "the ranked list is never truncated to the configured maximum"
		}
		c.check(okShape && rank != nil, "I-LIMIT", hname, "returned list = ranked list, truncated to a zero-based prefix of at most MaxResults", v.Pos(),
			"Items is the ranked list or ranked[:MaxResults] under len(ranked) > MaxResults; nothing reorders afterwards (a smaller maximum yields a prefix of a larger one)",
			why)
		if rank == nil {
			continue
		}
		// I-ORDER: rank(filter(items...))
		fcall, ok := rank.Common().Args[0].(*ssa.Call)
		isFilter := ok && fcall.Common().StaticCallee() != nil && fcall.Common().StaticCallee().Signature.Results().Len() == 1 && isScoredSlice(fcall.Common().StaticCallee().Signature.Results().At(0).Type())
		c.check(isFilter, "I-ORDER", hname, "ranking consumes the filtered list", rank.Pos(),
			"filter dominates rank dominates truncate", "the ranking step does not take the output of the matching filter")
		if isFilter {
			// I-FLAG: the filter's mode parameter is the FuzzyMatching setting, unmodified
			var flag ssa.Value
			for i, p := range fcall.Common().StaticCallee().Params {
				if types.TypeString(p.Type(), nil) == "bool" {
					flag = fcall.Common().Args[i]
				}
			}
			okFlag := false
			if un, ok := flag.(*ssa.UnOp); ok && un.Op == token.MUL && fieldAddrNamed(un.X, fuzzyField) {
				okFlag = true
			}
			if f, ok := flag.(*ssa.Field); ok {
				if st, ok := f.X.Type().Underlying().(*types.Struct); ok && st.Field(f.Field).Name() == fuzzyField {
					okFlag = true
				}
			}
			c.check(okFlag, "I-FLAG", hname, "matching mode is the fuzzyMatching setting", fcall.Pos(),
				"the filter's mode argument is the FuzzyMatching field, read from the current settings snapshot",
				"the filter's matching-mode argument is not the (unmodified) FuzzyMatching setting")
			// the settings snapshot is taken in this request
			sl := backSlice(flag)
			c.check(sliceHasCall(sl, func(cal *ssa.Function, _ *ssa.Call) bool { return isSettingsSnapshot(cal, sm) }), "I-FLAG", hname, "settings snapshot taken per request", fcall.Pos(),
				"settings are read through getSettings() in the handler", "completion settings are not read from the current settings snapshot")
			// filter input = generated items
			gen, ok := fcall.Common().Args[0].(*ssa.Call)
			c.check(ok && gen.Common().StaticCallee() != nil && inModule(gen.Common().StaticCallee()) && gen.Common().StaticCallee().Signature.Results().Len() == 1 &&
				strings.HasSuffix(types.TypeString(gen.Common().StaticCallee().Signature.Results().At(0).Type(), nil), "[]go.lsp.dev/protocol.CompletionItem"), "I-ORDER", hname, "filter consumes the generated items", fcall.Pos(),
				"the filter's input is the item list generated from the symbol table", "the filter does not consume the generated item list")
		}
	}
	c.census("I-LIMIT", "result lists filled from ranked items in the completion handler", nMain, 1)
	// I-LIMIT: what the value of MaxResults is used for.  Every *read* of the limit (a load; taking the field's
	// address for the settings parser is not a read) happens in the handler, in settings code (a function that
	// returns settings or a settings section, or that writes into one: parser, normaliser, methods on the
	// settings types), or in the truncation step itself (a function in which the loaded value is only compared
	// and used as a slice bound of the item list).
	readers := map[string]bool{}
	allowed := map[string]bool{}
	rt := settingsRootType(sm)
	isSettingsStruct := func(t types.Type) bool {
		if rt == nil {
			return false
		}
		if pt, ok := t.Underlying().(*types.Pointer); ok {
			t = pt.Elem()
		}
		if types.Identical(t, rt) {
			return true
		}
		if st, ok := rt.Underlying().(*types.Struct); ok {
			for i := 0; i < st.NumFields(); i++ {
				if types.Identical(st.Field(i).Type(), t) {
					return true
				}
			}
		}
		return false
	}
	writesSettings := func(f *ssa.Function) bool {
		for _, b := range f.Blocks {
			for _, ins := range b.Instrs {
				if st, ok := ins.(*ssa.Store); ok {
					if fa, ok := st.Addr.(*ssa.FieldAddr); ok && isSettingsStruct(fa.X.Type()) {
						return true
					}
				}
			}
		}
		if f.Signature.Recv() != nil && isSettingsStruct(f.Signature.Recv().Type()) && f.Signature.Results().Len() == 1 && isSettingsStruct(f.Signature.Results().At(0).Type()) {
			return true
		}
		return false
	}
	onlyTruncates := func(v ssa.Value) bool {
		// every use of the loaded limit: comparison, slice bound, min/max, conversion of those
		seen := map[ssa.Value]bool{}
		var ok func(v ssa.Value) bool
		ok = func(v ssa.Value) bool {
			if seen[v] {
				return true
			}
			seen[v] = true
			refs := v.Referrers()
			if refs == nil {
				return true
			}
			for _, r := range *refs {
				switch x := r.(type) {
				case *ssa.BinOp:
					switch x.Op {
					case token.LSS, token.LEQ, token.GTR, token.GEQ, token.EQL, token.NEQ:
					default:
						return false
					}
				case *ssa.Slice:
					if x.High != v && x.Max != v {
						return false
					}
				case *ssa.Call:
					bi, isB := x.Call.Value.(*ssa.Builtin)
					if !isB || (bi.Name() != "min" && bi.Name() != "max") {
						return false
					}
					if !ok(x) {
						return false
					}
				case *ssa.Convert:
					if !ok(x) {
						return false
					}
				case *ssa.Phi:
					if !ok(x) {
						return false
					}
				case *ssa.If, *ssa.DebugRef:
				default:
					return false
				}
			}
			return true
		}
		return ok(v)
	}
	for _, f := range c.P.ModuleFuncs() {
		for _, b := range f.Blocks {
			for _, ins := range b.Instrs {
				var loaded []ssa.Value
				switch x := ins.(type) {
				case *ssa.FieldAddr:
					if fieldAddrNamed(x, limitField) {
						for _, r := range *x.Referrers() {
							if ld, ok := r.(*ssa.UnOp); ok && ld.Op == token.MUL {
								loaded = append(loaded, ld)
							}
						}
					}
				case *ssa.Field:
					if st, ok := x.X.Type().Underlying().(*types.Struct); ok && st.Field(x.Field).Name() == limitField {
						loaded = append(loaded, x)
					}
				}
				for _, v := range loaded {
					name := funcName(f)
					readers[name] = true
					if returnsSettings(f, sm) || writesSettings(f) || onlyTruncates(v) {
						if _, seen := allowed[name]; !seen {
							allowed[name] = true
						}
					} else {
						allowed[name] = false
					}
				}
			}
		}
	}
	for r := range readers {
		okR := r == hname || allowed[r]
		c.check(okR, "I-LIMIT", r, "reader of the result limit", token.NoPos, "limit is read by the truncation / settings code only",
			"the result limit is read outside the normaliser, the settings parser and the truncation step: it can influence which items are generated or how they are ranked, so a smaller maximum is no longer a prefix of a larger one")
	}
	ruleRankComparator(c)
	ruleEditRange(c)
}

// isScoredSlice: []S where S is a module struct pairing a completion item with an integer score.
func isScoredSlice(t types.Type) bool {
	sl, ok := t.Underlying().(*types.Slice)
	if !ok {
		return false
	}
	st, ok := sl.Elem().Underlying().(*types.Struct)
	if !ok {
		return false
	}
	hasItem, hasInt := false, false
	for i := 0; i < st.NumFields(); i++ {
		ft := st.Field(i).Type()
		if strings.HasSuffix(types.TypeString(ft, nil), "protocol.CompletionItem") {
			hasItem = true
		}
		if b, ok := ft.Underlying().(*types.Basic); ok && b.Info()&types.IsInteger != 0 {
			hasInt = true
		}
	}
	return hasItem && hasInt
}

func settingsRootType(sm *settingsModelT) types.Type {
	if sm == nil || sm.root == nil {
		return nil
	}
	return sm.root.Type()
}

// isSettingsSnapshot: a parameterless method returning the whole settings structure by value.
func isSettingsSnapshot(cal *ssa.Function, sm *settingsModelT) bool {
	rt := settingsRootType(sm)
	if rt == nil {
		return strings.HasSuffix(cal.Name(), "getSettings")
	}
	return cal.Signature.Recv() != nil && cal.Signature.Params().Len() == 0 && cal.Signature.Results().Len() == 1 && types.Identical(cal.Signature.Results().At(0).Type(), rt)
}

// returnsSettings: the function returns the settings structure or one of its sections and is not a
// method (parser, helper of the parser, normaliser, defaults).
func returnsSettings(f *ssa.Function, sm *settingsModelT) bool {
	rt := settingsRootType(sm)
	if rt == nil || f.Signature.Recv() != nil || f.Signature.Results().Len() != 1 {
		return false
	}
	res := f.Signature.Results().At(0).Type()
	if types.Identical(res, rt) {
		return true
	}
	if st, ok := rt.Underlying().(*types.Struct); ok {
		for i := 0; i < st.NumFields(); i++ {
			if types.Identical(st.Field(i).Type(), res) {
				return true
			}
		}
	}
	return false
}

// ruleRankComparator (I-RANK): the ranking comparator orders by score descending, then by use count descending.
// Decided on SSA: the function value handed to the sort of a scored-item slice is resolved (literal, named
// function, bound method), helpers it returns the result of are followed, and every ordering comparison it can
// return must put the first element's key on the larger side.
func ruleRankComparator(c *Ctx) {
	spk := c.P.SSAPkg("internal/server")
	n := 0
	for _, f := range c.P.ModuleFuncs() {
		top := f
		for top.Parent() != nil {
			top = top.Parent()
		}
		if top.Pkg != spk {
			continue
		}
		for _, b := range f.Blocks {
			for _, ins := range b.Instrs {
				call, ok := ins.(*ssa.Call)
				if !ok {
					continue
				}
				cal := call.Call.StaticCallee()
				if cal == nil || len(call.Call.Args) != 2 {
					continue
				}
				q := cal.String()
				if o := cal.Origin(); o != nil {
					q = o.String()
				}
				if q != "sort.Slice" && q != "sort.SliceStable" && q != "slices.SortFunc" && q != "slices.SortStableFunc" {
					continue
				}
				arg0 := call.Call.Args[0]
				if mi, ok := arg0.(*ssa.MakeInterface); ok {
					arg0 = mi.X
				}
				if !isScoredSlice(arg0.Type()) {
					continue
				}
				n++
				cmpFn := resolveFuncValue2(call.Call.Args[1])
				if cmpFn == nil || len(cmpFn.Params) < 2 {
					c.undecided("I-RANK", funcName(f), "ranking comparator is (score desc, count desc)", call.Pos(), "the comparator handed to the sort could not be resolved to a function")
					continue
				}
				pi, pj := cmpFn.Params[len(cmpFn.Params)-2], cmpFn.Params[len(cmpFn.Params)-1]
				nCmp, bad := 0, ""
				side := func(v ssa.Value) string {
					sl := backSlice(v)
					hi, hj := sl[pi], sl[pj]
					switch {
					case hi && !hj:
						return "i"
					case hj && !hi:
						return "j"
					}
					return ""
				}
				var judge func(v ssa.Value, stack []*ssa.Call, depth int)
				judge = func(v ssa.Value, stack []*ssa.Call, depth int) {
					switch x := v.(type) {
					case *ssa.BinOp:
						if x.Op != token.GTR && x.Op != token.LSS && x.Op != token.GEQ && x.Op != token.LEQ {
							return
						}
						l, r := sideIn(x.X, stack, pi, pj), sideIn(x.Y, stack, pi, pj)
						if l == "" || r == "" || l == r {
							return
						}
						nCmp++
						desc := (x.Op == token.GTR && l == "i") || (x.Op == token.LSS && l == "j")
						if !desc {
							bad = c.P.pos(x.Pos())
						}
					case *ssa.Phi:
						for _, e := range x.Edges {
							judge(e, stack, depth)
						}
					case *ssa.Call:
						cal := x.Call.StaticCallee()
						if cal == nil && !x.Call.IsInvoke() {
							cal = resolveLocalFunc(x.Call.Value)
						}
						if cal == nil || depth > 3 {
							return
						}
						if cq := cal.String(); cq == "cmp.Compare" || cq == "strings.Compare" || (cal.Origin() != nil && cal.Origin().String() == "cmp.Compare") {
							if len(x.Call.Args) == 2 {
								l, r := sideIn(x.Call.Args[0], stack, pi, pj), sideIn(x.Call.Args[1], stack, pi, pj)
								if l != "" && r != "" && l != r {
									nCmp++
									if l != "j" {
										bad = c.P.pos(x.Pos())
									}
								}
							}
							return
						}
						if cal.Blocks == nil || !inModule(cal) {
							return
						}
						for _, b2 := range cal.Blocks {
							for _, i2 := range b2.Instrs {
								if r, ok := i2.(*ssa.Return); ok && len(r.Results) == 1 {
									judge(unspillResult(r.Results[0], b2), append(append([]*ssa.Call{}, stack...), x), depth+1)
								}
							}
						}
					}
				}
				_ = side
				for _, b2 := range cmpFn.Blocks {
					for _, i2 := range b2.Instrs {
						if r, ok := i2.(*ssa.Return); ok && len(r.Results) == 1 {
							judge(unspillResult(r.Results[0], b2), nil, 0)
						}
					}
				}
				c.check(bad == "" && nCmp >= 2, "I-RANK", funcName(f), "ranking comparator is (score desc, count desc)", call.Pos(),
					fmt.Sprintf("%d comparisons, all descending: better matches and more frequently used names come first", nCmp),
					fmt.Sprintf("the ranking comparator is not descending in both keys (%d ordering comparisons found; ascending: %s): less frequently used or worse matching names are listed first", nCmp, bad))
			}
		}
	}
	c.census("I-RANK", "ranking comparators", n, 1)
}

// sideIn: which of the comparator's two element parameters the value derives from ("i", "j", "" for both/none);
// the value may live in a helper entered through the calls on the stack (parameters are bound to the arguments).
func sideIn(v ssa.Value, stack []*ssa.Call, pi, pj *ssa.Parameter) string {
	sc := &sliceCtx{seen: map[ssa.Value]bool{}}
	sc.visit(v, stack)
	hi, hj := sc.seen[pi], sc.seen[pj]
	switch {
	case hi && !hj:
		return "i"
	case hj && !hi:
		return "j"
	}
	return ""
}

// resolveFuncValue2: the function behind a function value: a function, a closure, or a bound method (the
// synthetic wrapper is looked through).
func resolveFuncValue2(v ssa.Value) *ssa.Function {
	var fn *ssa.Function
	switch x := v.(type) {
	case *ssa.Function:
		fn = x
	case *ssa.MakeClosure:
		fn, _ = x.Fn.(*ssa.Function)
	case *ssa.ChangeType:
		return resolveFuncValue2(x.X)
	}
	if fn == nil {
		return nil
	}
	if fn.Synthetic != "" && fn.Blocks != nil {
		// bound method wrapper: calls the method with the captured receiver
		for _, b := range fn.Blocks {
			for _, ins := range b.Instrs {
				if call, ok := ins.(*ssa.Call); ok {
					if cal := call.Call.StaticCallee(); cal != nil && cal.Blocks != nil {
						return cal
					}
				}
			}
		}
	}
	return fn
}

// ruleEditRange (I-RANGE): the completion replace range ends at the request position and starts at a
// byte offset that is clamped to the cursor and converted to UTF-16 for the cursor's line.
func ruleEditRange(c *Ctx) {
	spk := c.P.SSAPkg("internal/server")
	var f *ssa.Function
	for _, g := range c.P.ModuleFuncs() {
		if g.Pkg == spk && g.Signature.Recv() == nil && g.Signature.Results().Len() == 1 && typeHasSuffix(g.Signature.Results().At(0).Type(), "*go.lsp.dev/protocol.Range") &&
			g.Signature.Params().Len() == 3 && typeHasSuffix(g.Signature.Params().At(1).Type(), "protocol.Position") {
			f = g
		}
	}
	if f == nil {
		c.undecided("I-RANGE", "server", "edit-range function", token.NoPos, "no function (string, protocol.Position, ctx) *protocol.Range")
		return
	}
	fname := funcName(f)
	posParam := f.Params[1]
	nLit := 0
	for _, b := range f.Blocks {
		for _, ins := range b.Instrs {
			al, ok := ins.(*ssa.Alloc)
			if !ok || !typeHasSuffix(al.Type(), "*go.lsp.dev/protocol.Range") {
				continue
			}
			nLit++
			stores := map[string][]ssa.Value{}
			collectFieldStores(al, "", stores, 0)
			var startChar ssa.Value
			if v := stores[".Start.Character"]; len(v) == 1 {
				startChar = v[0]
			}
			// every store into End (as a whole or into one of its coordinates) takes the request position unchanged
			endOK, nEnd := true, 0
			for k, vs := range stores {
				if k != ".End" && !strings.HasPrefix(k, ".End.") {
					continue
				}
				for _, v := range vs {
					nEnd++
					es := backSlice(v)
					if !es[posParam] || sliceHasCall(es, func(*ssa.Function, *ssa.Call) bool { return true }) {
						endOK = false
					}
					for w := range es {
						if _, isBin := w.(*ssa.BinOp); isBin {
							endOK = false
						}
					}
				}
			}
			endOK = endOK && nEnd > 0
			c.check(endOK, "I-RANGE", fname, "range ends at the request position", al.Pos(),
				"End is the position the request was made at", "the replace range does not end at the request position")
			if startChar == nil {
				c.finding("I-RANGE", fname, "range start", al.Pos(), "no store to Start.Character found")
				continue
			}
			sl := backSlice(startChar)
			conv := sliceHasCall(sl, func(cal *ssa.Function, _ *ssa.Call) bool { return calleeNameIs(cal, "lsputil.ByteOffsetToUTF16") })
			c.check(conv, "I-RANGE", fname, "start converted from bytes to UTF-16", al.Pos(), "Start.Character = ByteOffsetToUTF16(line, startByte)", "Start.Character is not obtained by converting the start byte offset to UTF-16 units")
			// clamp: the byte offset passed to the converter is a phi merging the cursor offset under `start > cursor`
			clamped := false
			for v := range sl {
				call, ok := v.(*ssa.Call)
				if !ok || call.Common().StaticCallee() == nil || !calleeNameIs(call.Common().StaticCallee(), "lsputil.ByteOffsetToUTF16") {
					continue
				}
				arg := call.Common().Args[1]
				if clampedToCursor(arg, func(v ssa.Value) bool { return derivesFromCursor(v, posParam) }, 0) {
					clamped = true
				}
			}
			c.check(clamped, "I-RANGE", fname, "start clamped to the cursor", al.Pos(),
				"the start byte offset is limited to the cursor's byte offset before conversion (start <= end for every cursor column)",
				"the start of the replace range is computed independently of the cursor and never clamped to it: with the cursor inside a directive keyword or in the blanks before a commodity the range has start > end")
		}
	}
	c.census("I-RANGE", "range literals in the edit-range function", nLit, 1)
}

func derivesFromCursor(v ssa.Value, pos *ssa.Parameter) bool {
	sl := backSlice(v)
	if !sl[pos] {
		return false
	}
	return sliceHasCall(sl, func(cal *ssa.Function, _ *ssa.Call) bool { return calleeNameIs(cal, "lsputil.UTF16OffsetToByteOffset") })
}

// phiConds: conditions of the If instructions ending the immediate dominators of a phi's block chain
// (the branch that decides which edge is taken).
func phiConds(phi *ssa.Phi) []ssa.Value {
	var out []ssa.Value
	b := phi.Block()
	for d := b.Idom(); d != nil; d = d.Idom() {
		if len(d.Instrs) > 0 {
			if ifi, ok := d.Instrs[len(d.Instrs)-1].(*ssa.If); ok {
				out = append(out, ifi.Cond)
				break
			}
		}
	}
	return out
}

// resolveLocalFunc: the function stored in a local function variable (`f := func(...){...}; ... f(x)`), also when
// the variable is captured by the closure that calls it.
func resolveLocalFunc(v ssa.Value) *ssa.Function {
	if fn := resolveFuncValue2(v); fn != nil {
		return fn
	}
	ld, ok := v.(*ssa.UnOp)
	if !ok || ld.Op != token.MUL {
		return nil
	}
	cell := ld.X
	for range 6 {
		fv, ok := cell.(*ssa.FreeVar)
		if !ok {
			break
		}
		cell = freeVarBinding(fv)
	}
	al, ok := cell.(*ssa.Alloc)
	if !ok {
		return nil
	}
	var found *ssa.Function
	n := 0
	for _, r := range *al.Referrers() {
		if st, ok := r.(*ssa.Store); ok && st.Addr == al {
			n++
			found = resolveFuncValue2(st.Val)
		}
	}
	if n == 1 {
		return found
	}
	return nil
}

// clampedToCursor: v is min(x, cursor), or a phi choosing between x and the cursor under a comparison of the
// two, or the corresponding result of a helper whose every return is clamped that way (the cursor being the
// helper's parameter bound to a cursor-derived argument).
func clampedToCursor(v ssa.Value, isCursor func(ssa.Value) bool, depth int) bool {
	if depth > 3 {
		return false
	}
	v = stripConv(v)
	switch x := v.(type) {
	case *ssa.Phi:
		for _, cond := range phiConds(x) {
			bin, ok := cond.(*ssa.BinOp)
			if !ok || (bin.Op != token.GTR && bin.Op != token.GEQ && bin.Op != token.LSS && bin.Op != token.LEQ) {
				continue
			}
			for _, e := range x.Edges {
				if (e == bin.Y || e == bin.X) && isCursor(e) {
					return true
				}
			}
		}
	case *ssa.Extract:
		if call, ok := x.Tuple.(*ssa.Call); ok {
			return helperResultClamped(call, x.Index, isCursor, depth)
		}
	case *ssa.Call:
		if bi, ok := x.Call.Value.(*ssa.Builtin); ok && bi.Name() == "min" {
			for _, a := range x.Call.Args {
				if isCursor(a) {
					return true
				}
			}
			return false
		}
		return helperResultClamped(x, 0, isCursor, depth)
	}
	return false
}

func helperResultClamped(call *ssa.Call, idx int, isCursor func(ssa.Value) bool, depth int) bool {
	h := call.Call.StaticCallee()
	if h == nil || h.Blocks == nil || !inModule(h) {
		return false
	}
	cursorParams := map[ssa.Value]bool{}
	for i, p := range h.Params {
		if i < len(call.Call.Args) && isCursor(call.Call.Args[i]) {
			cursorParams[p] = true
		}
	}
	if len(cursorParams) == 0 {
		return false
	}
	inner := func(v ssa.Value) bool { return cursorParams[stripConv(v)] }
	n := 0
	for _, b := range h.Blocks {
		r, ok := b.Instrs[len(b.Instrs)-1].(*ssa.Return)
		if !ok || idx >= len(r.Results) {
			continue
		}
		rv := unspillResult(r.Results[idx], b)
		// a return that reports failure with a constant result beside it (return 0, false) carries no range start
		if k, isConst := rv.(*ssa.Const); isConst && len(r.Results) > 1 {
			if ok2, isC := r.Results[len(r.Results)-1].(*ssa.Const); isC && ok2.Value != nil && ok2.Value.String() == "false" {
				_ = k
				continue
			}
		}
		n++
		if inner(rv) {
			continue // the cursor itself
		}
		if !clampedToCursor(rv, inner, depth+1) {
			return false
		}
	}
	return n > 0
}
