package main

// Engine G (DESIGN §3.G): include-resolution typestate (AST + go/cfg).

import (
	"fmt"
	"go/ast"
	"go/constant"
	"go/token"
	"go/types"
	"golang.org/x/tools/go/ssa"
	"sort"
	"strings"

	"golang.org/x/tools/go/cfg"
)

type loaderInfo struct {
	pk         *pkgT
	sccFuncs   map[*ast.FuncDecl]bool // functions on the include recursion
	loopFd     *ast.FuncDecl          // function with the loop over Includes
	loop       *ast.RangeStmt
	single     *ast.FuncDecl // function that performs the cycle test + cache lookup
	ancestorFd types.Object  // the map field tested by the cycle check
	cycleCond  ast.Expr      // the membership test of the cycle check (condition of an if or of a tagless switch clause)
	cycleNode  ast.Node
}

func analyseLoader(c *Ctx, rule string) *loaderInfo {
	pk := c.P.ByRel["internal/include"]
	info := pk.TypesInfo
	li := &loaderInfo{pk: pk, sccFuncs: map[*ast.FuncDecl]bool{}}
	// call graph among package functions (AST level, static callees)
	var fds []*ast.FuncDecl
	calls := map[*ast.FuncDecl]map[*ast.FuncDecl]bool{}
	for _, f := range pk.Syntax {
		for _, d := range f.Decls {
			if fd, ok := d.(*ast.FuncDecl); ok && fd.Body != nil {
				fds = append(fds, fd)
			}
		}
	}
	for _, fd := range fds {
		calls[fd] = map[*ast.FuncDecl]bool{}
		ast.Inspect(fd.Body, func(n ast.Node) bool {
			if call, ok := n.(*ast.CallExpr); ok {
				if o, ok := calleeOf(info, call).(*types.Func); ok {
					if d := c.P.declOf[o]; d != nil && c.P.pkgOf[d] == pk {
						calls[fd][d] = true
					}
				}
			}
			return true
		})
	}
	reach := func(from *ast.FuncDecl) map[*ast.FuncDecl]bool {
		seen := map[*ast.FuncDecl]bool{}
		var w []*ast.FuncDecl
		for d := range calls[from] {
			w = append(w, d)
		}
		for len(w) > 0 {
			d := w[len(w)-1]
			w = w[:len(w)-1]
			if seen[d] {
				continue
			}
			seen[d] = true
			for e := range calls[d] {
				w = append(w, e)
			}
		}
		return seen
	}
	for _, fd := range fds {
		if reach(fd)[fd] {
			li.sccFuncs[fd] = true
		}
	}
	// the loop over the Includes of a journal
	for fd := range li.sccFuncs {
		ast.Inspect(fd.Body, func(n ast.Node) bool {
			if rs, ok := n.(*ast.RangeStmt); ok {
				if se, ok := ast.Unparen(rs.X).(*ast.SelectorExpr); ok && se.Sel.Name == "Includes" {
					li.loopFd, li.loop = fd, rs
				}
			}
			return true
		})
	}
	// the cycle test: a guard `M[k]` (if, or clause of a tagless switch) whose body builds a cycle error and returns
	var sccList []*ast.FuncDecl
	for _, fd := range fds {
		if li.sccFuncs[fd] {
			sccList = append(sccList, fd)
		}
	}
	for _, fd := range sccList {
		for _, g := range guardsIn(fd.Body) {
			ix, ok := ast.Unparen(g.Cond).(*ast.IndexExpr)
			if !ok {
				continue
			}
			if t := info.TypeOf(ix.X); t == nil {
				continue
			} else if _, isMap := t.Underlying().(*types.Map); !isMap {
				continue
			}
			mentionsCycle := stmtsContain(g.Body, func(m ast.Node) bool {
				id, ok := m.(*ast.Ident)
				return ok && id.Name == "ErrorCycleDetected"
			})
			returns := stmtsContain(g.Body, func(m ast.Node) bool { _, ok := m.(*ast.ReturnStmt); return ok })
			if mentionsCycle && returns {
				li.ancestorFd = fieldObjOf(info, ix.X)
				li.single, li.cycleCond, li.cycleNode = fd, g.Cond, g.Node
			}
		}
	}
	if len(li.sccFuncs) == 0 || li.loop == nil || li.single == nil || li.ancestorFd == nil {
		c.undecided(rule, "include", "include recursion", token.NoPos,
			fmt.Sprintf("could not identify the include recursion (recursive functions: %d, loop over Includes: %v, cycle test: %v)", len(li.sccFuncs), li.loop != nil, li.single != nil))
		return nil
	}
	return li
}

type pkgT = packagesPackage

// typeReaches: a value of type t (transitively, through fields, elements and pointers of module types)
// holds a value of the named type.
func typeReaches(t types.Type, suffix string, seen map[types.Type]bool) bool {
	if t == nil || seen[t] {
		return false
	}
	seen[t] = true
	if strings.HasSuffix(types.TypeString(t, nil), suffix) {
		return true
	}
	switch u := t.Underlying().(type) {
	case *types.Pointer:
		return typeReaches(u.Elem(), suffix, seen)
	case *types.Slice:
		return typeReaches(u.Elem(), suffix, seen)
	case *types.Array:
		return typeReaches(u.Elem(), suffix, seen)
	case *types.Map:
		return typeReaches(u.Key(), suffix, seen) || typeReaches(u.Elem(), suffix, seen)
	case *types.Struct:
		if n, ok := t.(*types.Named); ok && n.Obj().Pkg() != nil && !strings.Contains(n.Obj().Pkg().Path(), "hledger-lsp") {
			return false
		}
		for i := 0; i < u.NumFields(); i++ {
			if typeReaches(u.Field(i).Type(), suffix, seen) {
				return true
			}
		}
	}
	return false
}

func fieldObjOf(info *types.Info, e ast.Expr) types.Object {
	switch x := ast.Unparen(e).(type) {
	case *ast.SelectorExpr:
		return info.Uses[x.Sel]
	case *ast.Ident:
		return info.Uses[x]
	}
	return nil
}

// cfgOf builds the control-flow graph of a function; calls are assumed to return.
func cfgOf(fd *ast.FuncDecl) *cfg.CFG {
	return cfg.New(fd.Body, func(*ast.CallExpr) bool { return true })
}

// pathAvoiding reports whether the function exit is reachable from the node `from` (the
// statement/expression registered in a CFG block) along a path on which no node satisfies `stop`.
// Nodes after `from` in the same block are considered first.
func pathAvoiding(g *cfg.CFG, from ast.Node, stop func(ast.Node) bool) bool {
	type pos struct {
		b *cfg.Block
		i int
	}
	var start *pos
	for _, b := range g.Blocks {
		for i, n := range b.Nodes {
			if n.Pos() <= from.Pos() && from.End() <= n.End() {
				if start == nil {
					start = &pos{b, i}
				}
			}
		}
	}
	if start == nil {
		return true
	}
	seen := map[*cfg.Block]bool{}
	var visit func(b *cfg.Block, i int) bool
	visit = func(b *cfg.Block, i int) bool {
		for ; i < len(b.Nodes); i++ {
			if stop(b.Nodes[i]) {
				return false
			}
		}
		if len(b.Succs) == 0 {
			return true // function exit (return or fall off the end)
		}
		for _, s := range b.Succs {
			if seen[s] {
				continue
			}
			seen[s] = true
			if visit(s, 0) {
				return true
			}
		}
		return false
	}
	return visit(start.b, start.i+1)
}

// nodeCovers: CFG node x is (or contains) the expression e.
func nodeCovers(x ast.Node, e ast.Node) bool {
	return x.Pos() <= e.Pos() && e.End() <= x.End()
}

// mustPassBefore reports whether every path from the function entry to `target` passes a node satisfying
// `stop` first.
func mustPassBefore(g *cfg.CFG, target ast.Node, stop func(ast.Node) bool) bool {
	if len(g.Blocks) == 0 {
		return false
	}
	seen := map[*cfg.Block]bool{}
	reached := false
	var visit func(b *cfg.Block)
	visit = func(b *cfg.Block) {
		if seen[b] || reached {
			return
		}
		seen[b] = true
		for _, n := range b.Nodes {
			// the stop node may itself contain the target (e.g. `if M[k] && f()`): evaluated first = passed
			if stop(n) {
				return
			}
			if nodeCovers(n, target) {
				reached = true
				return
			}
		}
		for _, s := range b.Succs {
			visit(s)
		}
	}
	visit(g.Blocks[0])
	if reached {
		return false
	}
	// a target that is not part of the graph at all (inside a function literal) is not ordered by it
	for _, b := range g.Blocks {
		for _, n := range b.Nodes {
			if nodeCovers(n, target) {
				return true
			}
		}
	}
	return false
}

func containsCallTo(info *types.Info, n ast.Node, pred func(o types.Object, call *ast.CallExpr) bool) bool {
	found := false
	ast.Inspect(n, func(x ast.Node) bool {
		if _, ok := x.(*ast.FuncLit); ok {
			return false
		}
		if call, ok := x.(*ast.CallExpr); ok {
			if pred(calleeOf(info, call), call) {
				found = true
			}
		}
		return true
	})
	return found
}

func insideNestedBreakable(root ast.Node, target ast.Node) bool {
	path := pathTo(root, target)
	for _, n := range path[1:] {
		switch n.(type) {
		case *ast.ForStmt, *ast.RangeStmt, *ast.SwitchStmt, *ast.TypeSwitchStmt, *ast.SelectStmt:
			return true
		}
	}
	return false
}

func isParamOfDecl(info *types.Info, fd *ast.FuncDecl, v *types.Var) bool {
	if fd.Type.Params == nil {
		return false
	}
	for _, f := range fd.Type.Params.List {
		for _, n := range f.Names {
			if info.Defs[n] == v {
				return true
			}
		}
	}
	return false
}

// ruleLoaderCache (C11): G-CACHEPATH and G-INVALIDATE.
func ruleLoaderCache(c *Ctx) {
	if c.ranOnce("ruleLoaderCache") {
		return
	}
	ls := ruleLoaderCacheSSA(c)
	if ls == nil {
		return
	}
	lpk := c.P.ByRel["internal/include"]
	// what is cached depends only on the file's own content: the cache value type must not hold a ResolvedJournal
	if lo := lpk.Types.Scope().Lookup("Loader"); lo != nil {
		st, _ := lo.Type().Underlying().(*types.Struct)
		for i := 0; st != nil && i < st.NumFields(); i++ {
			if m, ok := st.Field(i).Type().Underlying().(*types.Map); ok {
				vs := types.TypeString(m.Elem(), nil)
				c.check(!typeReaches(m.Elem(), "include.ResolvedJournal", map[types.Type]bool{}), "G-CACHEPATH", "include.Loader", "cache holds per-file parse results only", st.Field(i).Pos(),
					"cache value type "+shortQual(vs)+" does not embed a resolved include tree",
					"the loader caches resolved include trees ("+shortQual(vs)+"): a cached subtree goes stale when a file below it changes")
			}
		}
	}
	var cacheField types.Object
	if ls.cache != nil {
		cacheField = ls.cache
	}
	li := struct{ pk *pkgT }{lpk}
	// G-STATE: the only state a Loader carries from one load to the next is the per-file parse cache.
	if lo := li.pk.Types.Scope().Lookup("Loader"); lo != nil {
		st, _ := lo.Type().Underlying().(*types.Struct)
		nState := 0
		for i := 0; st != nil && i < st.NumFields(); i++ {
			f := st.Field(i)
			ts := types.TypeString(f.Type(), nil)
			switch f.Type().Underlying().(type) {
			case *types.Map, *types.Slice, *types.Pointer, *types.Chan, *types.Interface:
				nState++
				// role: the map read by the include step's cache lookup, keyed by a string (the file path)
				isParseCache := false
				if m, ok := f.Type().Underlying().(*types.Map); ok && cacheField != nil && types.Object(f) == cacheField {
					if b, ok := m.Key().Underlying().(*types.Basic); ok && b.Kind() == types.String {
						isParseCache = true
					}
				}
				if isParseCache {
					c.ok("G-STATE", "include.Loader", "history-carrying field "+f.Name(), f.Pos(), "per-file parse cache keyed by file path (covered by G-CACHEPATH, G-CACHEINDEP, G-INVALIDATE)")
				} else {
					c.undecided("G-STATE", "include.Loader", "history-carrying field "+f.Name(), f.Pos(),
						"the loader carries additional state of type "+shortQual(ts)+" from one load to the next; independence of the load result from that state (key completeness, invalidation) is not established by any rule")
				}
			}
		}
		c.census("G-STATE", "reference-typed fields of the loader", nState, 1)
	}
	ruleCacheFields(c)
	ruleInvalidate(c)
}

// ruleCacheFields (G-CACHEFIELDS): everything the loader keeps per cached file is handed on when the file is
// served from the cache: each field of the cache entry type is read from an entry obtained by the cache
// lookup (a field that is only written, or only read from the freshly built entry, is lost on a hit and the
// result of a load then depends on what was loaded before).
func ruleCacheFields(c *Ctx) {
	ipk := c.P.SSAPkg("internal/include")
	var lookups []*ssa.Lookup
	var entry *types.Struct
	var entryName string
	for _, f := range c.P.ModuleFuncs() {
		if f.Pkg != ipk {
			continue
		}
		for _, b := range f.Blocks {
			for _, ins := range b.Instrs {
				lk, ok := ins.(*ssa.Lookup)
				if !ok {
					continue
				}
				ld, ok := lk.X.(*ssa.UnOp)
				if !ok {
					continue
				}
				fa, ok := ld.X.(*ssa.FieldAddr)
				if !ok || !typeHasSuffix(fa.X.Type(), "include.Loader") {
					continue
				}
				mt, ok := lk.X.Type().Underlying().(*types.Map)
				if !ok {
					continue
				}
				et := mt.Elem()
				if pt, ok := et.Underlying().(*types.Pointer); ok {
					et = pt.Elem()
				}
				if st, ok := et.Underlying().(*types.Struct); ok && strings.Contains(types.TypeString(et, nil), modPath) {
					lookups = append(lookups, lk)
					entry, entryName = st, shortQual(types.TypeString(et, nil))
				}
			}
		}
	}
	c.census("G-CACHEFIELDS", "lookups in the loader's per-file cache", len(lookups), 1)
	if entry == nil {
		return
	}
	readOnHit := map[int]bool{}
	perFn := map[*ssa.Function]map[int]bool{} // fields read from a found entry, per function that reads one
	perFnPos := map[*ssa.Function]token.Pos{}
	defer func() {
		// every consumer of a cache hit uses the whole entry: a function that reads some field of an entry found in
		// the cache reads - itself, or in the functions it hands the entry to, or in the function that handed it the
		// entry - every field (C11-m29: a second hit site in Load that takes cached.journal and drops
		// cached.parseErrors - the file's syntax errors are reported by a fresh loader and not by this one)
		var fns []*ssa.Function
		for f := range perFn {
			fns = append(fns, f)
		}
		sort.Slice(fns, func(i, j int) bool { return fns[i].Pos() < fns[j].Pos() })
		for _, f := range fns {
			got := map[int]bool{}
			for k := range perFn[f] {
				got[k] = true
			}
			// callees and callers of f that also read the entry share the work
			for _, g := range fns {
				if g == f {
					continue
				}
				related := false
				for _, site := range (cgView{c}).callersOf(g) {
					if site.Parent() == f {
						related = true
					}
				}
				for _, site := range (cgView{c}).callersOf(f) {
					if site.Parent() == g {
						related = true
					}
				}
				if related {
					for k := range perFn[g] {
						got[k] = true
					}
				}
			}
			for i := 0; i < entry.NumFields(); i++ {
				c.check(got[i], "G-CACHEFIELDS", funcName(f), "a function that uses a cache hit uses cached "+entry.Field(i).Name(), perFnPos[f],
					"the field is read where the found entry is used", "this function takes part of an entry found in the per-file cache and ignores field "+entry.Field(i).Name()+": on this hit path what the field holds (the file's syntax errors) is dropped, so a load served from the cache reports less than a fresh loader reading the same files")
			}
		}
	}()
	for _, f := range c.P.ModuleFuncs() {
		if f.Pkg != ipk {
			continue
		}
		for _, b := range f.Blocks {
			for _, ins := range b.Instrs {
				var base ssa.Value
				idx := -1
				switch x := ins.(type) {
				case *ssa.FieldAddr:
					if st, ok := x.X.Type().Underlying().(*types.Pointer).Elem().Underlying().(*types.Struct); ok && st == entry {
						loaded := false
						for _, r := range *x.Referrers() {
							if u, ok := r.(*ssa.UnOp); ok && u.Op == token.MUL {
								loaded = true
							}
						}
						if loaded {
							base, idx = x.X, x.Field
						}
					}
				case *ssa.Field:
					if st, ok := x.X.Type().Underlying().(*types.Struct); ok && st == entry {
						base, idx = x.X, x.Field
					}
				}
				if base == nil {
					continue
				}
				// the entry may have been handed to this function by the one that found it in the cache
				sl := sliceUpN(buildConc(c), base, f, 2)
				for _, lk := range lookups {
					if sl[lk] {
						readOnHit[idx] = true
						if perFn[f] == nil {
							perFn[f] = map[int]bool{}
							perFnPos[f] = ins.Pos()
						}
						perFn[f][idx] = true
					}
				}
			}
		}
	}
	for i := 0; i < entry.NumFields(); i++ {
		c.check(readOnHit[i], "G-CACHEFIELDS", entryName, "cached "+entry.Field(i).Name()+" is used on a cache hit", entry.Field(i).Pos(),
			"the field is read from an entry returned by the cache lookup", "field "+entry.Field(i).Name()+" of the cache entry is stored but never read from an entry that was found in the cache: what it holds (e.g. the file's parse errors) is reported only by the load that parsed the file and is missing from every later load")
	}
}

// ruleCanonicalPaths (G-CANON): a file is identified by its resolved path (visited set, cache, result maps), so
// every path the resolver hands out is the result of a canonicalising library call.
func ruleCanonicalPaths(c *Ctx) {
	ipk := c.P.SSAPkg("internal/include")
	canonCall := func(v ssa.Value) bool {
		call, ok := v.(*ssa.Call)
		if !ok {
			return false
		}
		cal := call.Common().StaticCallee()
		if cal == nil || cal.Pkg == nil {
			return false
		}
		switch cal.Pkg.Pkg.Path() + "." + cal.Name() {
		case "path/filepath.Clean", "path/filepath.Join", "path/filepath.Abs", "path/filepath.EvalSymlinks":
			return true
		}
		return false
	}
	// canon(v, at): v is canonical on the paths that reach block `at` (the conditions controlling `at` select
	// which return statements of a helper can have produced v)
	var canon func(v ssa.Value, at *ssa.BasicBlock, seen map[ssa.Value]bool, depth int) bool
	canon = func(v ssa.Value, at *ssa.BasicBlock, seen map[ssa.Value]bool, depth int) bool {
		if seen[v] {
			return true
		}
		seen[v] = true
		switch x := v.(type) {
		case *ssa.Const:
			return true // "" next to an error
		case *ssa.Call:
			return canonCall(x)
		case *ssa.Extract:
			call, ok := x.Tuple.(*ssa.Call)
			if !ok {
				return false
			}
			if canonCall(call) {
				return true
			}
			cal := call.Common().StaticCallee()
			if cal != nil && cal.Pkg != nil && cal.Pkg.Pkg.Path() == "os" && cal.Name() == "UserHomeDir" {
				return true // the environment's home directory, taken as given
			}
			if cal == nil || cal.Blocks == nil || !inModule(cal) || depth > 2 {
				return false
			}
			// a module helper: every return statement compatible with the tests made on the helper's other results
			want := map[int]bool{} // result index -> required boolean value
			if at != nil {
				for _, cc := range controlCondsPol(at) {
					if ex, ok := cc.Cond.(*ssa.Extract); ok && ex.Tuple == x.Tuple {
						want[ex.Index] = cc.Taken
					}
				}
			}
			for _, b := range cal.Blocks {
				for _, ins := range b.Instrs {
					r, ok := ins.(*ssa.Return)
					if !ok || x.Index >= len(r.Results) {
						continue
					}
					compatible := true
					for j, w := range want {
						if j < len(r.Results) {
							if k, ok := r.Results[j].(*ssa.Const); ok && k.Value != nil && k.Value.Kind() == constant.Bool && constant.BoolVal(k.Value) != w {
								compatible = false
							}
						}
					}
					if compatible && !canon(r.Results[x.Index], r.Block(), map[ssa.Value]bool{}, depth+1) {
						return false
					}
				}
			}
			return true
		case *ssa.Phi:
			for i, e := range x.Edges {
				var pb *ssa.BasicBlock
				if i < len(x.Block().Preds) {
					pb = x.Block().Preds[i]
				}
				if !canon(e, pb, seen, depth) {
					return false
				}
			}
			return true
		}
		return false
	}
	n := 0
	for _, f := range c.P.ModuleFuncs() {
		if f.Pkg != ipk || f.Signature.Results().Len() != 2 || types.TypeString(f.Signature.Results().At(0).Type(), nil) != "string" || types.TypeString(f.Signature.Results().At(1).Type(), nil) != "error" {
			continue
		}
		// a path resolver: some returned string comes from a filepath call
		var rets []*ssa.Return
		resolver := false
		for _, b := range f.Blocks {
			for _, ins := range b.Instrs {
				if r, ok := ins.(*ssa.Return); ok {
					rets = append(rets, r)
					for v := range backSlice(r.Results[0]) {
						if canonCall(v) {
							resolver = true
						}
					}
				}
			}
		}
		if !resolver {
			continue
		}
		for i, r := range rets {
			n++
			desc := fmt.Sprintf("returned path #%d is canonical", i+1)
			c.check(canon(r.Results[0], r.Block(), map[ssa.Value]bool{}, 0), "G-CANON", funcName(f), desc, r.Pos(),
				"the returned path is the result of filepath.Clean / Join / Abs on every path", "the resolver can return a path that did not pass filepath.Clean/Join/Abs (e.g. an absolute include as written): `dir/../a` and `dir/./a` then name different files to the visited set, the cache and the result, so a file is loaded twice or a cycle goes unnoticed")
		}
	}
	c.census("G-CANON", "return sites of include-path resolvers", n, 2)
}

// ruleInvalidate (G-INVALIDATE): change and save handlers invalidate the loader cache on every path that
// has a file path, independent of whether a workspace exists.
func ruleInvalidate(c *Ctx) {
	spk := c.P.ByRel["internal/server"]
	info := spk.TypesInfo
	n := 0
	var changeFd *ast.FuncDecl
	if h, _, _, _ := changeHandler(c.P); h != nil {
		if o, ok := h.Object().(*types.Func); ok {
			changeFd = c.P.declOf[o]
		}
	}
	for _, f := range spk.Syntax {
		for _, d := range f.Decls {
			fd, ok := d.(*ast.FuncDecl)
			if !ok || fd.Body == nil || fd.Recv == nil || fd.Type.Params == nil {
				continue
			}
			role := ""
			for _, fl := range fd.Type.Params.List {
				ts := types.TypeString(info.TypeOf(fl.Type), nil)
				if strings.HasSuffix(ts, "protocol.DidSaveTextDocumentParams") {
					role = "didSave"
				}
			}
			// the change handler: found from the data flow (the method that stores the text folded over the changes)
			if role == "" && changeFd != nil && fd == changeFd {
				role = "didChange"
			}
			if role == "" {
				continue
			}
			n++
			fname := c.P.declName(fd)
			// on SSA: the invalidation must not be control dependent on the existence of a workspace (whether the
			// guard is written as a nested if or as an early return) and must not sit in a loop that may run zero times
			F := c.P.ssaOf(fd)
			if F == nil {
				c.undecided("G-INVALIDATE", fname, role+" invalidates the include cache", fd.Pos(), "no SSA form of the handler")
				continue
			}
			type site struct {
				call ssa.CallInstruction
				blks []*ssa.BasicBlock
			}
			var sites []site
			isInvalidation := func(cal *ssa.Function) bool {
				if cal == nil || cal.Signature.Recv() == nil || !typeHasSuffix(cal.Signature.Recv().Type(), "include.Loader") || cal.Object() == nil || !cal.Object().Exported() {
					return false
				}
				// drops cache entries: deletes from / replaces a map field of the loader
				for _, b := range cal.Blocks {
					for _, ins := range b.Instrs {
						switch x := ins.(type) {
						case *ssa.Call:
							if bi, ok := x.Call.Value.(*ssa.Builtin); ok && bi.Name() == "delete" {
								return true
							}
						case *ssa.Store:
							if fa, ok := x.Addr.(*ssa.FieldAddr); ok {
								if _, isMap := fa.Type().Underlying().(*types.Pointer).Elem().Underlying().(*types.Map); isMap {
									return true
								}
							}
						}
					}
				}
				return false
			}
			var scan func(g *ssa.Function, outer []*ssa.BasicBlock, depth int)
			scan = func(g *ssa.Function, outer []*ssa.BasicBlock, depth int) {
				for _, b := range g.Blocks {
					for _, ins := range b.Instrs {
						call, ok := ins.(ssa.CallInstruction)
						if !ok {
							continue
						}
						if _, isGo := ins.(*ssa.Go); isGo {
							continue
						}
						cal := call.Common().StaticCallee()
						if isInvalidation(cal) {
							sites = append(sites, site{call, append(append([]*ssa.BasicBlock{}, outer...), b)})
						} else if cal != nil && inModule(cal) && cal.Blocks != nil && cal.Pkg == F.Pkg && depth < 2 {
							scan(cal, append(append([]*ssa.BasicBlock{}, outer...), b), depth+1)
						}
					}
				}
			}
			scan(F, nil, 0)
			if len(sites) == 0 {
				c.finding("G-INVALIDATE", fname, role+" invalidates the include cache", fd.Pos(), "the "+role+" handler never invalidates the loader cache: an edited or saved included file stays cached")
				continue
			}
			okAny := false
			why := ""
			for _, st := range sites {
				okCall := true
				for _, b := range st.blks {
					if inCycle(b) {
						okCall = false
						why = "inside a loop that may run zero times"
					}
					for _, cc := range controlCondsPol(b) {
						// a saved file's cache entry is dropped whether or not the document is open in the editor and
						// whether or not the file could be read just now
						if role == "didSave" {
							withCtl := map[ssa.Value]bool{}
							sliceWithControl(cc.Cond, 0, withCtl) // a verdict helper (GetDocument) decides by its tests
							for v := range withCtl {
								call, ok := v.(*ssa.Call)
								if !ok {
									continue
								}
								if op, isSM := syncMapOp(call); isSM && op == "Load" {
									okCall = false
									why = "only depending on whether the saved document is open in the editor (a lookup in the document store)"
								}
								if cal := call.Call.StaticCallee(); cal != nil && cal.Pkg != nil && cal.Pkg.Pkg.Path() == "os" {
									okCall = false
									why = "only depending on the outcome of os." + cal.Name()
								}
							}
						}
						for v := range backSlice(cc.Cond) {
							var ft types.Type
							switch x := v.(type) {
							case *ssa.FieldAddr:
								ft = x.Type().Underlying().(*types.Pointer).Elem()
							case *ssa.Field:
								ft = x.Type()
							}
							if ft != nil && typeHasSuffix(ft, "workspace.Workspace") {
								okCall = false
								why = "only when a workspace exists (the call is control dependent on the server's workspace field)"
							}
						}
					}
				}
				if okCall {
					okAny = true
				}
			}
			c.check(okAny, "G-INVALIDATE", fname, role+" invalidates the include cache", sites[0].call.Pos(),
				"the loader cache entry of the changed file is dropped whether or not a workspace exists",
				"the loader cache is invalidated "+why+": without a workspace root a changed included file stays cached forever")
		}
	}
	c.census("G-INVALIDATE", "change/save handlers", n, 2)
	// the invalidation method deletes under the loader's lock
	ipk := c.P.ByRel["internal/include"]
	// the invalidation methods: exported Loader methods that delete from / replace a map field
	var invFds []*ast.FuncDecl
	for _, f := range ipk.Syntax {
		for _, d := range f.Decls {
			fd, ok := d.(*ast.FuncDecl)
			if !ok || fd.Body == nil || recvTypeName(fd) != "Loader" || !fd.Name.IsExported() {
				continue
			}
			mut := false
			ast.Inspect(fd.Body, func(x ast.Node) bool {
				switch s := x.(type) {
				case *ast.CallExpr:
					if identOf(s.Fun).Name == "delete" {
						mut = true
					}
				case *ast.AssignStmt:
					for _, l := range s.Lhs {
						if t := ipk.TypesInfo.TypeOf(l); t != nil {
							if _, isMap := t.Underlying().(*types.Map); isMap {
								if _, isSel := ast.Unparen(l).(*ast.SelectorExpr); isSel {
									mut = true
								}
							}
						}
					}
				}
				return true
			})
			if mut {
				invFds = append(invFds, fd)
			}
		}
	}
	c.census("G-INVALIDATE", "loader methods that drop cache entries", len(invFds), 1)
	for _, fd := range invFds {
		locks, mutates := false, false
		ast.Inspect(fd.Body, func(x ast.Node) bool {
			if call, ok := x.(*ast.CallExpr); ok {
				q := qualName(calleeOf(ipk.TypesInfo, call))
				if q == "sync.RWMutex.Lock" || q == "sync.Mutex.Lock" {
					locks = true
				}
				if identOf(call.Fun).Name == "delete" {
					mutates = true
				}
			}
			if as, ok := x.(*ast.AssignStmt); ok {
				for _, l := range as.Lhs {
					if t := ipk.TypesInfo.TypeOf(l); t != nil {
						if _, isMap := t.Underlying().(*types.Map); isMap {
							mutates = true
						}
					}
				}
			}
			return true
		})
		c.check(locks && mutates, "G-INVALIDATE", c.P.declName(fd), "drops cache entries under the write lock", fd.Pos(),
			"cache entry is deleted / cache replaced under the loader's lock", "the method does not delete from (or replace) the cache under the loader's write lock")
	}
}

func isEmptyStringConst(v ssa.Value) bool {
	k, ok := v.(*ssa.Const)
	return ok && k.Value != nil && k.Value.Kind() == constant.String && constant.StringVal(k.Value) == ""
}
