package main

import (
	"fmt"
	"golang.org/x/tools/go/callgraph"
)

func dbgPath(p *Prog, target string) {
	g := p.CallGraph("vta")
	main := p.SSAPkg("cmd/hledger-lsp").Func("main")
	prev := map[*ssaFunc]*callgraph.Edge{}
	seen := map[*ssaFunc]bool{main: true}
	q := []*ssaFunc{main}
	for len(q) > 0 {
		f := q[0]
		q = q[1:]
		if funcName(f) == target {
			for f != main {
				e := prev[f]
				fmt.Println("  <-", funcName(e.Caller.Func), "site", e.Site)
				f = e.Caller.Func
			}
			return
		}
		if n := g.Nodes[f]; n != nil {
			for _, e := range n.Out {
				if c := e.Callee.Func; !seen[c] {
					seen[c] = true
					prev[c] = e
					q = append(q, c)
				}
			}
		}
	}
	fmt.Println("unreachable", target)
}
