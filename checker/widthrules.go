package main

// C05-WIDTH: the widest account is chosen by the width it is written with.
//
// A posting's account is written with brackets when the posting is virtual - `(a:b)`, `[a:b]` - so its width in
// the alignment computation is the length of the name plus 2.  Wherever the formatter compares or maximises a
// number derived from an account's name (the search for the longest account that fixes the common amount column),
// that number also depends on the posting's Virtual kind: it comes out of the display-length function, or the
// kind is tested on the way (data or deciding branch).  A comparison of bare name lengths - a short cut that skips
// "shorter" names before the brackets are added, a slices.MaxFunc over the names with the +2 added afterwards -
// picks the wrong posting when a virtual account is as long as, or one shorter than, the longest real one: its
// amount then starts behind the common column.

import (
	"go/token"
	"go/types"

	"golang.org/x/tools/go/ssa"
)

func ruleAlignWidth(c *Ctx) {
	fpk := c.P.SSAPkg("internal/formatter")
	readsField := func(sl map[ssa.Value]bool, owner, field string) bool {
		for v := range sl {
			switch x := v.(type) {
			case *ssa.FieldAddr:
				if pt, ok := x.X.Type().Underlying().(*types.Pointer); ok && typeHasSuffix(pt.Elem(), owner) && fieldVarOfAddr(x).Name() == field {
					return true
				}
			case *ssa.Field:
				if typeHasSuffix(x.X.Type(), owner) {
					if st, ok := x.X.Type().Underlying().(*types.Struct); ok && st.Field(x.Field).Name() == field {
						return true
					}
				}
			}
		}
		return false
	}
	isInt := func(v ssa.Value) bool {
		b, ok := v.Type().Underlying().(*types.Basic)
		return ok && b.Info()&types.IsInteger != 0
	}
	// width functions: module functions with an integer result that depends on the account's name and on the
	// Virtual kind - directly, or because it is computed from the result of another width function
	widthFn := map[*ssa.Function]bool{}
	for changed := true; changed; {
		changed = false
		for _, g := range c.P.ModuleFuncs() {
			if widthFn[g] || g.Blocks == nil || g.Signature.Results().Len() == 0 {
				continue
			}
			for _, b := range g.Blocks {
				ret, ok := lastInstr(b).(*ssa.Return)
				if !ok {
					continue
				}
				for _, rv := range ret.Results {
					if !isInt(rv) {
						continue
					}
					sl := map[ssa.Value]bool{}
					sliceWithControl(rv, 0, sl)
					viaWidth := false
					for v := range sl {
						if call, ok := v.(*ssa.Call); ok {
							if cal := call.Call.StaticCallee(); cal != nil && widthFn[cal] {
								viaWidth = true
							}
						}
					}
					if (readsField(sl, "ast.Account", "Name") && readsField(sl, "ast.Posting", "Virtual")) || viaWidth {
						widthFn[g] = true
						changed = true
					}
				}
			}
		}
	}
	n := 0
	judge := func(f *ssa.Function, operand ssa.Value, pos token.Pos, what string) {
		if !isInt(operand) {
			return
		}
		if _, isConst := operand.(*ssa.Const); isConst {
			return
		}
		sl := map[ssa.Value]bool{}
		sliceWithControl(operand, 0, sl)
		if !readsField(sl, "ast.Account", "Name") {
			return
		}
		n++
		viaWidth := false
		for v := range sl {
			if call, ok := v.(*ssa.Call); ok {
				if cal := call.Call.StaticCallee(); cal != nil && widthFn[cal] {
					viaWidth = true
				}
			}
		}
		c.check(readsField(sl, "ast.Posting", "Virtual") || viaWidth, "C05-WIDTH", funcName(f), "an account width that is "+what+" counts the brackets of a virtual posting", pos,
			"the compared number depends on the account's name and on the posting's Virtual kind",
			"a number derived from an account's name is "+what+" without the posting's Virtual kind having a say: the brackets of a virtual posting ((a:b), [a:b]) are not counted when the widest account is chosen, so a virtual account as long as the longest real one gets its amount behind the common column")
	}
	for _, f := range c.P.ModuleFuncs() {
		top := f
		for top.Parent() != nil {
			top = top.Parent()
		}
		if top.Pkg != fpk {
			continue
		}
		for _, b := range f.Blocks {
			for _, ins := range b.Instrs {
				switch x := ins.(type) {
				case *ssa.BinOp:
					switch x.Op {
					case token.LSS, token.LEQ, token.GTR, token.GEQ:
						judge(f, x.X, x.Pos(), "compared")
						judge(f, x.Y, x.Pos(), "compared")
					}
				case *ssa.Call:
					if bi, ok := x.Call.Value.(*ssa.Builtin); ok && (bi.Name() == "max" || bi.Name() == "min") {
						for _, a := range x.Call.Args {
							judge(f, a, x.Pos(), "maximised")
						}
					}
					// cmp.Compare(a, b) in a comparator handed to slices.MaxFunc / SortFunc
					if cal := x.Call.StaticCallee(); cal != nil {
						o := cal
						if cal.Origin() != nil {
							o = cal.Origin() // cmp.Compare[int]
						}
						if o.Pkg != nil && o.Pkg.Pkg.Path() == "cmp" && o.Name() == "Compare" {
							for _, a := range x.Call.Args {
								judge(f, a, x.Pos(), "compared")
							}
						}
					}
				}
			}
		}
	}
	c.census("C05-WIDTH", "comparisons of account widths in the formatter", n, 1)
}
