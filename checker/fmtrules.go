package main

// Formatter rules for C04 / C05: T13, T14, T15, C04-ERRS, C05-INDENT, and C06-REPEAT.

import (
	"fmt"
	"go/ast"
	"go/constant"
	"go/token"
	"go/types"
	"sort"
	"strings"

	"golang.org/x/tools/go/ssa"
)

// postingLineKey: expr is `<posting>.<fields...> - k`; returns ("Range.Start.Line", k).
func postingLineKey(info *types.Info, e ast.Expr) (string, int64, bool) {
	e = ast.Unparen(e)
	k := int64(0)
	if be, ok := e.(*ast.BinaryExpr); ok && be.Op == token.SUB {
		if tv, ok := info.Types[be.Y]; ok && tv.Value != nil {
			if v, ok := constant.Int64Val(constant.ToInt(tv.Value)); ok {
				k = v
				e = ast.Unparen(be.X)
			}
		}
	}
	var parts []string
	for {
		se, ok := e.(*ast.SelectorExpr)
		if !ok {
			return "", 0, false
		}
		parts = append([]string{se.Sel.Name}, parts...)
		t := info.TypeOf(se.X)
		if t != nil {
			if pt, ok := t.(*types.Pointer); ok {
				t = pt.Elem()
			}
			if strings.HasSuffix(types.TypeString(t, nil), "/ast.Posting") {
				return strings.Join(parts, "."), k, true
			}
		}
		e = ast.Unparen(se.X)
	}
}

// ruleT14: every source-derived field the parser fills in a posting is read by the posting formatter.
func ruleT14(c *Ctx) {
	ppk := c.P.ByRel["internal/parser"]
	fpk := c.P.ByRel["internal/formatter"]
	targets := map[string]bool{"Posting": true, "Amount": true, "Commodity": true, "Cost": true, "BalanceAssertion": true, "Account": true}
	written := map[string]token.Pos{}
	astType := func(t types.Type) string {
		if t == nil {
			return ""
		}
		if pt, ok := t.(*types.Pointer); ok {
			t = pt.Elem()
		}
		s := types.TypeString(t, nil)
		if i := strings.LastIndex(s, "/ast."); i >= 0 {
			return s[i+5:]
		}
		return ""
	}
	pinfo := ppk.TypesInfo
	for _, f := range ppk.Syntax {
		for _, d := range f.Decls {
			fd, ok := d.(*ast.FuncDecl)
			if !ok || fd.Body == nil {
				continue
			}
			// only the posting parser's call tree matters; directive parsers build other nodes
			ast.Inspect(fd.Body, func(x ast.Node) bool {
				switch n := x.(type) {
				case *ast.CompositeLit:
					tn := astType(pinfo.TypeOf(n))
					if !targets[tn] {
						return true
					}
					for _, el := range n.Elts {
						if kv, ok := el.(*ast.KeyValueExpr); ok {
							written[tn+"."+identOf(kv.Key).Name] = kv.Pos()
						}
					}
				case *ast.AssignStmt:
					for _, l := range n.Lhs {
						if se, ok := ast.Unparen(l).(*ast.SelectorExpr); ok {
							tn := astType(pinfo.TypeOf(se.X))
							if targets[tn] {
								written[tn+"."+se.Sel.Name] = se.Pos()
							}
						}
					}
				}
				return true
			})
		}
	}
	read := map[string]bool{}
	finfo := fpk.TypesInfo
	for _, f := range fpk.Syntax {
		for _, d := range f.Decls {
			fd, ok := d.(*ast.FuncDecl)
			if !ok || fd.Body == nil {
				continue
			}
			ast.Inspect(fd.Body, func(x ast.Node) bool {
				if se, ok := x.(*ast.SelectorExpr); ok {
					tn := astType(finfo.TypeOf(se.X))
					if targets[tn] {
						read[tn+"."+se.Sel.Name] = true
					}
				}
				return true
			})
		}
	}
	exempt := map[string]string{
		"Posting.Range": "position only", "Amount.Range": "position only", "Commodity.Range": "position only", "Cost.Range": "position only",
		"BalanceAssertion.Range": "position only", "Account.Range": "position only", "Posting.Tags": "derived from Posting.Comment, which is re-emitted",
	}
	var ws []string
	for w := range written {
		ws = append(ws, w)
	}
	sort.Strings(ws)
	n := 0
	for _, w := range ws {
		if why, ok := exempt[w]; ok {
			c.ok("T14", "formatter", "field "+w, written[w], "not re-emitted by design: "+why)
			continue
		}
		n++
		c.check(read[w], "T14", "formatter", "field "+w+" written by the parser is read by the formatter", written[w],
			"the posting formatter consults "+w,
			"the parser records "+w+" from the source text but the formatter, which rebuilds every posting line from the syntax tree, never reads it: that part of the posting is lost or changed by formatting")
	}
	c.census("T14", "source-derived posting fields written by the parser", n, 10)
}

// ruleT15: delimiters dropped by the lexer are restored by the formatter.
func ruleT15(c *Ctx) {
	kinds := delimiterDroppingKinds(c)
	fpk := c.P.ByRel["internal/formatter"]
	_ = fpk.TypesInfo
	// comment: the literal written right before posting.Comment must end with the comment character and nothing else
	if kinds["TokenComment"] {
		// on SSA: wherever the posting's comment value is written (string concatenation, consecutive writes to a
		// builder, a variadic "put" helper, a helper method that receives the text), the constant written
		// immediately before it ends with the ';' the lexer dropped - nothing (a blank) is inserted in between
		var lits []string
		fssa := c.P.SSAPkg("internal/formatter")
		for _, f := range c.P.ModuleFuncs() {
			top := f
			for top.Parent() != nil {
				top = top.Parent()
			}
			if top.Pkg != fssa {
				continue
			}
			for _, b := range f.Blocks {
				for _, ins := range b.Instrs {
					ld, ok := ins.(*ssa.UnOp)
					if !ok || ld.Op != token.MUL {
						continue
					}
					fa, ok := ld.X.(*ssa.FieldAddr)
					if !ok || !typeHasSuffix(fa.X.Type(), "ast.Posting") || fieldVarOfAddr(fa).Name() != "Comment" {
						continue
					}
					lits = append(lits, constsWrittenBefore(ld, 0, map[ssa.Value]bool{})...)
				}
			}
		}
		okLit := len(lits) > 0
		for _, l := range lits {
			if !strings.HasSuffix(l, ";") {
				okLit = false
			}
		}
		c.check(okLit, "T15", "formatter", "comment re-emitted behind exactly the delimiter the lexer dropped", token.NoPos,
			fmt.Sprintf("the text written before posting.Comment is %q: the comment value (everything after ';') follows verbatim", lits),
			fmt.Sprintf("the lexer's comment value is everything after ';' (leading blank included) but the formatter writes %q before it: every formatting run inserts another blank, so formatting is not idempotent", lits))
	}
	if kinds["TokenComment"] {
		// ... and the text that carries the comment is not trimmed afterwards: the comment is the last thing on a
		// posting line, so a right trim of the rebuilt line cuts into the comment's own text.  A comment that
		// consists of blanks only loses them in the first run and - the parser then sees an empty comment - its
		// ';' in the second: format(format(x)) differs from format(x).
		fssa := c.P.SSAPkg("internal/formatter")
		isCommentLoad := func(v ssa.Value) bool {
			ld, ok := v.(*ssa.UnOp)
			if !ok || ld.Op != token.MUL {
				return false
			}
			fa, ok := ld.X.(*ssa.FieldAddr)
			return ok && typeHasSuffix(fa.X.Type(), "ast.Posting") && fieldVarOfAddr(fa).Name() == "Comment"
		}
		var carriesComment func(v ssa.Value, depth int) bool
		carriesComment = func(v ssa.Value, depth int) bool {
			for w := range backSlice(v) {
				if isCommentLoad(w) {
					return true
				}
				// the text of a strings.Builder: what was written into it
				call, ok := w.(*ssa.Call)
				if !ok || depth > 1 {
					continue
				}
				cal := call.Call.StaticCallee()
				if cal == nil || cal.Name() != "String" || cal.Signature.Recv() == nil || !typeHasSuffix(cal.Signature.Recv().Type(), "strings.Builder") || len(call.Call.Args) == 0 {
					continue
				}
				recv := call.Call.Args[0]
				if recv.Referrers() == nil {
					continue
				}
				for _, r := range *recv.Referrers() {
					wc, ok := r.(*ssa.Call)
					if !ok || wc == call {
						continue
					}
					for i, a := range wc.Call.Args {
						if a == recv && i == 0 {
							continue
						}
						if carriesComment(a, depth+1) {
							return true
						}
					}
				}
			}
			return false
		}
		nTrim := 0
		for _, f := range c.P.ModuleFuncs() {
			top := f
			for top.Parent() != nil {
				top = top.Parent()
			}
			if top.Pkg != fssa {
				continue
			}
			for _, b := range f.Blocks {
				for _, ins := range b.Instrs {
					call, ok := ins.(*ssa.Call)
					if !ok {
						continue
					}
					cal := call.Call.StaticCallee()
					if cal == nil || cal.Pkg == nil || cal.Pkg.Pkg.Path() != "strings" || len(call.Call.Args) == 0 {
						continue
					}
					switch cal.Name() {
					case "TrimRight", "TrimSpace", "Trim", "TrimSuffix", "TrimRightFunc", "TrimFunc":
					default:
						continue
					}
					nTrim++
					c.check(!carriesComment(call.Call.Args[0], 0), "T15", funcName(f), "no right trim of a text that ends with the posting's comment: strings."+cal.Name(), call.Pos(),
						"the trimmed text does not carry a posting's comment",
						"a text that carries the posting's comment is trimmed on the right (strings."+cal.Name()+"): the comment is the end of the line, so the trim cuts the comment's own text - a comment made of blanks loses them and, one run later, its ';' (formatting is not idempotent, and the first run already changes the comment)")
				}
			}
		}
		c.note("T15: right trims in the formatter: %d", nTrim)
	}
	if kinds["TokenCommodity"] {
		// a branch on the Quoted flag exists in the formatter and the parser derives the flag from the lexeme
		readsQuoted := false
		for _, f := range fpk.Syntax {
			ast.Inspect(f, func(x ast.Node) bool {
				if se, ok := x.(*ast.SelectorExpr); ok && se.Sel.Name == "Quoted" {
					readsQuoted = true
				}
				return true
			})
		}
		c.check(readsQuoted, "T15", "formatter", "quoted commodities get their quotes back", token.NoPos,
			"the formatter consults Commodity.Quoted when it writes the symbol",
			"the lexer drops the double quotes of a quoted commodity and the formatter writes the bare symbol: '10 \"AAPL 2024\"' becomes '10 AAPL 2024', which parses differently")
	}
	c.census("T15", "delimiter-dropping token kinds relevant to postings", len(kinds), 2)
}

// ruleRepeat (C06-REPEAT): every strings.Repeat count on a request path is non-negative and bounded.
func ruleRepeat(c *Ctx) {
	ci := buildConc(c)
	n := 0
	for _, f := range ci.funcs {
		if !(ci.reachH[f] || ci.reachG[f]) {
			continue
		}
		for _, call := range findCalls(f, func(cal *ssa.Function) bool { return funcName(cal) == "strings.Repeat" }) {
			n++
			cnt := call.Common().Args[1]
			ok, why := repeatCountSafe(c, ci, cnt, f, 0)
			c.check(ok, "C06-REPEAT", funcName(f), "Repeat count is non-negative and bounded", call.Pos(), why,
				"strings.Repeat is called with a count that is not shown to be non-negative and bounded ("+why+"): a negative count panics, an unbounded one allocates without limit; there is no recover in the server")
		}
	}
	c.census("C06-REPEAT", "strings.Repeat calls on request paths", n, 3)
	// the normaliser clamps every configuration integer that becomes a Repeat count
	spk := c.P.ByRel["internal/server"]
	var norm *ast.FuncDecl
	for _, f := range spk.Syntax {
		for _, d := range f.Decls {
			if fd, ok := d.(*ast.FuncDecl); ok && fd.Body != nil && fd.Recv == nil && fd.Type.Params != nil && len(fd.Type.Params.List) == 1 && fd.Type.Results != nil && len(fd.Type.Results.List) == 1 {
				pt := types.TypeString(spk.TypesInfo.TypeOf(fd.Type.Params.List[0].Type), nil)
				rt := types.TypeString(spk.TypesInfo.TypeOf(fd.Type.Results.List[0].Type), nil)
				if pt == rt && strings.HasSuffix(pt, "server.serverSettings") {
					norm = fd
				}
			}
		}
	}
	if norm == nil {
		c.undecided("C06-REPEAT", "server", "settings normaliser", token.NoPos, "normaliser not found")
		return
	}
	// value-range analysis of the normaliser: whatever the configuration, the integers that become Repeat counts
	// leave it inside a finite, non-negative range
	ranges, rt := resultRanges(c.P.ssaOf(norm))
	found := map[string]bool{}
	for _, p := range sortedLeafPaths(ranges) {
		leaf := leafName(rt, p)
		if leaf != "Formatting.IndentSize" && leaf != "Formatting.MinAlignmentColumn" {
			continue
		}
		found[leaf] = true
		r := ranges[p]
		okR := !r.loInf && !r.hiInf && r.lo >= 0 && r.hi <= 1<<16 // a per-line allocation of at most 64 KiB
		c.check(okR, "C06-REPEAT", c.P.declName(norm), "configuration integer "+leaf+" is clamped on both sides", norm.Pos(),
			"the normalised value lies in "+r.String()+" for every input (value-range analysis of the normaliser)",
			"the configuration value "+leaf+" reaches strings.Repeat counts but the normaliser does not bound it on both sides (range of the normalised value: "+r.String()+"): a negative count panics, a huge value makes one request allocate gigabytes")
	}
	c.census("C06-REPEAT", "configuration integers that become Repeat counts", len(found), 2)
}

func repeatCountSafe(c *Ctx, ci *concInfo, v ssa.Value, f *ssa.Function, depth int) (bool, string) {
	switch x := v.(type) {
	case *ssa.Const:
		if x.Value != nil && x.Int64() >= 0 {
			return true, "constant " + x.Value.String()
		}
		return false, "negative constant"
	case *ssa.Call:
		if bi, ok := x.Call.Value.(*ssa.Builtin); ok && bi.Name() == "max" {
			for _, a := range x.Call.Args {
				if k, ok := a.(*ssa.Const); ok && k.Value != nil && k.Int64() >= 0 {
					// bounded above? the other operand is a difference of lengths of the line: bounded by input size
					return true, "max(…, " + k.Value.String() + ")"
				}
			}
		}
	case *ssa.Phi:
		for _, e := range x.Edges {
			if ok, why := repeatCountSafe(c, ci, e, f, depth+1); !ok {
				return false, why
			}
		}
		return true, "all incoming values are safe"
	case *ssa.UnOp:
		if x.Op == token.MUL && fieldAddrNamed(x.X, "IndentSize") {
			return true, "Options/ settings IndentSize (normalised and clamped)"
		}
		if x.Op == token.MUL {
			// local variable cell / spilled parameter
			if al, ok := x.X.(*ssa.Alloc); ok {
				all := true
				n := 0
				why := ""
				for _, r := range *al.Referrers() {
					if st, ok := r.(*ssa.Store); ok && st.Addr == al {
						n++
						if ok2, w := repeatCountSafe(c, ci, st.Val, f, depth+1); !ok2 {
							all = false
							why = w
						}
					}
				}
				if n > 0 && all {
					return true, "all stored values are safe"
				}
				return false, why
			}
		}
	case *ssa.Field:
		if st, ok := x.X.Type().Underlying().(*types.Struct); ok && st.Field(x.Field).Name() == "IndentSize" {
			return true, "IndentSize (normalised and clamped)"
		}
	case *ssa.Parameter:
		if depth > 3 {
			return false, "call chain too deep"
		}
		idx := -1
		for i, p := range f.Params {
			if p == x {
				idx = i
			}
		}
		node := ci.g.Nodes[f]
		if node == nil || idx < 0 || len(node.In) == 0 {
			return false, "parameter " + x.Name() + " with unknown callers"
		}
		for _, e := range node.In {
			if e.Site == nil || !inModule(e.Caller.Func) {
				continue
			}
			if ok, why := repeatCountSafe(c, ci, e.Site.Common().Args[idx], e.Caller.Func, depth+1); !ok {
				return false, "caller " + funcName(e.Caller.Func) + ": " + why
			}
		}
		return true, "every caller passes a safe count"
	}
	// dominated by a positivity guard?
	if ins, ok := v.(ssa.Instruction); ok {
		for _, cond := range controlConds(ins.Block()) {
			if bin, ok := cond.(*ssa.BinOp); ok && (bin.Op == token.GTR || bin.Op == token.GEQ) && bin.X == v {
				return true, "guarded by " + bin.String()
			}
		}
	}
	return false, "count " + v.String() + " is neither a constant, a max(…, c>=0), nor a clamped setting"
}

// constsWrittenBefore: the string constants that are written immediately in front of the string value v, wherever
// v is emitted: the left operand of a concatenation, the preceding element of a variadic argument list, the
// preceding write to the same builder; a module function that receives v as a parameter is entered.
func constsWrittenBefore(v ssa.Value, depth int, seen map[ssa.Value]bool) []string {
	if depth > 4 || seen[v] || v.Referrers() == nil {
		return nil
	}
	seen[v] = true
	var out []string
	lastConst := func(x ssa.Value) (string, bool) {
		for i := 0; i < 6; i++ {
			if s, ok := constString(x); ok {
				return s, true
			}
			bo, ok := x.(*ssa.BinOp)
			if !ok || bo.Op != token.ADD {
				return "", false
			}
			x = bo.Y
		}
		return "", false
	}
	for _, r := range *v.Referrers() {
		switch x := r.(type) {
		case *ssa.BinOp:
			if x.Op == token.ADD && x.Y == v {
				if s, ok := lastConst(x.X); ok {
					out = append(out, s)
				}
			} else if x.Op == token.ADD && x.X == v {
				// v + rest: what precedes v is what precedes the sum
				out = append(out, constsWrittenBefore(x, depth+1, seen)...)
			}
		case *ssa.Store:
			// element k of a variadic argument list: the element before it
			ia, ok := x.Addr.(*ssa.IndexAddr)
			if !ok || x.Val != v {
				continue
			}
			k, ok := ia.Index.(*ssa.Const)
			if !ok || k.Value == nil || k.Int64() == 0 {
				continue
			}
			for _, r2 := range *ia.X.Referrers() {
				if ia2, ok := r2.(*ssa.IndexAddr); ok {
					if k2, ok := ia2.Index.(*ssa.Const); ok && k2.Value != nil && k2.Int64() == k.Int64()-1 {
						for _, r3 := range *ia2.Referrers() {
							if st, ok := r3.(*ssa.Store); ok {
								if s, ok := lastConst(st.Val); ok {
									out = append(out, s)
								}
							}
						}
					}
				}
			}
		case *ssa.Call:
			ai := -1
			for i, a := range x.Call.Args {
				if a == v {
					ai = i
				}
			}
			if ai < 0 {
				continue
			}
			if cal := x.Call.StaticCallee(); cal != nil && cal.Blocks != nil && inModule(cal) && ai < len(cal.Params) {
				out = append(out, constsWrittenBefore(cal.Params[ai], depth+1, seen)...)
				continue
			}
			// an external writer (strings.Builder.WriteString, ...): the previous write to the same receiver
			if len(x.Call.Args) >= 2 {
				recv := x.Call.Args[0]
				blk := x.Block()
				idx := -1
				for i, y := range blk.Instrs {
					if y == ssa.Instruction(x) {
						idx = i
					}
				}
				for i := idx - 1; i >= 0; i-- {
					pc, ok := blk.Instrs[i].(*ssa.Call)
					if !ok || len(pc.Call.Args) < 2 || !(pc.Call.Args[0] == recv || sameAddr(pc.Call.Args[0], recv, 0)) {
						continue
					}
					if s, ok := lastConst(pc.Call.Args[len(pc.Call.Args)-1]); ok {
						out = append(out, s)
					}
					break
				}
			}
		case *ssa.Phi:
			out = append(out, constsWrittenBefore(x, depth+1, seen)...)
		}
	}
	return out
}
