package main

// C01 rules: C01-THREAD, C01-STORE, C01-OPTIONAL, C01-CLAMP, C01-CONV, C01-SOURCE, C-CACHE, C-FRESH.

import (
	"fmt"
	"go/constant"
	"go/token"
	"go/types"
	"sort"
	"strings"

	"golang.org/x/tools/go/ssa"
)

// syncMapOpOf: the call is an operation on a sync.Map held (possibly inside a small wrapper struct) by a
// field of a shared struct: either a sync.Map method called directly, or a method of a module wrapper type whose
// body performs exactly one kind of sync.Map operation on its receiver with its own parameters.  Returns the
// qualified field ("server.Server.documents"), the sync.Map method, and the key / value operands in terms of
// this call's arguments.
func syncMapOpOf(call ssa.CallInstruction) (field, op string, key, val ssa.Value, ok bool) {
	cal := call.Common().StaticCallee()
	if cal == nil || cal.Signature.Recv() == nil || len(call.Common().Args) == 0 {
		return
	}
	rootField := func(v ssa.Value) string {
		var last *ssa.FieldAddr
		for {
			fa, isFA := v.(*ssa.FieldAddr)
			if !isFA {
				break
			}
			last = fa
			v = fa.X
		}
		if last == nil {
			return "?"
		}
		return fieldKey(last.X.Type(), last.Field)
	}
	args := call.Common().Args
	if cal.Pkg != nil && cal.Pkg.Pkg.Path() == "sync" && strings.HasSuffix(types.TypeString(cal.Signature.Recv().Type(), nil), "sync.Map") {
		field, op, ok = rootField(args[0]), cal.Name(), true
		if len(args) > 1 {
			key = args[1]
		}
		if len(args) > 2 {
			val = args[2]
		}
		return
	}
	if !inModule(cal) || cal.Blocks == nil || len(cal.Params) == 0 {
		return
	}
	// wrapper method: one kind of sync.Map operation on the receiver
	var inner ssa.CallInstruction
	n := 0
	for _, b := range cal.Blocks {
		for _, ins := range b.Instrs {
			ic, isCall := ins.(ssa.CallInstruction)
			if !isCall {
				continue
			}
			c2 := ic.Common().StaticCallee()
			if c2 == nil || c2.Pkg == nil || c2.Pkg.Pkg.Path() != "sync" || c2.Signature.Recv() == nil || !strings.HasSuffix(types.TypeString(c2.Signature.Recv().Type(), nil), "sync.Map") {
				continue
			}
			// on the wrapper's receiver
			r := ic.Common().Args[0]
			for {
				fa, isFA := r.(*ssa.FieldAddr)
				if !isFA {
					break
				}
				r = fa.X
			}
			if r != ssa.Value(cal.Params[0]) {
				continue
			}
			inner = ic
			n++
		}
	}
	if n != 1 {
		return
	}
	bind := func(v ssa.Value) ssa.Value {
		if v == nil {
			return nil
		}
		for w := range backSlice(v) {
			if p, isP := w.(*ssa.Parameter); isP && p.Parent() == cal {
				for i, q := range cal.Params {
					if q == p && i < len(args) && i > 0 {
						return args[i]
					}
				}
			}
		}
		return nil
	}
	ia := inner.Common().Args
	field, op, ok = rootField(args[0]), inner.Common().StaticCallee().Name(), true
	if len(ia) > 1 {
		key = bind(ia[1])
	}
	if len(ia) > 2 {
		val = bind(ia[2])
	}
	return
}

func isSyncMapCall(call ssa.CallInstruction, method string) (field string, ok bool) {
	f, op, _, _, ok := syncMapOpOf(call)
	if !ok || op != method {
		return "", false
	}
	return f, true
}

// changeHandler: the notification handler that applies content changes.  It is found from the data flow, not from
// the shape of one function: a store into a sync.Map held by the server whose stored value derives from a
// loop-carried string (a phi one of whose inputs is a call applied to the phi itself - the running text folded
// over the changes).  The loop may live in the handler or in a helper it calls.  Returns the handler (the
// enclosing server method that receives the notification's change list), the phi, the store site and the field.
// carriedText: the running text of the change loop.  In register form it is a phi at the loop header; when the
// variable is captured by a function literal it stays a memory cell that is stored to inside the loop.
type carriedText struct {
	phi    *ssa.Phi
	cell   *ssa.Alloc
	Edges  []ssa.Value     // the values the running text is set to
	header *ssa.BasicBlock // the header of the loop over the changes
}

func (ct *carriedText) Pos() token.Pos {
	if ct.phi != nil {
		return ct.phi.Pos()
	}
	return ct.cell.Pos()
}
func (ct *carriedText) Parent() *ssa.Function  { return ct.header.Parent() }
func (ct *carriedText) Block() *ssa.BasicBlock { return ct.header }

// is: v is the running text (the phi, or a load of the cell)
func (ct *carriedText) is(v ssa.Value) bool {
	if ct.phi != nil {
		return v == ssa.Value(ct.phi)
	}
	u, ok := v.(*ssa.UnOp)
	return ok && u.Op == token.MUL && u.X == ssa.Value(ct.cell)
}

// current: argument a of call is the value of the running text at the time of the call (for a cell: a load in the
// call's block with no store into the cell in between - a copy taken before the loop is a stale text)
func (ct *carriedText) current(a ssa.Value, call *ssa.Call) bool {
	if !ct.is(a) {
		return false
	}
	if ct.phi != nil {
		return true
	}
	u := a.(*ssa.UnOp)
	if u.Block() != call.Block() {
		return false
	}
	after := false
	for _, ins := range call.Block().Instrs {
		if ins == ssa.Instruction(u) {
			after = true
			continue
		}
		if ins == ssa.Instruction(call) {
			return after
		}
		if st, ok := ins.(*ssa.Store); ok && after && st.Addr == ssa.Value(ct.cell) {
			return false
		}
	}
	return false
}

// cellCarried: the string variable `cell` is set, inside a loop, to the result of a call applied to its own value.
func cellCarried(cell *ssa.Alloc) *carriedText {
	if cell.Referrers() == nil {
		return nil
	}
	ct := &carriedText{cell: cell}
	var inLoop *ssa.BasicBlock
	for _, r := range *cell.Referrers() {
		if mc, ok := r.(*ssa.MakeClosure); ok {
			// a function literal that captures the variable may set it too
			if fn, ok := mc.Fn.(*ssa.Function); ok {
				for i, bnd := range mc.Bindings {
					if bnd != ssa.Value(cell) || i >= len(fn.FreeVars) || fn.FreeVars[i].Referrers() == nil {
						continue
					}
					for _, r2 := range *fn.FreeVars[i].Referrers() {
						if st, ok := r2.(*ssa.Store); ok && st.Addr == ssa.Value(fn.FreeVars[i]) {
							ct.Edges = append(ct.Edges, st.Val)
						}
					}
				}
			}
			continue
		}
		st, ok := r.(*ssa.Store)
		if !ok || st.Addr != ssa.Value(cell) {
			continue
		}
		ct.Edges = append(ct.Edges, st.Val)
		if c2, ok := st.Val.(*ssa.Call); ok && inCycle(st.Block()) {
			for _, a := range c2.Common().Args {
				if ct.current(a, c2) {
					inLoop = st.Block()
				}
			}
		}
	}
	if inLoop == nil {
		return nil
	}
	// the innermost loop header (the block of a range index) that dominates the store and lies on its cycle
	for _, b := range cell.Parent().Blocks {
		isHeader := false
		for _, ins := range b.Instrs {
			if p2, ok := ins.(*ssa.Phi); ok && p2.Comment == "rangeindex" {
				isHeader = true
			}
		}
		if isHeader && b.Dominates(inLoop) && reachesBlock(inLoop, b) && (ct.header == nil || ct.header.Dominates(b)) {
			ct.header = b
		}
	}
	if ct.header == nil {
		return nil
	}
	return ct
}

func changeHandler(p *Prog) (*ssa.Function, *carriedText, ssa.CallInstruction, string) {
	spk := p.SSAPkg("internal/server")
	cgv := cgView{&Ctx{P: p}}
	hasChangeList := func(f *ssa.Function) bool {
		if f.Signature.Recv() == nil {
			return false
		}
		for _, q := range f.Params {
			t := q.Type()
			if pt, ok := t.Underlying().(*types.Pointer); ok {
				t = pt.Elem()
			}
			if st, ok := t.Underlying().(*types.Struct); ok {
				for i := 0; i < st.NumFields(); i++ {
					if st.Field(i).Name() == "ContentChanges" {
						return true
					}
				}
			}
		}
		return false
	}
	for _, f := range p.ModuleFuncs() {
		if f.Pkg != spk {
			continue
		}
		for _, b := range f.Blocks {
			for _, ins := range b.Instrs {
				call, ok := ins.(ssa.CallInstruction)
				if !ok {
					continue
				}
				fld, op, _, val, ok := syncMapOpOf(call)
				if !ok || op != "Store" || val == nil || !strings.HasPrefix(fld, "server.Server.") {
					continue
				}
				var phi *carriedText
				sl := backSlice(val)
				for v := range sl {
					ph, ok := v.(*ssa.Phi)
					if !ok || types.TypeString(ph.Type(), nil) != "string" {
						continue
					}
					for _, e := range ph.Edges {
						if c2, ok := e.(*ssa.Call); ok {
							for _, a := range c2.Common().Args {
								if a == ssa.Value(ph) {
									phi = &carriedText{phi: ph, Edges: ph.Edges, header: ph.Block()}
								}
							}
						}
					}
				}
				if phi == nil {
					// the variable is captured by a function literal: it stays a cell in memory
					for v := range sl {
						if al, ok := v.(*ssa.Alloc); ok && types.TypeString(al.Type(), nil) == "*string" {
							if ct := cellCarried(al); ct != nil {
								phi = ct
							}
						}
					}
				}
				if phi == nil {
					continue
				}
				// the handler: this function, or the nearest caller that receives the change list
				h := f
				for depth := 0; depth < 3 && !hasChangeList(h); depth++ {
					sites := cgv.callersOf(h)
					if len(sites) != 1 {
						break
					}
					h = sites[0].Parent()
				}
				if hasChangeList(h) {
					return h, phi, call, fld
				}
			}
		}
	}
	return nil, nil, nil, ""
}

func ruleC01(c *Ctx) {
	h, phi, store, docField := changeHandler(c.P)
	if h == nil {
		c.undecided("C01-THREAD", "server", "change handler", token.NoPos, "no server method stores a loop-carried text (the running text folded over the content changes) into a sync.Map document store")
		return
	}
	hname := funcName(h)
	ci := buildConc(c)
	c.note("document store: %s; change handler: %s", docField, hname)
	// ---- C01-THREAD
	var applier *ssa.Call
	okEdges := true
	var kinds []string
	for _, e := range phi.Edges {
		isApplier := false
		if x, ok := e.(*ssa.Call); ok {
			for _, a := range x.Common().Args {
				if phi.current(a, x) {
					isApplier = true
				}
			}
			if isApplier {
				applier = x
				kinds = append(kinds, "applier(running text)")
				continue
			}
		}
		if x, ok := e.(*ssa.UnOp); ok && fieldAddrNamed(x.X, "Text") {
			kinds = append(kinds, "change.Text")
			continue
		}
		// the initial text: read from the document store (here, or by the caller that passes it in)
		sl := sliceUp(ci, e, phi.Parent())
		fromStore := false
		for v := range sl {
			if call, ok := v.(*ssa.Call); ok {
				if f2, op, _, _, ok := syncMapOpOf(call); ok && op == "Load" && f2 == docField {
					fromStore = true
				}
				if cal := call.Common().StaticCallee(); cal != nil && calleeNameIs(cal, "server.Server).GetDocument") {
					fromStore = true
				}
			}
		}
		if fromStore {
			kinds = append(kinds, "stored text")
		} else {
			okEdges = false
			kinds = append(kinds, "a value that is neither the stored text, a change's text nor the applier's result")
		}
	}
	// the applier works on the running text only: nothing else that is carried from one change to the next (a
	// line index or mapper built from an earlier text) may reach it
	if applier != nil {
		for _, a := range applier.Common().Args {
			for v := range backSlice(a) {
				if ph, ok := v.(*ssa.Phi); ok && ph != phi.phi && ph.Block() == phi.Block() && ph.Comment != "rangeindex" {
					okEdges = false
					kinds = append(kinds, "applier argument carried over from earlier changes ("+ph.Comment+")")
				}
			}
		}
	}
	sort.Strings(kinds)
	c.check(okEdges && applier != nil && len(phi.Edges) >= 2, "C01-THREAD", hname, "changes are applied in order to the running text", phi.Pos(),
		"the text is a loop-carried value whose sources are exactly: the stored text, a range-less change's text, and the ranged applier applied to the running text ("+strings.Join(kinds, ", ")+")",
		"the text that is stored after a notification is not threaded through the content changes in order (sources: "+strings.Join(kinds, ", ")+"): several changes in one notification are applied to a stale text or out of order")
	// ascending range over the notification's change list
	asc := false
	for _, ins := range phi.Block().Instrs {
		if p2, ok := ins.(*ssa.Phi); ok && p2.Comment == "rangeindex" {
			for _, e := range p2.Edges {
				if bin, ok := e.(*ssa.BinOp); ok && bin.Op == token.ADD && bin.X == ssa.Value(p2) {
					if k, ok := bin.Y.(*ssa.Const); ok && k.Int64() == 1 {
						asc = true
					}
				}
			}
		}
	}
	c.check(asc, "C01-THREAD", hname, "changes are visited in ascending order", phi.Pos(), "range over the change list, index + 1 per iteration", "the content changes are not visited in list order")
	// ---- C01-STORE: the store happens after the loop over the changes (not inside it)
	inLoop := false
	if store.Parent() == phi.Parent() {
		inLoop = !phi.Block().Dominates(store.Block()) || (inCycle(store.Block()) && reachesBlock(store.Block(), phi.Block()))
	} else {
		inLoop = inCycle(store.Block()) // the fold lives in a helper: its result is stored by the caller, once
	}
	c.check(!inLoop, "C01-STORE", hname, "resulting text stored after all changes", store.Pos(),
		"the store consumes the folded text and lies outside the loop over the changes", "the text is stored inside the change loop or on a path that bypasses it")
	// open/close handlers
	spk := c.P.SSAPkg("internal/server")
	nOpen, nClose := 0, 0
	for _, f := range c.P.ModuleFuncs() {
		if f.Pkg != spk || f.Signature.Recv() == nil || f.Signature.Params().Len() != 2 {
			continue
		}
		pt := types.TypeString(f.Signature.Params().At(1).Type(), nil)
		if strings.HasSuffix(pt, "protocol.DidOpenTextDocumentParams") {
			nOpen++
			okOpen := false
			for _, b := range f.Blocks {
				for _, ins := range b.Instrs {
					if call, ok := ins.(*ssa.Call); ok {
						if fld, ok := isSyncMapCall(call, "Store"); ok && fld == docField {
							hasText, hasURI := false, false
							for v := range backSlice(call.Common().Args[2]) {
								if fieldAddrNamed(v, "Text") {
									hasText = true
								}
							}
							for v := range backSlice(call.Common().Args[1]) {
								if fieldAddrNamed(v, "URI") {
									hasURI = true
								}
							}
							okOpen = hasText && hasURI && len(controlConds(call.Block())) == 0
						}
					}
				}
			}
			c.check(okOpen, "C01-STORE", funcName(f), "didOpen stores the opened text under its URI", f.Pos(), "unconditional Store(URI, Text)", "the open handler does not unconditionally store the opened text under the document's URI")
		}
		if strings.HasSuffix(pt, "protocol.DidCloseTextDocumentParams") {
			nClose++
			okClose := false
			for _, b := range f.Blocks {
				for _, ins := range b.Instrs {
					if call, ok := ins.(*ssa.Call); ok {
						if fld, ok := isSyncMapCall(call, "Delete"); ok && fld == docField && len(controlConds(call.Block())) == 0 {
							okClose = true
						}
					}
				}
			}
			c.check(okClose, "C01-STORE", funcName(f), "didClose forgets the document", f.Pos(), "unconditional Delete(URI)", "the close handler does not remove the document: a re-open after close can be shadowed by the old text")
		}
	}
	c.census("C01-STORE", "open/close handlers", nOpen+nClose, 2)

	// ---- C01-OPTIONAL
	// (a) the predicate choosing whole-document replacement is a nil test of an optional (pointer) range: the
	// place where a change's Text becomes the running text as a whole (an input of the fold, or a return of the
	// per-change function the fold applies) is control dependent on `range == nil`
	okPred := false
	desc := "none"
	var textSites []*ssa.BasicBlock
	for i, e := range phi.Edges {
		if un, ok := e.(*ssa.UnOp); ok && fieldAddrNamed(un.X, "Text") {
			textSites = append(textSites, un.Block())
			if i < len(phi.Block().Preds) {
				textSites = append(textSites, phi.Block().Preds[i])
			}
		}
	}
	if applier != nil {
		if cal := applier.Common().StaticCallee(); cal != nil && inModule(cal) {
			for _, b := range cal.Blocks {
				for _, ins := range b.Instrs {
					if r, ok := ins.(*ssa.Return); ok && len(r.Results) == 1 {
						if un, ok := r.Results[0].(*ssa.UnOp); ok && fieldAddrNamed(un.X, "Text") {
							textSites = append(textSites, b)
						}
					}
				}
			}
		}
	}
	for _, blk := range textSites {
		for _, cc := range controlCondsPol(blk) {
			bin, ok := cc.Cond.(*ssa.BinOp)
			if !ok || (bin.Op != token.EQL && bin.Op != token.NEQ) {
				continue
			}
			desc = bin.String()
			for _, pr := range [][2]ssa.Value{{bin.X, bin.Y}, {bin.Y, bin.X}} {
				if k, ok := pr[1].(*ssa.Const); ok && k.IsNil() {
					if pt, ok := pr[0].Type().Underlying().(*types.Pointer); ok && typeHasSuffix(pt.Elem(), "protocol.Range") {
						if (bin.Op == token.EQL && cc.Taken) || (bin.Op == token.NEQ && !cc.Taken) {
							okPred = true
						}
					}
				}
			}
		}
	}
	c.check(okPred, "C01-OPTIONAL", hname, "whole-document replacement only when the range is absent", phi.Pos(),
		"the predicate is a nil test of an optional *protocol.Range",
		"the predicate that selects whole-document replacement ("+desc+") does not test an optional range for absence: with a non-pointer Range an insertion at 0:0-0:0 decodes exactly like a change without range and replaces the whole document (\"hello\\n\" + insert \"X\" at 0:0 => \"X\")")
	// (b) the wire path: the server binary routes textDocument/didChange to this handler.  Somewhere on a call
	// chain inside the binary's package that ends in the handler, a call site is control dependent on a
	// comparison with the method name; and main hands a function from which that chain is reachable (by calls
	// or by function values it creates) to the connection.
	g := c.P.CallGraph("vta")
	cmdPkg := c.P.SSAPkg("cmd/hledger-lsp")
	inCmd := func(f *ssa.Function) bool {
		top := f
		for top.Parent() != nil {
			top = top.Parent()
		}
		return top.Pkg == cmdPkg
	}
	okWire := false
	routed := map[*ssa.Function]bool{}
	var climb func(f *ssa.Function, depth int, seen map[*ssa.Function]bool)
	climb = func(f *ssa.Function, depth int, seen map[*ssa.Function]bool) {
		n := g.Nodes[f]
		if n == nil || depth > 4 || seen[f] {
			return
		}
		seen[f] = true
		for _, e := range n.In {
			cf := e.Caller.Func
			if e.Site == nil || !inCmd(cf) {
				continue
			}
			routed[cf] = true
			for _, cond := range controlConds(e.Site.Block()) {
				for v := range backSlice(cond) {
					if k, ok := v.(*ssa.Const); ok && k.Value != nil && k.Value.Kind() == constant.String && constant.StringVal(k.Value) == "textDocument/didChange" {
						okWire = true
					}
				}
			}
			climb(cf, depth+1, seen)
		}
	}
	climb(h, 0, map[*ssa.Function]bool{})
	c.check(okWire, "C01-OPTIONAL", "cmd/hledger-lsp", "didChange is decoded with an optional range on the wire path", token.NoPos,
		"the server binary routes textDocument/didChange to the optional-range handler",
		"no function of the server binary routes \"textDocument/didChange\" to the handler that takes optional ranges: on the wire path the protocol library's non-pointer Range is used")
	if okWire {
		// functions of the binary from which a routed function is reachable through calls or created function values
		var refReach func(f *ssa.Function, seen map[*ssa.Function]bool) bool
		refReach = func(f *ssa.Function, seen map[*ssa.Function]bool) bool {
			if f == nil || seen[f] {
				return false
			}
			seen[f] = true
			if routed[f] {
				return true
			}
			for _, b := range f.Blocks {
				for _, ins := range b.Instrs {
					for _, op := range ins.Operands(nil) {
						if op == nil || *op == nil {
							continue
						}
						switch x := (*op).(type) {
						case *ssa.Function:
							if refReach(x, seen) {
								return true
							}
						case *ssa.MakeClosure:
							if fn, ok := x.Fn.(*ssa.Function); ok && refReach(fn, seen) {
								return true
							}
						}
					}
					if call, ok := ins.(ssa.CallInstruction); ok {
						if cal := call.Common().StaticCallee(); cal != nil && inCmd(cal) && refReach(cal, seen) {
							return true
						}
					}
				}
			}
			for _, an := range f.AnonFuncs {
				if refReach(an, seen) {
					return true
				}
			}
			return false
		}
		main := cmdPkg.Func("main")
		installed := false
		if main != nil {
			for _, b := range main.Blocks {
				for _, ins := range b.Instrs {
					if call, ok := ins.(ssa.CallInstruction); ok && call.Common().IsInvoke() && call.Common().Method.Name() == "Go" {
						for _, a := range call.Common().Args {
							for v := range backSlice(a) {
								if cl, ok := v.(*ssa.Call); ok {
									if cal := cl.Common().StaticCallee(); cal != nil && inCmd(cal) && refReach(cal, map[*ssa.Function]bool{}) {
										installed = true
									}
								}
							}
						}
					}
				}
			}
		}
		c.check(installed, "C01-OPTIONAL", "cmd/hledger-lsp.main", "the didChange interceptor is installed on the connection", token.NoPos,
			"the handler given to the connection is built by a function from which the didChange route is reachable", "the optional-range didChange handler exists but is not part of the handler chain given to the connection")
	}

	ruleC01Mapper(c)
	ruleC01Source(c, docField)
	ruleCacheFresh(c, h, store, docField)
}

// ruleC01Mapper: C01-CONV and C01-CLAMP in lsputil.
func ruleC01Mapper(c *Ctx) {
	lpk := c.P.SSAPkg("internal/lsputil")
	var toByte, apply *ssa.Function
	for _, f := range c.P.ModuleFuncs() {
		if f.Pkg != lpk || f.Signature.Recv() == nil {
			continue
		}
		ps := f.Signature.Params()
		if ps.Len() == 1 && typeHasSuffix(ps.At(0).Type(), "protocol.Position") && types.TypeString(f.Signature.Results().At(0).Type(), nil) == "int" {
			toByte = f
		}
		if ps.Len() == 2 && typeHasSuffix(ps.At(0).Type(), "protocol.Range") && types.TypeString(f.Signature.Results().At(0).Type(), nil) == "string" {
			apply = f
		}
	}
	if toByte == nil || apply == nil {
		c.undecided("C01-CONV", "lsputil", "position mapper", token.NoPos, "position-to-byte and apply-change methods not found")
		return
	}
	// C01-CONV: the character is converted against the text of ITS LINE (implicit clamp to the line end)
	convs := findCalls(toByte, func(cal *ssa.Function) bool { return calleeNameIs(cal, "lsputil.UTF16OffsetToByteOffset") })
	c.census("C01-CONV", "UTF-16 -> byte conversions in the position mapper", len(convs), 1)
	for _, cv := range convs {
		a0, a1 := backSlice(cv.Common().Args[0]), backSlice(cv.Common().Args[1])
		lineText, wholeDoc, byLine, char := false, false, false, false
		for v := range a0 {
			if fieldAddrNamed(v, "lines") {
				lineText = true
			}
			if fieldAddrNamed(v, "content") {
				wholeDoc = true
			}
			if fieldAddrNamed(v, "Line") {
				byLine = true
			}
		}
		for v := range a1 {
			if fieldAddrNamed(v, "Character") {
				char = true
			}
		}
		c.check(lineText && byLine && !wholeDoc && char, "C01-CONV", funcName(toByte), "character converted within its own line", cv.Pos(),
			"UTF16OffsetToByteOffset(lines[pos.Line], pos.Character): a column past the line end stops at the line end",
			"the UTF-16 column is not converted against the text of its own line (lines[pos.Line]): a column past the line end runs into the following lines instead of clamping to the line end")
	}
	// ... and that holds for every conversion of a protocol column in the module, wherever it is written: the
	// text handed to the converter is one line (an element of a list of lines, a slice of the text with an upper
	// bound, a line variable), never an open-ended rest of the document
	ciC := buildConc(c)
	nAll := 0
	for _, f := range c.P.ModuleFuncs() {
		for _, cv := range findCalls(f, func(cal *ssa.Function) bool { return calleeNameIs(cal, "lsputil.UTF16OffsetToByteOffset") }) {
			fromChar := false
			for v := range sliceUp(ciC, cv.Common().Args[1], f) {
				if fa, ok := v.(*ssa.FieldAddr); ok && fieldVarOfAddr(fa).Name() == "Character" && typeHasSuffix(fa.X.Type(), "protocol.Position") {
					fromChar = true
				}
				if fl, ok := v.(*ssa.Field); ok && typeHasSuffix(fl.X.Type(), "protocol.Position") {
					if st, ok := fl.X.Type().Underlying().(*types.Struct); ok && st.Field(fl.Field).Name() == "Character" {
						fromChar = true
					}
				}
			}
			if !fromChar {
				continue
			}
			nAll++
			open := openEndedText(c, cv.Common().Args[0], 0)
			c.check(open == "", "C01-CONV", funcName(f), "protocol column converted against one line", cv.Pos(),
				"the text argument of the column conversion is bounded by its line",
				"a protocol column is converted against "+open+": a column past the line end runs across the line break into the following lines instead of clamping to the line end")
		}
	}
	c.census("C01-CONV", "conversions of a protocol column in the module", nAll, 1)
	// line past the end maps to the end of the document: a return of len(text) that is controlled by a comparison
	// against the number of lines (made in the function or by a helper whose verdict is tested)
	guard := false
	for _, b := range toByte.Blocks {
		for _, ins := range b.Instrs {
			if r, ok := ins.(*ssa.Return); ok && len(r.Results) == 1 {
				if call, ok := unspillResult(r.Results[0], b).(*ssa.Call); ok {
					if bi, ok := call.Call.Value.(*ssa.Builtin); ok && bi.Name() == "len" {
						if condSliceHas(b, func(i ssa.Instruction) bool {
							bin, ok := i.(*ssa.BinOp)
							if !ok || (bin.Op != token.GEQ && bin.Op != token.GTR && bin.Op != token.LSS && bin.Op != token.LEQ) {
								return false
							}
							for _, o := range []ssa.Value{bin.X, bin.Y} {
								if lc, ok := o.(*ssa.Call); ok {
									if lb, ok := lc.Call.Value.(*ssa.Builtin); ok && lb.Name() == "len" {
										return true
									}
								}
							}
							return false
						}) {
							guard = true
						}
					}
				}
			}
		}
	}
	c.check(guard, "C01-CONV", funcName(toByte), "line past the end maps to the end of the document", toByte.Pos(), "`line >= len(lines)` returns len(content)", "no guard for a line number past the last line")
	// C01-CLAMP: both slice bounds of the splice depend on both converted positions (ordering swap) and on len(content)
	// (clamp); the splice may be written in the applier or in a helper it calls
	region := map[*ssa.Function]bool{apply: true}
	for changed := true; changed; {
		changed = false
		for f := range region {
			for _, b := range f.Blocks {
				for _, ins := range b.Instrs {
					if call, ok := ins.(ssa.CallInstruction); ok {
						if cal := call.Common().StaticCallee(); cal != nil && cal.Pkg == lpk && cal.Blocks != nil && cal != toByte && !region[cal] && !strings.Contains(funcName(cal), "UTF16") {
							region[cal] = true
							changed = true
						}
					}
				}
			}
		}
	}
	var regionFns []*ssa.Function
	for f := range region {
		regionFns = append(regionFns, f)
	}
	sort.Slice(regionFns, func(i, j int) bool { return funcName(regionFns[i]) < funcName(regionFns[j]) })
	nSl := 0
	for _, f := range regionFns {
		for _, b := range f.Blocks {
			for _, ins := range b.Instrs {
				sl, ok := ins.(*ssa.Slice)
				if !ok || types.TypeString(sl.X.Type(), nil) != "string" {
					continue
				}
				for _, bound := range []ssa.Value{sl.Low, sl.High} {
					if bound == nil {
						continue
					}
					var bs map[ssa.Value]bool
					if f == apply {
						bs = backSlice(bound)
					} else {
						bs = sliceUp(ciC, bound, f)
					}
					nConv := 0
					hasLen := false
					for v := range bs {
						if call, ok := v.(*ssa.Call); ok {
							if cal := call.Common().StaticCallee(); cal == toByte {
								nConv++
							}
							if bi, ok := call.Call.Value.(*ssa.Builtin); ok && bi.Name() == "len" {
								hasLen = true
							}
						}
					}
					if f != apply && nConv == 0 {
						continue // a helper slicing something else
					}
					nSl++
					c.check(nConv >= 2 && hasLen, "C01-CLAMP", funcName(f), "splice bound ordered and clamped", sl.Pos(),
						"the bound depends on both converted positions (start/end swap) and on len(content) (clamp)",
						fmt.Sprintf("a splice bound of the ranged change is not protected by the start/end ordering swap and the len(content) clamp (depends on %d converted positions, len: %v): a malformed range panics or splices the wrong part", nConv, hasLen))
				}
			}
		}
	}
	c.census("C01-CLAMP", "splice bounds in the ranged applier", nSl, 2)
}

// ruleC01Source: every parse on a handler path in package server reads the text from the document store
// in the same request.
func ruleC01Source(c *Ctx, docField string) {
	spk := c.P.SSAPkg("internal/server")
	ci := buildConc(c)
	g := ci.g
	n := 0
	var fromStore func(v ssa.Value, f *ssa.Function, depth int) (bool, string)
	fromStore = func(v ssa.Value, f *ssa.Function, depth int) (bool, string) {
		sl := backSlice(v)
		// the whole text: a cut of a string on the way (the part of the document that fits a limit, the lines up
		// to the cursor) means that what is parsed is not the document
		for x := range sl {
			if cut, ok := x.(*ssa.Slice); ok && types.TypeString(cut.X.Type().Underlying(), nil) == "string" && (cut.Low != nil || cut.High != nil) {
				notif := false
				for y := range sl {
					if fieldAddrNamed(y, "Text") || fieldAddrNamed(y, "ContentChanges") {
						notif = true // the change handler splices the running text
					}
				}
				if !notif {
					return false, "only a part of the text is handed on (a string cut at " + c.P.pos(cut.Pos()) + ")"
				}
			}
		}
		if sliceHasCall(sl, func(cal *ssa.Function, call *ssa.Call) bool {
			if calleeNameIs(cal, "server.Server).GetDocument") {
				return true
			}
			fld, ok := isSyncMapCall(call, "Load")
			return ok && fld == docField
		}) {
			return true, "document store"
		}
		// a walk over the document store itself
		top := f
		for top.Parent() != nil {
			top = top.Parent()
		}
		for _, ff := range append([]*ssa.Function{top}, top.AnonFuncs...) {
			for _, b := range ff.Blocks {
				for _, ins := range b.Instrs {
					if call, ok := ins.(*ssa.Call); ok {
						if fld, ok := isSyncMapCall(call, "Range"); ok && fld == docField {
							return true, "document store (Range)"
						}
					}
				}
			}
		}
		// a copy of the document store made by a helper (`contents := s.documentContents()`: a map filled by a
		// walk over the store, or a text loaded from it)
		for x := range sl {
			call, ok := x.(*ssa.Call)
			if !ok {
				continue
			}
			cal := call.Call.StaticCallee()
			if cal == nil || !inModule(cal) || cal.Blocks == nil {
				continue
			}
			for _, ff := range append([]*ssa.Function{cal}, cal.AnonFuncs...) {
				for _, b := range ff.Blocks {
					for _, ins := range b.Instrs {
						if c2, ok := ins.(*ssa.Call); ok {
							if fld, ok := isSyncMapCall(c2, "Range"); ok && fld == docField {
								return true, "document store (Range) through " + cal.Name()
							}
						}
					}
				}
			}
		}
		// a value handed to the callback of a walk over the document store (wherever that walk lives)
		for x := range sl {
			if p, ok := x.(*ssa.Parameter); ok && p.Parent().Parent() != nil {
				for _, b := range p.Parent().Parent().Blocks {
					for _, ins := range b.Instrs {
						if call, ok := ins.(*ssa.Call); ok {
							if fld, ok := isSyncMapCall(call, "Range"); ok && fld == docField {
								for _, a := range call.Call.Args {
									if mc, ok := a.(*ssa.MakeClosure); ok && mc.Fn == ssa.Value(p.Parent()) {
										return true, "document store (Range)"
									}
								}
							}
						}
					}
				}
			}
		}
		// the change handler's running text, the opened text
		for x := range sl {
			if fieldAddrNamed(x, "Text") || fieldAddrNamed(x, "ContentChanges") {
				return true, "notification text"
			}
		}
		// a parameter: all callers must supply store text (bounded)
		for x := range sl {
			p, ok := x.(*ssa.Parameter)
			if !ok || p.Parent() != f || types.TypeString(p.Type(), nil) != "string" && !strings.Contains(types.TypeString(p.Type(), nil), "any") && !strings.Contains(types.TypeString(p.Type(), nil), "interface") {
				continue
			}
			if depth > 4 {
				return false, "call chain too deep"
			}
			// sync.Map.Range callback over the document store
			if f.Parent() != nil {
				for _, b := range f.Parent().Blocks {
					for _, ins := range b.Instrs {
						if call, ok := ins.(*ssa.Call); ok {
							if fld, ok := isSyncMapCall(call, "Range"); ok && fld == docField {
								return true, "document store (Range)"
							}
						}
					}
				}
			}
			idx := -1
			for i, q := range f.Params {
				if q == p {
					idx = i
				}
			}
			node := g.Nodes[f]
			if idx < 0 {
				return false, "parameter not found"
			}
			if node == nil || len(node.In) == 0 {
				return true, "entry point without callers in the module"
			}
			for _, e := range node.In {
				if e.Site == nil || idx >= len(e.Site.Common().Args) {
					return false, "unknown caller"
				}
				if _, isTest := e.Caller.Func.Object().(interface{ Name() string }); isTest && e.Caller.Func.Pkg != nil && !inModule(e.Caller.Func) {
					continue
				}
				ok, why := fromStore(e.Site.Common().Args[idx], e.Caller.Func, depth+1)
				if !ok {
					return false, funcName(e.Caller.Func) + ": " + why
				}
			}
			return true, "callers supply store text"
		}
		return false, "text does not come from the document store"
	}
	for _, f := range c.P.ModuleFuncs() {
		if f.Pkg != spk || !(ci.reachH[f] || ci.reachG[f]) {
			continue
		}
		for _, call := range findCalls(f, func(cal *ssa.Function) bool { return calleeNameIs(cal, "parser.Parse") }) {
			n++
			ok, why := fromStore(call.Common().Args[0], f, 0)
			c.check(ok, "C01-SOURCE", funcName(f), "parsed text comes from the document store", call.Pos(),
				"the text handed to the parser is read from the document store (or is the notification's own text) in this request: "+why,
				"a handler parses text that is not read from the document store in the same request ("+why+"): the answer can be computed from an older version")
		}
	}
	c.census("C01-SOURCE", "parse calls on handler paths in package server", n, 8)
}

// ruleCacheFresh: C-CACHE and C-FRESH.
func ruleCacheFresh(c *Ctx, h *ssa.Function, docStore ssa.CallInstruction, docField string) {
	ci := buildConc(c)
	spk := c.P.SSAPkg("internal/server")
	// per sync.Map field of Server: who Stores / Loads / Deletes
	type use struct {
		f    *ssa.Function
		call *ssa.Call
	}
	stores, loads, deletes := map[string][]use{}, map[string][]use{}, map[string][]use{}
	for _, f := range c.P.ModuleFuncs() {
		if f.Pkg != spk {
			continue
		}
		for _, b := range f.Blocks {
			for _, ins := range b.Instrs {
				call, ok := ins.(*ssa.Call)
				if !ok {
					continue
				}
				for _, m := range []string{"Store", "Load", "Delete"} {
					if fld, ok := isSyncMapCall(call, m); ok && strings.HasPrefix(fld, "server.Server.") {
						switch m {
						case "Store":
							stores[fld] = append(stores[fld], use{f, call})
						case "Load":
							loads[fld] = append(loads[fld], use{f, call})
						case "Delete":
							deletes[fld] = append(deletes[fld], use{f, call})
						}
					}
				}
			}
		}
	}
	var fields []string
	for f := range stores {
		if f != docField {
			fields = append(fields, f)
		}
	}
	sort.Strings(fields)
	c.census("C-CACHE", "derived sync.Map state of the server besides the document store", len(fields), 1)
	g := ci.g
	syncReach := Reach(g, []*ssa.Function{h}, true)
	for _, fld := range fields {
		storedInG, storedInH := false, false
		for _, u := range stores[fld] {
			if ci.reachG[u.f] {
				storedInG = true
			}
			if ci.reachH[u.f] {
				storedInH = true
			}
		}
		if storedInH && !storedInG {
			// a cache filled by request handlers (hit short-circuits recomputation): the change handler must drop it
			dropped := false
			for _, u := range deletes[fld] {
				// (a function literal counts only when the function that creates it is reached too: callbacks of
				// sync.Map.Range are resolved context-insensitively)
				if syncReach[u.f] && (u.f.Parent() == nil || syncReach[u.f.Parent()]) {
					// unconditional within its function, and the call chain from the handler is unconditional at the handler level
					dropped = true
				}
			}
			// the invalidation must sit at the same nesting level as the document store in the handler
			okLevel := false
			for _, b := range h.Blocks {
				for _, ins := range b.Instrs {
					if call, ok := ins.(*ssa.Call); ok && (b == docStore.Block() || (docStore.Parent() != h && !inCycle(b)) || b.Dominates(docStore.Block()) || docStore.Block().Dominates(b)) {
						if cal := call.Common().StaticCallee(); cal != nil {
							sub := Reach(g, []*ssa.Function{cal}, true)
							for f2 := range sub {
								for _, u := range deletes[fld] {
									if u.f == f2 && (f2.Parent() == nil || sub[f2.Parent()]) {
										okLevel = true
									}
								}
							}
							if fl, ok := isSyncMapCall(call, "Delete"); ok && fl == fld {
								okLevel = true
							}
						}
						// the sweep written in place: a function literal of the handler that deletes, handed to this call
						for _, a := range call.Common().Args {
							if mc, isMc := stripConv(a).(*ssa.MakeClosure); isMc {
								for _, u := range deletes[fld] {
									if u.f == mc.Fn {
										okLevel = true
									}
								}
							}
						}
					}
				}
			}
			c.check(dropped && okLevel, "C-CACHE", funcName(h), "cache "+strings.TrimPrefix(fld, "server.Server.")+" invalidated on change", h.Pos(),
				"the change handler drops the cache unconditionally, next to storing the new text",
				"the per-document cache "+fld+" is filled by request handlers and answers from it short-circuit recomputation, but the change handler does not drop it unconditionally when the text changes: answers are computed from the text as it was before the edit")
			// ... unless every hit is validated against the current text: in each function that loads from the cache,
			// the returns whose value comes from the loaded entry are control dependent on an equality between a string
			// read from that entry and a string that does not come from it (the text handed to the reader)
			validated := len(loads[fld]) > 0
			for _, u := range loads[fld] {
				okHere := false
				for _, b := range u.f.Blocks {
					ret, isRet := lastInstr(b).(*ssa.Return)
					if !isRet {
						continue
					}
					fromEntry := false
					for _, r := range ret.Results {
						if backSlice(r)[u.call] {
							fromEntry = true
						}
					}
					if !fromEntry {
						continue
					}
					guarded := false
					for _, cc := range append(controlCondsPol(b), controlDeps(b)...) {
						bo, isBo := cc.Cond.(*ssa.BinOp)
						if !isBo || bo.Op != token.EQL || !cc.Taken || types.TypeString(bo.X.Type().Underlying(), nil) != "string" {
							continue
						}
						lx, ly := backSlice(bo.X)[u.call], backSlice(bo.Y)[u.call]
						if lx != ly {
							guarded = true
						}
					}
					if guarded {
						okHere = true
					} else {
						okHere = false
						break
					}
				}
				if !okHere {
					validated = false
				}
			}
			// the other handlers that give a document another text - open (a closed document comes back with whatever
			// the file holds now) and close - drop it too: a cache keyed by the URI survives close and re-open
			for _, h2 := range ci.handlers {
				if h2 == h || h2.Pkg != spk {
					continue
				}
				writesDoc := false
				for _, b := range h2.Blocks {
					for _, ins := range b.Instrs {
						if call, ok := ins.(*ssa.Call); ok {
							for _, m := range []string{"Store", "Delete"} {
								if fl, ok := isSyncMapCall(call, m); ok && fl == docField {
									writesDoc = true
								}
							}
						}
					}
				}
				if !writesDoc {
					continue
				}
				r2 := Reach(g, []*ssa.Function{h2}, true)
				drop2 := false
				for _, u := range deletes[fld] {
					if r2[u.f] && (u.f.Parent() == nil || r2[u.f.Parent()]) {
						drop2 = true
					}
				}
				if !drop2 && validated {
					c.ok("C-CACHE", funcName(h2), "cache "+strings.TrimPrefix(fld, "server.Server.")+" invalidated when the document is opened or closed", h2.Pos(),
						"every hit of the cache is decided by a comparison of what the entry records with a text handed to the reader: an entry computed for another text is not used")
					continue
				}
				c.check(drop2, "C-CACHE", funcName(h2), "cache "+strings.TrimPrefix(fld, "server.Server.")+" invalidated when the document is opened or closed", h2.Pos(),
					"the handler drops the cache when it replaces or removes the document's text",
					"the per-document cache "+fld+" is filled by request handlers and keyed by the document, and "+funcName(h2)+" replaces or removes the document's text without dropping it: after close and re-open with another text (the file changed while it was closed) requests are answered from what was computed for the old text, and a fresh server answers differently")
			}
		}
		if storedInG {
			// state written by background goroutines and read by handlers
			readInH := false
			var reader string
			for _, u := range loads[fld] {
				if ci.reachH[u.f] {
					readInH = true
					reader = funcName(u.f)
				}
			}
			if readInH {
				c.finding("C-FRESH", "server.Server", "handlers read "+strings.TrimPrefix(fld, "server.Server.")+" written by background analysis", token.NoPos,
					"request handlers ("+reader+") answer from "+fld+", which is written by the background analysis goroutine: until the analysis of the latest change has finished, answers that use it are computed from an older version of the include tree")
			} else {
				c.ok("C-FRESH", "server.Server", "handlers do not read "+fld, token.NoPos, "written by background work only")
			}
		}
	}
}

// openEndedText: the string value is an open-ended rest of a longer text (`text[i:]`), directly, through a
// parameter (all call sites) or through a helper's result; returns a description, or "" when the text is bounded
// (or of a form the rule does not know: silence).
func openEndedText(c *Ctx, v ssa.Value, depth int) string {
	if depth > 3 {
		return ""
	}
	switch x := stripConv(v).(type) {
	case *ssa.Slice:
		if b, ok := x.X.Type().Underlying().(*types.Basic); ok && b.Info()&types.IsString != 0 && x.High == nil {
			return "an open-ended slice of the text (" + c.P.pos(x.Pos()) + ")"
		}
	case *ssa.Phi:
		for _, e := range x.Edges {
			if d := openEndedText(c, e, depth+1); d != "" {
				return d
			}
		}
	case *ssa.Parameter:
		f := x.Parent()
		for i, q := range f.Params {
			if q != x {
				continue
			}
			for _, site := range (cgView{c}).callersOf(f) {
				if i < len(site.Common().Args) {
					if d := openEndedText(c, site.Common().Args[i], depth+1); d != "" {
						return d
					}
				}
			}
		}
	case *ssa.Call:
		if cal := x.Call.StaticCallee(); cal != nil && cal.Blocks != nil && inModule(cal) && cal.Signature.Results().Len() == 1 {
			for _, b := range cal.Blocks {
				for _, ins := range b.Instrs {
					if r, ok := ins.(*ssa.Return); ok && len(r.Results) == 1 {
						if d := openEndedText(c, unspillResult(r.Results[0], b), depth+1); d != "" {
							return d
						}
					}
				}
			}
		}
	}
	return ""
}

// ruleStoreKey (C01-KEY): a read-modify-write of a concurrent map held in a struct field uses one key.  A function
// that loads an entry of a sync.Map field and stores into the same field (the change handler: load the running text,
// apply the changes, store the result) must name the entry the same way both times: the same value, the same place
// (access path from the same local or parameter), or the same key function applied to the same thing.  A key that
// is normalised at the load and raw at the store (a canonical-URI helper added to every access but one) files the
// new text under a key nobody reads: the stored text stops following the client's buffer after the first change.
func ruleStoreKey(c *Ctx) {
	var desc func(v ssa.Value, depth int) string
	desc = func(v ssa.Value, depth int) string {
		v = stripConv(v)
		if depth > 6 {
			return fmt.Sprintf("%p", v)
		}
		switch x := v.(type) {
		case *ssa.Call:
			if cal := x.Call.StaticCallee(); cal != nil && inModule(cal) && len(x.Call.Args) >= 1 {
				parts := []string{}
				for _, a := range x.Call.Args {
					parts = append(parts, desc(a, depth+1))
				}
				return funcName(cal) + "(" + strings.Join(parts, ",") + ")"
			}
		case *ssa.UnOp:
			if x.Op == token.MUL {
				if root, path, ok := fieldChain(x); ok {
					return fmt.Sprintf("%p.%v", root, path)
				}
			}
		case *ssa.Field:
			return desc(x.X, depth+1) + fmt.Sprintf(".%d", x.Field)
		case *ssa.Const:
			return "const:" + x.Value.String()
		}
		return fmt.Sprintf("%p", v)
	}
	n := 0
	for _, f := range c.P.ModuleFuncs() {
		type use struct {
			op  string
			key ssa.Value
			pos token.Pos
		}
		byField := map[*types.Var][]use{}
		for _, b := range f.Blocks {
			for _, ins := range b.Instrs {
				call, ok := ins.(ssa.CallInstruction)
				if !ok {
					continue
				}
				cal := call.Common().StaticCallee()
				if cal == nil || cal.Signature.Recv() == nil || !typeHasSuffix(cal.Signature.Recv().Type(), "sync.Map") || len(call.Common().Args) < 2 {
					continue
				}
				switch cal.Name() {
				case "Load", "Store", "LoadOrStore", "Swap", "CompareAndSwap":
				default:
					continue
				}
				fa, ok := call.Common().Args[0].(*ssa.FieldAddr)
				if !ok {
					continue
				}
				fv := fieldVarOfAddr(fa)
				if fv == nil {
					continue
				}
				byField[fv] = append(byField[fv], use{cal.Name(), call.Common().Args[1], ins.Pos()})
			}
		}
		for fv, us := range byField {
			hasLoad, hasStore := false, false
			for _, u := range us {
				if u.op == "Load" {
					hasLoad = true
				} else {
					hasStore = true
				}
			}
			if !hasLoad || !hasStore {
				continue
			}
			n++
			d0 := desc(us[0].key, 0)
			same := true
			var bad use
			for _, u := range us[1:] {
				if desc(u.key, 0) != d0 {
					same, bad = false, u
				}
			}
			okMsg := fmt.Sprintf("%d accesses of %s in this function name the entry the same way", len(us), fv.Name())
			msg := ""
			if !same {
				msg = fmt.Sprintf("the entry of %s is read and written under keys that are built differently in one function (%s at %s against %s at %s): when the two differ - a normalised key on one side, the raw one on the other - the result of the update is filed where the next read does not look", fv.Name(), us[0].op, c.P.pos(us[0].pos), bad.op, c.P.pos(bad.pos))
			}
			c.check(same, "C01-KEY", funcName(f), "a read-modify-write of "+fv.Name()+" uses one key", us[0].pos, okMsg, msg)
		}
	}
	c.census("C01-KEY", "functions that load and store one concurrent-map field", n, 1)
}
