package main

// A-ALWAYS: the background analysis of a document always analyses.
//
// Between the goroutine the server starts for a changed document and the publication of its diagnostics sits the
// function that hands the syntax tree to the analyzer (balance check, undeclared checks).  Every path through that
// function - and through every function between it and the goroutine root - passes a call that reaches an analysis
// entry point of package analyzer (a function returning *AnalysisResult).  A return that skips the analyzer (the
// loader refused the text as too large, a tree is missing, a cache says "unchanged") publishes diagnostics without
// any verdict: an unbalanced transaction is reported for a text just under the limit and not for one just over it.
// The goroutine root itself is judged by C13-SKIP (its returns without a publication attempt).

import (
	"fmt"
	"go/token"
	"go/types"
	"sort"

	"golang.org/x/tools/go/ssa"
)

func ruleAlwaysAnalyse(c *Ctx) {
	if c.ranOnce("ruleAlwaysAnalyse") {
		return
	}
	ci := buildConc(c)
	isEntry := func(f *ssa.Function) bool {
		if f == nil || f.Pkg == nil || f.Pkg != c.P.SSAPkg("internal/analyzer") || f.Signature.Results().Len() != 1 {
			return false
		}
		pt, ok := f.Signature.Results().At(0).Type().Underlying().(*types.Pointer)
		return ok && typeHasSuffix(pt.Elem(), "analyzer.AnalysisResult") && f.Object() != nil && f.Object().Exported()
	}
	// functions that reach an analysis entry point
	reaches := map[*ssa.Function]bool{}
	var entries []*ssa.Function
	for _, f := range ci.funcs {
		if isEntry(f) {
			entries = append(entries, f)
		}
	}
	memo := map[*ssa.Function]int{}
	var reach func(f *ssa.Function) bool
	reach = func(f *ssa.Function) bool {
		if isEntry(f) {
			return true
		}
		if v, ok := memo[f]; ok {
			return v == 1
		}
		memo[f] = 0
		r := false
		if n := ci.g.Nodes[f]; n != nil {
			for _, e := range n.Out {
				if _, isGo := e.Site.(*ssa.Go); isGo {
					continue
				}
				if inModule(e.Callee.Func) && reach(e.Callee.Func) {
					r = true
					break
				}
			}
		}
		if r {
			memo[f] = 1
		}
		return r
	}
	passes := func(ins ssa.Instruction) bool {
		call, ok := ins.(ssa.CallInstruction)
		if !ok {
			return false
		}
		if _, isGo := ins.(*ssa.Go); isGo {
			return false
		}
		for _, t := range ci.calleesOf(call) {
			if inModule(t) && reach(t) {
				return true
			}
		}
		return false
	}
	// the publishing goroutine roots and what lies between them and the analyzer
	var subjects []*ssa.Function
	nRoots := 0
	for _, root := range ci.goRoots {
		if !reach(root) {
			continue
		}
		publishes := false
		for f := range Reach(ci.g, []*ssa.Function{root}, false) {
			for _, b := range f.Blocks {
				for _, ins := range b.Instrs {
					if call, ok := ins.(ssa.CallInstruction); ok && call.Common().IsInvoke() && call.Common().Method.Name() == "PublishDiagnostics" {
						publishes = true
					}
				}
			}
		}
		if !publishes {
			continue
		}
		nRoots++
		for f := range Reach(ci.g, []*ssa.Function{root}, false) {
			if f == root || !inModule(f) || f.Blocks == nil || isEntry(f) || !reach(f) {
				continue
			}
			if f.Pkg == c.P.SSAPkg("internal/analyzer") {
				continue // the analyzer's own helpers behind an entry point
			}
			subjects = append(subjects, f)
			reaches[f] = true
		}
	}
	sort.Slice(subjects, func(i, j int) bool { return funcName(subjects[i]) < funcName(subjects[j]) })
	seen := map[*ssa.Function]bool{}
	n := 0
	for _, f := range subjects {
		if seen[f] {
			continue
		}
		seen[f] = true
		n++
		bad := escapesFlags(f.Blocks[0], 0, passes)
		c.check(!bad, "A-ALWAYS", funcName(f), "every path of the background analysis runs the analyzer", f.Pos(),
			"every path from the entry to a return passes a call that reaches an analysis entry point",
			fmt.Sprintf("%s lies between the background goroutine and the analyzer, and can return without running it: for the documents that take this path (a text the loader refused, a missing tree, an \"unchanged\" short cut) diagnostics are published without the balance and declaration verdicts", funcName(f)))
	}
	_ = token.NoPos
	c.census("A-ALWAYS", "publishing goroutine roots that reach the analyzer", nRoots, 1)
	c.census("A-ALWAYS", "functions between a goroutine root and the analyzer", n, 1)
}
