package main

// C17 rules: T5 (legend), T12 (full/range/delta agree; cache = what was sent), L-POS (token start before
// the first advance), T15w (delimited lexemes are measured from Pos/End).

import (
	"fmt"
	"go/ast"
	"go/constant"
	"go/token"
	"go/types"
	"os"
	"sort"
	"strings"

	"golang.org/x/tools/go/ssa"
)

// constSet: the set of integer constants v can take, following phis, conversions and the returned
// values of static module callees.  ok=false if some source is not a constant.
func constSet(v ssa.Value, idx int, seen map[ssa.Value]bool, out map[int64]bool) bool {
	if seen[v] {
		return true
	}
	seen[v] = true
	switch x := v.(type) {
	case *ssa.Const:
		if x.Value == nil {
			return false
		}
		if i, ok := constant.Int64Val(constant.ToInt(x.Value)); ok {
			out[i] = true
			return true
		}
		return false
	case *ssa.Phi:
		for _, e := range x.Edges {
			if !constSet(e, idx, seen, out) {
				return false
			}
		}
		return true
	case *ssa.Convert:
		return constSet(x.X, idx, seen, out)
	case *ssa.ChangeType:
		return constSet(x.X, idx, seen, out)
	case *ssa.Parameter:
		// a parameter of an unexported function or a closure that is only ever called directly: the union over
		// its call sites
		f := x.Parent()
		if f == nil || curProg == nil || (f.Parent() == nil && (f.Object() == nil || f.Object().Exported())) {
			return false
		}
		pi := -1
		for i, q := range f.Params {
			if q == x {
				pi = i
			}
		}
		var sites []ssa.CallInstruction
		if f.Parent() != nil {
			var ok bool
			if sites, ok = localClosureCalls(f); !ok {
				return false
			}
		} else {
			sites = (cgView{&Ctx{P: curProg}}).callersOf(f)
		}
		if pi < 0 || len(sites) == 0 {
			return false
		}
		for _, site := range sites {
			if pi >= len(site.Common().Args) || !constSet(site.Common().Args[pi], idx, seen, out) {
				return false
			}
		}
		return true
	case *ssa.Extract:
		if call, ok := x.Tuple.(*ssa.Call); ok {
			return constSetCall(call, x.Index, seen, out)
		}
		if lk, ok := x.Tuple.(*ssa.Lookup); ok && x.Index == 0 {
			return constSetTable(lk, idx, seen, out)
		}
	case *ssa.Lookup:
		return constSetTable(x, idx, seen, out)
	case *ssa.Call:
		return constSetCall(x, 0, seen, out)
	case *ssa.UnOp:
		if x.Op == token.MUL {
			if al, ok := x.X.(*ssa.Alloc); ok {
				okAll := true
				n := 0
				for _, r := range *al.Referrers() {
					if st, ok := r.(*ssa.Store); ok && st.Addr == al {
						n++
						if !constSet(st.Val, idx, seen, out) {
							okAll = false
						}
					}
				}
				return okAll && n > 0
			}
		}
	}
	return false
}

// constSetTable: a lookup in a package-level table (`var t = map[K]V{...}`) that is filled by its initialiser
// only: the possible results are the literal's values (plus the zero value for a missing key).
func constSetTable(lk *ssa.Lookup, idx int, seen map[ssa.Value]bool, out map[int64]bool) bool {
	ld, ok := lk.X.(*ssa.UnOp)
	if !ok || ld.Op != token.MUL {
		return false
	}
	g, ok := ld.X.(*ssa.Global)
	if !ok || g.Pkg == nil {
		return false
	}
	if _, isMap := lk.X.Type().Underlying().(*types.Map); !isMap {
		return false
	}
	initFn := g.Pkg.Func("init")
	if initFn == nil {
		return false
	}
	var table ssa.Value
	nStores := 0
	for _, m := range g.Pkg.Members {
		f, ok := m.(*ssa.Function)
		if !ok {
			continue
		}
		fns := append([]*ssa.Function{f}, f.AnonFuncs...)
		for _, fn := range fns {
			for _, b := range fn.Blocks {
				for _, ins := range b.Instrs {
					switch x := ins.(type) {
					case *ssa.Store:
						if x.Addr == ssa.Value(g) {
							nStores++
							if fn == initFn {
								table = x.Val
							}
						}
					case *ssa.MapUpdate:
						// a write through the global outside the initialiser
						if l2, ok := x.Map.(*ssa.UnOp); ok && l2.Op == token.MUL && l2.X == ssa.Value(g) {
							return false
						}
					}
				}
			}
		}
	}
	// methods of the package's types may also write the table
	if table == nil || nStores != 1 {
		return false
	}
	n := 0
	for _, b := range initFn.Blocks {
		for _, ins := range b.Instrs {
			if mu, ok := ins.(*ssa.MapUpdate); ok && mu.Map == table {
				n++
				if !constSet(mu.Value, idx, seen, out) {
					return false
				}
			}
		}
	}
	return n > 0
}

func constSetCall(call *ssa.Call, idx int, seen map[ssa.Value]bool, out map[int64]bool) bool {
	cal := call.Common().StaticCallee()
	if cal == nil || !inModule(cal) || cal.Blocks == nil {
		return false
	}
	for _, b := range cal.Blocks {
		for _, ins := range b.Instrs {
			if r, ok := ins.(*ssa.Return); ok && idx < len(r.Results) {
				if !constSet(r.Results[idx], idx, seen, out) {
					return false
				}
			}
		}
	}
	return true
}

func ruleSemantic(c *Ctx) {
	pk := c.P.ByRel["internal/server"]
	info := pk.TypesInfo
	// ---- T5: legend
	var legend []string
	for _, f := range pk.Syntax {
		for _, d := range f.Decls {
			fd, ok := d.(*ast.FuncDecl)
			if !ok || fd.Body == nil || fd.Type.Results == nil || len(fd.Type.Results.List) != 1 {
				continue
			}
			if !typeHasSuffix(info.TypeOf(fd.Type.Results.List[0].Type), "protocol.SemanticTokensLegend") {
				continue
			}
			ast.Inspect(fd.Body, func(x ast.Node) bool {
				kv, ok := x.(*ast.KeyValueExpr)
				if !ok || identOf(kv.Key).Name != "TokenTypes" {
					return true
				}
				if cl, ok := kv.Value.(*ast.CompositeLit); ok {
					for _, el := range cl.Elts {
						if s, ok := stringConst(info, el); ok {
							legend = append(legend, s)
						} else {
							legend = append(legend, "?")
						}
					}
				}
				return true
			})
		}
	}
	c.census("T5", "legend token types", len(legend), 5)
	// constants TokenType*
	type tconst struct {
		name string
		val  int64
		pos  token.Pos
	}
	var consts []tconst
	sc := pk.Types.Scope()
	for _, n := range sc.Names() {
		if cn, ok := sc.Lookup(n).(*types.Const); ok && strings.HasPrefix(n, "TokenType") {
			if v, ok := constant.Int64Val(constant.ToInt(cn.Val())); ok {
				consts = append(consts, tconst{n, v, cn.Pos()})
			}
		}
	}
	sort.Slice(consts, func(i, j int) bool { return consts[i].val < consts[j].val })
	seenVal := map[int64]string{}
	for _, tc := range consts {
		want := strings.TrimPrefix(tc.name, "TokenType")
		okIdx := tc.val >= 0 && int(tc.val) < len(legend)
		okName := okIdx && strings.EqualFold(legend[tc.val], want)
		dup := seenVal[tc.val]
		seenVal[tc.val] = tc.name
		got := "<out of range>"
		if okIdx {
			got = legend[tc.val]
		}
		c.check(okName && dup == "", "T5", "server."+tc.name, "constant indexes its own legend entry", tc.pos,
			fmt.Sprintf("%s = %d -> legend[%d] = %q", tc.name, tc.val, tc.val, got),
			fmt.Sprintf("token-type constant %s = %d does not index a legend entry of the same kind (legend[%d] = %q, %d entries%s): clients colour the token as something else or reject the index", tc.name, tc.val, tc.val, got, len(legend), map[bool]string{true: ", value shared with " + dup, false: ""}[dup != ""]))
	}
	c.census("T5", "token-type constants", len(consts), 5)
	// every value stored into semanticToken.tokenType is a constant < len(legend)
	nStore := 0
	for _, f := range c.P.ModuleFuncs() {
		for _, b := range f.Blocks {
			for _, ins := range b.Instrs {
				st, ok := ins.(*ssa.Store)
				if !ok {
					continue
				}
				fa, ok := st.Addr.(*ssa.FieldAddr)
				if !ok || fieldKey(fa.X.Type(), fa.Field) != "server.semanticToken.tokenType" {
					continue
				}
				nStore++
				vals := map[int64]bool{}
				okC := constSet(st.Val, 0, map[ssa.Value]bool{}, vals)
				bad := ""
				for v := range vals {
					if v < 0 || int(v) >= len(legend) {
						bad = fmt.Sprint(v)
					}
				}
				var vl []string
				for v := range vals {
					vl = append(vl, fmt.Sprint(v))
				}
				sort.Strings(vl)
				c.check(okC && bad == "", "T5", funcName(f), "token type from the legend", st.Pos(),
					"possible values {"+strings.Join(vl, ",")+"} are all indexes into the legend",
					map[bool]string{true: "a token type that is not a compile-time constant is emitted", false: "token type " + bad + " is emitted but the advertised legend has only " + fmt.Sprint(len(legend)) + " entries"}[!okC])
			}
		}
	}
	c.census("T5", "stores into semanticToken.tokenType", nStore, 2)

	// ---- T12
	spk := c.P.SSAPkg("internal/server")
	isTokenizer := func(cal *ssa.Function) bool {
		return cal != nil && cal.Signature.Params().Len() == 1 && types.TypeString(cal.Signature.Params().At(0).Type(), nil) == "string" &&
			cal.Signature.Results().Len() == 1 && typeHasSuffix(cal.Signature.Results().At(0).Type(), "[]"+modPath+"/internal/server.semanticToken")
	}
	isEncoder := func(cal *ssa.Function) bool {
		return cal != nil && cal.Signature.Params().Len() == 1 && typeHasSuffix(cal.Signature.Params().At(0).Type(), "[]"+modPath+"/internal/server.semanticToken") &&
			cal.Signature.Results().Len() == 1 && types.TypeString(cal.Signature.Results().At(0).Type(), nil) == "[]uint32"
	}
	// the token cache, by role: a struct of the server package with a map from document URIs to (pointers to)
	// records that hold an encoded token array ([]uint32)
	var cacheType types.Type
	for _, n := range spk.Pkg.Scope().Names() {
		tn, ok := spk.Pkg.Scope().Lookup(n).(*types.TypeName)
		if !ok {
			continue
		}
		st, ok := tn.Type().Underlying().(*types.Struct)
		if !ok {
			continue
		}
		for i := 0; i < st.NumFields(); i++ {
			m, ok := st.Field(i).Type().Underlying().(*types.Map)
			if !ok || !strings.HasSuffix(types.TypeString(m.Key(), nil), "DocumentURI") {
				continue
			}
			et := m.Elem()
			if pt, ok := et.Underlying().(*types.Pointer); ok {
				et = pt.Elem()
			}
			if est, ok := et.Underlying().(*types.Struct); ok {
				for j := 0; j < est.NumFields(); j++ {
					if types.TypeString(est.Field(j).Type(), nil) == "[]uint32" {
						cacheType = tn.Type()
					}
				}
			}
		}
	}
	isCacheMethod := func(cal *ssa.Function) bool {
		if cal == nil || cal.Signature.Recv() == nil || cacheType == nil {
			return false
		}
		rt := cal.Signature.Recv().Type()
		if pt, ok := rt.Underlying().(*types.Pointer); ok {
			rt = pt.Elem()
		}
		return types.Identical(rt, cacheType)
	}
	nH := 0
	for _, f := range c.P.ModuleFuncs() {
		if f.Pkg != spk || f.Signature.Recv() == nil || f.Signature.Params().Len() != 2 {
			continue
		}
		pt := types.TypeString(f.Signature.Params().At(1).Type(), nil)
		kind := ""
		switch {
		case strings.HasSuffix(pt, "protocol.SemanticTokensParams"):
			kind = "full"
		case strings.HasSuffix(pt, "protocol.SemanticTokensRangeParams"):
			kind = "range"
		case strings.HasSuffix(pt, "protocol.SemanticTokensDeltaParams"):
			kind = "delta"
		}
		if kind == "" {
			continue
		}
		nH++
		fname := funcName(f)
		// encoder calls and what they encode
		encs := findCalls(f, isEncoder)
		if len(encs) != 1 {
			c.finding("T12", fname, kind+": one encoding of the tokenised document", f.Pos(), fmt.Sprintf("%d calls of the token encoder (expected exactly 1)", len(encs)))
			continue
		}
		enc := encs[0]
		encSlice := backSlice(enc.Common().Args[0])
		tok := sliceHasCall(encSlice, func(cal *ssa.Function, _ *ssa.Call) bool { return isTokenizer(cal) })
		var tokCall *ssa.Call
		for v := range encSlice {
			if call, ok := v.(*ssa.Call); ok && isTokenizer(call.Common().StaticCallee()) {
				tokCall = call
			}
		}
		// the tokenizer is given the document text itself - not a part or a transformation of it: the tokenizer
		// carries state from line to line, so tokens of a fragment are not the fragment of the tokens
		var exactDoc func(v ssa.Value, seen map[ssa.Value]bool) bool
		exactDoc = func(v ssa.Value, seen map[ssa.Value]bool) bool {
			if seen[v] {
				return true
			}
			seen[v] = true
			switch x := stripConv(v).(type) {
			case *ssa.Extract:
				if call, ok := x.Tuple.(*ssa.Call); ok && x.Index == 0 {
					if cal := call.Common().StaticCallee(); cal != nil && calleeNameIs(cal, "server.Server).GetDocument") {
						return true
					}
				}
				// a helper that hands the document text on unchanged (every return statement)
				if call, ok := x.Tuple.(*ssa.Call); ok {
					if cal := call.Common().StaticCallee(); cal != nil && cal.Blocks != nil && inModule(cal) && len(seen) < 16 {
						n := 0
						for _, b := range cal.Blocks {
							for _, ins := range b.Instrs {
								if r, ok := ins.(*ssa.Return); ok && x.Index < len(r.Results) {
									n++
									rv := unspillResult(r.Results[x.Index], b)
									if k, isConst := rv.(*ssa.Const); isConst && k.Value != nil && k.Value.Kind() == constant.String && constant.StringVal(k.Value) == "" {
										continue // "" next to a 'not found' flag
									}
									if !exactDoc(rv, seen) {
										return false
									}
								}
							}
						}
						return n > 0
					}
				}
			case *ssa.Phi:
				for _, e := range x.Edges {
					if !exactDoc(e, seen) {
						return false
					}
				}
				return true
			}
			return false
		}
		fromDoc := tokCall != nil && exactDoc(tokCall.Common().Args[0], map[ssa.Value]bool{})
		c.check(tok && fromDoc, "T12", fname, kind+": tokens of the current document text", enc.Pos(),
			"encodes the tokenizer's output for the whole text obtained from the document store in this request",
			"the encoded token list is not the tokenizer's output for the whole current document text (a part or transformation of the text is tokenised, or the list is served from a cache that is not invalidated on change)")
		if kind == "range" {
			// restricted by the filter only, and no cache access at all
			cacheUse := findCalls(f, isCacheMethod)
			c.check(len(cacheUse) == 0, "T12", fname, "range requests neither read nor write the token cache", f.Pos(),
				"no token-cache access in the range handler", "the range handler touches the token cache: a range response can be served from stale tokens, or overwrite the data a later delta is computed against")
			// the encoded list is built by appending tokens under a condition that compares the token's own
			// position with the requested range (wherever that loop lives: in the handler or in a helper)
			filt := false
			for v := range encSlice {
				call, ok := v.(*ssa.Call)
				if !ok {
					continue
				}
				if bi, ok := call.Call.Value.(*ssa.Builtin); !ok || bi.Name() != "append" {
					continue
				}
				for _, cond := range controlConds(call.Block()) {
					readsTok, readsRange := false, false
					for w := range backSlice(cond) {
						var bt types.Type
						switch x := w.(type) {
						case *ssa.Field:
							bt = x.X.Type()
						case *ssa.FieldAddr:
							bt = x.X.Type().Underlying().(*types.Pointer).Elem()
						}
						if bt == nil {
							continue
						}
						if typeHasSuffix(bt, "internal/server.semanticToken") {
							readsTok = true
						}
						if typeHasSuffix(bt, "protocol.Range") || typeHasSuffix(bt, "protocol.Position") {
							readsRange = true
						}
					}
					if readsTok && readsRange {
						filt = true
					}
				}
			}
			// ... on every path: the list handed to the encoder is never the tokenizer's raw output (through merges
			// and through the returns of the helpers it comes from) - a helper that skips the filter for a range it
			// takes for "no range" (the zero Range is the legitimate request for line 0 up to character 0) answers the
			// whole document (C17-m29)
			raw := false
			seenRaw := map[ssa.Value]bool{}
			var rawEdge func(v ssa.Value, depth int)
			rawEdge = func(v ssa.Value, depth int) {
				v = stripConv(v)
				if v == nil || seenRaw[v] || depth > 8 {
					return
				}
				seenRaw[v] = true
				switch x := v.(type) {
				case *ssa.Phi:
					for _, e := range x.Edges {
						rawEdge(e, depth+1)
					}
				case *ssa.Call:
					if isTokenizer(x.Common().StaticCallee()) {
						raw = true
						return
					}
					if cal := x.Common().StaticCallee(); cal != nil && inModule(cal) && cal.Blocks != nil {
						for _, b := range cal.Blocks {
							if r, ok := lastInstr(b).(*ssa.Return); ok && len(r.Results) >= 1 {
								rawEdge(unspillResult(r.Results[0], b), depth+1)
							}
						}
					}
				case *ssa.Extract:
					if call, ok := x.Tuple.(*ssa.Call); ok {
						if cal := call.Common().StaticCallee(); cal != nil && inModule(cal) && cal.Blocks != nil {
							for _, b := range cal.Blocks {
								if r, ok := lastInstr(b).(*ssa.Return); ok && x.Index < len(r.Results) {
									rawEdge(unspillResult(r.Results[x.Index], b), depth+1)
								}
							}
						}
					}
				}
			}
			rawEdge(enc.Common().Args[0], 0)
			// ... and an answer given before the text is tokenised (the empty result for an empty or unknown document)
			// does not depend on the requested range: "the range lies below the text" decided from a line count is a
			// second, hand-made filter (C17-m31: lines counted as line feeds, so a range that starts on the last line
			// of a text without a final line feed gets nothing)
			if tokCall != nil {
				early := ""
				for _, rb := range f.Blocks {
					ret, ok := lastInstr(rb).(*ssa.Return)
					// "before tokenising": the return is not behind the call, in this handler, that the encoded list comes from
					anchor := enc.Block()
					for v := range encSlice {
						if cl, isCall := v.(*ssa.Call); isCall && cl.Parent() == f && cl.Block() != nil && cl.Block().Dominates(anchor) {
							if sliceHasCall(backSlice(cl), func(cal *ssa.Function, _ *ssa.Call) bool { return isTokenizer(cal) }) || isTokenizer(cl.Common().StaticCallee()) {
								anchor = cl.Block()
							}
						}
					}
					if !ok || anchor == rb || anchor.Dominates(rb) {
						continue
					}
					for _, cc := range controlDeps(rb) {
						for w := range backSlice(cc.Cond) {
							var bt types.Type
							switch x := w.(type) {
							case *ssa.Field:
								bt = x.X.Type()
							case *ssa.FieldAddr:
								bt = x.X.Type().Underlying().(*types.Pointer).Elem()
							}
							if bt != nil && (typeHasSuffix(bt, "protocol.Range") || typeHasSuffix(bt, "protocol.Position")) {
								early = c.P.pos(ret.Pos())
							}
						}
					}
				}
				c.check(early == "", "T12", fname, "range: no answer before tokenising depends on the requested range", f.Pos(), "early returns depend on the document only",
					"the range handler answers without tokenising on a path that is decided by the requested range (return at "+early+"): a second, hand-made line filter in front of the real one - where the two disagree (line counts taken from line feeds, a last line without one) the response is not the full result restricted to the requested lines")
			}
			c.check(!raw, "T12", fname, "range: the filter is applied on every path", enc.Pos(), "no path hands the tokenizer's unfiltered output to the encoder",
				"on some path the range handler encodes the tokenizer's output as it is - the line filter is skipped there (a requested range that is mistaken for 'no range', e.g. the zero Range 0:0-0:0): the response holds the tokens of every line instead of the full result restricted to the requested lines")
			c.check(filt, "T12", fname, "range = full result restricted by the line filter", enc.Pos(), "the tokenizer's output passes the range filter before encoding", "range tokens are not obtained by filtering the full token list")
		}
		// Data fields of returned SemanticTokens = the encoder result
		nData := 0
		// the handler and the module helpers it calls directly (a helper that stores the result and builds the
		// response): values that are parameters of the helper stand for the arguments of the call
		type scopeT struct {
			g    *ssa.Function
			site *ssa.Call
		}
		scopes := []scopeT{{f, nil}}
		for _, b := range f.Blocks {
			for _, ins := range b.Instrs {
				if call, ok := ins.(*ssa.Call); ok {
					if cal := call.Call.StaticCallee(); cal != nil && inModule(cal) && cal.Blocks != nil && cal != f && !isCacheMethod(cal) {
						scopes = append(scopes, scopeT{cal, call})
					}
				}
			}
		}
		inHandler := func(v ssa.Value, sc scopeT) ssa.Value {
			if prm, ok := v.(*ssa.Parameter); ok && sc.site != nil {
				for i, q := range sc.g.Params {
					if q == prm && i < len(sc.site.Call.Args) {
						return sc.site.Call.Args[i]
					}
				}
			}
			return v
		}
		for _, sc := range scopes {
			for _, b := range sc.g.Blocks {
				for _, ins := range b.Instrs {
					st, ok := ins.(*ssa.Store)
					if !ok || !fieldAddrNamed(st.Addr, "Data") {
						continue
					}
					bt := st.Addr.(*ssa.FieldAddr).X.Type()
					if !typeHasSuffix(bt, "protocol.SemanticTokens") {
						continue
					}
					if sl, ok := st.Val.(*ssa.Slice); ok {
						if _, fresh := sl.X.(*ssa.Alloc); fresh {
							continue // empty result for an unknown/empty document
						}
					}
					nData++
					c.check(inHandler(st.Val, sc) == ssa.Value(enc), "T12", fname, kind+": response data is the encoded token list", st.Pos(),
						"Data is the value returned by the encoder", "the Data of the response is not the encoder's output for the current text")
				}
			}
		}
		if kind != "range" {
			type setT struct {
				call *ssa.Call
				sc   scopeT
			}
			var sets []setT
			for _, sc := range scopes {
				for _, s := range findCalls(sc.g, func(cal *ssa.Function) bool { return isCacheMethod(cal) && cal.Signature.Params().Len() == 3 }) {
					sets = append(sets, setT{s, sc})
				}
			}
			if len(sets) == 0 {
				c.finding("T12", fname, kind+": result cached for later deltas", f.Pos(), "the handler never stores its result in the token cache: the next delta request cannot be answered")
			}
			for _, st := range sets {
				s := st.call
				args := s.Common().Args
				data := inHandler(args[len(args)-1], st.sc)
				c.check(data == ssa.Value(enc), "T12", fname, kind+": cached data = data sent with the new result id", s.Pos(),
					"what is cached under the result id is exactly the array returned with that id", "the array cached under the new result id is not the array sent to the client: the next delta is computed against data the client never received")
			}
		}
		if kind == "delta" {
			// the edits: every SemanticTokensEdit built by the handler or by a module function it calls (values that
			// are parameters of such a function are replaced by the arguments of the call)
			type editC struct {
				vals map[string]ssa.Value
				blks []*ssa.BasicBlock
				pos  token.Pos
			}
			var ecs []editC
			parentSite := map[*ssa.Call]*ssa.Call{}
			collect := func(g *ssa.Function, site *ssa.Call) {
				for _, b := range g.Blocks {
					for _, ins := range b.Instrs {
						var root ssa.Value
						switch x := ins.(type) {
						case *ssa.Alloc:
							if typeHasSuffix(x.Type(), "*go.lsp.dev/protocol.SemanticTokensEdit") {
								root = x
							}
						case *ssa.IndexAddr:
							if typeHasSuffix(x.Type(), "*go.lsp.dev/protocol.SemanticTokensEdit") {
								if _, local := x.X.(*ssa.Alloc); local {
									root = x
								}
							}
						}
						if root == nil {
							continue
						}
						st := map[string][]ssa.Value{}
						collectFieldStores(root, "", st, 0)
						if len(st[".Data"]) != 1 || len(st[".DeleteCount"]) != 1 {
							continue
						}
						vals := map[string]ssa.Value{".Data": st[".Data"][0], ".DeleteCount": st[".DeleteCount"][0]}
						if len(st[".Start"]) == 1 {
							vals[".Start"] = st[".Start"][0]
						}
						blks := []*ssa.BasicBlock{b}
						for s2, d := site, 0; s2 != nil && d < 4; s2, d = parentSite[s2], d+1 {
							blks = append(blks, s2.Block())
						}
						ecs = append(ecs, editC{vals, blks, root.Pos()})
					}
				}
			}
			collect(f, nil)
			helperCalls := findCalls(f, func(cal *ssa.Function) bool {
				return inModule(cal) && cal.Blocks != nil && cal.Signature.Results().Len() == 1 && typeHasSuffix(cal.Signature.Results().At(0).Type(), "protocol.SemanticTokensEdit")
			})
			// ... and the helpers those call in turn (computeEdits -> replaceAll): the call sites form the chain
			// along which parameters are bound
			isEditFn := func(cal *ssa.Function) bool {
				return inModule(cal) && cal.Blocks != nil && cal.Signature.Results().Len() == 1 && typeHasSuffix(cal.Signature.Results().At(0).Type(), "protocol.SemanticTokensEdit")
			}
			seenFn := map[*ssa.Function]bool{f: true}
			for i := 0; i < len(helperCalls) && i < 16; i++ {
				cal := helperCalls[i].Common().StaticCallee()
				if seenFn[cal] {
					continue
				}
				seenFn[cal] = true
				for _, nested := range findCalls(cal, isEditFn) {
					parentSite[nested] = helperCalls[i]
					helperCalls = append(helperCalls, nested)
				}
			}
			for _, hc := range helperCalls {
				collect(hc.Common().StaticCallee(), hc)
			}
			bind := func(v ssa.Value, hc []*ssa.Call) map[ssa.Value]bool {
				// slice of v; parameters of a helper are continued in the arguments of its call
				sl := backSlice(v)
				bound := map[*ssa.Parameter]bool{}
				for round := 0; round < 4; round++ {
					grew := false
					for w := range sl {
						p, ok := w.(*ssa.Parameter)
						if !ok || bound[p] {
							continue
						}
						bound[p] = true
						for _, call := range hc {
							if cal := call.Common().StaticCallee(); cal == p.Parent() {
								for i, q := range cal.Params {
									if q == p && i < len(call.Common().Args) {
										for z := range backSlice(call.Common().Args[i]) {
											if !sl[z] {
												sl[z] = true
												grew = true
											}
										}
									}
								}
							}
						}
					}
					if !grew {
						break
					}
				}
				return sl
			}
			isCachedData := func(v ssa.Value) bool {
				// a read of the []uint32 field of the cache entry
				var ft types.Type
				var bt types.Type
				switch x := v.(type) {
				case *ssa.FieldAddr:
					bt = x.X.Type().Underlying().(*types.Pointer).Elem()
					ft = bt.Underlying().(*types.Struct).Field(x.Field).Type()
				case *ssa.Field:
					bt = x.X.Type()
					ft = bt.Underlying().(*types.Struct).Field(x.Field).Type()
				default:
					return false
				}
				return types.TypeString(ft, nil) == "[]uint32" && strings.Contains(types.TypeString(bt, nil), modPath)
			}
			c.check(len(ecs) >= 1, "T12", fname, "delta: edits are computed", f.Pos(), fmt.Sprintf("%d edit construction(s)", len(ecs)), "the delta handler builds no edit")
			for i, ec := range ecs {
				desc := "delta: edits transform the cached array into the new array"
				if i > 0 {
					desc += fmt.Sprintf(" #%d", i+1)
				}
				dataSl := bind(ec.vals[".Data"], helperCalls)
				newOK := dataSl[ssa.Value(enc)]
				oldOK := false
				for _, k := range []string{".DeleteCount", ".Start", ".Data"} {
					if v := ec.vals[k]; v != nil {
						for w := range bind(v, helperCalls) {
							if isCachedData(w) {
								oldOK = true
							}
						}
					}
				}
				c.check(newOK && oldOK, "T12", fname, desc, ec.pos,
					"the edit's data comes from the newly encoded array and its extent from the cached array", "the delta is not computed from (cached data, newly encoded data)")
				// whole-array replacement: Start 0 and Data = the new array require DeleteCount = len(cached data)
				if k, ok := stripConv(ec.vals[".Start"]).(*ssa.Const); ok && k.Value != nil && k.Value.ExactString() == "0" {
					if stripConv(ec.vals[".Data"]) == ssa.Value(enc) || func() bool { _, isP := stripConv(ec.vals[".Data"]).(*ssa.Parameter); return isP }() {
						whole := false
						if lc, ok := stripConv(ec.vals[".DeleteCount"]).(*ssa.Call); ok {
							if bi, ok := lc.Call.Value.(*ssa.Builtin); ok && bi.Name() == "len" {
								for w := range bind(lc.Call.Args[0], helperCalls) {
									if isCachedData(w) {
										whole = true
									}
								}
							}
						}
						c.check(whole, "T12", fname, "delta: a whole-array replacement deletes exactly the cached array", ec.pos,
							"Start 0, DeleteCount len(cached data), Data = new array", "an edit that starts at 0 and carries the whole new array does not delete exactly len(cached data) elements")
					}
				}
				// guarded by result-id equality
				idCmp := false
				for _, b := range ec.blks {
					for _, cond := range controlConds(b) {
						hasPrev, hasCached := false, false
						condSlice := map[ssa.Value]bool{}
						sliceWithControl(cond, 0, condSlice) // the comparison may sit in a verdict helper (`data, ok := cache.previousData(uri, prevID)`)
						for v := range condSlice {
							var bt, ft types.Type
							switch x := v.(type) {
							case *ssa.FieldAddr:
								bt = x.X.Type().Underlying().(*types.Pointer).Elem()
								ft = bt.Underlying().(*types.Struct).Field(x.Field).Type()
							case *ssa.Field:
								bt = x.X.Type()
								ft = bt.Underlying().(*types.Struct).Field(x.Field).Type()
							default:
								continue
							}
							if types.TypeString(ft, nil) != "string" {
								continue
							}
							if typeHasSuffix(bt, "protocol.SemanticTokensDeltaParams") {
								hasPrev = true
							} else if strings.Contains(types.TypeString(bt, nil), modPath) {
								hasCached = true
							}
						}
						if hasPrev && hasCached {
							idCmp = true
						}
					}
				}
				c.check(idCmp, "T12", fname, "delta: only against the result the client names", ec.pos,
					"a delta is only sent when the cached result id equals the client's previousResultId", "a delta is computed without comparing the cached result id with the client's previousResultId: stale or unknown ids get edits against the wrong base")
			}
		}
	}
	c.census("T12", "semantic-token handlers", nH, 3)
	ruleTokenWidth(c)
}

// ruleTokenWidth (T15w): in the semantic tokenizer the length of a token kind whose Value drops delimiters
// differs from the length a token of an ordinary kind gets.
//
// The length stored into the semantic token is specialised per token kind: the function computing it is walked
// with every comparison of the lexer token's Type against a constant decided for that kind, which leaves a set
// of reachable length expressions.  A delimiter-dropping kind must reach an expression that an ordinary kind
// (one no comparison mentions) does not reach - otherwise its length is taken from the value alone.
func ruleTokenWidth(c *Ctx) {
	kinds := delimiterDroppingKinds(c)
	var kl []string
	for k := range kinds {
		kl = append(kl, k)
	}
	sort.Strings(kl)
	c.census("T15w", "token kinds whose value drops delimiters (from the lexer)", len(kl), 2)
	c.note("delimiter-dropping token kinds: %s", strings.Join(kl, ", "))
	spk := c.P.SSAPkg("internal/server")
	ppk := c.P.ByRel["internal/parser"]
	var tokFn *ssa.Function
	for _, f := range c.P.ModuleFuncs() {
		if f.Pkg != spk || f.Parent() != nil || f.Signature.Recv() != nil || f.Signature.Params().Len() != 1 || f.Signature.Results().Len() != 1 {
			continue
		}
		if typeHasSuffix(f.Signature.Results().At(0).Type(), "[]"+modPath+"/internal/server.semanticToken") && types.TypeString(f.Signature.Params().At(0).Type(), nil) == "string" {
			tokFn = f
		}
	}
	if tokFn == nil {
		c.undecided("T15w", "server", "semantic tokenizer", token.NoPos, "function (string) []semanticToken not found")
		return
	}
	fname := funcName(tokFn)
	// the lengths stored by the tokenizer
	var lens []ssa.Value
	region := []*ssa.Function{tokFn}
	inRegion := map[*ssa.Function]bool{tokFn: true}
	for i := 0; i < len(region); i++ {
		for _, b := range region[i].Blocks {
			for _, ins := range b.Instrs {
				if call, ok := ins.(ssa.CallInstruction); ok {
					h := call.Common().StaticCallee()
					if h == nil || h.Blocks == nil || h.Pkg != spk || inRegion[h] {
						continue
					}
					for _, a := range call.Common().Args {
						t := a.Type()
						if pt, ok := t.Underlying().(*types.Pointer); ok {
							t = pt.Elem()
						}
						if typeHasSuffix(t, "parser.Token") && !inRegion[h] {
							inRegion[h] = true
							region = append(region, h)
						}
					}
				}
			}
		}
	}
	for _, g := range region {
		for _, b := range g.Blocks {
			for _, ins := range b.Instrs {
				st, ok := ins.(*ssa.Store)
				if !ok {
					continue
				}
				fa, ok := st.Addr.(*ssa.FieldAddr)
				if ok && fieldKey(fa.X.Type(), fa.Field) == "server.semanticToken.length" {
					lens = append(lens, st.Val)
				}
			}
		}
	}
	c.census("T15w", "variables / results carrying the token length", len(lens), 1)
	kindVal := func(name string) (int64, bool) {
		if k, ok := ppk.Types.Scope().Lookup(name).(*types.Const); ok {
			return constant.Int64Val(constant.ToInt(k.Val()))
		}
		return 0, false
	}
	for _, k := range kl {
		kv, ok := kindVal(k)
		if !ok {
			c.undecided("T15w", fname, "width of "+k+" accounts for its delimiters", tokFn.Pos(), "token kind constant not found")
			continue
		}
		special := false
		for _, l := range lens {
			a := lengthsUnderKind(l, kv, 0)
			g := lengthsUnderKind(l, -12345, 0)
			for v := range a {
				if !g[v] {
					special = true
				}
			}
		}
		c.check(special, "T15w", fname, "width of "+k+" accounts for its delimiters", tokFn.Pos(),
			"a token of kind "+k+" reaches a length expression that an ordinary token does not",
			"the lexer drops delimiters from the value of "+k+" but the semantic tokenizer takes that token's length from the value alone: the token does not cover its lexeme")
	}
}

// isTokenTypeRead: v reads the Type field of a lexer token.
func isTokenTypeRead(v ssa.Value) bool {
	switch x := stripConv(v).(type) {
	case *ssa.Field:
		if typeHasSuffix(x.X.Type(), "parser.Token") {
			if st, ok := x.X.Type().Underlying().(*types.Struct); ok {
				return typeHasSuffix(st.Field(x.Field).Type(), "parser.TokenType")
			}
		}
	case *ssa.UnOp:
		if x.Op == token.MUL {
			if fa, ok := x.X.(*ssa.FieldAddr); ok {
				bt := fa.X.Type().Underlying().(*types.Pointer).Elem()
				if typeHasSuffix(bt, "parser.Token") {
					return typeHasSuffix(fa.Type().Underlying().(*types.Pointer).Elem(), "parser.TokenType")
				}
			}
		}
	}
	return false
}

// feasibleEdges: the CFG edges of f that can be taken when every lexer token's Type equals kind.
func feasibleEdges(f *ssa.Function, kind int64) map[[2]int]bool {
	edges := map[[2]int]bool{}
	seen := map[int]bool{}
	var decide func(cond ssa.Value) (val, known bool)
	decide = func(cond ssa.Value) (bool, bool) {
		switch x := cond.(type) {
		case *ssa.UnOp:
			if x.Op == token.NOT {
				v, k := decide(x.X)
				return !v, k
			}
		case *ssa.BinOp:
			if x.Op != token.EQL && x.Op != token.NEQ {
				return false, false
			}
			a, b := x.X, x.Y
			if _, isC := a.(*ssa.Const); isC {
				a, b = b, a
			}
			kc, isC := b.(*ssa.Const)
			if !isC || kc.Value == nil || !isTokenTypeRead(a) {
				return false, false
			}
			cv, ok := constant.Int64Val(constant.ToInt(kc.Value))
			if !ok {
				return false, false
			}
			return (cv == kind) == (x.Op == token.EQL), true
		}
		return false, false
	}
	var walk func(b *ssa.BasicBlock)
	walk = func(b *ssa.BasicBlock) {
		if seen[b.Index] {
			return
		}
		seen[b.Index] = true
		take := []bool{true, true}
		if ifi, ok := b.Instrs[len(b.Instrs)-1].(*ssa.If); ok {
			if v, known := decide(ifi.Cond); known {
				take = []bool{v, !v}
			}
		}
		for i, s := range b.Succs {
			if i < len(take) && !take[i] {
				continue
			}
			edges[[2]int{b.Index, s.Index}] = true
			walk(s)
		}
	}
	if len(f.Blocks) > 0 {
		walk(f.Blocks[0])
	}
	return edges
}

// lengthsUnderKind: the expressions v can stand for when the lexer token has the given kind: phi edges over
// infeasible CFG edges are dropped, a helper that is handed the token is entered.
func lengthsUnderKind(v ssa.Value, kind int64, depth int) map[ssa.Value]bool {
	out := map[ssa.Value]bool{}
	if depth > 4 {
		out[v] = true
		return out
	}
	seen := map[ssa.Value]bool{}
	feas := map[*ssa.Function]map[[2]int]bool{}
	edgesOf := func(f *ssa.Function) map[[2]int]bool {
		if feas[f] == nil {
			feas[f] = feasibleEdges(f, kind)
		}
		return feas[f]
	}
	var expand func(v ssa.Value)
	expand = func(v ssa.Value) {
		if seen[v] {
			return
		}
		seen[v] = true
		switch x := v.(type) {
		case *ssa.Phi:
			e := edgesOf(x.Parent())
			for i, pb := range x.Block().Preds {
				if e[[2]int{pb.Index, x.Block().Index}] {
					expand(x.Edges[i])
				}
			}
			return
		case *ssa.Convert:
			// a conversion of a merge: look through
			if _, isPhi := x.X.(*ssa.Phi); isPhi {
				expand(x.X)
				return
			}
			if call, isCall := x.X.(*ssa.Call); isCall && call.Call.StaticCallee() != nil && inModule(call.Call.StaticCallee()) {
				expand(x.X)
				return
			}
		case *ssa.UnOp:
			if al, ok := x.X.(*ssa.Alloc); ok && x.Op == token.MUL {
				// a local that is not lifted to a register (address taken): every feasible store
				e := edgesOf(x.Parent())
				n := 0
				for _, r := range *al.Referrers() {
					if st, ok := r.(*ssa.Store); ok && st.Addr == ssa.Value(al) {
						reach := st.Block().Index == 0
						for k := range e {
							if k[1] == st.Block().Index {
								reach = true
							}
						}
						if reach {
							n++
							expand(st.Val)
						}
					}
				}
				if n > 0 {
					return
				}
			}
		case *ssa.Call:
			h := x.Call.StaticCallee()
			takesTok := false
			if h != nil && h.Blocks != nil && inModule(h) {
				for _, a := range x.Call.Args {
					t := a.Type()
					if pt, ok := t.Underlying().(*types.Pointer); ok {
						t = pt.Elem()
					}
					if typeHasSuffix(t, "parser.Token") {
						takesTok = true
					}
				}
			}
			if takesTok && h.Signature.Results().Len() == 1 {
				e := edgesOf(h)
				for _, b := range h.Blocks {
					r, ok := b.Instrs[len(b.Instrs)-1].(*ssa.Return)
					if !ok {
						continue
					}
					reach := b.Index == 0
					for k := range e {
						if k[1] == b.Index {
							reach = true
						}
					}
					if reach {
						expand(unspillResult(r.Results[0], b))
					}
				}
				return
			}
		}
		out[v] = true
	}
	expand(v)
	return out
}

// localClosureCalls: the call sites of a closure that is only ever called (directly, through the local variable
// holding it, or from nested function literals capturing that variable) - it is never stored elsewhere, passed
// on or returned, so these are all its calls.
func localClosureCalls(f *ssa.Function) ([]ssa.CallInstruction, bool) {
	par := f.Parent()
	if par == nil {
		return nil, false
	}
	top := par
	for top.Parent() != nil {
		top = top.Parent()
	}
	var family []*ssa.Function
	var walk func(g *ssa.Function)
	walk = func(g *ssa.Function) {
		family = append(family, g)
		for _, a := range g.AnonFuncs {
			walk(a)
		}
	}
	walk(top)
	var sites []ssa.CallInstruction
	for _, g := range family {
		for _, b := range g.Blocks {
			for _, ins := range b.Instrs {
				var callee ssa.Value
				if call, ok := ins.(ssa.CallInstruction); ok && !call.Common().IsInvoke() {
					callee = call.Common().Value
					if fn := resolveLocalFunc(callee); fn == f {
						sites = append(sites, call)
					}
				}
				for _, op := range ins.Operands(nil) {
					if *op == nil || *op == callee {
						continue
					}
					if _, isFn := (*op).Type().Underlying().(*types.Signature); !isFn {
						continue
					}
					if resolveLocalFunc(*op) != f {
						continue
					}
					switch x := ins.(type) {
					case *ssa.MakeClosure:
						if x.Fn == *op {
							continue // its creation
						}
					case *ssa.Store:
						if _, toCell := x.Addr.(*ssa.Alloc); toCell && x.Val == *op {
							continue // the local variable holding the closure
						}
					}
					if os.Getenv("HLDEBUG_CLOS") != "" {
						fmt.Fprintln(os.Stderr, "closure escapes:", f, ins, "in", g)
					}
					return nil, false
				}
			}
		}
	}
	if os.Getenv("HLDEBUG_CLOS") != "" {
		fmt.Fprintln(os.Stderr, "closure sites:", f, len(sites))
	}
	return sites, len(sites) > 0
}
