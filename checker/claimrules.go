package main

import (
	"fmt"
	"go/constant"
	"go/token"
	"go/types"

	"golang.org/x/tools/go/ssa"
)

// ruleClaims (C-CLAIM): a claim that others wait on is released on every path.  A *claim table* is a struct field
// of type map[K]chan T into which some function (a claimer) stores a freshly made channel; other goroutines that
// find an entry receive from the channel and are woken when the owner closes it / deletes the entry (a releaser:
// a function that deletes from the table or closes a channel looked up in it).  For every call of a claimer the rule
// walks the caller's control-flow graph from the point where the claim is known to be held - the successor of the
// branch on the claimer's "claimed" result, or the call itself when the claimer has no such result - and requires
// that every path to a return passes a call, defer or go of a releaser (or of a function or literal that calls one).
// A path that returns with the claim held (an early error return between acquire and release) leaves a channel in
// the table that nobody will close: every later caller that reaches the same key blocks for ever.
// Today's tree has no claim table (the rule discharges nothing); the thorough tier replays
// mutants/C14/claim-not-released.diff as its positive example.
func ruleClaims(c *Ctx) {
	type table = *types.Var
	fieldOfMap := func(v ssa.Value) table {
		ld, ok := stripConv(v).(*ssa.UnOp)
		if !ok || ld.Op != token.MUL {
			return nil
		}
		fa, ok := ld.X.(*ssa.FieldAddr)
		if !ok {
			return nil
		}
		fv := fieldVarOfAddr(fa)
		if fv == nil {
			return nil
		}
		mt, ok := fv.Type().Underlying().(*types.Map)
		if !ok {
			return nil
		}
		if _, ok := mt.Elem().Underlying().(*types.Chan); !ok {
			return nil
		}
		return fv
	}
	funcs := c.P.ModuleFuncs()
	claimAt := map[*ssa.Function][]*ssa.MapUpdate{}
	tables := map[table]bool{}
	for _, f := range funcs {
		for _, b := range f.Blocks {
			for _, ins := range b.Instrs {
				if mu, ok := ins.(*ssa.MapUpdate); ok {
					if t := fieldOfMap(mu.Map); t != nil {
						if _, ok := stripConv(mu.Value).(*ssa.MakeChan); ok {
							claimAt[f] = append(claimAt[f], mu)
							tables[t] = true
						}
					}
				}
			}
		}
	}
	c.note("C-CLAIM: %d claim tables (struct fields map[K]chan T filled with fresh channels)", len(tables))
	if len(tables) == 0 {
		c.ok("C-CLAIM", "module", "no claim table", token.NoPos, "no struct field of type map[K]chan T is filled with fresh channels: there is no claim that a path could forget to release")
		return
	}
	// releasers: delete from a claim table, or close of a channel looked up in one
	releases := map[*ssa.Function]bool{}
	for _, f := range funcs {
		for _, b := range f.Blocks {
			for _, ins := range b.Instrs {
				call, ok := ins.(*ssa.Call)
				if !ok {
					continue
				}
				bi, ok := call.Call.Value.(*ssa.Builtin)
				if !ok || len(call.Call.Args) == 0 {
					continue
				}
				switch bi.Name() {
				case "delete":
					if t := fieldOfMap(call.Call.Args[0]); t != nil && tables[t] {
						releases[f] = true
					}
				case "close":
					for w := range backSlice(call.Call.Args[0]) {
						if lk, ok := w.(*ssa.Lookup); ok {
							if t := fieldOfMap(lk.X); t != nil && tables[t] {
								releases[f] = true
							}
						}
					}
				}
			}
		}
	}
	// wrappers of releasers (two levels), function literals included
	for round := 0; round < 2; round++ {
		for _, f := range funcs {
			if releases[f] {
				continue
			}
			for _, b := range f.Blocks {
				for _, ins := range b.Instrs {
					if ci, ok := ins.(ssa.CallInstruction); ok {
						if cal := ci.Common().StaticCallee(); cal != nil && releases[cal] && len(claimAt[f]) == 0 {
							releases[f] = true
						}
					}
				}
			}
		}
	}
	blockReleases := func(b *ssa.BasicBlock) bool {
		for _, ins := range b.Instrs {
			switch x := ins.(type) {
			case ssa.CallInstruction:
				if cal := x.Common().StaticCallee(); cal != nil && releases[cal] {
					return true
				}
				if mc, ok := x.Common().Value.(*ssa.MakeClosure); ok {
					if fn, ok := mc.Fn.(*ssa.Function); ok && releases[fn] {
						return true
					}
				}
			case *ssa.MakeClosure:
				if fn, ok := x.Fn.(*ssa.Function); ok && releases[fn] {
					return true // the claim is handed to a literal that releases it
				}
			}
		}
		return false
	}
	n := 0
	for _, g := range funcs {
		for _, b := range g.Blocks {
			for idx, ins := range b.Instrs {
				call, ok := ins.(*ssa.Call)
				if !ok {
					continue
				}
				f := call.Call.StaticCallee()
				if f == nil || len(claimAt[f]) == 0 || f == g {
					continue
				}
				n++
				// which result says "claimed": a bool result that is constant true on every return below the store of
				// the channel and constant false on every other return (or the reverse)
				below := map[*ssa.BasicBlock]bool{}
				for _, mu := range claimAt[f] {
					for _, fb := range f.Blocks {
						if fb == mu.Block() || mu.Block().Dominates(fb) {
							below[fb] = true
						}
					}
				}
				sigIdx, sigVal, always := -1, false, true
				nres := f.Signature.Results().Len()
				for i := 0; i < nres && sigIdx < 0; i++ {
					if bt, ok := f.Signature.Results().At(i).Type().Underlying().(*types.Basic); !ok || bt.Kind() != types.Bool {
						continue
					}
					okSig, first := true, true
					var claimedVal bool
					for _, fb := range f.Blocks {
						ret, ok := lastInstr(fb).(*ssa.Return)
						if !ok || i >= len(ret.Results) {
							continue
						}
						k, isK := ret.Results[i].(*ssa.Const)
						if !isK || k.Value == nil || k.Value.Kind() != constant.Bool {
							okSig = false
							break
						}
						v := constant.BoolVal(k.Value)
						if below[fb] {
							if first {
								claimedVal, first = v, false
							} else if claimedVal != v {
								okSig = false
							}
						}
					}
					if okSig && !first {
						for _, fb := range f.Blocks {
							if ret, ok := lastInstr(fb).(*ssa.Return); ok && !below[fb] {
								if constant.BoolVal(ret.Results[i].(*ssa.Const).Value) == claimedVal {
									okSig = false
								}
							}
						}
					}
					if okSig && !first {
						sigIdx, sigVal = i, claimedVal
					}
				}
				for _, fb := range f.Blocks {
					if _, ok := lastInstr(fb).(*ssa.Return); ok && !below[fb] {
						always = false
					}
				}
				var starts []*ssa.BasicBlock
				startInBlock := false
				switch {
				case sigIdx >= 0:
					var res ssa.Value = call
					if nres > 1 {
						res = nil
						for _, r := range *call.Referrers() {
							if ex, ok := r.(*ssa.Extract); ok && ex.Index == sigIdx {
								res = ex
							}
						}
					}
					if res == nil {
						continue
					}
					for _, gb := range g.Blocks {
						ifi, ok := lastInstr(gb).(*ssa.If)
						if !ok {
							continue
						}
						cond, want := stripConv(ifi.Cond), sigVal
						if u, ok := cond.(*ssa.UnOp); ok && u.Op == token.NOT {
							cond, want = stripConv(u.X), !want
						}
						if cond != res {
							continue
						}
						if want {
							starts = append(starts, gb.Succs[0])
						} else {
							starts = append(starts, gb.Succs[1])
						}
					}
				case always:
					starts = []*ssa.BasicBlock{b}
					startInBlock = true
				}
				if len(starts) == 0 {
					continue // the claim's outcome is not branched on here (handed on to the caller): not judged
				}
				// a release deferred before the claim covers every path
				deferred := false
				for _, gb := range g.Blocks {
					for _, gi := range gb.Instrs {
						if d, ok := gi.(*ssa.Defer); ok && gb.Dominates(starts[0]) {
							if cal := d.Call.StaticCallee(); cal != nil && releases[cal] {
								deferred = true
							}
							if mc, ok := d.Call.Value.(*ssa.MakeClosure); ok {
								if fn, ok := mc.Fn.(*ssa.Function); ok && releases[fn] {
									deferred = true
								}
							}
						}
					}
				}
				var leak *ssa.BasicBlock
				if !deferred {
					seen := map[*ssa.BasicBlock]bool{}
					var walk func(x *ssa.BasicBlock, first bool)
					walk = func(x *ssa.BasicBlock, first bool) {
						if leak != nil || seen[x] {
							return
						}
						seen[x] = true
						rel := blockReleases(x)
						if first && startInBlock {
							rel = false
							for _, gi := range x.Instrs[idx+1:] {
								if ci, ok := gi.(ssa.CallInstruction); ok {
									if cal := ci.Common().StaticCallee(); cal != nil && releases[cal] {
										rel = true
									}
								}
							}
						}
						if rel {
							return
						}
						if _, ok := lastInstr(x).(*ssa.Return); ok {
							leak = x
							return
						}
						for _, s := range x.Succs {
							walk(s, false)
						}
					}
					for _, s := range starts {
						walk(s, true)
					}
				}
				msg := ""
				if leak != nil {
					msg = fmt.Sprintf("the claim taken by %s at %s is still held at the return at %s: no call, defer or go of a function that deletes the entry / closes its channel lies on that path - the channel stays in the table, and every later caller that reaches the same key waits on it for ever", funcName(f), c.P.pos(call.Pos()), c.P.pos(lastInstr(leak).Pos()))
				}
				c.check(leak == nil, "C-CLAIM", funcName(g), "a claim taken from "+funcName(f)+" is released on every path", call.Pos(),
					"every path from the point where the claim is held to a return passes a release", msg)
			}
		}
	}
	c.note("C-CLAIM: %d calls of claimers judged", n)
}
