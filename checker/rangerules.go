package main

import (
	"go/ast"
	"go/token"
	"go/types"
	"strings"

	"golang.org/x/tools/go/packages"
	"golang.org/x/tools/go/ssa"
)

// ruleRangeEnd (R-END): every source range the module builds for a syntax-tree node has both ends.
//
// The protocol conversion of a range subtracts one from the 1-based line and column of both ends and converts
// to unsigned: a range whose End was never filled (zero Position) becomes End = {4294967295, 4294967295}.  A
// reference or rename edit built from it "ends" far behind the document (witness: `commodity $` declared, rename
// of `$` from a posting - the edit for the declaration spans from the symbol to the end of everything).
// The rule is an invariant of construction sites, decided on the syntax tree with types:
//   - an `ast.Range{Start: ...}` literal without an End key must be completed by an assignment to `<path>.End`
//     (or to the whole `<path>`) in the same function, where <path> is the place the literal is stored to
//     (local variable, field chain through enclosing literals); a literal that is returned, appended or passed
//     on directly has no such place;
//   - wherever `<x>.Range.Start` is assigned, `<x>.Range.End` (or `<x>.Range`) is assigned in the same function.
//
// It does not decide that the End is the *right* end.
func ruleRangeEnd(c *Ctx) {
	isRange := func(t types.Type) bool {
		n, ok := types.Unalias(t).(*types.Named)
		return ok && n.Obj().Name() == "Range" && n.Obj().Pkg() != nil && strings.HasSuffix(n.Obj().Pkg().Path(), "internal/ast")
	}
	nLits, nStarts := 0, 0
	// helpers that return a range with a Start only (`func openRange(p Position) ast.Range { return ast.Range{Start: ...} }`):
	// a call of such a helper is judged like the literal itself, at the call site
	openProducer := map[types.Object]bool{}
	openLit := func(pk *packages.Package, e ast.Expr) bool {
		lit, ok := ast.Unparen(e).(*ast.CompositeLit)
		if !ok {
			return false
		}
		tv, ok := pk.TypesInfo.Types[lit]
		if !ok || !isRange(tv.Type) || len(lit.Elts) == 0 {
			return false
		}
		hasStart, hasEnd := false, false
		for _, e := range lit.Elts {
			kv, ok := e.(*ast.KeyValueExpr)
			if !ok {
				return false
			}
			switch types.ExprString(kv.Key) {
			case "Start":
				hasStart = true
			case "End":
				hasEnd = true
			}
		}
		return hasStart && !hasEnd
	}
	for changed := true; changed; {
		changed = false
		for _, pk := range c.P.ByRel {
			for _, file := range pk.Syntax {
				for _, d := range file.Decls {
					fd, ok := d.(*ast.FuncDecl)
					if !ok || fd.Body == nil || fd.Type.Results == nil || len(fd.Type.Results.List) != 1 || openProducer[pk.TypesInfo.Defs[fd.Name]] {
						continue
					}
					if tv, ok := pk.TypesInfo.Types[fd.Type.Results.List[0].Type]; !ok || !isRange(tv.Type) {
						continue
					}
					nRet, nOpen := 0, 0
					ast.Inspect(fd.Body, func(n ast.Node) bool {
						if _, isLit := n.(*ast.FuncLit); isLit {
							return false
						}
						if r, ok := n.(*ast.ReturnStmt); ok && len(r.Results) == 1 {
							nRet++
							if openLit(pk, r.Results[0]) {
								nOpen++
							} else if call, ok := ast.Unparen(r.Results[0]).(*ast.CallExpr); ok && openProducer[calleeOf(pk.TypesInfo, call)] {
								nOpen++
							}
						}
						return true
					})
					if nRet > 0 && nOpen > 0 {
						openProducer[pk.TypesInfo.Defs[fd.Name]] = true
						changed = true
					}
				}
			}
		}
	}
	for rel, pk := range c.P.ByRel {
		_ = rel
		for _, file := range pk.Syntax {
			if strings.HasSuffix(c.P.Fset.Position(file.Pos()).Filename, "_test.go") {
				continue
			}
			for _, d := range file.Decls {
				fd, ok := d.(*ast.FuncDecl)
				if !ok || fd.Body == nil {
					continue
				}
				fn := c.P.declName(fd)
				// all assignment targets of the function, as text
				assigned := map[string][]token.Pos{}
				ast.Inspect(fd.Body, func(n ast.Node) bool {
					if as, ok := n.(*ast.AssignStmt); ok {
						for _, l := range as.Lhs {
							assigned[types.ExprString(l)] = append(assigned[types.ExprString(l)], as.Pos())
						}
					}
					return true
				})
				completed := func(path string, after token.Pos) bool {
					for _, cand := range []string{path + ".End", path} {
						for _, p := range assigned[cand] {
							if p > after {
								return true
							}
						}
					}
					return false
				}
				// (1) Range literals with a Start and no End
				var stack []ast.Node
				var pathOf func(i int) string
				pathOf = func(i int) string {
					// stack[i] is a composite literal (or &literal); where is it stored?
					if i == 0 {
						return ""
					}
					switch par := stack[i-1].(type) {
					case *ast.UnaryExpr:
						return pathOf(i - 1)
					case *ast.ParenExpr:
						return pathOf(i - 1)
					case *ast.KeyValueExpr:
						if i >= 2 {
							if _, ok := stack[i-2].(*ast.CompositeLit); ok {
								if base := pathOf(i - 2); base != "" {
									return base + "." + types.ExprString(par.Key)
								}
							}
						}
						return ""
					case *ast.AssignStmt:
						for k, r := range par.Rhs {
							if r == stack[i] && k < len(par.Lhs) {
								return types.ExprString(par.Lhs[k])
							}
						}
						return ""
					case *ast.ValueSpec:
						for k, r := range par.Values {
							if r == stack[i] && k < len(par.Names) {
								return par.Names[k].Name
							}
						}
						return ""
					}
					return ""
				}
				ast.Inspect(fd.Body, func(n ast.Node) bool {
					if n == nil {
						stack = stack[:len(stack)-1]
						return true
					}
					stack = append(stack, n)
					if call, ok := n.(*ast.CallExpr); ok && openProducer[calleeOf(pk.TypesInfo, call)] {
						if _, inRet := stack[len(stack)-2].(*ast.ReturnStmt); inRet && openProducer[pk.TypesInfo.Defs[fd.Name]] {
							return true // handed on by another open-range helper
						}
						nLits++
						desc := "open range from " + types.ExprString(call.Fun) + " #" + itoa(countCallsBefore(fd, call)) + " has both ends"
						path := pathOf(len(stack) - 1)
						if path != "" && completed(path, call.Pos()) {
							c.ok("R-END", fn, desc, call.Pos(), "End is assigned to "+path+" later in the function")
						} else {
							where := "it is used where it is written and cannot be completed"
							if path != "" {
								where = "nothing in the function assigns " + path + ".End"
							}
							c.finding("R-END", fn, desc, call.Pos(), "a source range is built with a Start only ("+where+"): its End stays the zero position, which the protocol conversion turns into line and character 4294967295 - a reference, rename edit or symbol range taken from this node ends far outside the document")
						}
						return true
					}
					lit, ok := n.(*ast.CompositeLit)
					if !ok {
						return true
					}
					if _, inRet := stack[len(stack)-2].(*ast.ReturnStmt); inRet && openProducer[pk.TypesInfo.Defs[fd.Name]] && openLit(pk, lit) {
						return true // the literal of an open-range helper: judged at its call sites
					}
					tv, ok := pk.TypesInfo.Types[lit]
					if !ok || !isRange(tv.Type) || len(lit.Elts) == 0 {
						return true
					}
					hasStart, hasEnd, keyed := false, false, true
					for _, e := range lit.Elts {
						kv, ok := e.(*ast.KeyValueExpr)
						if !ok {
							keyed = false
							continue
						}
						switch types.ExprString(kv.Key) {
						case "Start":
							hasStart = true
						case "End":
							hasEnd = true
						}
					}
					if !keyed {
						return true // positional literal: both fields given
					}
					nLits++
					desc := "range literal #" + itoa(countBefore(fd, lit)) + " has both ends"
					switch {
					case hasEnd || !hasStart:
						c.ok("R-END", fn, desc, lit.Pos(), "the literal gives End (or is the explicit zero range)")
					default:
						path := pathOf(len(stack) - 1)
						if path != "" && completed(path, lit.Pos()) {
							c.ok("R-END", fn, desc, lit.Pos(), "End is assigned to "+path+" later in the function")
						} else {
							where := "it is used where it is written and cannot be completed"
							if path != "" {
								where = "nothing in the function assigns " + path + ".End"
							}
							c.finding("R-END", fn, desc, lit.Pos(), "a source range is built with a Start only ("+where+"): its End stays the zero position, which the protocol conversion turns into line and character 4294967295 - a reference, rename edit or symbol range taken from this node ends far outside the document")
						}
					}
					return true
				})
				// (2) X.Range.Start = ... without X.Range.End = ...
				for target, poss := range assigned {
					if !strings.HasSuffix(target, ".Start") {
						continue
					}
					base := strings.TrimSuffix(target, ".Start")
					// is base of type ast.Range?
					isR := false
					ast.Inspect(fd.Body, func(n ast.Node) bool {
						if as, ok := n.(*ast.AssignStmt); ok {
							for _, l := range as.Lhs {
								if types.ExprString(l) == target {
									if se, ok := ast.Unparen(l).(*ast.SelectorExpr); ok {
										if tv, ok := pk.TypesInfo.Types[se.X]; ok && isRange(tv.Type) {
											isR = true
										}
									}
								}
							}
						}
						return true
					})
					if !isR {
						continue
					}
					nStarts++
					okEnd := len(assigned[base+".End"]) > 0 || len(assigned[base]) > 0
					c.check(okEnd, "R-END", fn, "assignment of "+target+" is matched by its End", poss[0],
						"the same function assigns "+base+".End",
						"the function assigns "+target+" but never "+base+".End: the range keeps a zero End, which the protocol conversion turns into line and character 4294967295")
				}
			}
		}
	}
	c.census("R-END", "source-range constructions (literals and Start assignments) in module code", nLits+nStarts, 8)
}

func itoa(n int) string {
	if n == 0 {
		return "0"
	}
	s := ""
	for n > 0 {
		s = string(rune('0'+n%10)) + s
		n /= 10
	}
	return s
}

// countBefore: ordinal of the composite literal among the composite literals of the function (stable under
// line shifts).
func countBefore(fd *ast.FuncDecl, lit *ast.CompositeLit) int {
	n, res := 0, 0
	ast.Inspect(fd.Body, func(x ast.Node) bool {
		if l, ok := x.(*ast.CompositeLit); ok {
			if l == lit {
				res = n
			}
			n++
		}
		return true
	})
	return res
}

func countCallsBefore(fd *ast.FuncDecl, call *ast.CallExpr) int {
	n, res := 0, 0
	ast.Inspect(fd.Body, func(x ast.Node) bool {
		if l, ok := x.(*ast.CallExpr); ok {
			if l == call {
				res = n
			}
			n++
		}
		return true
	})
	return res
}

// ruleFreshDecode (W-DECODE): a JSON message is decoded into a value that is fresh for that message.
// encoding/json leaves a field alone when its key is absent and re-uses slice elements within capacity without
// zeroing them: decoding a notification into a value that outlives the message (a variable captured by the
// handler closure, a field, a package variable, a local that was pre-filled from such a place) lets an optional
// member keep what an earlier message put there - a `range` pointer left by a ranged change turns the next
// whole-document replacement into a splice at the old range.
func ruleFreshDecode(c *Ctx) {
	n := 0
	for _, f := range c.P.ModuleFuncs() {
		for _, b := range f.Blocks {
			for _, ins := range b.Instrs {
				call, ok := ins.(ssa.CallInstruction)
				if !ok {
					continue
				}
				cal := call.Common().StaticCallee()
				if cal == nil || cal.Pkg == nil || cal.Pkg.Pkg.Path() != "encoding/json" {
					continue
				}
				var target ssa.Value
				switch {
				case cal.Name() == "Unmarshal" && len(call.Common().Args) == 2:
					target = call.Common().Args[1]
				case cal.Name() == "Decode" && len(call.Common().Args) == 2:
					target = call.Common().Args[1]
				default:
					continue
				}
				n++
				v := stripConv(target)
				al, isAlloc := v.(*ssa.Alloc)
				bad := ""
				switch {
				case !isAlloc:
					bad = "the target is not a variable of this call (" + v.Name() + ": a captured variable, a field or a package variable)"
				case inCycle(al.Block()) && false:
				default:
					// pre-filled from a longer-lived place?
					var visit func(addr ssa.Value, d int)
					visit = func(addr ssa.Value, d int) {
						if d > 3 || addr.Referrers() == nil {
							return
						}
						for _, r := range *addr.Referrers() {
							switch x := r.(type) {
							case *ssa.Store:
								if x.Addr != addr {
									continue
								}
								for w := range backSlice(x.Val) {
									switch w.(type) {
									case *ssa.FreeVar, *ssa.Global:
										bad = "the target is pre-filled from a variable that outlives the message (" + w.Name() + ")"
									}
								}
							case *ssa.FieldAddr:
								visit(x, d+1)
							}
						}
					}
					visit(al, 0)
				}
				c.check(bad == "", "W-DECODE", funcName(f), "JSON is decoded into a fresh value", ins.Pos(),
					"the decode target is a variable created for this message",
					"a JSON message is decoded into a value that is not fresh for that message: "+bad+". encoding/json keeps members whose key is absent and re-uses slice elements without zeroing them, so an optional member (the range of a content change) silently keeps the value of an earlier message")
			}
		}
	}
	c.census("W-DECODE", "JSON decode sites in module code", n, 1)
}

// ruleWorkspaceReinit (C12-REINIT): the workspace is rebuilt from disk (Workspace.Initialize) only during the
// server's initialisation.  Afterwards the resolved tree carries the unsaved text of open documents (UpdateFile);
// a rebuild from disk on a later path - a configuration change, a watcher - silently goes back to the saved
// files while the documents stay as the editor has them.
func ruleWorkspaceReinit(c *Ctx) {
	ci := buildConc(c)
	n := 0
	// the initialisation phase of the protocol: `initialize` and `initialized` (the client sends nothing else in
	// between); everything reachable from another handler or from a goroutine the server starts is "later"
	var later []*ssa.Function
	for _, h := range ci.handlers {
		if h.Name() != "Initialize" && h.Name() != "Initialized" {
			later = append(later, h)
		}
	}
	later = append(later, ci.goRoots...)
	laterReach := Reach(ci.g, later, false)
	for _, f := range ci.funcs {
		for _, b := range f.Blocks {
			for _, ins := range b.Instrs {
				call, ok := ins.(ssa.CallInstruction)
				if !ok {
					continue
				}
				cal := call.Common().StaticCallee()
				if cal == nil || cal.Name() != "Initialize" || cal.Signature.Recv() == nil || !typeHasSuffix(cal.Signature.Recv().Type(), "workspace.Workspace") {
					continue
				}
				n++
				c.check(ci.initFns[f] || !laterReach[f], "C12-REINIT", funcName(f), "the workspace is rebuilt from disk during initialisation only", ins.Pos(),
					"the caller belongs to the initialisation phase",
					"Workspace.Initialize (a rebuild of the tree from the files on disk) is called outside the server's initialisation: unsaved text that didChange had put into the workspace tree is replaced by the saved files, while references, rename and completion keep taking their target from the open document")
			}
		}
	}
	c.census("C12-REINIT", "calls of Workspace.Initialize", n, 1)
}

// rulePathSpelling (P-SPELL): a file is identified by the spelling of its path everywhere - the loader's ancestor
// and loaded sets, its cache, the workspace index, the document store and the URIs of locations all compare
// strings that went through filepath.Clean/Join/Abs and nothing else.  Resolving symbolic links at one of the
// places where paths enter (a URI, an include directive, the workspace root) gives one file two names: a diamond
// through a symlink loads it twice, an invalidation under the editor's name misses the cache entry, a location
// carries a URI the editor does not have open.  The rule is a who-may-call rule: nothing in the module resolves
// symbolic links.
func rulePathSpelling(c *Ctx) {
	n := 0
	for _, f := range c.P.ModuleFuncs() {
		for _, b := range f.Blocks {
			for _, ins := range b.Instrs {
				call, ok := ins.(ssa.CallInstruction)
				if !ok {
					continue
				}
				cal := call.Common().StaticCallee()
				if cal == nil || cal.Pkg == nil {
					continue
				}
				q := cal.Pkg.Pkg.Path() + "." + cal.Name()
				switch q {
				case "path/filepath.Clean", "path/filepath.Join", "path/filepath.Abs":
					n++
				case "net/url.QueryUnescape":
					// form decoding is not path decoding: it also turns a literal '+' into a blank
					fromURI := false
					for _, a := range call.Common().Args {
						for w := range backSlice(a) {
							if ts := types.TypeString(w.Type(), nil); strings.HasSuffix(ts, "protocol.DocumentURI") || strings.HasSuffix(ts, "uri.URI") || strings.HasSuffix(ts, "protocol.URI") {
								fromURI = true
							}
						}
					}
					if fromURI {
						c.finding("P-SPELL", funcName(f), "a document URI is decoded as a path, not as a form value", ins.Pos(),
							"net/url.QueryUnescape is applied to text taken from a document URI: besides %XX escapes it turns '+' into a blank, so a document whose path contains '+' is filed under a path that does not exist - its includes resolve against the wrong directory, the workspace does not recognise it, locations for it carry another name (url.PathUnescape or the uri package decode paths)")
					}
				case "path/filepath.EvalSymlinks", "os.Readlink":
					c.finding("P-SPELL", funcName(f), "no path is resolved through symbolic links", ins.Pos(),
						q+" gives a file a second name: the rest of the module (include loader, cache invalidation, workspace index, document URIs) identifies files by the spelling produced by filepath.Clean/Join/Abs, so a file reached both ways is loaded twice, its cycles are reported late or not at all, and invalidations and locations under the editor's name miss it")
				}
			}
		}
	}
	c.census("P-SPELL", "lexical path normalisations (Clean/Join/Abs) in module code", n, 5)
}

// ruleSingleLoader (L-SINGLE): include loaders are created by constructors only.  The server configures one
// loader (limits from the settings, cache invalidation on change and save) and hands it to the workspace; a
// second loader created on a later path has default limits and a cache nobody invalidates.
func ruleSingleLoader(c *Ctx) {
	n := 0
	for _, f := range c.P.ModuleFuncs() {
		for _, b := range f.Blocks {
			for _, ins := range b.Instrs {
				call, ok := ins.(ssa.CallInstruction)
				if !ok {
					continue
				}
				cal := call.Common().StaticCallee()
				if cal == nil || cal.Pkg == nil || !strings.HasSuffix(cal.Pkg.Pkg.Path(), "internal/include") || cal.Name() != "NewLoader" {
					continue
				}
				n++
				top := f
				for top.Parent() != nil {
					top = top.Parent()
				}
				isCtor := top.Signature.Recv() == nil && strings.HasPrefix(top.Name(), "New")
				c.check(isCtor, "L-SINGLE", funcName(f), "include loaders are created by constructors only", ins.Pos(),
					"the loader is created while its owner is constructed",
					"an include loader is created outside a constructor: it has the default limits (the configured include depth and file size do not apply to what it loads) and its cache is not the one the change and save handlers invalidate")
			}
		}
	}
	c.census("L-SINGLE", "creations of an include loader", n, 1)
}
