package main

// Thorough tier (DESIGN §2.4): configuration matrix, CHA re-evaluation, mutant self-validation,
// cross-reference tool counts.  Everything here re-runs the SAME rules in sub-processes of this binary
// (one load per process, so memory stays bounded); scratch copies live under os.TempDir() and are removed
// as soon as a mutant has been replayed.

import (
	"encoding/json"
	"fmt"
	"os"
	"os/exec"
	"path/filepath"
	"sort"
	"strings"
	"time"
)

type subResult struct {
	rc   int
	news []string // "verdict rule key"
	out  string
}

func runSelf(prop, repo, verif string, extra ...string) subResult {
	args := append([]string{"-prop", prop, "-tier", "quick", "-repo", repo, "-verif", verif, "-no-evidence"}, extra...)
	cmd := exec.Command(os.Args[0], args...)
	cmd.Env = os.Environ()
	b, err := cmd.CombinedOutput()
	r := subResult{out: string(b)}
	if err != nil {
		if ee, ok := err.(*exec.ExitError); ok {
			r.rc = ee.ExitCode()
		} else {
			r.rc = 2
		}
	}
	for _, l := range strings.Split(string(b), "\n") {
		if strings.HasPrefix(l, "NEW ") {
			f := strings.SplitN(l, " ", 4)
			if len(f) >= 4 {
				key := f[3]
				if i := strings.Index(key, " at "); i > 0 {
					key = key[:i]
				}
				r.news = append(r.news, f[1]+" "+f[2]+" "+key)
			}
		}
	}
	sort.Strings(r.news)
	return r
}

func primaryNews(c *Ctx, known []KnownFinding) []string {
	var out []string
	for _, o := range c.Obligs {
		if o.Verdict == Discharged {
			continue
		}
		isKnown := false
		for _, k := range known {
			if k.Status == "known" && k.Key == o.Key && contains(k.Properties, c.Prop) {
				isKnown = true
			}
		}
		if !isKnown {
			out = append(out, string(o.Verdict)+" "+o.Rule+" "+o.Key)
		}
	}
	sort.Strings(out)
	return out
}

func runThorough(c *Ctx, spec *PropSpec, verif, repo string, extra map[string]any) {
	known, _ := loadKnown(filepath.Join(verif, "KNOWN_FINDINGS.json"))
	prim := strings.Join(primaryNews(c, known), "\n")
	// 1. configuration matrix
	type cfg struct{ tags, goos, goarch string }
	matrix := []cfg{{"", "linux", "amd64"}, {"verif", "linux", "386"}, {"", "linux", "386"}, {"verif", "darwin", "arm64"}, {"", "darwin", "arm64"}, {"verif", "windows", "amd64"}, {"", "windows", "amd64"}}
	var mres []any
	for _, m := range matrix {
		t0 := time.Now()
		r := runSelf(c.Prop, repo, verif, "-tags", m.tags, "-goos", m.goos, "-goarch", m.goarch)
		same := strings.Join(r.news, "\n") == prim && r.rc != 2
		mres = append(mres, map[string]any{"tags": m.tags, "goos": m.goos, "goarch": m.goarch, "exit": r.rc, "non_discharged": len(r.news), "agrees_with_primary": same, "wall_s": time.Since(t0).Seconds()})
		if r.rc == 2 {
			c.undecided("MATRIX", "", fmt.Sprintf("configuration %s/%s tags=%q", m.goos, m.goarch, m.tags), 0, "the tree could not be loaded/analysed under this build configuration: "+lastLine(r.out))
		} else if !same {
			c.finding("MATRIX", "", fmt.Sprintf("configuration %s/%s tags=%q", m.goos, m.goarch, m.tags), 0,
				"the verdicts under this build configuration differ from linux/amd64 tags=verif (files that only this configuration builds change the result): "+strings.Join(r.news, "; "))
		} else {
			c.ok("MATRIX", "", fmt.Sprintf("configuration %s/%s tags=%q", m.goos, m.goarch, m.tags), 0, "same verdicts as the primary configuration")
		}
	}
	extra["configuration_matrix"] = mres
	// 2. CHA re-evaluation of call-graph based rules
	{
		cmdEnv := os.Getenv("HL_CG")
		os.Setenv("HL_CG", "cha")
		r := runSelf(c.Prop, repo, verif)
		os.Setenv("HL_CG", cmdEnv)
		var only []string
		ps := map[string]bool{}
		for _, l := range strings.Split(prim, "\n") {
			ps[l] = true
		}
		for _, n := range r.news {
			if !ps[n] {
				only = append(only, n)
			}
		}
		extra["cha_reevaluation"] = map[string]any{"exit": r.rc, "non_discharged_only_under_cha": only,
			"note": "CHA is a superset of the VTA call graph; entries listed here hold only thanks to VTA's precision (cross-reference, does not decide)"}
	}
	// 3. mutant self-validation
	var mutants []any
	nApplied, nCaught, nSkipped := 0, 0, 0
	var patches []string
	if ds, err := filepath.Glob(filepath.Join(verif, "seeded", c.Prop+"-*")); err == nil {
		for _, d := range ds {
			mb, err := os.ReadFile(filepath.Join(d, "meta.json"))
			if err != nil {
				continue
			}
			var meta struct {
				CheckResult string `json:"check_result"`
			}
			_ = json.Unmarshal(mb, &meta)
			if meta.CheckResult == "CAUGHT" {
				patches = append(patches, filepath.Join(d, "patch.diff"))
			}
		}
	}
	if ps, err := filepath.Glob(filepath.Join(verif, "mutants", c.Prop, "*.diff")); err == nil {
		patches = append(patches, ps...)
	}
	sort.Strings(patches)
	for _, p := range patches {
		tmp, err := os.MkdirTemp("", "hl-thorough-")
		if err != nil {
			continue
		}
		func() {
			defer os.RemoveAll(tmp)
			if out, err := exec.Command("rsync", "-a", "--exclude", ".git", repo+"/", tmp+"/").CombinedOutput(); err != nil {
				mutants = append(mutants, map[string]any{"patch": rel(verif, p), "status": "copy failed: " + string(out)})
				return
			}
			ap := exec.Command("git", "apply", "--whitespace=nowarn", p)
			ap.Dir = tmp
			if err := ap.Run(); err != nil {
				nSkipped++
				mutants = append(mutants, map[string]any{"patch": rel(verif, p), "status": "skipped: patch no longer applies to the current tree"})
				return
			}
			nApplied++
			r := runSelf(c.Prop, tmp, verif)
			var newOnes []string
			ps := map[string]bool{}
			for _, l := range strings.Split(prim, "\n") {
				ps[l] = true
			}
			for _, n := range r.news {
				if !ps[n] {
					newOnes = append(newOnes, n)
				}
			}
			caught := r.rc == 1 && len(newOnes) > 0
			if caught {
				nCaught++
			}
			st := "caught"
			if r.rc == 2 {
				st = "mutant does not load: " + lastLine(r.out)
			} else if !caught {
				st = "NOT CAUGHT"
			}
			mutants = append(mutants, map[string]any{"patch": rel(verif, p), "status": st, "reports": newOnes})
			if r.rc != 2 && !caught {
				c.note("SELF-VALIDATION: mutant %s applies to the current tree but is no longer reported by this property's rules", rel(verif, p))
			}
		}()
	}
	extra["mutants"] = mutants
	extra["mutant_replay"] = map[string]int{"patches": len(patches), "applied": nApplied, "caught": nCaught, "skipped_no_longer_apply": nSkipped}
	if nApplied > nCaught {
		c.undecided("SELF-VALIDATION", "", "mutant replay", 0, fmt.Sprintf("%d of %d applicable mutants are not reported any more: the rules of this property have lost detection power and their silence on the current tree is not trusted", nApplied-nCaught, nApplied))
	} else {
		c.ok("SELF-VALIDATION", "", "mutant replay", 0, fmt.Sprintf("%d/%d applicable breaking changes are reported (%d patches no longer apply)", nCaught, nApplied, nSkipped))
	}
	// 3b. negative controls: behaviour-preserving refactorings written for this property must stay silent.
	// A report here is a defect of the rules (too syntactic), not of the tree, so it never decides the
	// property; it is printed and recorded so that it gets repaired.
	{
		var controls []any
		nApplied, nSilent := 0, 0
		ps, _ := filepath.Glob(filepath.Join(verif, "benign", c.Prop+"-*", "patch.diff"))
		sort.Strings(ps)
		for _, p := range ps {
			tmp, err := os.MkdirTemp("", "hl-thorough-")
			if err != nil {
				continue
			}
			func() {
				defer os.RemoveAll(tmp)
				if _, err := exec.Command("rsync", "-a", "--exclude", ".git", repo+"/", tmp+"/").CombinedOutput(); err != nil {
					return
				}
				ap := exec.Command("git", "apply", "--whitespace=nowarn", p)
				ap.Dir = tmp
				if err := ap.Run(); err != nil {
					controls = append(controls, map[string]any{"patch": rel(verif, p), "status": "skipped: patch no longer applies to the current tree"})
					return
				}
				nApplied++
				r := runSelf(c.Prop, tmp, verif)
				pset := map[string]bool{}
				for _, l := range strings.Split(prim, "\n") {
					pset[l] = true
				}
				var extraNews []string
				for _, n := range r.news {
					if !pset[n] {
						extraNews = append(extraNews, n)
					}
				}
				if len(extraNews) == 0 && r.rc != 2 {
					nSilent++
					controls = append(controls, map[string]any{"patch": rel(verif, p), "status": "silent"})
				} else {
					controls = append(controls, map[string]any{"patch": rel(verif, p), "status": "FALSE ALARM", "reports": extraNews})
					c.note("NEGATIVE-CONTROL: the behaviour-preserving change %s makes this property's rules report %v", rel(verif, p), extraNews)
				}
			}()
		}
		extra["negative_controls"] = controls
		extra["negative_control_replay"] = map[string]int{"patches": len(ps), "applied": nApplied, "silent": nSilent}
	}
	// 4. cross-reference tools (never decide): counts only
	xref := map[string]any{}
	for _, t := range [][]string{{"go", "vet", "./..."}, {"staticcheck", "./..."}, {"errcheck", "-blank", "./..."}} {
		cmd := exec.Command(t[0], t[1:]...)
		cmd.Dir = repo
		done := make(chan []byte, 1)
		go func() { b, _ := cmd.CombinedOutput(); done <- b }()
		select {
		case b := <-done:
			n := 0
			for _, l := range strings.Split(string(b), "\n") {
				if strings.Contains(l, ".go:") {
					n++
				}
			}
			xref[strings.Join(t, " ")] = n
		case <-time.After(180 * time.Second):
			if cmd.Process != nil {
				_ = cmd.Process.Kill()
			}
			xref[strings.Join(t, " ")] = "timeout"
		}
	}
	extra["cross_reference_tool_diagnostics"] = xref
}

func rel(base, p string) string {
	if r, err := filepath.Rel(base, p); err == nil {
		return r
	}
	return p
}

func lastLine(s string) string {
	ls := strings.Split(strings.TrimSpace(s), "\n")
	if len(ls) == 0 {
		return ""
	}
	l := ls[len(ls)-1]
	if len(l) > 200 {
		l = l[:200]
	}
	return l
}
