package main

// Engine D, parser part: abstract interpretation of the recursive-descent parser over token-kind sets.
//
// State (disjunction partitioned by the flags): T = possible kinds of p.current, adv = per enclosing
// token loop "the parser advanced since this loop's head was last reached" (must), ls = "p.current is the
// first token of a line" (must: the last consumed token was a Newline).
//   P-PROGRESS  every path back to the head of a loop whose condition reads p.current.Type has advanced
//   P-RESYNC    the line-skipping recovery routine is never called, outside the line-level dispatcher, in
//               a state where the current token is already the first token of a fresh line

import (
	"fmt"
	"go/ast"
	"go/constant"
	"go/token"
	"go/types"
	"golang.org/x/tools/go/ssa"
	"os"
	"sort"
	"strings"
)

type kset uint64

type pState struct {
	T     kset
	adv   []bool // one flag per active token loop (innermost last)
	ls    bool
	fresh bool // no token has been consumed since the line-level dispatcher loop was (re-)entered
	// local variables of token-kind type that hold a known constant on this path (`closing := TokenRBracket`)
	loc map[locK]int
	// boolean locals with a known value on this path (`_, ok := table[p.current.Type]`)
	bl map[types.Object]bool
}

// locK: a local variable, or a field of a local struct variable.
type locK struct {
	o types.Object
	f string
}

func (s *pState) clone() *pState {
	c := &pState{T: s.T, adv: append([]bool(nil), s.adv...), ls: s.ls, fresh: s.fresh}
	if len(s.loc) > 0 {
		c.loc = make(map[locK]int, len(s.loc))
		for k, v := range s.loc {
			c.loc[k] = v
		}
	}
	if len(s.bl) > 0 {
		c.bl = make(map[types.Object]bool, len(s.bl))
		for k, v := range s.bl {
			c.bl[k] = v
		}
	}
	return c
}
func (s *pState) key() string {
	if len(s.loc) == 0 && len(s.bl) == 0 {
		return fmt.Sprintf("%v|%v|%v", s.adv, s.ls, s.fresh)
	}
	var ls []string
	for k, v := range s.loc {
		ls = append(ls, fmt.Sprintf("%s.%s@%d=%d", k.o.Name(), k.f, k.o.Pos(), v))
	}
	for k, v := range s.bl {
		ls = append(ls, fmt.Sprintf("%s@%d=%v", k.Name(), k.Pos(), v))
	}
	sort.Strings(ls)
	return fmt.Sprintf("%v|%v|%v|%s", s.adv, s.ls, s.fresh, strings.Join(ls, ","))
}

func pNormalize(in []*pState) []*pState {
	m := map[string]*pState{}
	var order []string
	for _, s := range in {
		if s == nil || s.T == 0 {
			continue
		}
		k := s.key()
		if p, ok := m[k]; ok {
			p.T |= s.T
		} else {
			m[k] = s.clone()
			order = append(order, k)
		}
	}
	sort.Strings(order)
	var out []*pState
	for _, k := range order {
		out = append(out, m[k])
	}
	return out
}

func pSame(a, b []*pState) bool {
	if len(a) != len(b) {
		return false
	}
	for i := range a {
		if a[i].key() != b[i].key() || a[i].T != b[i].T {
			return false
		}
	}
	return true
}

func pClone(in []*pState) []*pState {
	out := make([]*pState, len(in))
	for i, s := range in {
		out[i] = s.clone()
	}
	return out
}

type parseInterp struct {
	callPos  []string
	nBlank   int
	curField string // name of the parser field that holds the current token (role: the Token-typed field)
	kindEnv  []map[types.Object][]int
	// kinds of call arguments that depend on the path (a local kind variable): set while the call is
	// interpreted for the group of states that agree on the value
	argKinds map[ast.Expr]int
	c        *Ctx
	pk       *packagesPackage
	info     *types.Info
	methods  map[string]*ast.FuncDecl
	kinds    map[string]int // TokenX -> bit
	allKinds kset
	skipFns  map[string]bool // the recovery routines (by effect: consume up to and including the next line break)
	topFn    string          // the entry method with the loop that only ends at EOF
	topLoop  *ast.ForStmt
	mutMemo  map[string]int
	quiet    bool // summarising a method to classify it: nothing is reported or counted
	stack    []string
	reported map[string]bool
	nLoops   map[token.Pos]bool
	nSkips   int
	// parameters of plain functions that are bound to the current token while such a function is interpreted
	// (`startsTrailingCommodity(p.current)`: tok.Type is the current kind)
	tokParams map[types.Object]bool
}

type pFrame struct {
	fd      *ast.FuncDecl
	rets    []*pState
	retVals []pRet // per return statement with a single result: the states and the returned expression
}

type pRet struct {
	states []*pState
	expr   ast.Expr
}

type pFlow struct {
	next, brk, cont []*pState
}

// newParseInterp: the interpreter with the token kinds and the parser's methods loaded.
func newParseInterp(c *Ctx) *parseInterp {
	pk := c.P.ByRel["internal/parser"]
	pi := &parseInterp{c: c, pk: pk, info: pk.TypesInfo, methods: map[string]*ast.FuncDecl{}, kinds: map[string]int{}, reported: map[string]bool{}, nLoops: map[token.Pos]bool{}}
	// token kinds
	sc := pk.Types.Scope()
	for _, n := range sc.Names() {
		if cn, ok := sc.Lookup(n).(*types.Const); ok && strings.HasSuffix(types.TypeString(cn.Type(), nil), "parser.TokenType") {
			if v, ok := constant.Int64Val(constant.ToInt(cn.Val())); ok && v >= 0 && v < 63 {
				pi.kinds[n] = int(v)
				pi.allKinds |= 1 << uint(v)
			}
		}
	}
	for _, f := range pk.Syntax {
		for _, d := range f.Decls {
			if fd, ok := d.(*ast.FuncDecl); ok && fd.Body != nil && recvTypeName(fd) == "Parser" {
				pi.methods[fd.Name.Name] = fd
			}
		}
	}
	// the current-token field by role: the field of Parser whose type is the token struct
	pi.curField = "current"
	if po, ok := sc.Lookup("Parser").(*types.TypeName); ok {
		if st, ok := po.Type().Underlying().(*types.Struct); ok {
			for i := 0; i < st.NumFields(); i++ {
				if strings.HasSuffix(types.TypeString(st.Field(i).Type(), nil), "parser.Token") {
					pi.curField = st.Field(i).Name()
				}
			}
		}
	}
	return pi
}

func ruleParser(c *Ctx) {
	pi := newParseInterp(c)
	c.census("P-PROGRESS", "token kinds", len(pi.kinds), 10)
	pi.findAnchors()
	if len(pi.skipFns) == 0 || pi.topFn == "" {
		var sk []string
		for n := range pi.skipFns {
			sk = append(sk, n)
		}
		sort.Strings(sk)
		c.undecided("P-PROGRESS", "parser.Parser", "anchors", token.NoPos, fmt.Sprintf("recovery routine (%q) or top-level dispatcher (%q) not identified", strings.Join(sk, ","), pi.topFn))
		return
	}
	top := pi.methods[pi.topFn]
	// entry: after the initial advance the current token is the first token of the first line
	fr := &pFrame{fd: top}
	pi.stack = []string{pi.topFn}
	pi.block(top.Body.List, []*pState{{T: pi.allKinds, ls: true}}, fr)
	c.census("P-PROGRESS", "token loops interpreted", len(pi.nLoops), 6)
	c.census("P-RESYNC", "calls of the recovery routine interpreted (over calling contexts)", pi.nSkips, 8)
	c.census("P-BLANK", "token fetches interpreted (states, over calling contexts)", pi.nBlank, 20)
	// P-CARRY: the dispatcher loop carries nothing from one entry to the next but the parser and the journal under
	// construction: no scalar loop-carried local (an index of "the transaction that is still open", a flag set by
	// the previous entry) - what an entry is parsed into depends on the entry's own lines only
	if f := c.P.ssaOf(top); f != nil && pi.topLoop != nil {
		var carried []string
		pos := top.Pos()
		for _, b := range f.Blocks {
			if !inCycle(b) {
				continue
			}
			isHeader := false
			for _, pb := range b.Preds {
				if !reachesBlock(b, pb) {
					isHeader = true // entered from outside the cycle
				}
			}
			if !isHeader {
				continue
			}
			// the header of the dispatcher loop itself: the block that evaluates its condition
			if pi.topLoop.Cond != nil {
				evalsCond := false
				for _, ins := range b.Instrs {
					if p := ins.Pos(); p.IsValid() && p >= pi.topLoop.Cond.Pos() && p <= pi.topLoop.Cond.End() {
						evalsCond = true
					}
				}
				if !evalsCond {
					continue
				}
			}
			for _, ins := range b.Instrs {
				phi, ok := ins.(*ssa.Phi)
				if !ok {
					break
				}
				if bt, ok := phi.Type().Underlying().(*types.Basic); ok && bt.Info()&(types.IsInteger|types.IsBoolean|types.IsString) != 0 {
					// a value the loop itself computes from the tokens is fine only if it is not loop-carried; a header
					// phi is loop-carried by definition
					if phi.Comment != "" {
						carried = append(carried, phi.Comment)
					} else {
						carried = append(carried, phi.Name())
					}
					pos = phi.Pos()
				}
			}
		}
		sort.Strings(carried)
		c.check(len(carried) == 0, "P-CARRY", pi.c.P.declName(top), "the dispatcher loop carries no scalar state between entries", pos,
			"no integer / boolean / string local of the top-level loop is loop-carried",
			"the top-level parse loop carries the local(s) "+strings.Join(carried, ", ")+" from one entry to the next: what a line is parsed into depends on what came before it in the file (an 'open transaction' index, a mode flag), so damage or content of one entry changes how another entry is read")
	}
}

// readsCurrent: the expression reads the kind of the current token, directly or through pure boolean methods.
func (pi *parseInterp) readsCurrent(e ast.Node, depth int) bool {
	found := false
	ast.Inspect(e, func(x ast.Node) bool {
		switch n := x.(type) {
		case *ast.SelectorExpr:
			if pi.isCurrentType(n) {
				found = true
			}
		case *ast.CallExpr:
			if m, ok := pi.methodCall(n); ok && depth < 3 {
				// anywhere in the method (a membership helper compares in a loop over its arguments)
				if pi.readsCurrent(pi.methods[m].Body, depth+1) {
					found = true
				}
			}
		}
		return !found
	})
	return found
}

// findAnchors identifies the recovery routines and the top-level dispatcher by what they do, using the
// interpreter itself in quiet mode:
//   - a recovery routine is a method that, entered in the middle of a line with any current token, always
//     leaves with the current token being the first token of a fresh line or EOF, and that calls no other
//     token-consuming method than the token fetch;
//   - the dispatcher is a method no other parser method calls, containing a loop that can only be left
//     (through its condition) at EOF.
func (pi *parseInterp) findAnchors() {
	pi.skipFns = map[string]bool{}
	eof, hasEOF := pi.kinds["TokenEOF"]
	if !hasEOF {
		return
	}
	var names []string
	for n := range pi.methods {
		names = append(names, n)
	}
	sort.Strings(names)
	fetches := map[string]bool{} // methods whose only effect is the token fetch
	for _, n := range names {
		fd := pi.methods[n]
		direct, calls := false, false
		ast.Inspect(fd.Body, func(x ast.Node) bool {
			switch s := x.(type) {
			case *ast.AssignStmt:
				if pi.isTokenFetch(s) {
					direct = true
				}
			case *ast.CallExpr:
				if m, ok := pi.methodCall(s); ok && pi.mutates(pi.methods[m].Body, 0) {
					calls = true
				}
			}
			return true
		})
		if direct && !calls {
			fetches[n] = true
		}
	}
	// conditional fetches (`accept(kind)`): loop-free methods whose only mutation is a call of a fetch method
	for changed := true; changed; {
		changed = false
		for _, n := range names {
			if fetches[n] {
				continue
			}
			fd := pi.methods[n]
			if !pi.mutates(fd.Body, 0) {
				continue
			}
			only, loops, direct := true, false, false
			ast.Inspect(fd.Body, func(x ast.Node) bool {
				switch s := x.(type) {
				case *ast.ForStmt, *ast.RangeStmt:
					loops = true
				case *ast.AssignStmt:
					if pi.isTokenFetch(s) {
						direct = true
					}
				case *ast.CallExpr:
					if m, ok := pi.methodCall(s); ok && pi.mutates(pi.methods[m].Body, 0) && !fetches[m] {
						only = false
					}
				}
				return true
			})
			if only && !loops && !direct {
				// every other mutation must be absent: the method's own statements do not assign parser state
				fetches[n] = true
				changed = true
			}
		}
	}
	// advancers: result-less methods that change the parser only by fetching tokens, directly or through other
	// advancers (a recovery routine may be composed: skip to the end of the line, then take the line break)
	advancers := map[string]bool{}
	for changed := true; changed; {
		changed = false
		for _, n := range names {
			fd := pi.methods[n]
			if advancers[n] || fetches[n] || !pi.mutates(fd.Body, 0) || fd.Type.Results != nil && len(fd.Type.Results.List) > 0 {
				continue
			}
			only := true
			ast.Inspect(fd.Body, func(x ast.Node) bool {
				if call, ok := x.(*ast.CallExpr); ok {
					if m, ok := pi.methodCall(call); ok && pi.mutates(pi.methods[m].Body, 0) && !fetches[m] && !advancers[m] {
						only = false
					}
				}
				return true
			})
			if only {
				advancers[n] = true
				changed = true
			}
		}
	}
	pi.quiet = true
	for _, n := range names {
		fd := pi.methods[n]
		if !advancers[n] {
			continue
		}
		fr := &pFrame{fd: fd}
		pi.stack = []string{n}
		fl := pi.block(fd.Body.List, []*pState{{T: pi.allKinds, ls: false}}, fr)
		exits := pNormalize(append(append([]*pState{}, fl.next...), fr.rets...))
		ok, someLS := len(exits) > 0, false
		for _, e := range exits {
			if e.ls {
				someLS = true
			} else if e.T != 1<<uint(eof) {
				ok = false
			}
		}
		if ok && someLS {
			pi.skipFns[n] = true
		}
	}
	pi.quiet = false
	pi.stack = nil
	// dispatcher
	called := map[string]bool{}
	for _, n := range names {
		ast.Inspect(pi.methods[n].Body, func(x ast.Node) bool {
			if call, ok := x.(*ast.CallExpr); ok {
				if m, ok := pi.methodCall(call); ok && m != n {
					called[m] = true
				}
			}
			return true
		})
	}
	for _, n := range names {
		if called[n] || pi.topFn != "" {
			continue
		}
		fd := pi.methods[n]
		ast.Inspect(fd.Body, func(x ast.Node) bool {
			fs, ok := x.(*ast.ForStmt)
			if !ok || fs.Cond == nil || pi.topLoop != nil || !pi.readsCurrent(fs.Cond, 0) {
				return true
			}
			pi.quiet = true
			_, f := pi.cond(fs.Cond, []*pState{{T: pi.allKinds}}, &pFrame{fd: fd})
			pi.quiet = false
			onlyEOF := len(f) > 0
			for _, st := range f {
				if st.T != 1<<uint(eof) {
					onlyEOF = false
				}
			}
			if onlyEOF {
				pi.topFn, pi.topLoop = n, fs
			}
			return true
		})
	}
}

func (pi *parseInterp) fn(fr *pFrame) string { return pi.c.P.declName(fr.fd) }

func (pi *parseInterp) undecided(fr *pFrame, n ast.Node, what string) {
	if pi.quiet {
		return
	}
	k := fmt.Sprintf("%s|%d", what, n.Pos())
	if pi.reported[k] {
		return
	}
	pi.reported[k] = true
	pi.c.undecided("P-PROGRESS", pi.fn(fr), "construct outside the interpreter's vocabulary: "+what, n.Pos(), "the parser interpreter does not understand `"+exprStr(pi.c.P.Fset, n)+"` ("+what+")")
}

func (pi *parseInterp) isCurrentType(e ast.Expr) bool {
	se, ok := ast.Unparen(e).(*ast.SelectorExpr)
	if !ok {
		return false
	}
	// the kind field of the token: by type
	if t := pi.info.TypeOf(se); t == nil || !strings.HasSuffix(types.TypeString(t, nil), "parser.TokenType") {
		return false
	}
	if id, isId := ast.Unparen(se.X).(*ast.Ident); isId && pi.tokParams[pi.info.Uses[id]] {
		return true
	}
	in, ok := ast.Unparen(se.X).(*ast.SelectorExpr)
	return ok && in.Sel.Name == pi.curField
}

func (pi *parseInterp) kindOf(e ast.Expr) (int, bool) {
	if k, ok := pi.argKinds[ast.Unparen(e)]; ok {
		return k, true
	}
	if id, ok := ast.Unparen(e).(*ast.Ident); ok {
		if k, ok := pi.kinds[id.Name]; ok {
			return k, true
		}
		// a parameter (or loop variable) bound to a token kind by the call being interpreted
		if ks, ok := pi.boundKinds(pi.info.Uses[id]); ok && len(ks) == 1 {
			return ks[0], true
		}
	}
	// an integer constant compared with a kind variable (`closing != 0`): the kind with that value
	if tv, ok := pi.info.Types[ast.Unparen(e)]; ok && tv.Value != nil {
		if v, exact := constant.Int64Val(constant.ToInt(tv.Value)); exact && v >= 0 && v < 63 && pi.allKinds&(1<<uint(v)) != 0 {
			return int(v), true
		}
	}
	return 0, false
}

func (pi *parseInterp) boundKinds(o types.Object) ([]int, bool) {
	if o == nil {
		return nil, false
	}
	for i := len(pi.kindEnv) - 1; i >= 0; i-- {
		if ks, ok := pi.kindEnv[i][o]; ok {
			return ks, true
		}
		break // only the innermost activation: parameters are not visible across calls
	}
	return nil, false
}

// bindKinds: the token kinds passed for the callee's parameters at this call (constants, or parameters of the
// caller that are themselves bound); a variadic parameter is bound to the list of its arguments.
func (pi *parseInterp) bindKinds(fd *ast.FuncDecl, call *ast.CallExpr) map[types.Object][]int {
	env := map[types.Object][]int{}
	if fd.Type.Params == nil {
		return env
	}
	i := 0
	for _, fl := range fd.Type.Params.List {
		_, variadic := fl.Type.(*ast.Ellipsis)
		for _, n := range fl.Names {
			o := pi.info.Defs[n]
			if variadic {
				var ks []int
				all := true
				for _, a := range call.Args[min(i, len(call.Args)):] {
					if k, ok := pi.kindOf(a); ok {
						ks = append(ks, k)
					} else {
						all = false
					}
				}
				if all && !call.Ellipsis.IsValid() {
					env[o] = ks
				}
			} else if i < len(call.Args) {
				if k, ok := pi.kindOf(call.Args[i]); ok {
					env[o] = []int{k}
				}
			}
			i++
		}
	}
	return env
}

// callBool interprets a parser method that returns one boolean in condition position: the states in which it
// returns true and those in which it returns false (token consumption inside the method included, so
// `if p.accept(K)` enters its body behind the consumed token).
func (pi *parseInterp) callBool(m string, call *ast.CallExpr, in []*pState, fr *pFrame) (t, f []*pState, ok bool) {
	fd := pi.methods[m]
	if fd.Type.Results == nil || len(fd.Type.Results.List) != 1 || len(pi.stack) > 12 {
		return nil, nil, false
	}
	if b, isB := pi.info.TypeOf(fd.Type.Results.List[0].Type).Underlying().(*types.Basic); !isB || b.Kind() != types.Bool {
		return nil, nil, false
	}
	for _, g := range pi.stack {
		if g == m {
			return nil, nil, false
		}
	}
	env := pi.bindKinds(fd, call)
	pi.kindEnv = append(pi.kindEnv, env)
	pi.stack = append(pi.stack, m)
	sub := &pFrame{fd: fd}
	pi.block(fd.Body.List, pClone(in), sub)
	for _, rv := range sub.retVals {
		switch id := ast.Unparen(rv.expr).(type) {
		case *ast.Ident:
			if id.Name == "true" {
				t = append(t, rv.states...)
				continue
			}
			if id.Name == "false" {
				f = append(f, rv.states...)
				continue
			}
		}
		tt, ff := pi.cond(rv.expr, rv.states, sub)
		t, f = append(t, tt...), append(f, ff...)
	}
	pi.stack = pi.stack[:len(pi.stack)-1]
	pi.kindEnv = pi.kindEnv[:len(pi.kindEnv)-1]
	d := 0
	if len(in) > 0 {
		d = len(in[0].adv)
	}
	for _, o := range append(append([]*pState{}, t...), f...) {
		if len(o.adv) > d {
			o.adv = o.adv[:d]
		}
	}
	return pNormalize(t), pNormalize(f), true
}

func (pi *parseInterp) methodCall(call *ast.CallExpr) (string, bool) {
	se, ok := ast.Unparen(call.Fun).(*ast.SelectorExpr)
	if !ok {
		return "", false
	}
	if _, ok := pi.methods[se.Sel.Name]; !ok {
		return "", false
	}
	if t := pi.info.TypeOf(se.X); t != nil && strings.HasSuffix(types.TypeString(t, nil), "parser.Parser") {
		return se.Sel.Name, true
	}
	return "", false
}

// advancesToken: the statement `p.current = p.lexer.Next()`
func (pi *parseInterp) isTokenFetch(s *ast.AssignStmt) bool {
	if len(s.Lhs) != 1 || len(s.Rhs) != 1 {
		return false
	}
	se, ok := ast.Unparen(s.Lhs[0]).(*ast.SelectorExpr)
	if !ok || se.Sel.Name != pi.curField {
		return false
	}
	call, ok := ast.Unparen(s.Rhs[0]).(*ast.CallExpr)
	if !ok {
		return false
	}
	// a call that yields a token (the lexer's Next)
	t := pi.info.TypeOf(call)
	return t != nil && strings.HasSuffix(types.TypeString(t, nil), "parser.Token")
}

func (pi *parseInterp) mutates(n ast.Node, depth int) bool {
	found := false
	ast.Inspect(n, func(x ast.Node) bool {
		switch s := x.(type) {
		case *ast.AssignStmt:
			if pi.isTokenFetch(s) {
				found = true
			}
			for _, l := range s.Lhs {
				if se, ok := ast.Unparen(l).(*ast.SelectorExpr); ok && se.Sel.Name == pi.curField {
					found = true
				}
			}
		case *ast.CallExpr:
			if m, ok := pi.methodCall(s); ok && depth < 6 {
				if pi.mutatesMethod(m, depth+1) {
					found = true
				}
			}
		}
		return !found
	})
	return found
}

// mutatesMethod: the method consumes tokens, directly or through the methods it calls (least fixpoint over
// the method call graph, computed once).
func (pi *parseInterp) mutatesMethod(m string, depth int) bool {
	if pi.mutMemo == nil {
		pi.mutMemo = map[string]int{}
		calls := map[string][]string{}
		for n, fd := range pi.methods {
			ast.Inspect(fd.Body, func(x ast.Node) bool {
				switch s := x.(type) {
				case *ast.AssignStmt:
					if pi.isTokenFetch(s) {
						pi.mutMemo[n] = 1
					}
					for _, l := range s.Lhs {
						if se, ok := ast.Unparen(l).(*ast.SelectorExpr); ok && se.Sel.Name == pi.curField {
							pi.mutMemo[n] = 1
						}
					}
				case *ast.CallExpr:
					if c, ok := pi.methodCall(s); ok {
						calls[n] = append(calls[n], c)
					}
				}
				return true
			})
		}
		for changed := true; changed; {
			changed = false
			for n, cs := range calls {
				if pi.mutMemo[n] == 1 {
					continue
				}
				for _, c := range cs {
					if pi.mutMemo[c] == 1 {
						pi.mutMemo[n] = 1
						changed = true
						break
					}
				}
			}
		}
	}
	return pi.mutMemo[m] == 1
}

func (pi *parseInterp) cond(e ast.Expr, in []*pState, fr *pFrame) (t, f []*pState) {
	e = ast.Unparen(e)
	// a test of the current token hoisted into a local (`isX := p.current.Type == X || ...; if isX {`): the
	// local's single definition is the condition (no token is consumed between a definition and its use as a
	// condition in the same statement list)
	if id, ok := e.(*ast.Ident); ok {
		if o := pi.info.Uses[id]; o != nil {
			any := false
			for _, s := range in {
				if _, known := s.bl[o]; known {
					any = true
				}
			}
			if any {
				for _, s := range in {
					v, known := s.bl[o]
					if !known || v {
						t = append(t, s.clone())
					}
					if !known || !v {
						f = append(f, s.clone())
					}
				}
				return pNormalize(t), pNormalize(f)
			}
		}
	}
	if id, ok := e.(*ast.Ident); ok && fr != nil && fr.fd != nil {
		if v, ok := pi.info.Uses[id].(*types.Var); ok && !v.IsField() {
			var def ast.Expr
			n := 0
			ast.Inspect(fr.fd.Body, func(x ast.Node) bool {
				if as, ok := x.(*ast.AssignStmt); ok && len(as.Lhs) == len(as.Rhs) {
					for i, l := range as.Lhs {
						if lid, ok := l.(*ast.Ident); ok && (pi.info.Defs[lid] == v || pi.info.Uses[lid] == v) {
							n++
							def = as.Rhs[i]
						}
					}
				}
				return true
			})
			if n == 1 && def != nil && pi.readsCurrent(def, 0) && !pi.mutates(def, 0) {
				return pi.cond(def, in, fr)
			}
		}
	}
	switch x := e.(type) {
	case *ast.UnaryExpr:
		if x.Op == token.NOT {
			tt, ff := pi.cond(x.X, in, fr)
			return ff, tt
		}
	case *ast.BinaryExpr:
		switch x.Op {
		case token.LAND:
			t1, f1 := pi.cond(x.X, in, fr)
			t2, f2 := pi.cond(x.Y, t1, fr)
			return t2, pNormalize(append(f1, f2...))
		case token.LOR:
			t1, f1 := pi.cond(x.X, in, fr)
			t2, f2 := pi.cond(x.Y, f1, fr)
			return pNormalize(append(t1, t2...)), f2
		case token.EQL, token.NEQ:
			if pi.isCurrentType(x.X) {
				if k, ok := pi.kindOf(x.Y); ok {
					for _, s := range in {
						a, b := s.clone(), s.clone()
						a.T &= 1 << uint(k)
						b.T &^= 1 << uint(k)
						if x.Op == token.NEQ {
							a, b = b, a
						}
						t, f = append(t, a), append(f, b)
					}
					return pNormalize(t), pNormalize(f)
				}
				// comparison with a local variable kind (closingToken): refined where the variable's value is known
				// on the path
				if lk, isLoc := pi.localKindExpr(x.Y); isLoc {
					for _, s := range in {
						k, known := s.loc[lk]
						if !known {
							t, f = append(t, s.clone()), append(f, s.clone())
							continue
						}
						a, b := s.clone(), s.clone()
						a.T &= 1 << uint(k)
						b.T &^= 1 << uint(k)
						if x.Op == token.NEQ {
							a, b = b, a
						}
						t, f = append(t, a), append(f, b)
					}
					return pNormalize(t), pNormalize(f)
				}
				return pClone(in), pClone(in)
			}
			// a local kind variable against a constant (`closing != TokenEOF`)
			if o := pi.info.Uses[identOf(x.X)]; o != nil {
				if v, isVar := o.(*types.Var); isVar && !v.IsField() && strings.HasSuffix(types.TypeString(v.Type(), nil), "parser.TokenType") {
					if k, ok := pi.kindOf(x.Y); ok {
						for _, s := range in {
							have, known := s.loc[locK{o, ""}]
							if !known {
								t, f = append(t, s.clone()), append(f, s.clone())
								continue
							}
							if (have == k) == (x.Op == token.EQL) {
								t = append(t, s.clone())
							} else {
								f = append(f, s.clone())
							}
						}
						return pNormalize(t), pNormalize(f)
					}
				}
			}
		}
	}
	// a boolean method of the parser (a test of the current token, or a conditional consumption): interpreted
	if call, ok := e.(*ast.CallExpr); ok {
		if groups, ok := pi.partitionByArgs(call, in); ok {
			for _, g := range groups {
				saved := pi.argKinds
				pi.argKinds = g.kinds
				tt, ff := pi.cond(e, g.states, fr)
				pi.argKinds = saved
				t, f = append(t, tt...), append(f, ff...)
			}
			return pNormalize(t), pNormalize(f)
		}
		if m, ok := pi.methodCall(call); ok {
			if t, f, ok := pi.callBool(m, call, in, fr); ok {
				return t, f
			}
		}
		// a plain predicate of the package that is handed the current token (`startsTrailingCommodity(p.current)`):
		// interpreted like a boolean method, with the parameter standing for the current token
		if id, isId := ast.Unparen(call.Fun).(*ast.Ident); isId {
			if fo, isF := pi.info.Uses[id].(*types.Func); isF {
				if fd := pi.c.P.declOf[fo]; fd != nil && fd.Recv == nil && fd.Body != nil && pi.c.P.pkgOf[fd] != nil && strings.HasSuffix(pi.c.P.pkgOf[fd].PkgPath, "/parser") && !pi.mutates(fd.Body, 0) {
					var bound []types.Object
					i := 0
					for _, fl := range fd.Type.Params.List {
						for _, nm := range fl.Names {
							if i < len(call.Args) {
								if se, isSel := ast.Unparen(call.Args[i]).(*ast.SelectorExpr); isSel && se.Sel.Name == pi.curField {
									if o := pi.info.Defs[nm]; o != nil {
										bound = append(bound, o)
									}
								}
							}
							i++
						}
					}
					if len(bound) > 0 {
						name := "func:" + fo.Name()
						if pi.tokParams == nil {
							pi.tokParams = map[types.Object]bool{}
						}
						for _, o := range bound {
							pi.tokParams[o] = true
						}
						pi.methods[name] = fd
						t, f, ok := pi.callBool(name, call, in, fr)
						delete(pi.methods, name)
						for _, o := range bound {
							delete(pi.tokParams, o)
						}
						if ok {
							return t, f
						}
					}
				}
			}
		}
		if m, ok := pi.methodCall(call); ok && !pi.mutates(pi.methods[m].Body, 0) {
			if body := pi.methods[m].Body.List; len(body) == 1 {
				if r, ok := body[0].(*ast.ReturnStmt); ok && len(r.Results) == 1 {
					return pi.cond(r.Results[0], in, fr)
				}
			}
		}
	}
	// conditions with side effects on the token stream are outside the vocabulary
	if pi.mutates(e, 0) {
		pi.undecided(fr, e, "condition that consumes tokens")
	}
	return pClone(in), pClone(in)
}

func (pi *parseInterp) block(list []ast.Stmt, in []*pState, fr *pFrame) pFlow {
	fl := pFlow{next: in}
	for _, st := range list {
		if len(fl.next) == 0 {
			break
		}
		sub := pi.stmt(st, fl.next, fr)
		fl.next = sub.next
		fl.brk = append(fl.brk, sub.brk...)
		fl.cont = append(fl.cont, sub.cont...)
	}
	return fl
}

func (pi *parseInterp) advance(in []*pState) []*pState {
	var out []*pState
	// the line-start flag depends on whether the consumed token is the line break: a state in which the current
	// token may or may not be one is split first
	if nl, hasNL := pi.kinds["TokenNewline"]; hasNL {
		var split []*pState
		for _, s := range in {
			bit := kset(1) << uint(nl)
			if s.T&bit != 0 && s.T != bit {
				a, b := s.clone(), s.clone()
				a.T = bit
				b.T = s.T &^ bit
				split = append(split, a, b)
			} else {
				split = append(split, s)
			}
		}
		in = split
	}
	for _, s := range in {
		n := s.clone()
		nl, hasNL := pi.kinds["TokenNewline"]
		n.ls = hasNL && s.T == 1<<uint(nl)
		n.fresh = false
		eof := pi.kinds["TokenEOF"]
		// advancing at EOF yields EOF again: no progress; otherwise any kind may follow
		if s.T == 1<<uint(eof) {
			out = append(out, n)
			continue
		}
		if s.T&(1<<uint(eof)) != 0 {
			// may be at EOF: progress not guaranteed
			n.T = pi.allKinds
			out = append(out, n)
			continue
		}
		n.T = pi.allKinds
		for i := range n.adv {
			n.adv[i] = true
		}
		out = append(out, n)
	}
	return pNormalize(out)
}

func (pi *parseInterp) stmt(st ast.Stmt, in []*pState, fr *pFrame) pFlow {
	fl := pFlow{}
	switch s := st.(type) {
	case *ast.BlockStmt:
		return pi.block(s.List, in, fr)
	case *ast.ExprStmt:
		fl.next = pi.expr(s.X, in, fr)
	case *ast.AssignStmt:
		if pi.isTokenFetch(s) {
			pi.checkBlankLine(in, fr, s)
			fl.next = pi.advance(in)
			if os.Getenv("HLDBG_BLANK") != "" && len(pi.callPos) > 0 && strings.Contains(strings.Join(pi.stack, ">"), "parseTransaction") {
				for _, st := range fl.next {
					fmt.Fprintf(os.Stderr, "FETCH at %v ctx=%s -> ls=%v fresh=%v\n", pi.callPos, strings.Join(pi.stack, ">"), st.ls, st.fresh)
				}
			}
			return fl
		}
		cur := in
		for _, r := range s.Rhs {
			cur = pi.expr(r, cur, fr)
		}
		// `entry, ok := table[p.current.Type]`: a package-level table keyed by token kinds, filled by its initialiser
		if len(s.Lhs) == 2 && len(s.Rhs) == 1 {
			if ix, ok := ast.Unparen(s.Rhs[0]).(*ast.IndexExpr); ok && pi.isCurrentType(ix.Index) {
				if rows, ok := pi.kindTable(ix.X); ok {
					objOf := func(e ast.Expr) types.Object {
						id, ok := ast.Unparen(e).(*ast.Ident)
						if !ok || id.Name == "_" {
							return nil
						}
						if o := pi.info.Defs[id]; o != nil {
							return o
						}
						return pi.info.Uses[id]
					}
					vo, bo := objOf(s.Lhs[0]), objOf(s.Lhs[1])
					var out []*pState
					for _, st := range cur {
						rest := st.clone()
						for _, row := range rows {
							if st.T&(1<<uint(row.key)) == 0 {
								continue
							}
							hit := st.clone()
							hit.T = 1 << uint(row.key)
							rest.T &^= 1 << uint(row.key)
							if bo != nil {
								if hit.bl == nil {
									hit.bl = map[types.Object]bool{}
								}
								hit.bl[bo] = true
							}
							if vo != nil {
								if hit.loc == nil {
									hit.loc = map[locK]int{}
								}
								for f, k := range row.fields {
									hit.loc[locK{vo, f}] = k
								}
							}
							out = append(out, hit)
						}
						if bo != nil {
							if rest.bl == nil {
								rest.bl = map[types.Object]bool{}
							}
							rest.bl[bo] = false
						}
						out = append(out, rest)
					}
					fl.next = pNormalize(out)
					return fl
				}
			}
		}
		// local variables of token-kind type: remember a constant, forget anything else
		if len(s.Lhs) == len(s.Rhs) {
			for i, l := range s.Lhs {
				id, ok := ast.Unparen(l).(*ast.Ident)
				if !ok || id.Name == "_" {
					continue
				}
				o := pi.info.Defs[id]
				if o == nil {
					o = pi.info.Uses[id]
				}
				v, ok := o.(*types.Var)
				if !ok || v.IsField() || !strings.HasSuffix(types.TypeString(v.Type(), nil), "parser.TokenType") {
					continue
				}
				var k int
				known := false
				if rid, ok := ast.Unparen(s.Rhs[i]).(*ast.Ident); ok {
					k, known = pi.kinds[rid.Name]
				}
				cur = pClone(cur)
				for _, st := range cur {
					if known {
						if st.loc == nil {
							st.loc = map[locK]int{}
						}
						st.loc[locK{o, ""}] = k
					} else {
						delete(st.loc, locK{o, ""})
					}
				}
			}
		}
		fl.next = cur
	case *ast.DeclStmt:
		// `var closing TokenType`: the zero value is the kind with value 0
		cur := in
		if gd, ok := s.Decl.(*ast.GenDecl); ok {
			for _, sp := range gd.Specs {
				vs, ok := sp.(*ast.ValueSpec)
				if !ok || len(vs.Values) != 0 {
					continue
				}
				for _, nm := range vs.Names {
					o := pi.info.Defs[nm]
					if o == nil || !strings.HasSuffix(types.TypeString(o.Type(), nil), "parser.TokenType") || pi.allKinds&1 == 0 {
						continue
					}
					cur = pClone(cur)
					for _, st := range cur {
						if st.loc == nil {
							st.loc = map[locK]int{}
						}
						st.loc[locK{o, ""}] = 0
					}
				}
			}
		}
		fl.next = cur
	case *ast.EmptyStmt, *ast.IncDecStmt:
		fl.next = in
	case *ast.IfStmt:
		cur := in
		if s.Init != nil {
			cur = pi.stmt(s.Init, cur, fr).next
		}
		// calls inside the condition (e.g. `if x := p.parseY(); x != nil`) are evaluated first
		cur = pi.exprCallsOnly(s.Cond, cur, fr)
		t, f := pi.cond(s.Cond, cur, fr)
		tb := pi.block(s.Body.List, t, fr)
		var eb pFlow
		if s.Else != nil {
			eb = pi.stmt(s.Else, f, fr)
		} else {
			eb = pFlow{next: f}
		}
		fl.next = pNormalize(append(tb.next, eb.next...))
		fl.brk = append(tb.brk, eb.brk...)
		fl.cont = append(tb.cont, eb.cont...)
	case *ast.SwitchStmt:
		cur := in
		if s.Init != nil {
			cur = pi.stmt(s.Init, cur, fr).next
		}
		tagIsKind := s.Tag != nil && pi.isCurrentType(s.Tag)
		if s.Tag != nil && !tagIsKind {
			cur = pi.exprCallsOnly(s.Tag, cur, fr)
		}
		rem := cur
		var def *ast.CaseClause
		for _, cl := range s.Body.List {
			cc := cl.(*ast.CaseClause)
			if cc.List == nil {
				def = cc
				continue
			}
			var tAll []*pState
			for _, ce := range cc.List {
				switch {
				case tagIsKind:
					if k, ok := pi.kindOf(ce); ok {
						for _, st := range rem {
							a := st.clone()
							a.T &= 1 << uint(k)
							tAll = append(tAll, a)
						}
						var nr []*pState
						for _, st := range rem {
							b := st.clone()
							b.T &^= 1 << uint(k)
							nr = append(nr, b)
						}
						rem = pNormalize(nr)
					} else {
						tAll = append(tAll, pClone(rem)...)
					}
				case s.Tag == nil:
					t, f := pi.cond(ce, rem, fr)
					tAll = append(tAll, t...)
					rem = f
				default:
					tAll = append(tAll, pClone(rem)...)
				}
			}
			sub := pi.block(cc.Body, pNormalize(tAll), fr)
			fl.next = append(fl.next, sub.next...)
			fl.next = append(fl.next, sub.brk...)
			fl.cont = append(fl.cont, sub.cont...)
		}
		if def != nil {
			sub := pi.block(def.Body, rem, fr)
			fl.next = append(fl.next, sub.next...)
			fl.next = append(fl.next, sub.brk...)
			fl.cont = append(fl.cont, sub.cont...)
		} else {
			fl.next = append(fl.next, rem...)
		}
		fl.next = pNormalize(fl.next)
	case *ast.TypeSwitchStmt:
		// type switches on values: bodies may parse further; the switched expression may itself parse
		// (`switch dir := p.parseDirective().(type)`)
		if s.Init != nil {
			in = pi.stmt(s.Init, in, fr).next
		}
		switch a := s.Assign.(type) {
		case *ast.AssignStmt:
			for _, r := range a.Rhs {
				if ta, ok := ast.Unparen(r).(*ast.TypeAssertExpr); ok {
					in = pi.expr(ta.X, in, fr)
				}
			}
		case *ast.ExprStmt:
			if ta, ok := ast.Unparen(a.X).(*ast.TypeAssertExpr); ok {
				in = pi.expr(ta.X, in, fr)
			}
		}
		var all []*pState
		for _, cl := range s.Body.List {
			cc := cl.(*ast.CaseClause)
			sub := pi.block(cc.Body, pClone(in), fr)
			all = append(all, sub.next...)
			all = append(all, sub.brk...)
			fl.cont = append(fl.cont, sub.cont...)
		}
		all = append(all, pClone(in)...)
		fl.next = pNormalize(all)
	case *ast.ForStmt:
		cur := in
		if s.Init != nil {
			cur = pi.stmt(s.Init, cur, fr).next
		}
		isTokenLoop := (s.Cond != nil && pi.readsCurrent(s.Cond, 0)) || (s.Cond == nil && pi.mutates(s.Body, 0))
		if !isTokenLoop && !pi.mutates(s.Body, 0) {
			fl.next = cur // a loop over characters / slices that does not touch the token stream
			return fl
		}
		if !isTokenLoop {
			pi.undecided(fr, s, "loop that consumes tokens but whose condition does not read the current token")
			fl.next = cur
			return fl
		}
		if !pi.quiet {
			pi.nLoops[s.Pos()] = true
		}
		// push a fresh advance flag
		entry := pClone(cur)
		for _, e := range entry {
			e.adv = append(e.adv, false)
		}
		head := pNormalize(entry)
		var exits []*pState
		desc := "loop `for`"
		if s.Cond != nil {
			desc = fmt.Sprintf("loop `for %s`", exprStr(pi.c.P.Fset, s.Cond))
		}
		isTop := s == pi.topLoop
		for iter := 0; iter < 40; iter++ {
			if isTop {
				for _, h := range head {
					h.fresh = true
				}
				head = pNormalize(head)
			}
			t, f := pClone(head), []*pState(nil)
			if s.Cond != nil {
				t, f = pi.cond(s.Cond, head, fr)
			}
			body := pi.block(s.Body.List, t, fr)
			back := pNormalize(append(body.next, body.cont...))
			if s.Post != nil {
				back = pi.stmt(s.Post, back, fr).next
			}
			// obligation: every state flowing back has advanced
			for _, b := range back {
				if !b.adv[len(b.adv)-1] {
					pi.findOnce("P-PROGRESS", fr, desc, s.Pos(), "a path through the body returns to the loop head without consuming a token (possible current token kinds: "+pi.kindNames(b.T)+"): the parser loops forever on some input")
				}
			}
			exits = append(f, body.brk...)
			var nh []*pState
			nh = append(nh, pClone(entry)...)
			for _, b := range back {
				nb := b.clone()
				nb.adv[len(nb.adv)-1] = false
				nh = append(nh, nb)
			}
			nhn := pNormalize(nh)
			if pSame(nhn, head) {
				break
			}
			head = nhn
		}
		pi.okOnce("P-PROGRESS", fr, desc, s.Pos(), "every path back to the loop head consumes at least one token")
		// pop the flag
		var out []*pState
		for _, e := range exits {
			n := e.clone()
			n.adv = n.adv[:len(n.adv)-1]
			out = append(out, n)
		}
		fl.next = pNormalize(out)
	case *ast.RangeStmt:
		// a loop over the token kinds passed to a variadic parameter: unrolled
		if id, ok := ast.Unparen(s.X).(*ast.Ident); ok && len(pi.kindEnv) > 0 {
			if ks, ok := pi.boundKinds(pi.info.Uses[id]); ok && s.Value != nil {
				cur := in
				var brk []*pState
				vo := pi.info.Defs[identOf(s.Value)]
				env := pi.kindEnv[len(pi.kindEnv)-1]
				for _, k := range ks {
					env[vo] = []int{k}
					sub := pi.block(s.Body.List, cur, fr)
					cur = pNormalize(append(sub.next, sub.cont...))
					brk = append(brk, sub.brk...)
				}
				delete(env, vo)
				fl.next = pNormalize(append(cur, brk...))
				return fl
			}
		}
		if pi.mutates(s.Body, 0) {
			pi.undecided(fr, s, "range loop that consumes tokens")
		}
		fl.next = in
	case *ast.BranchStmt:
		switch s.Tok {
		case token.BREAK:
			fl.brk = in
		case token.CONTINUE:
			fl.cont = in
		default:
			pi.undecided(fr, s, "goto/fallthrough in the parser")
		}
	case *ast.ReturnStmt:
		cur := in
		for _, r := range s.Results {
			cur = pi.expr(r, cur, fr)
		}
		fr.rets = append(fr.rets, pClone(cur)...)
		if len(s.Results) == 1 {
			fr.retVals = append(fr.retVals, pRet{pClone(in), s.Results[0]})
		}
	default:
		if pi.mutates(st, 0) {
			pi.undecided(fr, st, "statement form")
		}
		fl.next = in
	}
	return fl
}

func (pi *parseInterp) kindNames(t kset) string {
	var ns []string
	for n, k := range pi.kinds {
		if t&(1<<uint(k)) != 0 {
			ns = append(ns, strings.TrimPrefix(n, "Token"))
		}
	}
	sort.Strings(ns)
	if len(ns) == len(pi.kinds) {
		return "any"
	}
	return strings.Join(ns, ",")
}

func (pi *parseInterp) okOnce(rule string, fr *pFrame, desc string, pos token.Pos, msg string) {
	if pi.quiet {
		return
	}
	k := rule + "|" + pi.fn(fr) + "|" + desc
	if pi.reported[k] {
		return
	}
	pi.reported[k] = true
	pi.c.ok(rule, pi.fn(fr), desc, pos, msg)
}

func (pi *parseInterp) findOnce(rule string, fr *pFrame, desc string, pos token.Pos, msg string) {
	if pi.quiet {
		return
	}
	k := rule + "|" + pi.fn(fr) + "|" + desc
	if pi.reported[k+"|F"] {
		return
	}
	pi.reported[k+"|F"] = true
	pi.reported[k] = true
	for _, o := range pi.c.Obligs {
		if o.Rule == rule && o.Func == pi.fn(fr) && strings.HasSuffix(o.Key, "|"+desc) && o.Verdict == Discharged {
			o.Verdict, o.Msg = Finding, msg
			return
		}
	}
	pi.c.finding(rule, pi.fn(fr), desc, pos, msg)
}

// exprCallsOnly interprets the parser-method calls contained in an expression (left to right).
func (pi *parseInterp) exprCallsOnly(e ast.Expr, in []*pState, fr *pFrame) []*pState {
	return pi.expr(e, in, fr)
}

// expr interprets the parser-method calls inside an expression.
func (pi *parseInterp) expr(e ast.Expr, in []*pState, fr *pFrame) []*pState {
	cur := in
	var calls []*ast.CallExpr
	ast.Inspect(e, func(x ast.Node) bool {
		if _, ok := x.(*ast.FuncLit); ok {
			return false
		}
		if call, ok := x.(*ast.CallExpr); ok {
			if _, ok := pi.methodCall(call); ok {
				calls = append(calls, call)
			}
		}
		return true
	})
	// innermost/leftmost first: ast.Inspect is pre-order; arguments are evaluated before the call itself
	sort.SliceStable(calls, func(i, j int) bool { return calls[i].End() < calls[j].End() })
	for _, call := range calls {
		m, _ := pi.methodCall(call)
		cur = pi.call(m, call, cur, fr)
	}
	return cur
}

func (pi *parseInterp) call(m string, call *ast.CallExpr, in []*pState, fr *pFrame) []*pState {
	fd := pi.methods[m]
	if !pi.mutates(fd.Body, 0) {
		return in
	}
	if groups, ok := pi.partitionByArgs(call, in); ok {
		var out []*pState
		for _, g := range groups {
			saved := pi.argKinds
			pi.argKinds = g.kinds
			out = append(out, pi.call(m, call, g.states, fr)...)
			pi.argKinds = saved
		}
		return pNormalize(out)
	}
	if pi.skipFns[m] && !pi.skipFns[fr.fd.Name.Name] && !pi.quiet {
		// P-RESYNC
		for _, s := range in {
			pi.nSkips++
			desc := fmt.Sprintf("recovery skip #%d in %s (context %s)", ordinalIn(fr.fd, call), pi.fn(fr), strings.Join(pi.stack, ">"))
			if s.ls && !s.fresh {
				pi.findOnce("P-RESYNC", fr, desc, call.Pos(), "the line-skipping recovery routine is called where the current token is already the first token of a fresh line (the previous line was consumed up to and including its line break): the first line of the following entry is reported as a syntax error and swallowed")
			} else {
				pi.okOnce("P-RESYNC", fr, desc, call.Pos(), "recovery skips the rest of the damaged line only (either tokens of the line were consumed and no line break since, or the dispatcher rejects the line's first token)")
			}
		}
	}
	if len(pi.stack) > 12 {
		pi.undecided(fr, call, "call chain deeper than 12")
		return in
	}
	for _, f := range pi.stack {
		if f == m {
			pi.undecided(fr, call, "recursive parser method "+m)
			return in
		}
	}
	pi.stack = append(pi.stack, m)
	pi.callPos = append(pi.callPos, pi.c.P.pos(call.Pos()))
	defer func() { pi.callPos = pi.callPos[:len(pi.callPos)-1] }()
	pi.kindEnv = append(pi.kindEnv, pi.bindKinds(fd, call))
	sub := &pFrame{fd: fd}
	fl := pi.block(fd.Body.List, pClone(in), sub)
	pi.kindEnv = pi.kindEnv[:len(pi.kindEnv)-1]
	pi.stack = pi.stack[:len(pi.stack)-1]
	// a return from inside a token loop leaves that loop: drop the progress flags of the callee's loops
	d := 0
	if len(in) > 0 {
		d = len(in[0].adv)
	}
	outs := append(fl.next, sub.rets...)
	for _, o := range outs {
		if len(o.adv) > d {
			o.adv = o.adv[:d]
		}
	}
	return pNormalize(outs)
}

// ordinalIn: 1-based index of node n among the nodes of the same syntactic kind in fd, in source order
// (a line-independent way to tell sites of one function apart).
func ordinalIn(fd *ast.FuncDecl, n ast.Node) int {
	idx, k := 0, 0
	ast.Inspect(fd.Body, func(x ast.Node) bool {
		if x == nil {
			return true
		}
		same := false
		switch n.(type) {
		case *ast.CallExpr:
			if c1, ok := x.(*ast.CallExpr); ok {
				same = fullStrNoPos(c1.Fun) == fullStrNoPos(n.(*ast.CallExpr).Fun)
			}
		case *ast.AssignStmt:
			_, same = x.(*ast.AssignStmt)
		case *ast.IncDecStmt:
			_, same = x.(*ast.IncDecStmt)
		case *ast.ReturnStmt:
			_, same = x.(*ast.ReturnStmt)
		}
		if same {
			k++
			if x == n {
				idx = k
			}
		}
		return true
	})
	return idx
}

func fullStrNoPos(e ast.Expr) string {
	switch x := e.(type) {
	case *ast.SelectorExpr:
		return fullStrNoPos(x.X) + "." + x.Sel.Name
	case *ast.Ident:
		return x.Name
	}
	return "?"
}

// localKindExpr: e is a local variable of token-kind type or a token-kind field of a local struct variable.
func (pi *parseInterp) localKindExpr(e ast.Expr) (locK, bool) {
	e = ast.Unparen(e)
	if t := pi.info.TypeOf(e); t == nil || !strings.HasSuffix(types.TypeString(t, nil), "parser.TokenType") {
		return locK{}, false
	}
	switch x := e.(type) {
	case *ast.Ident:
		if v, ok := pi.info.Uses[x].(*types.Var); ok && !v.IsField() && v.Parent() != nil && v.Parent() != v.Pkg().Scope() {
			return locK{v, ""}, true
		}
	case *ast.SelectorExpr:
		if id, ok := ast.Unparen(x.X).(*ast.Ident); ok {
			if v, ok := pi.info.Uses[id].(*types.Var); ok && !v.IsField() && v.Parent() != nil && v.Parent() != v.Pkg().Scope() {
				return locK{v, x.Sel.Name}, true
			}
		}
	}
	return locK{}, false
}

type argGroup struct {
	kinds  map[ast.Expr]int
	states []*pState
}

// partitionByArgs: when an argument of the call is a local kind expression whose value is known on some paths,
// the states are grouped by those values so that the callee can be interpreted with a constant kind.
func (pi *parseInterp) partitionByArgs(call *ast.CallExpr, in []*pState) ([]argGroup, bool) {
	type dep struct {
		e  ast.Expr
		lk locK
	}
	var deps []dep
	for _, a := range call.Args {
		a = ast.Unparen(a)
		if _, done := pi.argKinds[a]; done {
			continue
		}
		if lk, ok := pi.localKindExpr(a); ok {
			for _, s := range in {
				if _, known := s.loc[lk]; known {
					deps = append(deps, dep{a, lk})
					break
				}
			}
		}
	}
	if len(deps) == 0 {
		return nil, false
	}
	byKey := map[string]*argGroup{}
	var order []string
	for _, s := range in {
		kinds := map[ast.Expr]int{}
		for k, v := range pi.argKinds {
			kinds[k] = v
		}
		key := ""
		for _, d := range deps {
			if k, known := s.loc[d.lk]; known {
				kinds[d.e] = k
				key += fmt.Sprintf("%d,", k)
			} else {
				key += "?,"
			}
		}
		g := byKey[key]
		if g == nil {
			g = &argGroup{kinds: kinds}
			byKey[key] = g
			order = append(order, key)
		}
		g.states = append(g.states, s)
	}
	sort.Strings(order)
	var out []argGroup
	for _, k := range order {
		out = append(out, *byKey[k])
	}
	return out, true
}

type kindRow struct {
	key    int
	fields map[string]int
}

// kindTable: e names a package-level map keyed by token kinds whose only definition is its initialiser; the
// rows carry the token-kind fields of struct values.
func (pi *parseInterp) kindTable(e ast.Expr) ([]kindRow, bool) {
	id, ok := ast.Unparen(e).(*ast.Ident)
	if !ok {
		return nil, false
	}
	v, ok := pi.info.Uses[id].(*types.Var)
	if !ok || v.Pkg() == nil || v.Parent() != v.Pkg().Scope() {
		return nil, false
	}
	var lit *ast.CompositeLit
	written := false
	for _, f := range pi.pk.Syntax {
		ast.Inspect(f, func(x ast.Node) bool {
			switch n := x.(type) {
			case *ast.ValueSpec:
				for i, nm := range n.Names {
					if pi.info.Defs[nm] == v && i < len(n.Values) {
						lit, _ = ast.Unparen(n.Values[i]).(*ast.CompositeLit)
					}
				}
			case *ast.AssignStmt:
				for _, l := range n.Lhs {
					l = ast.Unparen(l)
					if ix, ok := l.(*ast.IndexExpr); ok {
						l = ast.Unparen(ix.X)
					}
					if lid, ok := l.(*ast.Ident); ok && pi.info.Uses[lid] == v {
						written = true
					}
				}
			case *ast.CallExpr:
				if fid, ok := ast.Unparen(n.Fun).(*ast.Ident); ok && (fid.Name == "delete" || fid.Name == "clear") && len(n.Args) > 0 {
					if lid, ok := ast.Unparen(n.Args[0]).(*ast.Ident); ok && pi.info.Uses[lid] == v {
						written = true
					}
				}
			case *ast.UnaryExpr:
				if n.Op == token.AND {
					if lid, ok := ast.Unparen(n.X).(*ast.Ident); ok && pi.info.Uses[lid] == v {
						written = true
					}
				}
			}
			return true
		})
	}
	if lit == nil || written {
		return nil, false
	}
	var rows []kindRow
	for _, el := range lit.Elts {
		kv, ok := el.(*ast.KeyValueExpr)
		if !ok {
			return nil, false
		}
		kid, ok := ast.Unparen(kv.Key).(*ast.Ident)
		if !ok {
			return nil, false
		}
		k, ok := pi.kinds[kid.Name]
		if !ok {
			return nil, false
		}
		row := kindRow{key: k, fields: map[string]int{}}
		if vl, ok := ast.Unparen(kv.Value).(*ast.CompositeLit); ok {
			var st *types.Struct
			if t := pi.info.TypeOf(vl); t != nil {
				st, _ = t.Underlying().(*types.Struct)
			}
			for i, fe := range vl.Elts {
				name := ""
				val := fe
				if fkv, ok := fe.(*ast.KeyValueExpr); ok {
					name, val = identOf(fkv.Key).Name, fkv.Value
				} else if st != nil && i < st.NumFields() {
					name = st.Field(i).Name()
				}
				if vid, ok := ast.Unparen(val).(*ast.Ident); ok {
					if fk, ok := pi.kinds[vid.Name]; ok && name != "" {
						row.fields[name] = fk
					}
				}
			}
		}
		rows = append(rows, row)
	}
	return rows, len(rows) > 0
}

// checkBlankLine (P-BLANK): a line break that is the first token of its line - a blank line - is consumed by the
// line-level dispatcher only.  Inside an entry (something was consumed since the dispatcher took the line) a blank
// line ends the entry; an entry parser that consumes it goes on reading the indented lines behind it as if they
// belonged to the entry (after a recovery routine has already consumed the damaged line's own line break, a
// following `if current is a line break { advance }` eats the blank line).
func (pi *parseInterp) checkBlankLine(in []*pState, fr *pFrame, at ast.Node) {
	nl, hasNL := pi.kinds["TokenNewline"]
	if !hasNL || pi.quiet {
		return
	}
	bit := kset(1) << uint(nl)
	// inside a recovery routine the rule is P-RESYNC's (the routine is judged at its call)
	for _, name := range pi.stack {
		if pi.skipFns[name] {
			return
		}
	}
	ctx := strings.Join(pi.stack, ">")
	desc := "token fetch in context " + ctx
	for _, s := range in {
		pi.nBlank++
		if s.ls && !s.fresh && s.T&bit != 0 {
			if os.Getenv("HLDBG_BLANK") != "" {
				fmt.Fprintf(os.Stderr, "P-BLANK ctx=%s T=%s callpos=%v\n", ctx, pi.kindNames(s.T), pi.callPos)
			}
			pi.findOnce("P-BLANK", fr, desc, at.Pos(), "an entry parser can consume a line break that is the first token of its line (a blank line) after it has already consumed the line break of the line before: the blank line that ends the entry is swallowed, and indented lines that follow it are read as part of this entry instead of being reported on their own")
		} else {
			pi.okOnce("P-BLANK", fr, desc, at.Pos(), "no blank line is consumed inside an entry on this path")
		}
	}
}
