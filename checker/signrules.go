package main

import (
	"fmt"
	"go/constant"
	"go/token"
	"go/types"
	"sort"
	"strings"

	"golang.org/x/tools/go/ssa"
)

// ruleBalanceSign (B-SIGN): what a posting contributes to the balance of its transaction carries the sign of the
// posting's own amount.  A posting with a cost counts in the cost's commodity; the cost is written without a sign
// (`-10 AAPL @ $150`, `-10 AAPL @@ $1500`), so the value taken from the cost has to be given the sign of the amount:
// by multiplying with the signed quantity, or by negating under a test of the amount's sign.  The rule is a
// sign-provenance analysis over the decimal values that are added into a per-commodity sum (`m[k] = m[k].Add(q)`
// over map[string]decimal.Decimal in the analyzer):
//
//	A     the posting's quantity (p.Amount.Quantity), or a value with its sign
//	U     a quantity read from the posting's cost (no sign of its own)
//	|A|   Abs of an A value
//	A x U = A,  |A| x U = U,  U x U = U,  Abs(U) = U,  Neg(U) = -U
//	phi(u, Neg(u)) with u : U, the negation taken exactly when IsNegative(a) for a : A  =  A
//
// through phis, helper results (every return of the helper, parameters bound to the arguments of the call; a pair
// of returns `return q.Neg()` under IsNegative(a) / `return q` counts like the phi) and tuple results.  A contribution that can be U, |A| or
// -U on some path is a finding (the posting counts with the wrong sign whenever its amount is negative: a sale with a
// total cost is reported unbalanced by twice its value, and one booked with the wrong sign is accepted).  Values the
// analysis cannot classify (other arithmetic) are not judged.
func ruleBalanceSign(c *Ctx) {
	type cls = map[string]bool
	// sctx: the call a function body is looked at for (parameters are bound to that call's arguments)
	type sctx struct {
		call   *ssa.Call
		parent *sctx
	}
	bindParam := func(p *ssa.Parameter, cx *sctx) (ssa.Value, *sctx, bool) {
		if cx == nil || cx.call == nil || p.Parent() == nil {
			return nil, nil, false
		}
		cal := cx.call.Call.StaticCallee()
		if cal != p.Parent() {
			return nil, nil, false
		}
		args := cx.call.Call.Args
		for i, q := range cal.Params {
			if q == p && i < len(args) {
				return args[i], cx.parent, true
			}
		}
		return nil, nil, false
	}
	// fieldPath: the (owner type, field) pairs from a loaded value outwards, through parameters bound by the context
	fieldPath := func(v ssa.Value, cx *sctx) ([][2]string, types.Type) {
		var out [][2]string
		for i := 0; i < 24; i++ {
			switch x := v.(type) {
			case *ssa.UnOp:
				if x.Op != token.MUL {
					return out, v.Type()
				}
				v = x.X
			case *ssa.FieldAddr:
				pt, ok := x.X.Type().Underlying().(*types.Pointer)
				if !ok {
					return out, v.Type()
				}
				st, ok := pt.Elem().Underlying().(*types.Struct)
				if !ok {
					return out, v.Type()
				}
				owner := types.TypeString(pt.Elem(), func(*types.Package) string { return "" })
				out = append(out, [2]string{owner, st.Field(x.Field).Name()})
				v = x.X
			case *ssa.Field:
				st, ok := x.X.Type().Underlying().(*types.Struct)
				if !ok {
					return out, v.Type()
				}
				owner := types.TypeString(x.X.Type(), func(*types.Package) string { return "" })
				out = append(out, [2]string{owner, st.Field(x.Field).Name()})
				v = x.X
			case *ssa.IndexAddr:
				v = x.X
			case *ssa.Parameter:
				a, pcx, ok := bindParam(x, cx)
				if !ok {
					return out, v.Type()
				}
				v, cx = a, pcx
			default:
				return out, v.Type()
			}
		}
		return out, v.Type()
	}
	classOfPath := func(p [][2]string) string {
		if len(p) == 0 || p[0] != [2]string{"Amount", "Quantity"} {
			return ""
		}
		// the path ends at the posting: where the posting itself is kept (a slice parameter, a field of a struct
		// the caller built) does not matter
		for i, e := range p {
			if e[0] == "Posting" {
				p = p[:i+1]
				break
			}
		}
		for _, e := range p[1:] {
			if e == [2]string{"Posting", "Cost"} || e == [2]string{"Cost", "Amount"} {
				return "U"
			}
		}
		if len(p) == 2 && p[1] == [2]string{"Posting", "Amount"} {
			return "A"
		}
		return ""
	}
	isDecimalMethod := func(call *ssa.Call, name string) bool {
		cal := call.Call.StaticCallee()
		return cal != nil && cal.Name() == name && cal.Signature.Recv() != nil && typeHasSuffix(cal.Signature.Recv().Type(), "decimal.Decimal")
	}
	// negativeTest: cond is a test of a decimal's sign; reports the decimal and whether the test holds for negative
	// values: d.IsNegative(), d.Sign() < 0, d.Sign() == -1, d.LessThan(zero), d.Cmp(zero) < 0 (and the >= 0 forms)
	isZeroDecimal := func(v ssa.Value) bool {
		switch x := stripConv(v).(type) {
		case *ssa.UnOp:
			if g, ok := x.X.(*ssa.Global); ok && x.Op == token.MUL {
				return g.Name() == "Zero" && g.Pkg != nil && g.Pkg.Pkg.Path() == decimalPkg
			}
		}
		return false
	}
	negativeTest := func(cond ssa.Value) (ssa.Value, bool, bool) {
		switch x := stripConv(cond).(type) {
		case *ssa.Call:
			if isDecimalMethod(x, "IsNegative") {
				return x.Call.Args[0], true, true
			}
			if isDecimalMethod(x, "LessThan") && len(x.Call.Args) == 2 && isZeroDecimal(x.Call.Args[1]) {
				return x.Call.Args[0], true, true
			}
			if isDecimalMethod(x, "GreaterThanOrEqual") && len(x.Call.Args) == 2 && isZeroDecimal(x.Call.Args[1]) {
				return x.Call.Args[0], false, true
			}
		case *ssa.BinOp:
			call, ok := stripConv(x.X).(*ssa.Call)
			k, isConst := x.Y.(*ssa.Const)
			if !ok || !isConst || k.Value == nil {
				return nil, false, false
			}
			if !(isDecimalMethod(call, "Sign") || (isDecimalMethod(call, "Cmp") && len(call.Call.Args) == 2 && isZeroDecimal(call.Call.Args[1]))) {
				return nil, false, false
			}
			kv, exact := constant.Int64Val(k.Value)
			if !exact {
				return nil, false, false
			}
			switch {
			case x.Op == token.LSS && kv == 0, x.Op == token.EQL && kv == -1, x.Op == token.LEQ && kv == -1:
				return call.Call.Args[0], true, true
			case x.Op == token.GEQ && kv == 0, x.Op == token.NEQ && kv == -1, x.Op == token.GTR && kv == -1:
				return call.Call.Args[0], false, true
			}
		}
		return nil, false, false
	}
	type key struct {
		v  ssa.Value
		cx *sctx
	}
	active := map[key]bool{}
	var classify func(v ssa.Value, cx *sctx, depth int) cls
	// negatedByAmount: `neg` is Neg(plain) for a cost-only value, evaluated exactly when the amount is negative
	negatedByAmount := func(plain, neg ssa.Value, cx *sctx, depth int) (string, bool) {
		nc, ok := stripConv(neg).(*ssa.Call)
		if !ok || !isDecimalMethod(nc, "Neg") || stripConv(nc.Call.Args[0]) != stripConv(plain) {
			return "", false
		}
		pc := classify(plain, cx, depth+1)
		if len(pc) != 1 || !pc["U"] {
			return "", false
		}
		for _, cc := range controlCondsPol(nc.Block()) {
			recv, neg, ok := negativeTest(cc.Cond)
			if !ok {
				continue
			}
			rc := classify(recv, cx, depth+1)
			if len(rc) == 1 && rc["A"] {
				if cc.Taken == neg {
					return "A", true
				}
				return "-A", true
			}
		}
		return "", false
	}
	// results: the classes of result #idx of a module function called by `call`
	results := func(call *ssa.Call, idx int, cx *sctx, depth int) cls {
		out := cls{}
		cal := call.Call.StaticCallee()
		if cal == nil || !inModule(cal) || len(cal.Blocks) == 0 {
			return out
		}
		ncx := &sctx{call: call, parent: cx}
		var rets []ssa.Value
		for _, b := range cal.Blocks {
			if ret, ok := lastInstr(b).(*ssa.Return); ok && idx < len(ret.Results) {
				rets = append(rets, ret.Results[idx])
			}
		}
		used := map[int]bool{}
		for i := range rets {
			for j := range rets {
				if i == j || used[i] || used[j] {
					continue
				}
				if k, ok := negatedByAmount(rets[i], rets[j], ncx, depth); ok {
					// the plain return is taken when the negating one is not: both together carry the amount's sign
					out[k] = true
					used[i], used[j] = true, true
				}
			}
		}
		for i, r := range rets {
			if !used[i] {
				for k := range classify(r, ncx, depth+1) {
					out[k] = true
				}
			}
		}
		return out
	}
	classify = func(v ssa.Value, cx *sctx, depth int) cls {
		v = stripConv(v)
		out := cls{}
		k := key{v, cx}
		if active[k] || depth > 14 {
			return out
		}
		active[k] = true
		defer delete(active, k)
		add := func(s cls) {
			for k := range s {
				out[k] = true
			}
		}
		switch x := v.(type) {
		case *ssa.Parameter:
			if a, pcx, ok := bindParam(x, cx); ok {
				add(classify(a, pcx, depth+1))
			}
		case *ssa.UnOp:
			if x.Op == token.MUL {
				p, _ := fieldPath(x, cx)
				if k := classOfPath(p); k != "" {
					out[k] = true
				}
			}
		case *ssa.Field:
			p, _ := fieldPath(x, cx)
			if k := classOfPath(p); k != "" {
				out[k] = true
			}
		case *ssa.Phi:
			// a merge of u and Neg(u) - also as two of three or more edges (`q := a; if cost != nil { q = u; if neg
			// { q = Neg(u) } }` is one phi with three edges) - carries the amount's sign
			used := map[int]bool{}
			for i := range x.Edges {
				for j := range x.Edges {
					if i == j || used[i] || used[j] {
						continue
					}
					if k, ok := negatedByAmount(x.Edges[i], x.Edges[j], cx, depth); ok {
						out[k] = true
						used[i], used[j] = true, true
					}
				}
			}
			for i, e := range x.Edges {
				if !used[i] {
					add(classify(e, cx, depth+1))
				}
			}
		case *ssa.Extract:
			if call, ok := x.Tuple.(*ssa.Call); ok {
				add(results(call, x.Index, cx, depth))
			}
		case *ssa.Call:
			cal := x.Call.StaticCallee()
			if cal == nil {
				break
			}
			if inModule(cal) {
				add(results(x, 0, cx, depth))
				break
			}
			switch {
			case isDecimalMethod(x, "Abs"):
				for k := range classify(x.Call.Args[0], cx, depth+1) {
					switch k {
					case "A", "-A", "|A|":
						out["|A|"] = true
					case "U", "-U":
						out["U"] = true
					}
				}
			case isDecimalMethod(x, "Neg"):
				for k := range classify(x.Call.Args[0], cx, depth+1) {
					switch k {
					case "A":
						out["-A"] = true
					case "-A":
						out["A"] = true
					case "U":
						out["-U"] = true
					case "-U":
						out["U"] = true
					}
				}
			case isDecimalMethod(x, "Mul"):
				l, r := classify(x.Call.Args[0], cx, depth+1), classify(x.Call.Args[1], cx, depth+1)
				for a := range l {
					for b := range r {
						p := []string{a, b}
						sort.Strings(p)
						switch strings.Join(p, "*") {
						case "A*U":
							out["A"] = true
						case "-A*U", "-U*A":
							out["-A"] = true
						case "U*|A|", "U*U", "-U*-U":
							out["U"] = true
						case "-U*U", "-U*|A|":
							out["-U"] = true
						}
					}
				}
			}
		}
		return out
	}
	n := 0
	for _, f := range c.P.ModuleFuncs() {
		if f.Pkg == nil || !strings.HasSuffix(f.Pkg.Pkg.Path(), "internal/analyzer") {
			continue
		}
		for _, b := range f.Blocks {
			for _, ins := range b.Instrs {
				mu, ok := ins.(*ssa.MapUpdate)
				if !ok {
					continue
				}
				mt, ok := mu.Map.Type().Underlying().(*types.Map)
				if !ok || !typeHasSuffix(mt.Elem(), "decimal.Decimal") {
					continue
				}
				sum, ok := stripConv(mu.Value).(*ssa.Call)
				if !ok || !isDecimalMethod(sum, "Add") {
					continue
				}
				var contrib ssa.Value
				for i := 0; i < 2; i++ {
					if lk, ok := stripConv(sum.Call.Args[i]).(*ssa.Lookup); ok && lk.X == mu.Map {
						contrib = sum.Call.Args[1-i]
					}
				}
				if contrib == nil {
					continue
				}
				// a sum filled inside a helper is looked at for each of its calls
				var cxs []*sctx
				if sites := (cgView{c}).callersOf(f); len(sites) > 0 {
					for _, s := range sites {
						if sc, ok := s.(*ssa.Call); ok {
							cxs = append(cxs, &sctx{call: sc})
						}
					}
				}
				if len(cxs) == 0 {
					cxs = []*sctx{nil}
				}
				cl := cls{}
				for _, cx := range cxs {
					for k := range classify(contrib, cx, 0) {
						cl[k] = true
					}
				}
				if len(cl) == 0 {
					continue
				}
				n++
				var ks, bad []string
				for k := range cl {
					ks = append(ks, k)
					if k == "U" || k == "|A|" || k == "-U" {
						bad = append(bad, k)
					}
				}
				sort.Strings(ks)
				sort.Strings(bad)
				c.check(len(bad) == 0, "B-SIGN", funcName(f), "a posting's contribution to the balance carries the sign of its amount", mu.Pos(),
					fmt.Sprintf("the value added to the per-commodity sum has sign provenance %v", ks),
					fmt.Sprintf("the value added to the per-commodity sum can be %v on some path (U: read from the posting's cost without the sign of the amount; |A|: absolute amount; -U: cost negated unconditionally): a posting with a negative amount and a cost counts with the wrong sign - a sale with a total cost is reported unbalanced by twice its value, and one booked with the wrong sign is accepted as balanced", bad))
			}
		}
	}
	c.census("B-SIGN", "per-commodity sums fed by posting quantities with a classified sign", n, 1)
}
