package main

import (
	"fmt"
	"go/token"
	"go/types"
	"sort"
	"strings"

	"golang.org/x/tools/go/ssa"
)

// ruleBalanceSign (B-SIGN): what a posting contributes to the balance of its transaction carries the sign of the
// posting's own amount.  A posting with a cost counts in the cost's commodity; the cost is written without a sign
// (`-10 AAPL @ $150`, `-10 AAPL @@ $1500`), so the value taken from the cost has to be given the sign of the amount:
// by multiplying with the signed quantity, or by negating under a test of the amount's sign.  The rule is a
// sign-provenance analysis over the decimal values that are added into a per-commodity sum (`m[k] = m[k].Add(q)`
// over map[string]decimal.Decimal in the analyzer):
//
//	A     the posting's quantity (p.Amount.Quantity), or a value with its sign
//	U     a quantity read from the posting's cost (no sign of its own)
//	|A|   Abs of an A value
//	A x U = A,  |A| x U = U,  U x U = U,  Abs(U) = U,  Neg(U) = -U
//	phi(u, Neg(u)) with u : U, the negation taken exactly when IsNegative(a) for a : A  =  A
//
// through phis, helper results (every return of the helper) and tuple results.  A contribution that can be U, |A| or
// -U on some path is a finding (the posting counts with the wrong sign whenever its amount is negative: a sale with a
// total cost is reported unbalanced by twice its value, and one booked with the wrong sign is accepted).  Values the
// analysis cannot classify (other arithmetic) are not judged.
func ruleBalanceSign(c *Ctx) {
	type cls = map[string]bool
	fieldPath := func(v ssa.Value) [][2]string {
		var out [][2]string
		for i := 0; i < 12; i++ {
			switch x := v.(type) {
			case *ssa.UnOp:
				if x.Op != token.MUL {
					return out
				}
				v = x.X
			case *ssa.FieldAddr:
				pt, ok := x.X.Type().Underlying().(*types.Pointer)
				if !ok {
					return out
				}
				st, ok := pt.Elem().Underlying().(*types.Struct)
				if !ok {
					return out
				}
				owner := types.TypeString(pt.Elem(), func(*types.Package) string { return "" })
				out = append(out, [2]string{owner, st.Field(x.Field).Name()})
				v = x.X
			case *ssa.Field:
				st, ok := x.X.Type().Underlying().(*types.Struct)
				if !ok {
					return out
				}
				owner := types.TypeString(x.X.Type(), func(*types.Package) string { return "" })
				out = append(out, [2]string{owner, st.Field(x.Field).Name()})
				v = x.X
			case *ssa.IndexAddr:
				v = x.X
			default:
				return out
			}
		}
		return out
	}
	isDecimalMethod := func(call *ssa.Call, name string) bool {
		cal := call.Call.StaticCallee()
		return cal != nil && cal.Name() == name && cal.Signature.Recv() != nil && typeHasSuffix(cal.Signature.Recv().Type(), "decimal.Decimal")
	}
	memo := map[ssa.Value]cls{}
	var classify func(v ssa.Value, depth int) cls
	classify = func(v ssa.Value, depth int) cls {
		v = stripConv(v)
		if r, ok := memo[v]; ok {
			return r
		}
		out := cls{}
		memo[v] = out // cycles through loop phis contribute nothing new
		if depth > 10 {
			return out
		}
		add := func(s cls) {
			for k := range s {
				out[k] = true
			}
		}
		switch x := v.(type) {
		case *ssa.UnOp:
			if x.Op == token.MUL {
				p := fieldPath(x)
				if len(p) >= 2 && p[0] == [2]string{"Amount", "Quantity"} {
					hasCost, viaAmount := false, false
					for _, e := range p[1:] {
						if e == [2]string{"Posting", "Cost"} {
							hasCost = true
						}
					}
					viaAmount = len(p) == 2 && p[1] == [2]string{"Posting", "Amount"}
					switch {
					case hasCost:
						out["U"] = true
					case viaAmount:
						out["A"] = true
					}
				}
			}
		case *ssa.Field:
			p := fieldPath(x)
			if len(p) >= 2 && p[0] == [2]string{"Amount", "Quantity"} {
				for _, e := range p[1:] {
					if e == [2]string{"Posting", "Cost"} {
						out["U"] = true
					}
				}
				if len(out) == 0 && len(p) == 2 && p[1] == [2]string{"Posting", "Amount"} {
					out["A"] = true
				}
			}
		case *ssa.Phi:
			if len(x.Edges) == 2 {
				for i := 0; i < 2; i++ {
					plain, neg := stripConv(x.Edges[i]), stripConv(x.Edges[1-i])
					nc, ok := neg.(*ssa.Call)
					if !ok || !isDecimalMethod(nc, "Neg") || stripConv(nc.Call.Args[0]) != plain {
						continue
					}
					pc := classify(plain, depth+1)
					if len(pc) != 1 || !pc["U"] {
						continue
					}
					for _, cc := range controlCondsPol(nc.Block()) {
						tc, ok := stripConv(cc.Cond).(*ssa.Call)
						if !ok || !isDecimalMethod(tc, "IsNegative") {
							continue
						}
						rc := classify(tc.Call.Args[0], depth+1)
						if len(rc) == 1 && rc["A"] {
							if cc.Taken {
								out["A"] = true
							} else {
								out["-A"] = true
							}
							return out
						}
					}
				}
			}
			for _, e := range x.Edges {
				add(classify(e, depth+1))
			}
		case *ssa.Extract:
			if call, ok := x.Tuple.(*ssa.Call); ok {
				if cal := call.Call.StaticCallee(); cal != nil && inModule(cal) {
					for _, b := range cal.Blocks {
						if ret, ok := lastInstr(b).(*ssa.Return); ok && x.Index < len(ret.Results) {
							add(classify(ret.Results[x.Index], depth+1))
						}
					}
				}
			}
		case *ssa.Call:
			cal := x.Call.StaticCallee()
			if cal == nil {
				break
			}
			if inModule(cal) {
				for _, b := range cal.Blocks {
					if ret, ok := lastInstr(b).(*ssa.Return); ok && len(ret.Results) == 1 {
						add(classify(ret.Results[0], depth+1))
					}
				}
				break
			}
			switch {
			case isDecimalMethod(x, "Abs"):
				for k := range classify(x.Call.Args[0], depth+1) {
					switch k {
					case "A", "-A", "|A|":
						out["|A|"] = true
					case "U", "-U":
						out["U"] = true
					}
				}
			case isDecimalMethod(x, "Neg"):
				for k := range classify(x.Call.Args[0], depth+1) {
					switch k {
					case "A":
						out["-A"] = true
					case "-A":
						out["A"] = true
					case "U":
						out["-U"] = true
					case "-U":
						out["U"] = true
					}
				}
			case isDecimalMethod(x, "Mul"):
				l, r := classify(x.Call.Args[0], depth+1), classify(x.Call.Args[1], depth+1)
				for a := range l {
					for b := range r {
						p := []string{a, b}
						sort.Strings(p)
						switch strings.Join(p, "*") {
						case "A*U":
							out["A"] = true
						case "-A*U", "-U*A":
							out["-A"] = true
						case "U*|A|", "U*U", "-U*-U":
							out["U"] = true
						case "-U*U", "-U*|A|":
							out["-U"] = true
						}
					}
				}
			}
		}
		return out
	}
	n := 0
	for _, f := range c.P.ModuleFuncs() {
		if f.Pkg == nil || !strings.HasSuffix(f.Pkg.Pkg.Path(), "internal/analyzer") {
			continue
		}
		for _, b := range f.Blocks {
			for _, ins := range b.Instrs {
				mu, ok := ins.(*ssa.MapUpdate)
				if !ok {
					continue
				}
				mt, ok := mu.Map.Type().Underlying().(*types.Map)
				if !ok || !typeHasSuffix(mt.Elem(), "decimal.Decimal") {
					continue
				}
				sum, ok := stripConv(mu.Value).(*ssa.Call)
				if !ok || !isDecimalMethod(sum, "Add") {
					continue
				}
				var contrib ssa.Value
				for i := 0; i < 2; i++ {
					if lk, ok := stripConv(sum.Call.Args[i]).(*ssa.Lookup); ok && lk.X == mu.Map {
						contrib = sum.Call.Args[1-i]
					}
				}
				if contrib == nil {
					continue
				}
				cl := classify(contrib, 0)
				if len(cl) == 0 {
					continue
				}
				n++
				var ks, bad []string
				for k := range cl {
					ks = append(ks, k)
					if k == "U" || k == "|A|" || k == "-U" {
						bad = append(bad, k)
					}
				}
				sort.Strings(ks)
				sort.Strings(bad)
				c.check(len(bad) == 0, "B-SIGN", funcName(f), "a posting's contribution to the balance carries the sign of its amount", mu.Pos(),
					fmt.Sprintf("the value added to the per-commodity sum has sign provenance %v", ks),
					fmt.Sprintf("the value added to the per-commodity sum can be %v on some path (U: read from the posting's cost without the sign of the amount; |A|: absolute amount; -U: cost negated unconditionally): a posting with a negative amount and a cost counts with the wrong sign - a sale with a total cost is reported unbalanced by twice its value, and one booked with the wrong sign is accepted as balanced", bad))
			}
		}
	}
	c.census("B-SIGN", "per-commodity sums fed by posting quantities with a classified sign", n, 1)
}
