package main

import (
	"encoding/json"
	"fmt"
	"go/ast"
	"go/printer"
	"go/token"
	"io"
	"os"
	"path/filepath"
	"sort"
	"strings"
	"time"
)

func printerFprint(w io.Writer, fset *token.FileSet, n ast.Node) error {
	return (&printer.Config{Mode: printer.RawFormat}).Fprint(w, fset, n)
}

type Verdict string

const (
	Discharged Verdict = "discharged"
	Finding    Verdict = "finding"
	Undecided  Verdict = "undecided"
)

// Oblig is one rule instance.  Key never contains a line number.
type Oblig struct {
	Rule    string  `json:"rule"`
	Key     string  `json:"key"`  // rule|function|construct descriptor
	Func    string  `json:"func"` // function analysed
	Pos     string  `json:"pos"`  // file:line, informational only
	Verdict Verdict `json:"verdict"`
	Msg     string  `json:"msg,omitempty"`
	Known   string  `json:"known_finding,omitempty"` // id of the KNOWN_FINDINGS entry that lists it
}

// Rule-level census entry: how many subjects a rule found (non-vacuity).
type Census struct {
	Rule  string `json:"rule"`
	What  string `json:"what"`
	Count int    `json:"count"`
	Floor int    `json:"floor"`
}

type Ctx struct {
	P       *Prog
	Prop    string
	Tier    string
	Obligs  []*Oblig
	Census  []Census
	Notes   []string
	seenKey map[string]int
	ran     map[string]bool // rule groups that already ran for this property (a group can be part of several rule sets)
	// statistics
	FuncsAnalysed map[string]bool
	CallSites     int
}

// curProg: the program under analysis (for helpers that need the call graph but have no Ctx at hand).
var curProg *Prog

func NewCtx(p *Prog, prop, tier string) *Ctx {
	curProg = p
	return &Ctx{P: p, Prop: prop, Tier: tier, seenKey: map[string]int{}, FuncsAnalysed: map[string]bool{}}
}

func (c *Ctx) add(rule, fn, desc string, pos token.Pos, v Verdict, msg string) *Oblig {
	key := rule + "|" + fn + "|" + desc
	// disambiguate identical constructs inside one function by ordinal (stable under line shifts)
	c.seenKey[key]++
	if n := c.seenKey[key]; n > 1 {
		key = fmt.Sprintf("%s#%d", key, n)
	}
	o := &Oblig{Rule: rule, Key: key, Func: fn, Pos: c.P.pos(pos), Verdict: v, Msg: msg}
	c.Obligs = append(c.Obligs, o)
	if dbg := os.Getenv("HLDEBUG_RULE"); dbg != "" && dbg == rule {
		fmt.Fprintf(os.Stderr, "DBG %v %s: %s\n", v, key, msg)
	}
	if fn != "" {
		c.FuncsAnalysed[fn] = true
	}
	return o
}

func (c *Ctx) ok(rule, fn, desc string, pos token.Pos, msg string) {
	c.add(rule, fn, desc, pos, Discharged, msg)
}
func (c *Ctx) finding(rule, fn, desc string, pos token.Pos, msg string) {
	c.add(rule, fn, desc, pos, Finding, msg)
}
func (c *Ctx) undecided(rule, fn, desc string, pos token.Pos, msg string) {
	c.add(rule, fn, desc, pos, Undecided, msg)
}

// check adds discharged or finding depending on cond.
func (c *Ctx) check(cond bool, rule, fn, desc string, pos token.Pos, okMsg, failMsg string) {
	if cond {
		c.ok(rule, fn, desc, pos, okMsg)
	} else {
		c.finding(rule, fn, desc, pos, failMsg)
	}
}

func (c *Ctx) census(rule, what string, count, floor int) {
	c.Census = append(c.Census, Census{rule, what, count, floor})
	if count < floor {
		c.undecided(rule, "", "census:"+what, token.NoPos,
			fmt.Sprintf("rule subjects vanished: found %d %s, expected at least %d (a rule that matches nothing must not pass vacuously)", count, what, floor))
	}
}

// ranOnce: true if the named rule group already ran in this context.
func (c *Ctx) ranOnce(name string) bool {
	if c.ran == nil {
		c.ran = map[string]bool{}
	}
	if c.ran[name] {
		return true
	}
	c.ran[name] = true
	return false
}

func (c *Ctx) note(format string, a ...any) { c.Notes = append(c.Notes, fmt.Sprintf(format, a...)) }

// ---- known findings ----

type KnownFinding struct {
	ID         string   `json:"id"`
	Properties []string `json:"properties"`
	Rule       string   `json:"rule"`
	Key        string   `json:"key"`
	Status     string   `json:"status"` // "known" | "fixed"
	What       string   `json:"what"`
	Witness    string   `json:"witness,omitempty"`
	Commit     string   `json:"commit,omitempty"`
	Line       string   `json:"line,omitempty"` // for fixed entries: "fixed: property=<id> <commit> <what failed>"
}

func loadKnown(path string) ([]KnownFinding, error) {
	b, err := os.ReadFile(path)
	if err != nil {
		if os.IsNotExist(err) {
			return nil, nil
		}
		return nil, err
	}
	var f struct {
		Findings []KnownFinding `json:"findings"`
	}
	if err := json.Unmarshal(b, &f); err != nil {
		return nil, fmt.Errorf("%s: %w", path, err)
	}
	return f.Findings, nil
}

// ---- evidence / report ----

type Evidence struct {
	PropertyID  string         `json:"property_id"`
	Tier        string         `json:"tier"`
	Seed        int            `json:"seed"`
	Level       string         `json:"level"`
	Coverage    map[string]any `json:"coverage"`
	Assumptions []string       `json:"assumptions"`
	WallS       float64        `json:"wall_s"`
	Violations  int            `json:"violations"`
}

type Report struct {
	Property  string   `json:"property"`
	Tier      string   `json:"tier"`
	Config    string   `json:"config"`
	Obligs    []*Oblig `json:"obligations"`
	Census    []Census `json:"census"`
	Notes     []string `json:"notes"`
	Mutants   []any    `json:"mutants,omitempty"`
	Violation bool     `json:"violation"`
}

type PropSpec struct {
	ID          string
	Explanation string   // what structural clause is decided
	NotDecided  string   // what is not
	Technique   string   // a few words naming the deciding method
	Assumptions []string // trusted base
	Rules       []func(*Ctx)
}

func finish(c *Ctx, spec *PropSpec, known []KnownFinding, verifDir string, start time.Time, seed int, extra map[string]any) int {
	// match findings against KNOWN_FINDINGS (status known only)
	for _, o := range c.Obligs {
		if o.Verdict != Finding {
			continue
		}
		for _, k := range known {
			if k.Status == "known" && k.Key == o.Key && contains(k.Properties, c.Prop) {
				o.Known = k.ID
			}
		}
	}
	sort.SliceStable(c.Obligs, func(i, j int) bool { return c.Obligs[i].Key < c.Obligs[j].Key })

	var nDis, nFind, nKnown, nUndec int
	viol := 0
	byRule := map[string][3]int{}
	for _, o := range c.Obligs {
		r := byRule[o.Rule]
		switch o.Verdict {
		case Discharged:
			nDis++
			r[0]++
		case Finding:
			nFind++
			r[1]++
			if o.Known != "" {
				nKnown++
			} else {
				viol++
			}
		case Undecided:
			nUndec++
			r[2]++
			viol++
		}
		byRule[o.Rule] = r
	}

	// stdout summary
	fmt.Printf("hlcheck property=%s tier=%s config=[%s] packages=%d files=%d funcs=%d\n", c.Prop, c.Tier, c.P.Cfg, len(c.P.Pkgs), c.P.NFiles, c.P.NFuncs)
	var rules []string
	for r := range byRule {
		rules = append(rules, r)
	}
	sort.Strings(rules)
	for _, r := range rules {
		v := byRule[r]
		fmt.Printf("  rule %-14s discharged=%-3d findings=%-3d undecided=%d\n", r, v[0], v[1], v[2])
	}
	for _, cs := range c.Census {
		fmt.Printf("  census %-14s %s: %d (floor %d)\n", cs.Rule, cs.What, cs.Count, cs.Floor)
	}
	reportPath := filepath.Join(verifDir, "reports", fmt.Sprintf("%s-%s.json", c.Prop, c.Tier))
	for _, o := range c.Obligs {
		switch {
		case o.Verdict == Finding && o.Known != "":
			var w string
			for _, k := range known {
				if k.ID == o.Known {
					w = k.Witness
				}
			}
			fmt.Printf("KNOWN-FINDING: property=%s %s %s: %s (%s) [%s]%s\n", c.Prop, o.Rule, o.Func, o.Msg, o.Pos, o.Known, witnessStr(w))
		case o.Verdict == Finding:
			fmt.Printf("FINDING %s %s at %s: %s\n    key=%s\n", o.Rule, o.Func, o.Pos, o.Msg, o.Key)
		case o.Verdict == Undecided:
			fmt.Printf("UNDECIDED %s %s at %s: %s\n    key=%s\n", o.Rule, o.Func, o.Pos, o.Msg, o.Key)
		}
	}

	// samples: a few obligations of each verdict
	var samples []any
	seenRule := map[string]int{}
	for _, o := range c.Obligs {
		if seenRule[o.Rule+string(o.Verdict)] < 2 && len(samples) < 40 {
			seenRule[o.Rule+string(o.Verdict)]++
			samples = append(samples, map[string]any{"rule": o.Rule, "key": o.Key, "at": o.Pos, "verdict": o.Verdict, "msg": o.Msg})
		}
	}
	var funcs []string
	for f := range c.FuncsAnalysed {
		funcs = append(funcs, f)
	}
	sort.Strings(funcs)
	distinct := map[string]bool{}
	for _, o := range c.Obligs {
		distinct[o.Key] = true
	}
	cov := map[string]any{
		"explanation":          spec.Explanation + "  NOT DECIDED: " + spec.NotDecided,
		"rule":                 "obligations are enumerated from the type-checked syntax / SSA / call graph of /repo's current tree; one obligation per (rule, function, construct); an obligation is non-trivial when it names a concrete construct of the repository (all do); distinct = distinct keys",
		"evaluations":          len(c.Obligs),
		"distinct_nontrivial":  len(distinct),
		"obligations":          len(c.Obligs),
		"discharged":           nDis,
		"findings":             nFind,
		"known_findings":       nKnown,
		"undecided":            nUndec,
		"per_rule":             byRuleJSON(byRule),
		"census":               c.Census,
		"functions_analysed":   funcs,
		"functions_analysed_n": len(funcs),
		"packages":             len(c.P.Pkgs),
		"files":                c.P.NFiles,
		"functions_in_module":  c.P.NFuncs,
		"configuration":        c.P.Cfg.String(),
		"samples":              samples,
		"notes":                c.Notes,
		"checker_cmd":          fmt.Sprintf("bin/hlcheck-run %s %s", c.Prop, c.Tier),
		"trusted_base":         []string{"go/packages", "go/types", "go/cfg", "go/ssa", "callgraph/vta+cha", "rule tables in /verif/checker"},
		"exhaustive":           true,
		"exhaustive_meaning":   "every construct of the repository that matches a rule's subject pattern is enumerated; the rule is decided for all inputs/schedules at once (structural necessary condition), not the behavioural statement itself",
	}
	for k, v := range extra {
		cov[k] = v
	}
	ev := Evidence{PropertyID: c.Prop, Tier: c.Tier, Seed: seed, Level: "other", Coverage: cov,
		Assumptions: spec.Assumptions, WallS: time.Since(start).Seconds(), Violations: viol}
	if ev.Assumptions == nil {
		ev.Assumptions = []string{}
	}
	_ = os.MkdirAll(filepath.Join(verifDir, "evidence"), 0o755)
	_ = os.MkdirAll(filepath.Join(verifDir, "reports"), 0o755)
	writeJSON(filepath.Join(verifDir, "evidence", c.Prop+".json"), ev)
	rep := Report{Property: c.Prop, Tier: c.Tier, Config: c.P.Cfg.String(), Obligs: c.Obligs, Census: c.Census, Notes: c.Notes, Violation: viol > 0}
	if m, ok := extra["mutants"]; ok {
		if l, ok := m.([]any); ok {
			rep.Mutants = l
		}
	}
	writeJSON(reportPath, rep)

	fmt.Printf("summary property=%s obligations=%d discharged=%d findings=%d (known %d) undecided=%d wall=%.1fs\n",
		c.Prop, len(c.Obligs), nDis, nFind, nKnown, nUndec, time.Since(start).Seconds())
	if viol > 0 {
		fmt.Printf("VIOLATION property=%s replay=%s\n", c.Prop, reportPath)
		return 1
	}
	return 0
}

func witnessStr(w string) string {
	if w == "" {
		return ""
	}
	return " witness: " + w
}

func byRuleJSON(m map[string][3]int) map[string]any {
	out := map[string]any{}
	for k, v := range m {
		out[k] = map[string]int{"discharged": v[0], "findings": v[1], "undecided": v[2]}
	}
	return out
}

func writeJSON(path string, v any) {
	b, err := json.MarshalIndent(v, "", " ")
	if err != nil {
		fmt.Fprintln(os.Stderr, "marshal:", err)
		return
	}
	if err := os.WriteFile(path, append(b, '\n'), 0o644); err != nil {
		fmt.Fprintln(os.Stderr, "write:", err)
	}
}

func contains(l []string, s string) bool {
	for _, x := range l {
		if x == s {
			return true
		}
	}
	return false
}

func joinSorted(m map[string]bool) string {
	var l []string
	for k := range m {
		l = append(l, k)
	}
	sort.Strings(l)
	return strings.Join(l, ",")
}
