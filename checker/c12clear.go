package main

// C12-CLEAR on SSA: every critical section of the workspace that mutates the resolved include tree clears all
// memoised derived caches in the same critical section.
//
//   memo slot   a map-typed location under *Workspace (an access path of field names) that some function returns
//               under the test `slot != nil` - directly, or through a helper that is handed the slot's address
//   mutation    a store to the workspace's resolved-tree field, or a store / map update / delete through a
//               *include.ResolvedJournal
//   clear       a store of the zero value to the slot or to a struct that contains it
//   event       a primitive, or a call of a workspace function that contains an unprotected mutation (resp. that
//               clears on all of its paths)
//
// A mutation event is protected when a clear of the slot lies on every path from the function's entry to it
// (nothing can fill the memo in between: filling takes the lock the section holds), or on every path from it
// to the function's exit.  The walk towards the exit is path sensitive in boolean flags (`if changed { clear }`
// with changed set next to the mutation).

import (
	"fmt"
	"go/constant"
	"go/token"
	"go/types"
	"sort"
	"strings"

	"golang.org/x/tools/go/ssa"
)

// wsPath: the access path of an address or value below a *Workspace root: field names, "*" for a pointer hop.
func wsPath(v ssa.Value, depth int) ([]string, bool) {
	if depth > 8 {
		return nil, false
	}
	if pt, ok := v.Type().Underlying().(*types.Pointer); ok && typeHasSuffix(pt.Elem(), "workspace.Workspace") {
		switch v.(type) {
		case *ssa.Parameter, *ssa.FreeVar, *ssa.UnOp, *ssa.Call, *ssa.Phi, *ssa.Alloc:
			return []string{}, true
		}
	}
	switch x := v.(type) {
	case *ssa.FieldAddr:
		p, ok := wsPath(x.X, depth+1)
		if !ok {
			return nil, false
		}
		return append(append([]string{}, p...), fieldVarOfAddr(x).Name()), true
	case *ssa.UnOp:
		if x.Op == token.MUL {
			p, ok := wsPath(x.X, depth+1)
			if !ok {
				return nil, false
			}
			return append(append([]string{}, p...), "*"), true
		}
	}
	return nil, false
}

type c12 struct {
	c       *Ctx
	fns     []*ssa.Function
	slots   []string // memo slot paths, joined with "."
	memoU   map[string]map[*ssa.Function]int
	memoC   map[string]map[*ssa.Function]int
	resolve string // name of the resolved-tree field
}

func hasPrefixPath(p, prefix string) bool {
	return p == prefix || strings.HasPrefix(p, prefix+".")
}

func (a *c12) isMutation(ins ssa.Instruction) bool {
	viaResolved := func(addr ssa.Value) bool {
		for d := 0; d < 8; d++ {
			switch x := addr.(type) {
			case *ssa.FieldAddr:
				if pt, ok := x.X.Type().Underlying().(*types.Pointer); ok && typeHasSuffix(pt.Elem(), "include.ResolvedJournal") {
					return true
				}
				addr = x.X
				continue
			case *ssa.IndexAddr:
				addr = x.X
				continue
			case *ssa.UnOp:
				if x.Op == token.MUL {
					addr = x.X
					continue
				}
			}
			break
		}
		return false
	}
	switch x := ins.(type) {
	case *ssa.Store:
		if fa, ok := x.Addr.(*ssa.FieldAddr); ok {
			if pt, ok := fa.X.Type().Underlying().(*types.Pointer); ok && typeHasSuffix(pt.Elem(), "workspace.Workspace") && fieldVarOfAddr(fa).Name() == a.resolve {
				return true
			}
		}
		return viaResolved(x.Addr)
	case *ssa.MapUpdate:
		return viaResolved(x.Map)
	case *ssa.Call:
		if bi, ok := x.Call.Value.(*ssa.Builtin); ok && (bi.Name() == "delete" || bi.Name() == "clear") && len(x.Call.Args) > 0 {
			return viaResolved(x.Call.Args[0])
		}
	}
	return false
}

func (a *c12) isClear(ins ssa.Instruction, slot string) bool {
	st, ok := ins.(*ssa.Store)
	if !ok {
		return false
	}
	k, ok := st.Val.(*ssa.Const)
	if !ok || k.Value != nil {
		return false
	}
	p, ok := wsPath(st.Addr, 0)
	if !ok {
		return false
	}
	return hasPrefixPath(slot, strings.Join(p, "."))
}

func calleeInWorkspace(ins ssa.Instruction) *ssa.Function {
	call, ok := ins.(*ssa.Call)
	if !ok {
		return nil
	}
	cal := call.Call.StaticCallee()
	if cal == nil || cal.Blocks == nil || !inModule(cal) {
		return nil
	}
	top := cal
	for top.Parent() != nil {
		top = top.Parent()
	}
	if o := top.Origin(); o != nil {
		top = o
	}
	if top.Pkg == nil || !strings.HasSuffix(top.Pkg.Pkg.Path(), "internal/workspace") {
		return nil
	}
	return cal
}

// mustClear: every path from the entry of f to its exit passes a clear of slot.
func (a *c12) mustClear(f *ssa.Function, slot string) bool {
	m := a.memoC[slot]
	if m == nil {
		m = map[*ssa.Function]int{}
		a.memoC[slot] = m
	}
	if v, ok := m[f]; ok {
		return v == 1
	}
	m[f] = 0
	res := !escapesFlags(f.Blocks[0], 0, func(x ssa.Instruction) bool { return a.clearEvent(x, slot) })
	if res {
		m[f] = 1
	}
	return res
}

func (a *c12) clearEvent(ins ssa.Instruction, slot string) bool {
	if a.isClear(ins, slot) {
		return true
	}
	if cal := calleeInWorkspace(ins); cal != nil {
		return a.mustClear(cal, slot)
	}
	return false
}

func (a *c12) mutationEvent(ins ssa.Instruction, slot string) bool {
	if a.isMutation(ins) {
		return true
	}
	if cal := calleeInWorkspace(ins); cal != nil {
		return len(a.unprotected(cal, slot)) > 0
	}
	return false
}

// unprotected: the mutation events of f that are neither preceded on all paths nor followed on all paths by a
// clear of slot.
func (a *c12) unprotected(f *ssa.Function, slot string) []ssa.Instruction {
	m := a.memoU[slot]
	if m == nil {
		m = map[*ssa.Function]int{}
		a.memoU[slot] = m
	}
	if v, ok := m[f]; ok && v == 0 {
		return nil // in progress (recursion) or known clean
	}
	m[f] = 0
	isClr := func(x ssa.Instruction) bool { return a.clearEvent(x, slot) }
	// blocks/instructions reachable from the entry without passing a clear
	unclearedAt := map[ssa.Instruction]bool{}
	seen := map[*ssa.BasicBlock]bool{}
	var walk func(b *ssa.BasicBlock)
	walk = func(b *ssa.BasicBlock) {
		if seen[b] {
			return
		}
		seen[b] = true
		for _, ins := range b.Instrs {
			if isClr(ins) {
				return
			}
			unclearedAt[ins] = true
		}
		for _, s := range b.Succs {
			walk(s)
		}
	}
	walk(f.Blocks[0])
	var out []ssa.Instruction
	for _, b := range f.Blocks {
		for i, ins := range b.Instrs {
			if !a.mutationEvent(ins, slot) {
				continue
			}
			if !unclearedAt[ins] {
				continue // a clear lies on every path from the entry
			}
			if !escapesFlags(b, i+1, isClr) {
				continue // a clear lies on every path to the exit
			}
			out = append(out, ins)
		}
	}
	if len(out) > 0 {
		m[f] = 2
	}
	return out
}

// escapesFlags: starting at instruction index i of block b a Return can be reached without passing an
// instruction satisfying stop.  Boolean flags are tracked through phis: an edge that carries a constant into a
// phi fixes its value, and a branch on a phi with a known value is only followed on the matching side.
func escapesFlags(b *ssa.BasicBlock, i int, stop func(ssa.Instruction) bool) bool {
	type env map[*ssa.Phi]bool
	key := func(b *ssa.BasicBlock, e env) string {
		var ks []string
		for p, v := range e {
			ks = append(ks, fmt.Sprintf("%s=%v", p.Name(), v))
		}
		sort.Strings(ks)
		return fmt.Sprintf("%d|%s", b.Index, strings.Join(ks, ","))
	}
	seen := map[string]bool{}
	var visit func(b *ssa.BasicBlock, i int, e env) bool
	visit = func(b *ssa.BasicBlock, i int, e env) bool {
		for ; i < len(b.Instrs); i++ {
			ins := b.Instrs[i]
			if stop(ins) {
				return false
			}
			if _, ok := ins.(*ssa.Return); ok {
				return true
			}
		}
		succs := b.Succs
		if iff, ok := b.Instrs[len(b.Instrs)-1].(*ssa.If); ok && len(succs) == 2 {
			cond, neg := iff.Cond, false
			if u, ok := cond.(*ssa.UnOp); ok && u.Op == token.NOT {
				cond, neg = u.X, true
			}
			if p, ok := cond.(*ssa.Phi); ok {
				if v, known := e[p]; known {
					if v != neg {
						succs = succs[:1]
					} else {
						succs = succs[1:]
					}
				}
			}
		}
		for _, s := range succs {
			ne := env{}
			for p, v := range e {
				ne[p] = v
			}
			pi := -1
			for j, q := range s.Preds {
				if q == b {
					pi = j
				}
			}
			for _, ins := range s.Instrs {
				p, ok := ins.(*ssa.Phi)
				if !ok {
					break
				}
				delete(ne, p)
				if pi < 0 || pi >= len(p.Edges) {
					continue
				}
				switch ev := p.Edges[pi].(type) {
				case *ssa.Const:
					if ev.Value != nil && ev.Value.Kind() == constant.Bool {
						ne[p] = constant.BoolVal(ev.Value)
					}
				case *ssa.Phi:
					if v, known := e[ev]; known {
						ne[p] = v
					}
				}
			}
			k := key(s, ne)
			if seen[k] {
				continue
			}
			seen[k] = true
			if visit(s, 0, ne) {
				return true
			}
		}
		return false
	}
	return visit(b, i, env{})
}

func ruleC12Clear(c *Ctx) {
	a := &c12{c: c, memoU: map[string]map[*ssa.Function]int{}, memoC: map[string]map[*ssa.Function]int{}}
	pk := c.P.ByRel["internal/workspace"]
	wsObj := pk.Types.Scope().Lookup("Workspace")
	if wsObj == nil {
		c.undecided("C12-CLEAR", "workspace", "Workspace type", token.NoPos, "type Workspace not found")
		return
	}
	st := wsObj.Type().Underlying().(*types.Struct)
	for i := 0; i < st.NumFields(); i++ {
		if typeHasSuffix(st.Field(i).Type(), "include.ResolvedJournal") {
			a.resolve = st.Field(i).Name()
		}
	}
	for _, f := range c.P.ModuleFuncs() {
		top := f
		for top.Parent() != nil {
			top = top.Parent()
		}
		if o := top.Origin(); o != nil {
			top = o
		}
		if top.Pkg != nil && strings.HasSuffix(top.Pkg.Pkg.Path(), "internal/workspace") {
			a.fns = append(a.fns, f)
		}
	}
	// memo slots
	slots := map[string]bool{}
	for _, f := range a.fns {
		for _, b := range f.Blocks {
			for _, ins := range b.Instrs {
				r, ok := ins.(*ssa.Return)
				if !ok {
					continue
				}
				for _, rv := range r.Results {
					rv = unspillResult(rv, b)
					ld, ok := rv.(*ssa.UnOp)
					if !ok || ld.Op != token.MUL {
						continue
					}
					if _, isMap := ld.Type().Underlying().(*types.Map); !isMap {
						continue
					}
					tested := false
					for _, cc := range controlCondsPol(b) {
						bo, ok := cc.Cond.(*ssa.BinOp)
						if !ok || bo.Op != token.NEQ || !cc.Taken {
							continue
						}
						if k, ok := bo.Y.(*ssa.Const); !ok || k.Value != nil {
							continue
						}
						if bo.X == rv {
							tested = true
						} else if l2, ok := bo.X.(*ssa.UnOp); ok && l2.Op == token.MUL && sameAddr(l2.X, ld.X, 0) {
							tested = true
						}
					}
					if !tested {
						continue
					}
					if p, ok := wsPath(ld.X, 0); ok && len(p) > 0 {
						slots[strings.Join(p, ".")] = true
					} else if prm, ok := ld.X.(*ssa.Parameter); ok {
						idx := -1
						for i, q := range f.Params {
							if q == prm {
								idx = i
							}
						}
						for _, site := range (cgView{c}).callersOf(f) {
							args := site.Common().Args
							if idx >= 0 && idx < len(args) {
								if p, ok := wsPath(args[idx], 0); ok && len(p) > 0 {
									slots[strings.Join(p, ".")] = true
								}
							}
						}
					}
				}
			}
		}
	}
	for s := range slots {
		a.slots = append(a.slots, s)
	}
	sort.Strings(a.slots)
	c.census("C12-CLEAR", "memoised derived caches of the workspace", len(a.slots), 3)
	if a.resolve == "" {
		c.undecided("C12-CLEAR", "workspace.Workspace", "resolved tree field", token.NoPos, "no field of type *include.ResolvedJournal")
		return
	}
	// critical sections: functions that take a write lock and contain (transitively) a mutation of the tree
	var reachesMutation func(f *ssa.Function, seen map[*ssa.Function]bool) bool
	reachesMutation = func(f *ssa.Function, seen map[*ssa.Function]bool) bool {
		if seen[f] {
			return false
		}
		seen[f] = true
		for _, b := range f.Blocks {
			for _, ins := range b.Instrs {
				if a.isMutation(ins) {
					return true
				}
				if cal := calleeInWorkspace(ins); cal != nil && reachesMutation(cal, seen) {
					return true
				}
			}
		}
		return false
	}
	n := 0
	for _, f := range a.fns {
		takesLock := false
		for _, b := range f.Blocks {
			for _, ins := range b.Instrs {
				if call, ok := ins.(*ssa.Call); ok {
					if cal := call.Call.StaticCallee(); cal != nil {
						if s := cal.String(); s == "(*sync.RWMutex).Lock" || s == "(*sync.Mutex).Lock" {
							takesLock = true
						}
					}
				}
			}
		}
		if !takesLock || !reachesMutation(f, map[*ssa.Function]bool{}) {
			continue
		}
		n++
		var missing []string
		pos := f.Pos()
		for _, s := range a.slots {
			if ev := a.unprotected(f, s); len(ev) > 0 {
				missing = append(missing, s)
				pos = ev[0].Pos()
			}
		}
		c.check(len(missing) == 0, "C12-CLEAR", funcName(f), "critical section that mutates the resolved tree clears the derived caches", pos,
			"every mutation of the resolved tree is preceded or followed, on all paths of the critical section, by a clear of every derived cache",
			"the resolved tree is mutated under the lock but the derived caches "+strings.Join(missing, ", ")+" are not cleared on every path of the same critical section: declared sets / formats go stale after an edit")
	}
	c.census("C12-CLEAR", "critical sections mutating the resolved tree", n, 2)
}

// unspillResult: with a deferred call in the function the results are spilled (`*t0 = v; rundefers; return *t0`);
// returns v for such a result.
func unspillResult(rv ssa.Value, b *ssa.BasicBlock) ssa.Value {
	ld, ok := rv.(*ssa.UnOp)
	if !ok || ld.Op != token.MUL {
		return rv
	}
	al, ok := ld.X.(*ssa.Alloc)
	if !ok {
		return rv
	}
	var last ssa.Value
	for _, ins := range b.Instrs {
		if ins == ssa.Instruction(ld) {
			break
		}
		if st, ok := ins.(*ssa.Store); ok && st.Addr == al {
			last = st.Val
		}
	}
	if last != nil {
		return last
	}
	return rv
}

// ruleC12Update (C12-UPDATE): the notification handlers hand every new text to the workspace: a call of
// Workspace.UpdateFile in a handler (or a helper it calls) is control dependent only on the request's address
// (path, presence of a workspace, presence of the document) - never on the text itself (a "nothing relevant
// changed" short cut leaves the workspace's tree on an older version of the file).
func ruleC12Update(c *Ctx) {
	spk := c.P.SSAPkg("internal/server")
	n := 0
	for _, f := range c.P.ModuleFuncs() {
		top := f
		for top.Parent() != nil {
			top = top.Parent()
		}
		if top.Pkg != spk {
			continue
		}
		for _, call := range findCalls(f, func(cal *ssa.Function) bool { return calleeNameIs(cal, "workspace.Workspace).UpdateFile") }) {
			n++
			bad := ""
			var text ssa.Value
			if args := call.Call.Args; len(args) > 0 {
				text = args[len(args)-1]
			}
			for _, cc := range controlDeps(call.Block()) {
				for v := range backSlice(cc.Cond) {
					if text != nil && v == text {
						if _, isConst := v.(*ssa.Const); !isConst {
							bad = "the text that is handed over (its length, its content)"
						}
					}
					switch x := v.(type) {
					case *ssa.FieldAddr:
						if nm := fieldVarOfAddr(x).Name(); nm == "Text" || nm == "ContentChanges" {
							bad = "the notification's text"
						}
					case *ssa.Field:
						if st, ok := x.X.Type().Underlying().(*types.Struct); ok {
							if nm := st.Field(x.Field).Name(); nm == "Text" || nm == "ContentChanges" {
								bad = "the notification's text"
							}
						}
					case *ssa.Call:
						// a comparison / inspection of document texts
						if cal := x.Call.StaticCallee(); cal != nil {
							for _, a := range x.Call.Args {
								if b, ok := a.Type().Underlying().(*types.Basic); ok && b.Info()&types.IsString != 0 {
									for w := range backSlice(a) {
										if ta, ok := w.(*ssa.TypeAssert); ok && types.TypeString(ta.AssertedType, nil) == "string" {
											bad = "the stored text of the document"
										}
									}
								}
							}
						}
					}
				}
			}
			c.check(bad == "", "C12-UPDATE", funcName(f), "workspace update independent of the text", call.Pos(),
				"the workspace receives the new text whenever the document has a path and a workspace exists",
				"the workspace is only told about a change depending on "+bad+": its include tree and index can stay on an older version of the file, and references, rename, completion and hover are answered from it")
		}
	}
	c.census("C12-UPDATE", "calls of Workspace.UpdateFile in the server", n, 1)
}
