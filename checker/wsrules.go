package main

// Workspace-index rules for C12 (DESIGN §3.F T1, T2 and §5 C12-CLEAR / C12-REFRESH).

import (
	"fmt"
	"go/ast"
	"go/token"
	"go/types"
	"golang.org/x/tools/go/ssa"
	"sort"
	"strings"
)

type idxOp struct {
	Src  string // FileIndex field iterated ("" = not inside a range over a FileIndex field)
	Dst  string // WorkspaceIndex field touched
	Op   string // inc, dec, append-key, filter-key, set-path, del-path, overwrite-key, del-key, init, assign
	Pos  token.Pos
	Text string
}

// fieldOfRecv: if e is (rooted at) `recv.F...` returns F.
func rootField(info *types.Info, e ast.Expr, recv types.Object) (string, bool) {
	e = ast.Unparen(e)
	var last string
	for {
		switch x := e.(type) {
		case *ast.SelectorExpr:
			if id, ok := ast.Unparen(x.X).(*ast.Ident); ok && info.Uses[id] == recv {
				return x.Sel.Name, true
			}
			last = x.Sel.Name
			e = ast.Unparen(x.X)
		case *ast.IndexExpr:
			e = ast.Unparen(x.X)
		case *ast.StarExpr:
			e = ast.Unparen(x.X)
		default:
			_ = last
			return "", false
		}
	}
}

func recvObj(info *types.Info, fd *ast.FuncDecl) types.Object {
	if fd.Recv == nil || len(fd.Recv.List) == 0 || len(fd.Recv.List[0].Names) == 0 {
		return nil
	}
	return info.Defs[fd.Recv.List[0].Names[0]]
}

// idxBind says what a variable of a function on the index-update path stands for.
type idxBind struct {
	Kind string // "recv" (the index), "recvField" (one of its fields), "fi" (the file index), "fiField", "path"
	Name string // field name for recvField / fiField
}

// collectIdxOps walks a method of the index type and records how it touches the receiver's fields.
// Calls to functions declared in the module are followed with their parameters bound to what the caller
// passes (the index, one of its fields, the file index, one of its fields, the path), so that moving an
// update loop into a helper does not change the recorded operations.
func collectIdxOps(p *Prog, fd *ast.FuncDecl, fiParam types.Object, pathParam types.Object, depth int) []idxOp {
	info := p.InfoFor(fd)
	env := map[types.Object]idxBind{}
	if r := recvObj(info, fd); r != nil {
		env[r] = idxBind{Kind: "recv"}
	}
	if fiParam != nil {
		env[fiParam] = idxBind{Kind: "fi"}
	}
	if pathParam != nil {
		env[pathParam] = idxBind{Kind: "path"}
	}
	return collectIdxOpsEnv(p, fd, env, "", depth)
}

// boundField resolves e (rooted at a bound variable) to the field of the index / of the file index it denotes.
func boundField(info *types.Info, env map[types.Object]idxBind, e ast.Expr, want string) (string, bool) {
	return boundFieldP(nil, info, env, e, want, 0)
}

func boundFieldP(p *Prog, info *types.Info, env map[types.Object]idxBind, e ast.Expr, want string, depth int) (string, bool) {
	e = ast.Unparen(e)
	for {
		switch x := e.(type) {
		case *ast.CallExpr:
			// a conversion to a named map/slice type keeps the location
			if tv, ok := info.Types[x.Fun]; ok && tv.IsType() && len(x.Args) == 1 {
				e = ast.Unparen(x.Args[0])
				continue
			}
			// an accessor of the module: every return statement yields (a part of) one field of the bound variable
			if p == nil || depth > 2 {
				return "", false
			}
			o, ok := calleeOf(info, x).(*types.Func)
			if !ok {
				return "", false
			}
			decl := p.declOf[o]
			if decl == nil || decl.Body == nil {
				return "", false
			}
			dinfo := p.InfoFor(decl)
			sub := map[types.Object]idxBind{}
			if se, ok := ast.Unparen(x.Fun).(*ast.SelectorExpr); ok && decl.Recv != nil {
				if id, ok := ast.Unparen(se.X).(*ast.Ident); ok {
					if b, ok := env[info.Uses[id]]; ok {
						if r := recvObj(dinfo, decl); r != nil {
							sub[r] = b
						}
					}
				}
			}
			// locals of the accessor defined from a field of the bound variable
			ast.Inspect(decl.Body, func(n ast.Node) bool {
				if as, ok := n.(*ast.AssignStmt); ok && as.Tok == token.DEFINE && len(as.Lhs) >= 1 && len(as.Rhs) == 1 {
					if id, ok := as.Lhs[0].(*ast.Ident); ok {
						if f, ok := boundFieldP(p, dinfo, sub, as.Rhs[0], want, depth+1); ok {
							sub[dinfo.Defs[id]] = idxBind{Kind: want + "Field", Name: f}
						}
					}
				}
				return true
			})
			field, n := "", 0
			consistent := true
			ast.Inspect(decl.Body, func(n2 ast.Node) bool {
				if _, isLit := n2.(*ast.FuncLit); isLit {
					return false
				}
				if r, ok := n2.(*ast.ReturnStmt); ok && len(r.Results) == 1 {
					n++
					f, ok := boundFieldP(p, dinfo, sub, r.Results[0], want, depth+1)
					if !ok || (field != "" && f != field) {
						consistent = false
					}
					field = f
				}
				return true
			})
			if n > 0 && consistent && field != "" {
				return field, true
			}
			return "", false
		case *ast.SelectorExpr:
			if id, ok := ast.Unparen(x.X).(*ast.Ident); ok {
				if b, ok := env[info.Uses[id]]; ok && b.Kind == want {
					return x.Sel.Name, true
				}
			}
			e = ast.Unparen(x.X)
		case *ast.IndexExpr:
			e = ast.Unparen(x.X)
		case *ast.StarExpr:
			e = ast.Unparen(x.X)
		case *ast.Ident:
			if b, ok := env[info.Uses[x]]; ok && b.Kind == want+"Field" {
				return b.Name, true
			}
			return "", false
		default:
			return "", false
		}
	}
}

func collectIdxOpsEnv(p *Prog, fd *ast.FuncDecl, env map[types.Object]idxBind, src0 string, depth int) []idxOp {
	info := p.InfoFor(fd)
	var ops []idxOp
	var visit func(n ast.Node, src string)
	record := func(src, dst, op string, pos token.Pos, n ast.Node) {
		ops = append(ops, idxOp{src, dst, op, pos, exprStr(p.Fset, n)})
	}
	isPath := func(e ast.Expr) bool {
		id, ok := ast.Unparen(e).(*ast.Ident)
		return ok && env[info.Uses[id]].Kind == "path"
	}
	recvField := func(e ast.Expr) (string, bool) { return boundFieldP(p, info, env, e, "recv", 0) }
	visit = func(n ast.Node, src string) {
		ast.Inspect(n, func(x ast.Node) bool {
			switch s := x.(type) {
			case *ast.RangeStmt:
				// range fi.F, or range over a parameter bound to fi.F; nested ranges over the loop's own values keep the source
				if f, ok := boundFieldP(p, info, env, s.X, "fi", 0); ok {
					visit(s.Body, f)
					return false
				}
				return true
			case *ast.AssignStmt:
				if s.Tok == token.DEFINE && len(s.Lhs) == 1 && len(s.Rhs) == 1 {
					// a local alias of (a part of) a field of the index: `dates := usageCounts(idx.dateCounts)`
					if id, ok := s.Lhs[0].(*ast.Ident); ok {
						if t := info.TypeOf(s.Rhs[0]); t != nil {
							switch t.Underlying().(type) {
							case *types.Map, *types.Slice, *types.Pointer:
								if f, ok := recvField(s.Rhs[0]); ok {
									env[info.Defs[id]] = idxBind{Kind: "recvField", Name: f}
								}
							}
						}
					}
				}
				for i, lhs := range s.Lhs {
					dst, ok := recvField(lhs)
					if !ok {
						continue
					}
					if _, bare := ast.Unparen(lhs).(*ast.Ident); bare {
						continue // re-binding a local parameter, not a store into the index
					}
					var rhs ast.Expr
					if i < len(s.Rhs) {
						rhs = s.Rhs[i]
					}
					key := firstIndexAny(lhs)
					switch {
					case s.Tok == token.ADD_ASSIGN:
						record(src, dst, "inc", s.Pos(), s)
					case s.Tok == token.SUB_ASSIGN:
						record(src, dst, "dec", s.Pos(), s)
					case s.Tok == token.ASSIGN && rhs != nil:
						if call, ok := ast.Unparen(rhs).(*ast.CallExpr); ok {
							fn := identOf(call.Fun).Name
							if fn == "append" {
								record(src, dst, "append-key", s.Pos(), s)
								continue
							}
							if fn == "make" {
								record(src, dst, "init", s.Pos(), s)
								continue
							}
						}
						// `if v == nil { v = make(...); m[k] = v }`: lazy initialisation of the slot
						if id, ok := ast.Unparen(rhs).(*ast.Ident); ok && madeInSameBlock(info, fd, s, info.Uses[id]) {
							record(src, dst, "init", s.Pos(), s)
							continue
						}
						// `m[k] = m[k] - n` (possibly through a local: `if rest := m[k] - n; rest > 0 { m[k] = rest }`)
						if key != nil {
							if op := arithOnSlot(info, fd, rhs, func(e ast.Expr) bool {
								f, ok := recvField(e)
								return ok && f == dst
							}); op != "" {
								record(src, dst, op, s.Pos(), s)
								continue
							}
						}
						// the slot is replaced by a value computed from its own previous content (elements dropped):
						// a removal of this file's share
						if key != nil && derivesFromSlot(info, fd, rhs, func(e ast.Expr) bool {
							f, ok := recvField(e)
							return ok && f == dst
						}, 0) {
							record(src, dst, "filter-key", s.Pos(), s)
							continue
						}
						if key == nil {
							record(src, dst, "assign", s.Pos(), s)
						} else if isPath(key) {
							record(src, dst, "set-path", s.Pos(), s)
						} else {
							record(src, dst, "overwrite-key", s.Pos(), s)
						}
					}
				}
			case *ast.IncDecStmt:
				if dst, ok := recvField(s.X); ok {
					if s.Tok == token.INC {
						record(src, dst, "inc", s.Pos(), s)
					} else {
						record(src, dst, "dec", s.Pos(), s)
					}
				}
			case *ast.CallExpr:
				if id, ok := ast.Unparen(s.Fun).(*ast.Ident); ok && id.Name == "delete" && len(s.Args) == 2 {
					if dst, ok := recvField(s.Args[0]); ok {
						if isPath(s.Args[1]) {
							record(src, dst, "del-path", s.Pos(), s)
						} else {
							record(src, dst, "del-key", s.Pos(), s)
						}
					}
					return true
				}
				// functions of the module: follow with parameters bound to what is passed
				o, ok := calleeOf(info, s).(*types.Func)
				if !ok || depth >= 4 {
					return true
				}
				decl := p.declOf[o]
				if decl == nil || decl.Body == nil {
					return true
				}
				dinfo := p.InfoFor(decl)
				sub := map[types.Object]idxBind{}
				touches := false
				if se, ok := ast.Unparen(s.Fun).(*ast.SelectorExpr); ok && decl.Recv != nil {
					if id, ok := ast.Unparen(se.X).(*ast.Ident); ok {
						if b, ok := env[info.Uses[id]]; ok {
							if r := recvObj(dinfo, decl); r != nil {
								sub[r] = b
								touches = touches || b.Kind == "recv" || b.Kind == "recvField"
							}
						}
					} else if f, ok := boundFieldP(p, info, env, se.X, "recv", 0); ok {
						// a method of a named map/slice type called on (a conversion / an accessor of) a field of the index
						if r := recvObj(dinfo, decl); r != nil {
							sub[r] = idxBind{Kind: "recvField", Name: f}
							touches = true
						}
					}
				}
				i := 0
				if decl.Type.Params != nil {
					for _, fl := range decl.Type.Params.List {
						for _, nm := range fl.Names {
							if i < len(s.Args) {
								arg := ast.Unparen(s.Args[i])
								if id, ok := arg.(*ast.Ident); ok {
									if b, ok := env[info.Uses[id]]; ok {
										sub[dinfo.Defs[nm]] = b
										touches = touches || b.Kind == "recv" || b.Kind == "recvField"
									}
								} else if f, ok := boundFieldP(p, info, env, arg, "recv", 0); ok {
									if _, isBasic := dinfo.Defs[nm].Type().Underlying().(*types.Basic); !isBasic {
										sub[dinfo.Defs[nm]] = idxBind{Kind: "recvField", Name: f}
										touches = true
									}
								} else if f, ok := boundFieldP(p, info, env, arg, "fi", 0); ok {
									sub[dinfo.Defs[nm]] = idxBind{Kind: "fiField", Name: f}
								}
							}
							i++
						}
					}
				}
				if !touches {
					return true
				}
				for _, so := range collectIdxOpsEnv(p, decl, sub, src, depth+1) {
					if so.Src == "" {
						so.Src = src
					}
					so.Pos = s.Pos()
					so.Text = exprStr(p.Fset, s) + " -> " + so.Text
					ops = append(ops, so)
				}
			}
			return true
		})
	}
	visit(fd.Body, src0)
	return ops
}

// derivesFromSlot: e mentions the slot (isSlot), or is a local variable some definition of which does
// (transitively; `kept = append(kept, x)` with x ranging over a deriving local counts).
func derivesFromSlot(info *types.Info, fd *ast.FuncDecl, e ast.Expr, isSlot func(ast.Expr) bool, depth int) bool {
	if depth > 4 {
		return false
	}
	found := false
	ast.Inspect(e, func(x ast.Node) bool {
		if ex, ok := x.(ast.Expr); ok && !found {
			switch ex.(type) {
			case *ast.SelectorExpr, *ast.IndexExpr:
				if isSlot(ex) {
					found = true
					return false
				}
			}
		}
		return !found
	})
	if found {
		return true
	}
	// locals
	var locals []types.Object
	ast.Inspect(e, func(x ast.Node) bool {
		if id, ok := x.(*ast.Ident); ok {
			if v, ok := info.Uses[id].(*types.Var); ok && !v.IsField() && v.Pos() >= fd.Pos() && v.Pos() <= fd.End() {
				locals = append(locals, v)
			}
		}
		return true
	})
	for _, v := range locals {
		derives := false
		ast.Inspect(fd.Body, func(x ast.Node) bool {
			switch n := x.(type) {
			case *ast.AssignStmt:
				for i, l := range n.Lhs {
					id, ok := l.(*ast.Ident)
					if !ok || (info.Defs[id] != v && info.Uses[id] != v) {
						continue
					}
					var r ast.Expr
					if len(n.Rhs) == len(n.Lhs) {
						r = n.Rhs[i]
					} else if len(n.Rhs) == 1 {
						r = n.Rhs[0]
					}
					if r == nil {
						continue
					}
					// avoid trivial self reference `v = append(v, ...)`: look at the other operands
					if derivesExcluding(info, fd, r, v, isSlot, depth+1) {
						derives = true
					}
				}
			case *ast.RangeStmt:
				for _, kv := range []ast.Expr{n.Key, n.Value} {
					if kv != nil && info.Defs[identOf(kv)] == v && derivesFromSlot(info, fd, n.X, isSlot, depth+1) {
						derives = true
					}
				}
			}
			return true
		})
		if derives {
			return true
		}
	}
	return false
}

func derivesExcluding(info *types.Info, fd *ast.FuncDecl, r ast.Expr, self types.Object, isSlot func(ast.Expr) bool, depth int) bool {
	// r with occurrences of `self` ignored
	found := false
	ast.Inspect(r, func(x ast.Node) bool {
		if found {
			return false
		}
		if id, ok := x.(*ast.Ident); ok && info.Uses[id] == self {
			return false
		}
		if ex, ok := x.(ast.Expr); ok {
			if _, isCall := ex.(*ast.CallExpr); !isCall {
				if _, isId := ex.(*ast.Ident); isId || isSlot(ex) {
					if derivesFromSlot(info, fd, ex, isSlot, depth) {
						found = true
						return false
					}
				}
			}
		}
		return true
	})
	return found
}

// firstIndexAny returns the outermost index expression of an lvalue like idx.G[k], idx.G[k][j] or counts[k].
func firstIndexAny(e ast.Expr) ast.Expr {
	var idx ast.Expr
	e = ast.Unparen(e)
	for {
		x, ok := e.(*ast.IndexExpr)
		if !ok {
			return idx
		}
		idx = x.Index
		e = ast.Unparen(x.X)
	}
}

func ruleT1T2(c *Ctx) {
	pk := c.P.ByRel["internal/workspace"]
	info := pk.TypesInfo
	// role: the index type = the named struct type that has a map field whose value type is a pointer to a
	// struct ("file index") and two methods taking (string, *thatStruct).
	var addFd, remFd, snapFd *ast.FuncDecl
	var derivedFds []*ast.FuncDecl
	var cands []*ast.FuncDecl
	for _, f := range pk.Syntax {
		for _, d := range f.Decls {
			fd, ok := d.(*ast.FuncDecl)
			if !ok || fd.Recv == nil || fd.Body == nil || fd.Type.Params == nil {
				continue
			}
			nparams := 0
			hasFI := false
			for _, fl := range fd.Type.Params.List {
				nparams += len(fl.Names)
				if t := info.TypeOf(fl.Type); t != nil && strings.HasSuffix(types.TypeString(t, nil), "workspace.FileIndex") {
					hasFI = true
				}
			}
			if hasFI && nparams == 2 {
				cands = append(cands, fd)
			}
		}
	}
	paramObjs := func(fd *ast.FuncDecl) (path, fi types.Object) {
		for _, fl := range fd.Type.Params.List {
			t := info.TypeOf(fl.Type)
			for _, n := range fl.Names {
				if t != nil && strings.HasSuffix(types.TypeString(t, nil), "workspace.FileIndex") {
					fi = info.Defs[n]
				} else if b, ok := t.Underlying().(*types.Basic); ok && b.Kind() == types.String {
					path = info.Defs[n]
				}
			}
		}
		return
	}
	opsOf := map[*ast.FuncDecl][]idxOp{}
	for _, fd := range cands {
		path, fi := paramObjs(fd)
		ops := collectIdxOps(c.P, fd, fi, path, 0)
		opsOf[fd] = ops
		for _, o := range ops {
			if o.Op == "set-path" {
				addFd = fd
			}
			if o.Op == "del-path" && addFd != fd {
				remFd = fd
			}
		}
	}
	// SetFileIndex-like wrappers also match (they call both); keep the ones that touch fields directly
	if addFd == nil || remFd == nil || addFd == remFd {
		c.undecided("T1", "workspace", "index add/remove pair", token.NoPos, "could not identify the add and remove methods of the workspace index (methods taking (path string, *FileIndex) that set / delete the per-file slot)")
		return
	}
	// T1-SLOT: the per-file slot is written in one place only - the add method (or one helper of it).  A second
	// function that swaps a file's entry directly bypasses the add/remove pair and with it everything that is
	// recomputed there (aggregates, derived lists, payee templates).
	{
		wpk := c.P.SSAPkg("internal/workspace")
		storing := map[*ssa.Function]token.Pos{}
		for _, f := range c.P.ModuleFuncs() {
			top := f
			for top.Parent() != nil {
				top = top.Parent()
			}
			if top.Pkg != wpk {
				continue
			}
			for _, b := range f.Blocks {
				for _, ins := range b.Instrs {
					mu, ok := ins.(*ssa.MapUpdate)
					if !ok {
						continue
					}
					mt, ok := mu.Map.Type().Underlying().(*types.Map)
					if !ok {
						continue
					}
					pt, ok := mt.Elem().Underlying().(*types.Pointer)
					if !ok || !typeHasSuffix(pt.Elem(), "workspace.FileIndex") {
						continue
					}
					if fv := mapFieldOf(mu.Map); fv == nil {
						continue // a local map, not the index's slot table
					}
					storing[f] = mu.Pos()
				}
			}
		}
		var names []string
		for f := range storing {
			names = append(names, funcName(f))
		}
		sort.Strings(names)
		c.check(len(storing) == 1, "T1", "workspace", "the per-file slot is written in one place", token.NoPos,
			"one function stores a file's index in the slot table: "+strings.Join(names, ", "),
			"a file's entry in the index's slot table is stored by "+fmt.Sprint(len(storing))+" functions ("+strings.Join(names, ", ")+"): a store outside the add method bypasses the add/remove pair, so aggregates and lists derived from the file's content are not recomputed")
	}
	recvName := recvTypeName(addFd)
	// derived: methods on the same receiver called by BOTH add and remove (unconditionally, top level)
	topCalls := func(fd *ast.FuncDecl) map[string]bool {
		out := map[string]bool{}
		for _, st := range fd.Body.List {
			if es, ok := st.(*ast.ExprStmt); ok {
				if call, ok := es.X.(*ast.CallExpr); ok {
					if o, ok := calleeOf(info, call).(*types.Func); ok {
						out[o.Name()] = true
					}
				}
			}
		}
		return out
	}
	ac, rc := topCalls(addFd), topCalls(remFd)
	for name := range ac {
		if rc[name] {
			if fd := c.P.FuncDecl("internal/workspace", recvName+"."+name); fd != nil {
				derivedFds = append(derivedFds, fd)
			}
		}
	}
	snapFd = nil
	for _, f := range pk.Syntax {
		for _, d := range f.Decls {
			fd, ok := d.(*ast.FuncDecl)
			if ok && fd.Recv != nil && recvTypeName(fd) == recvName && fd.Type.Results != nil && len(fd.Type.Results.List) == 1 {
				if t := info.TypeOf(fd.Type.Results.List[0].Type); t != nil && strings.HasSuffix(types.TypeString(t, nil), "workspace.IndexSnapshot") {
					snapFd = fd
				}
			}
		}
	}
	an, rn := c.P.declName(addFd), c.P.declName(remFd)

	// --- T1: field-by-field inverse
	type key struct{ src, dst string }
	var derivedWrites map[string]bool
	group := func(ops []idxOp) map[key][]idxOp {
		m := map[key][]idxOp{}
		for _, o := range ops {
			if o.Op == "init" {
				continue // lazily created inner map: not an aggregate update
			}
			if o.Op == "assign" && derivedWrites[o.Dst] {
				continue // recomputed from the index state by the common refresh function
			}
			m[key{o.Src, o.Dst}] = append(m[key{o.Src, o.Dst}], o)
		}
		return m
	}
	derivedWrites = map[string]bool{}
	derivedReads := map[string]bool{}
	for _, dfd := range derivedFds {
		dinfo := c.P.InfoFor(dfd)
		drecv := recvObj(dinfo, dfd)
		ast.Inspect(dfd.Body, func(x ast.Node) bool {
			if as, ok := x.(*ast.AssignStmt); ok {
				for _, l := range as.Lhs {
					if f, ok := rootField(dinfo, l, drecv); ok {
						derivedWrites[f] = true
					}
				}
				for _, r := range as.Rhs {
					ast.Inspect(r, func(y ast.Node) bool {
						if e, ok := y.(ast.Expr); ok {
							if f, ok := rootField(dinfo, e, drecv); ok {
								derivedReads[f] = true
							}
						}
						return true
					})
				}
			}
			return true
		})
	}
	ga, gr := group(opsOf[addFd]), group(opsOf[remFd])
	inverse := map[string]string{"inc": "dec", "append-key": "filter-key", "set-path": "del-path"}
	var keys []key
	seen := map[key]bool{}
	for k := range ga {
		if !seen[k] {
			seen[k] = true
			keys = append(keys, k)
		}
	}
	for k := range gr {
		if !seen[k] {
			seen[k] = true
			keys = append(keys, k)
		}
	}
	sort.Slice(keys, func(i, j int) bool { return keys[i].src+keys[i].dst < keys[j].src+keys[j].dst })
	nPairs := 0
	for _, k := range keys {
		if k.src == "" && k.dst == "" {
			continue
		}
		desc := fmt.Sprintf("aggregate %s fed by FileIndex.%s", k.dst, k.src)
		if k.src == "" {
			desc = "per-file slot " + k.dst
		}
		a, r := ga[k], gr[k]
		if derivedWrites[k.dst] && len(a) == 0 && len(r) == 0 {
			continue
		}
		nPairs++
		if len(a) == 0 || len(r) == 0 {
			side, pos := rn, remFd.Pos()
			if len(a) == 0 {
				side, pos = an, addFd.Pos()
			}
			c.finding("T1", an+"/"+remFd.Name.Name, desc, pos, fmt.Sprintf("%s is updated by only one of the add/remove pair (missing in %s): the incremental view drifts from a rebuild", k.dst, side))
			continue
		}
		// every add op must have its inverse among the remove ops
		okAll := true
		var why string
		for _, ao := range a {
			inv, invertible := inverse[ao.Op]
			if !invertible {
				okAll = false
				why = fmt.Sprintf("add operation `%s` (%s) has no inverse: a value stored by overwrite cannot be restored by removing one file's contribution", ao.Text, ao.Op)
				break
			}
			found := false
			for _, ro := range r {
				if ro.Op == inv {
					found = true
				}
			}
			if !found {
				okAll = false
				var rops []string
				for _, ro := range r {
					rops = append(rops, ro.Op)
				}
				why = fmt.Sprintf("add does `%s` (%s) but remove does %v; expected %s", ao.Text, ao.Op, rops, inv)
				break
			}
		}
		c.check(okAll, "T1", an+"/"+remFd.Name.Name, desc, a[0].Pos, "add and remove are inverse ("+a[0].Op+" / "+inverse[a[0].Op]+")", why)
	}
	c.census("T1", "aggregates maintained by the add/remove pair", nPairs, 6)
	// derived refresh is called last by both
	lastCall := func(fd *ast.FuncDecl) string {
		if n := len(fd.Body.List); n > 0 {
			if es, ok := fd.Body.List[n-1].(*ast.ExprStmt); ok {
				if call, ok := es.X.(*ast.CallExpr); ok {
					if o := calleeOf(info, call); o != nil {
						return o.Name()
					}
				}
			}
		}
		return ""
	}
	for _, dfd := range derivedFds {
		for _, fd := range []*ast.FuncDecl{addFd, remFd} {
			c.check(lastCall(fd) == dfd.Name.Name, "T1", c.P.declName(fd), "derived lists refreshed after the update", fd.Pos(),
				"derived lists are recomputed as the last step", "the derived lists ("+dfd.Name.Name+") are not recomputed as the last step of "+fd.Name.Name)
		}
	}
	if len(derivedFds) == 0 {
		c.finding("T1", an, "derived lists refreshed after the update", addFd.Pos(), "no common refresh of derived lists is called by both add and remove")
	}

	// --- T2: snapshot completeness
	if snapFd == nil {
		c.undecided("T2", "workspace", "snapshot function", token.NoPos, "no method returning IndexSnapshot found")
		return
	}
	sinfo := c.P.InfoFor(snapFd)
	srecv := recvObj(sinfo, snapFd)
	snapReads := map[string]bool{}
	ast.Inspect(snapFd.Body, func(x ast.Node) bool {
		if e, ok := x.(ast.Expr); ok {
			if f, ok := rootField(sinfo, e, srecv); ok {
				snapReads[f] = true
			}
		}
		return true
	})
	written := map[string]bool{}
	for _, o := range opsOf[addFd] {
		if o.Op != "set-path" {
			written[o.Dst] = true
		}
	}
	for f := range derivedWrites {
		written[f] = true
	}
	var ws []string
	for f := range written {
		ws = append(ws, f)
	}
	sort.Strings(ws)
	for _, f := range ws {
		okF := snapReads[f] || derivedReads[f]
		c.check(okF, "T2", c.P.declName(snapFd), "snapshot covers aggregate "+f, snapFd.Pos(),
			"aggregate is exported by the snapshot (directly or through a derived list)",
			"aggregate "+f+" is maintained by the index but neither exported by the snapshot nor used for a derived list: the workspace view is incomplete")
	}
	c.census("T2", "aggregates written by add/refresh", len(ws), 8)
}

// ---------- C12-CLEAR / C12-REFRESH ----------

// flagSetWithMutation: flag is a local bool; every statement list of fd that contains a mutation of the
// resolved tree (direct or via a mutating method call) also contains `flag = true`.
func flagSetWithMutation(info *types.Info, fd *ast.FuncDecl, flag types.Object, resolvedField string, recv types.Object, methods map[string]*ast.FuncDecl, mutating func(string) bool) bool {
	ok := true
	sawMutation := false
	ast.Inspect(fd.Body, func(x ast.Node) bool {
		blk, isBlk := x.(*ast.BlockStmt)
		if !isBlk {
			return true
		}
		mut, set := false, false
		for _, st := range blk.List {
			switch n := st.(type) {
			case *ast.ExprStmt:
				if call, ok := n.X.(*ast.CallExpr); ok {
					if se, ok := ast.Unparen(call.Fun).(*ast.SelectorExpr); ok {
						if id, ok := ast.Unparen(se.X).(*ast.Ident); ok && info.Uses[id] == recv && mutating(se.Sel.Name) {
							mut = true
						}
					}
				}
			case *ast.AssignStmt:
				for i, l := range n.Lhs {
					if f, ok := rootField(info, l, recv); ok && f == resolvedField {
						mut = true
					}
					if id, ok := l.(*ast.Ident); ok && info.Uses[id] == flag && i < len(n.Rhs) && identOf(n.Rhs[i]).Name == "true" {
						set = true
					}
				}
			}
		}
		if mut {
			sawMutation = true
			if !set {
				ok = false
			}
		}
		return true
	})
	return ok && sawMutation
}

func ruleC12Refresh(c *Ctx) {
	pk := c.P.ByRel["internal/workspace"]
	info := pk.TypesInfo
	refresh, _, passBody, passOwner := findRefreshFixpointBody(c.P)
	if refresh == nil {
		c.undecided("C12-REFRESH", "workspace.Workspace", "include-tree refresh fixpoint", token.NoPos, "no Workspace method with a fixpoint loop found")
		return
	}
	rname := c.P.declName(refresh)
	// (a) every argument passed to same-receiver calls inside the loop is (re)computed inside the loop
	recv := recvObj(info, passOwner)
	nArgs := 0
	ast.Inspect(passBody, func(x ast.Node) bool {
		call, ok := x.(*ast.CallExpr)
		if !ok {
			return true
		}
		se, ok := ast.Unparen(call.Fun).(*ast.SelectorExpr)
		if !ok {
			return true
		}
		if id, ok := ast.Unparen(se.X).(*ast.Ident); !ok || info.Uses[id] != recv {
			return true
		}
		for _, a := range call.Args {
			id, ok := ast.Unparen(a).(*ast.Ident)
			if !ok {
				continue
			}
			o := info.Uses[id]
			if o == nil {
				continue
			}
			nArgs++
			inLoop := o.Pos() >= passBody.Pos() && o.Pos() <= passBody.End()
			c.check(inLoop, "C12-REFRESH", rname, "fixpoint recomputes "+se.Sel.Name+" argument", call.Pos(),
				"the set passed to "+se.Sel.Name+" is recomputed in every iteration of the fixpoint",
				"the set passed to "+se.Sel.Name+" is computed once outside the fixpoint loop: files that become reachable through newly added files are never loaded")
		}
		return true
	})
	c.census("C12-REFRESH", "sets passed to add/remove inside the fixpoint", nArgs, 2)
	// (b) call sites of the refresh: unconditional, or guarded by an element-wise comparison of include lists
	nSites := 0
	for _, fd := range c.P.AllFuncDecls() {
		if c.P.pkgOf[fd] != pk {
			continue
		}
		ast.Inspect(fd.Body, func(x ast.Node) bool {
			call, ok := x.(*ast.CallExpr)
			if !ok {
				return true
			}
			if o, ok := calleeOf(info, call).(*types.Func); !ok || c.P.declOf[o] != refresh {
				return true
			}
			nSites++
			frames := enclosingConds(c.P, info, fd.Body, call)
			okSite := true
			why := ""
			for _, fr := range frames {
				if fr.Kind != "if" && fr.Kind != "else" {
					okSite = false
					why = "called inside a " + fr.Kind
					continue
				}
				if !elementwiseListGuard(c.P, info, fr.Cond) {
					okSite = false
					why = "guard `" + exprStr(c.P.Fset, fr.Cond) + "` does not compare the old and new include lists element by element"
				}
			}
			c.check(okSite, "C12-REFRESH", c.P.declName(fd), "include tree refreshed when the include list changed", call.Pos(),
				"refresh is unconditional or guarded by an element-wise comparison of the old and new include lists",
				"the include-tree refresh can be skipped although the include list changed: "+why)
			return true
		})
	}
	c.census("C12-REFRESH", "call sites of the include-tree refresh", nSites, 1)
}

// findRefreshFixpoint (role): the method of the workspace type that re-establishes the include tree: it has
// a non-range `for` loop in whose body a set (a map) is computed by a call on the receiver and handed to
// further calls on the receiver.
func findRefreshFixpoint(p *Prog) (*ast.FuncDecl, *ast.ForStmt) {
	fd, loop, _, _ := findRefreshFixpointBody(p)
	return fd, loop
}

// findRefreshFixpointBody also returns the statements of one pass and the function they belong to: the loop's own
// body, or - for `for w.onePass() { }` - the body of the receiver method that is the loop's condition.
func findRefreshFixpointBody(p *Prog) (*ast.FuncDecl, *ast.ForStmt, *ast.BlockStmt, *ast.FuncDecl) {
	pk := p.ByRel["internal/workspace"]
	if pk == nil {
		return nil, nil, nil, nil
	}
	info := pk.TypesInfo
	methods := map[types.Object]*ast.FuncDecl{}
	for _, f := range pk.Syntax {
		for _, d := range f.Decls {
			if fd, ok := d.(*ast.FuncDecl); ok && fd.Recv != nil && fd.Body != nil {
				methods[info.Defs[fd.Name]] = fd
			}
		}
	}
	baseIsRecv := func(e ast.Expr, recv types.Object) bool {
		base := ast.Unparen(e)
		for {
			inner, ok := base.(*ast.SelectorExpr)
			if !ok {
				break
			}
			base = ast.Unparen(inner.X)
		}
		id, ok := base.(*ast.Ident)
		return ok && recv != nil && info.Uses[id] == recv
	}
	// onePass: in `body` (of a method with receiver recv) a set computed by a call on the receiver - or by a plain
	// function applied to parts of it - is handed to further calls on the receiver
	onePass := func(body *ast.BlockStmt, recv types.Object) bool {
		onRecv := func(call *ast.CallExpr) bool {
			se, ok := ast.Unparen(call.Fun).(*ast.SelectorExpr)
			return ok && baseIsRecv(se.X, recv)
		}
		argsOfRecv := func(call *ast.CallExpr) bool {
			if len(call.Args) == 0 {
				return false
			}
			for _, a := range call.Args {
				if !baseIsRecv(a, recv) {
					return false
				}
			}
			return true
		}
		sets := map[types.Object]bool{}
		passed := false
		ast.Inspect(body, func(y ast.Node) bool {
			switch n := y.(type) {
			case *ast.AssignStmt:
				if len(n.Lhs) == 1 && len(n.Rhs) == 1 {
					if call, ok := ast.Unparen(n.Rhs[0]).(*ast.CallExpr); ok && (onRecv(call) || argsOfRecv(call)) {
						if t := info.TypeOf(n.Rhs[0]); t != nil {
							if _, isMap := t.Underlying().(*types.Map); isMap {
								if o := info.Defs[identOf(n.Lhs[0])]; o != nil {
									sets[o] = true
								}
							}
						}
					}
				}
			case *ast.CallExpr:
				if onRecv(n) {
					for _, a := range n.Args {
						if sets[info.Uses[identOf(a)]] {
							passed = true
						}
					}
				}
			}
			return true
		})
		return passed
	}
	var refresh, owner *ast.FuncDecl
	var loop *ast.ForStmt
	var pass *ast.BlockStmt
	for _, f := range pk.Syntax {
		for _, d := range f.Decls {
			fd, ok := d.(*ast.FuncDecl)
			if !ok || fd.Recv == nil || fd.Body == nil {
				continue
			}
			recv := recvObj(info, fd)
			ast.Inspect(fd.Body, func(x ast.Node) bool {
				fs, ok := x.(*ast.ForStmt)
				if !ok {
					return true
				}
				if onePass(fs.Body, recv) {
					refresh, loop, pass, owner = fd, fs, fs.Body, fd
					return true
				}
				// `for w.onePass() { }`: the pass is the method called in the condition
				if fs.Cond != nil && fs.Init == nil && fs.Post == nil {
					cond := ast.Unparen(fs.Cond)
					if call, ok := cond.(*ast.CallExpr); ok && len(call.Args) == 0 {
						if se, ok := ast.Unparen(call.Fun).(*ast.SelectorExpr); ok && baseIsRecv(se.X, recv) {
							if m := methods[info.Uses[se.Sel]]; m != nil && onePass(m.Body, recvObj(info, m)) {
								refresh, loop, pass, owner = fd, fs, m.Body, m
							}
						}
					}
				}
				return true
			})
		}
	}
	return refresh, loop, pass, owner
}

// elementwiseListGuard: cond is `!eq(a, b)` where eq is slices.Equal / reflect.DeepEqual or a module
// function over two slices whose body compares a[i] with b[i].
func elementwiseListGuard(p *Prog, info *types.Info, cond ast.Expr) bool {
	return elementwiseListGuardDepth(p, info, cond, 0)
}

func elementwiseListGuardDepth(p *Prog, info *types.Info, cond ast.Expr, depth int) bool {
	cond = resolveSingleDef(p, info, cond)
	// the verdict of a helper (`changed := w.reindexFileLocked(...)`): every value it returns is such a comparison
	if call, ok := ast.Unparen(cond).(*ast.CallExpr); ok && depth < 2 {
		if fn, ok := calleeOf(info, call).(*types.Func); ok {
			if decl := p.declOf[fn]; decl != nil && decl.Body != nil && decl.Type.Results != nil && len(decl.Type.Results.List) == 1 {
				dinfo := p.InfoFor(decl)
				n, all := 0, true
				ast.Inspect(decl.Body, func(x ast.Node) bool {
					if _, isLit := x.(*ast.FuncLit); isLit {
						return false
					}
					if r, ok := x.(*ast.ReturnStmt); ok && len(r.Results) == 1 {
						n++
						if !elementwiseListGuardDepth(p, dinfo, r.Results[0], depth+1) {
							all = false
						}
					}
					return true
				})
				if n > 0 && all {
					return true
				}
			}
		}
	}
	u, ok := ast.Unparen(cond).(*ast.UnaryExpr)
	if !ok || u.Op != token.NOT {
		return false
	}
	call, ok := ast.Unparen(u.X).(*ast.CallExpr)
	if !ok || len(call.Args) != 2 {
		return false
	}
	return elementwiseEqFunc(p, calleeOf(info, call), 0)
}

// elementwiseEqFunc: o is slices.Equal / reflect.DeepEqual, or a module function over two slices that
// compares a[i] with b[i], or one that hands both parameters on to such a function.
func elementwiseEqFunc(p *Prog, o types.Object, depth int) bool {
	switch qualName(o) {
	case "slices.Equal", "reflect.DeepEqual":
		return true
	}
	fn, ok := o.(*types.Func)
	if !ok || depth > 3 {
		return false
	}
	decl := p.declOf[fn]
	if decl == nil || decl.Body == nil {
		return false
	}
	dinfo := p.InfoFor(decl)
	var ps []types.Object
	for _, fl := range decl.Type.Params.List {
		for _, n := range fl.Names {
			ps = append(ps, dinfo.Defs[n])
		}
	}
	if len(ps) != 2 {
		return false
	}
	isPair := func(x, y ast.Expr) bool {
		a, b := dinfo.Uses[identOf(x)], dinfo.Uses[identOf(y)]
		return a != nil && b != nil && ((a == ps[0] && b == ps[1]) || (a == ps[1] && b == ps[0]))
	}
	found := false
	ast.Inspect(decl.Body, func(x ast.Node) bool {
		switch be := x.(type) {
		case *ast.BinaryExpr:
			if be.Op != token.NEQ && be.Op != token.EQL {
				return true
			}
			ix, ok1 := ast.Unparen(be.X).(*ast.IndexExpr)
			iy, ok2 := ast.Unparen(be.Y).(*ast.IndexExpr)
			if ok1 && ok2 && isPair(ix.X, iy.X) {
				found = true
			}
		case *ast.ReturnStmt:
			// wrapper: `return eq(a, b)`
			if len(be.Results) == 1 {
				if call, ok := ast.Unparen(be.Results[0]).(*ast.CallExpr); ok && len(call.Args) == 2 {
					_, i1 := ast.Unparen(call.Args[0]).(*ast.Ident)
					_, i2 := ast.Unparen(call.Args[1]).(*ast.Ident)
					if i1 && i2 && isPair(call.Args[0], call.Args[1]) && elementwiseEqFunc(p, calleeOf(dinfo, call), depth+1) {
						found = true
					}
				}
			}
		}
		return true
	})
	return found
}

// resolveSingleDef: if e is a local identifier that is defined exactly once (`x := expr`) and never
// reassigned, return the defining expression (a condition hoisted into a local keeps its meaning).
func resolveSingleDef(p *Prog, info *types.Info, e ast.Expr) ast.Expr {
	id, ok := ast.Unparen(e).(*ast.Ident)
	if !ok {
		return e
	}
	obj := info.Uses[id]
	if obj == nil {
		return e
	}
	var fd *ast.FuncDecl
	for d, pk := range p.pkgOf {
		if pk.TypesInfo == info && d.Pos() <= obj.Pos() && obj.Pos() <= d.End() {
			fd = d
		}
	}
	if fd == nil || fd.Body == nil {
		return e
	}
	var def ast.Expr
	n := 0
	ast.Inspect(fd.Body, func(x ast.Node) bool {
		if as, ok := x.(*ast.AssignStmt); ok {
			for i, l := range as.Lhs {
				if lid, ok := l.(*ast.Ident); ok && (info.Defs[lid] == obj || info.Uses[lid] == obj) {
					n++
					if len(as.Rhs) == len(as.Lhs) {
						def = as.Rhs[i]
					}
				}
			}
		}
		return true
	})
	if n == 1 && def != nil {
		return def
	}
	return e
}

// arithOnSlot: rhs is `slot - x` / `slot + x` (directly or as the single definition of a local variable): "dec" /
// "inc"; "" otherwise.
func arithOnSlot(info *types.Info, fd *ast.FuncDecl, rhs ast.Expr, isSlot func(ast.Expr) bool) string {
	rhs = ast.Unparen(rhs)
	if id, ok := rhs.(*ast.Ident); ok {
		v := info.Uses[id]
		var def ast.Expr
		n := 0
		ast.Inspect(fd.Body, func(x ast.Node) bool {
			if as, ok := x.(*ast.AssignStmt); ok && len(as.Lhs) == len(as.Rhs) {
				for i, l := range as.Lhs {
					if lid, ok := l.(*ast.Ident); ok && (info.Defs[lid] == v || info.Uses[lid] == v) && v != nil {
						n++
						def = as.Rhs[i]
					}
				}
			}
			return true
		})
		if n != 1 || def == nil {
			return ""
		}
		rhs = ast.Unparen(def)
	}
	be, ok := rhs.(*ast.BinaryExpr)
	if !ok {
		return ""
	}
	if _, isIdx := ast.Unparen(be.X).(*ast.IndexExpr); !isIdx || !isSlot(be.X) {
		return ""
	}
	switch be.Op {
	case token.SUB:
		return "dec"
	case token.ADD:
		return "inc"
	}
	return ""
}

// madeInSameBlock: the statement list that contains store also contains, before it, `v = make(...)`.
func madeInSameBlock(info *types.Info, fd *ast.FuncDecl, store ast.Stmt, v types.Object) bool {
	if v == nil {
		return false
	}
	found := false
	ast.Inspect(fd.Body, func(x ast.Node) bool {
		blk, ok := x.(*ast.BlockStmt)
		if !ok {
			return true
		}
		for i, st := range blk.List {
			if st != store {
				continue
			}
			for _, prev := range blk.List[:i] {
				as, ok := prev.(*ast.AssignStmt)
				if !ok || len(as.Lhs) != 1 || len(as.Rhs) != 1 {
					continue
				}
				if id, ok := as.Lhs[0].(*ast.Ident); ok && (info.Uses[id] == v || info.Defs[id] == v) {
					if call, ok := ast.Unparen(as.Rhs[0]).(*ast.CallExpr); ok && identOf(call.Fun).Name == "make" {
						found = true
					}
				}
			}
		}
		return true
	})
	return found
}
