package main

// Engine A (DESIGN §3.A): dimension analysis of positions and lengths (go/ssa).
//
// Every integer SSA value gets a unit from the lattice
//     unknown < {none, byte, rune, utf16, line} < conflict
// Sources are a table of library/repository functions and struct fields whose unit is fixed by their
// meaning; units propagate through arithmetic, conversions, phis, calls and undeclared struct fields.
// A report is a concrete mixture of two different units.

import (
	"fmt"
	"go/constant"
	"go/token"
	"go/types"
	"reflect"
	"sort"
	"strings"

	"golang.org/x/tools/go/ssa"
)

type unit uint8

const (
	uUnknown unit = iota
	uNone
	uByte
	uRune
	uUTF16
	uLine
	uPartial // a count of *some* of the runes of a string (a hand-written width measure that skips characters)
	uConflict
)

func (u unit) String() string {
	return [...]string{"unknown", "none", "byte", "rune", "utf16", "line", "partial-rune-count", "conflict"}[u]
}

func (u unit) known() bool {
	return u == uByte || u == uRune || u == uUTF16 || u == uLine || u == uPartial
}

func joinUnit(a, b unit) unit {
	switch {
	case a == b:
		return a
	case a == uUnknown:
		return b
	case b == uUnknown:
		return a
	case a == uNone:
		return b
	case b == uNone:
		return a
	}
	return uConflict
}

// declared units of struct fields: "pkg.Type.Field"
var fieldUnits = map[string]unit{
	"parser.Position.Line": uLine, "parser.Position.Column": uUTF16, "parser.Position.Offset": uByte,
	"ast.Position.Line": uLine, "ast.Position.Column": uUTF16, "ast.Position.Offset": uByte,
	"parser.Lexer.pos": uByte, "parser.Lexer.column": uUTF16, "parser.Lexer.line": uLine,
	"protocol.Position.Line": uLine, "protocol.Position.Character": uUTF16,
	"server.semanticToken.line": uLine, "server.semanticToken.col": uUTF16, "server.semanticToken.length": uUTF16,
	"protocol.FoldingRange.StartLine": uLine, "protocol.FoldingRange.EndLine": uLine,
	"protocol.FoldingRange.StartCharacter": uUTF16, "protocol.FoldingRange.EndCharacter": uUTF16,
}

// columnUnit is the unit of lexer/AST columns.  It is READ FROM THE CODE on every run (see detectColumnUnit):
// the lexer's advance function increments the column per rune (rune) or per UTF-16 code unit (utf16).
var columnUnit = uUTF16

// declared result units of functions: qualified short name -> unit (result 0 unless noted)
var resultUnits = map[string]unit{
	"strings.Index": uByte, "strings.IndexByte": uByte, "strings.IndexRune": uByte, "strings.IndexAny": uByte, "strings.IndexFunc": uByte,
	"strings.LastIndex": uByte, "strings.LastIndexByte": uByte, "strings.LastIndexAny": uByte, "strings.LastIndexFunc": uByte,
	"bytes.Index": uByte, "bytes.IndexByte": uByte,
	"unicode/utf8.RuneCountInString": uRune, "unicode/utf8.RuneCount": uRune, "unicode/utf8.RuneLen": uByte,
	"lsputil.UTF16Len": uUTF16, "lsputil.ByteOffsetToUTF16": uUTF16, "lsputil.UTF16OffsetToByteOffset": uByte,
	"lsputil.RuneCount":                   uRune,
	"lsputil.PositionMapper.LineUTF16Len": uUTF16, "lsputil.PositionMapper.LineRuneLen": uRune, "lsputil.PositionMapper.LSPToByte": uByte,
}

// declared parameter units: function -> parameter index (0-based, receiver excluded) -> unit
var paramUnits = map[string]map[int]unit{
	"lsputil.UTF16OffsetToByteOffset":     {1: uUTF16},
	"lsputil.ByteOffsetToUTF16":           {1: uByte},
	"lsputil.PositionMapper.LineUTF16Len": {0: uLine},
	"lsputil.PositionMapper.LineRuneLen":  {0: uLine},
	"lsputil.PositionMapper.ByteToLSP":    {0: uByte},
}

type unitReport struct {
	rule string
	fn   *ssa.Function
	pos  token.Pos
	desc string // stable descriptor for the key
	msg  string
}

type unitsEngine struct {
	p        *Prog
	funcs    []*ssa.Function
	val      map[ssa.Value]unit
	fieldU   map[string]unit // inferred units of undeclared fields
	retU     map[*ssa.Function]unit
	paramU   map[*ssa.Parameter]unit
	reports  map[string]unitReport
	nArith   int
	nStores  int
	nArgs    int
	nIndex   int
	nCtor    map[string]int
	okChecks []unitReport // consistent constructs (discharged obligations)
}

var unitsCache = map[*Prog]*unitsEngine{}

func shortFuncQual(f *ssa.Function) string {
	if f == nil {
		return ""
	}
	if f.Pkg == nil {
		return f.Name()
	}
	pk := f.Pkg.Pkg.Path()
	pk = strings.TrimPrefix(pk, modPath+"/internal/")
	if sig := f.Signature; sig.Recv() != nil {
		t := sig.Recv().Type()
		if pt, ok := t.(*types.Pointer); ok {
			t = pt.Elem()
		}
		if n, ok := t.(*types.Named); ok {
			return pk + "." + n.Obj().Name() + "." + f.Name()
		}
	}
	return pk + "." + f.Name()
}

func fieldKey(structT types.Type, idx int) string {
	if pt, ok := structT.Underlying().(*types.Pointer); ok {
		structT = pt.Elem()
	}
	st, ok := structT.Underlying().(*types.Struct)
	if !ok {
		return ""
	}
	name := types.TypeString(structT, nil)
	name = strings.TrimPrefix(name, modPath+"/internal/")
	name = strings.TrimPrefix(name, "go.lsp.dev/")
	return name + "." + st.Field(idx).Name()
}

func isIntType(t types.Type) bool {
	b, ok := t.Underlying().(*types.Basic)
	return ok && b.Info()&types.IsInteger != 0
}

func runUnits(p *Prog) *unitsEngine {
	if e, ok := unitsCache[p]; ok {
		return e
	}
	e := &unitsEngine{p: p, funcs: p.ModuleFuncs(), val: map[ssa.Value]unit{}, fieldU: map[string]unit{}, retU: map[*ssa.Function]unit{},
		paramU: map[*ssa.Parameter]unit{}, reports: map[string]unitReport{}, nCtor: map[string]int{}}
	unitsCache[p] = e
	e.declareUnitsFromTags()
	e.detectColumnUnit()
	for iter := 0; iter < 25; iter++ {
		changed := false
		for _, f := range e.funcs {
			if e.flow(f, false) {
				changed = true
			}
		}
		if !changed {
			break
		}
	}
	// reporting pass
	for _, f := range e.funcs {
		e.flow(f, true)
	}
	return e
}

// declareUnitsFromTags: integer fields of any struct that travel under an LSP wire name get the unit the
// protocol gives that name (positions and lengths are in UTF-16 code units, lines are lines) - wherever the
// struct is declared (go.lsp.dev/protocol or the module's own wire types).
func (e *unitsEngine) declareUnitsFromTags() {
	wire := map[string]unit{"character": uUTF16, "line": uLine, "rangeLength": uUTF16,
		"startCharacter": uUTF16, "endCharacter": uUTF16, "startLine": uLine, "endLine": uLine}
	seen := map[*types.Package]bool{}
	var visit func(pk *types.Package, depth int)
	visit = func(pk *types.Package, depth int) {
		if pk == nil || seen[pk] || depth > 2 {
			return
		}
		seen[pk] = true
		if strings.HasPrefix(pk.Path(), modPath) || strings.HasPrefix(pk.Path(), "go.lsp.dev/protocol") {
			sc := pk.Scope()
			for _, n := range sc.Names() {
				tn, ok := sc.Lookup(n).(*types.TypeName)
				if !ok {
					continue
				}
				st, ok := tn.Type().Underlying().(*types.Struct)
				if !ok {
					continue
				}
				for i := 0; i < st.NumFields(); i++ {
					if !isIntType(st.Field(i).Type()) {
						continue
					}
					tag := reflect.StructTag(st.Tag(i)).Get("json")
					if j := strings.Index(tag, ","); j >= 0 {
						tag = tag[:j]
					}
					if u, ok := wire[tag]; ok {
						k := fieldKey(tn.Type(), i)
						if _, declared := fieldUnits[k]; !declared && k != "" {
							fieldUnits[k] = u
						}
					}
				}
			}
		}
		for _, imp := range pk.Imports() {
			visit(imp, depth+1)
		}
	}
	for _, pkg := range e.p.Pkgs {
		visit(pkg.Types, 0)
	}
}

// detectColumnUnit reads, from the lexer's own code, how the column counter advances: if some function of
// package parser adds 2 to Lexer.column (a UTF-16 surrogate pair), columns count UTF-16 code units;
// if the column only ever advances by one per decoded rune, they count runes.
func (e *unitsEngine) detectColumnUnit() {
	adds2 := false
	// the column counter by role: the struct field(s) of package parser whose value is stored into the exported
	// parser.Position.Column (the unexported counter may be renamed or moved into a cursor struct)
	colFields := map[string]bool{"parser.Lexer.column": true}
	for _, f := range e.funcs {
		if f.Pkg == nil || !strings.HasSuffix(f.Pkg.Pkg.Path(), "/parser") {
			continue
		}
		for _, b := range f.Blocks {
			for _, ins := range b.Instrs {
				st, ok := ins.(*ssa.Store)
				if !ok {
					continue
				}
				fa, ok := st.Addr.(*ssa.FieldAddr)
				if !ok || fieldKey(fa.X.Type(), fa.Field) != "parser.Position.Column" {
					continue
				}
				if ld, ok := st.Val.(*ssa.UnOp); ok && ld.Op == token.MUL {
					if src, ok := ld.X.(*ssa.FieldAddr); ok {
						if k := fieldKey(src.X.Type(), src.Field); k != "" && strings.HasPrefix(k, "parser.") && k != "parser.Position.Column" {
							colFields[k] = true
						}
					}
				}
			}
			// likewise the byte offset and the line counter (whatever they are called)
			for _, ins := range b.Instrs {
				st, ok := ins.(*ssa.Store)
				if !ok {
					continue
				}
				fa, ok := st.Addr.(*ssa.FieldAddr)
				if !ok {
					continue
				}
				var u unit
				switch fieldKey(fa.X.Type(), fa.Field) {
				case "parser.Position.Offset":
					u = uByte
				case "parser.Position.Line":
					u = uLine
				default:
					continue
				}
				if ld, ok := st.Val.(*ssa.UnOp); ok && ld.Op == token.MUL {
					if src, ok := ld.X.(*ssa.FieldAddr); ok {
						if k := fieldKey(src.X.Type(), src.Field); k != "" && strings.HasPrefix(k, "parser.") && !strings.HasPrefix(k, "parser.Position.") && !strings.HasPrefix(k, "parser.Token.") {
							fieldUnits[k] = u
						}
					}
				}
			}
		}
	}
	for _, f := range e.funcs {
		if f.Pkg == nil || !strings.HasSuffix(f.Pkg.Pkg.Path(), "/parser") {
			continue
		}
		for _, b := range f.Blocks {
			for _, ins := range b.Instrs {
				st, ok := ins.(*ssa.Store)
				if !ok {
					continue
				}
				fa, ok := st.Addr.(*ssa.FieldAddr)
				if !ok || !colFields[fieldKey(fa.X.Type(), fa.Field)] {
					continue
				}
				// value = column + k where k is 2, or a value derived from a utf16 width helper
				if bin, ok := st.Val.(*ssa.BinOp); ok && bin.Op == token.ADD {
					if c, ok := bin.Y.(*ssa.Const); ok && c.Int64() == 2 {
						adds2 = true
					}
					if _, isConst := bin.Y.(*ssa.Const); !isConst {
						// column += width(r): accept when width's callee is a utf16 length function
						sl := backSlice(bin.Y)
						if sliceHasCall(sl, func(cal *ssa.Function, _ *ssa.Call) bool {
							n := strings.ToLower(cal.Name())
							return strings.Contains(n, "utf16")
						}) {
							adds2 = true
						}
						for v := range sl {
							if c, ok := v.(*ssa.Const); ok && c.Value != nil && isIntType(c.Type()) && c.Int64() == 2 {
								adds2 = true
							}
						}
					}
				}
			}
		}
	}
	if adds2 {
		columnUnit = uUTF16
	} else {
		columnUnit = uRune
	}
	for _, k := range []string{"parser.Position.Column", "ast.Position.Column"} {
		fieldUnits[k] = columnUnit
	}
	for k := range colFields {
		fieldUnits[k] = columnUnit
	}
}

func (e *unitsEngine) get(v ssa.Value) unit {
	if c, ok := v.(*ssa.Const); ok {
		_ = c
		return uNone
	}
	return e.val[v]
}

func (e *unitsEngine) set(v ssa.Value, u unit) bool {
	old := e.val[v]
	n := joinUnit(old, u)
	// values are assigned, not accumulated, except that a value once in conflict stays
	if u != old && !(old == uConflict) {
		e.val[v] = u
		return true
	}
	_ = n
	return false
}

func (e *unitsEngine) report(reporting bool, rule string, f *ssa.Function, pos token.Pos, desc, msg string) {
	if !reporting {
		return
	}
	base := rule + "|" + funcName(f) + "|" + desc
	k := base
	for i := 2; ; i++ {
		if prev, ok := e.reports[k]; !ok || prev.pos == pos {
			break
		}
		k = fmt.Sprintf("%s#%d", base, i)
	}
	e.reports[k] = unitReport{rule, f, pos, desc, msg}
}

func (e *unitsEngine) flow(f *ssa.Function, reporting bool) bool {
	changed := false
	upd := func(v ssa.Value, u unit) {
		if !isIntType(v.Type()) {
			return
		}
		if e.val[v] != u {
			e.val[v] = u
			changed = true
		}
	}
	for _, p := range f.Params {
		if isIntType(p.Type()) {
			if u, ok := e.declaredParam(f, p); ok {
				upd(p, u)
			} else if u, ok := e.paramU[p]; ok {
				upd(p, u)
			}
		}
	}
	for _, b := range f.Blocks {
		for _, ins := range b.Instrs {
			switch x := ins.(type) {
			case *ssa.BinOp:
				l, r := e.get(x.X), e.get(x.Y)
				switch x.Op {
				case token.ADD, token.SUB:
					if !isIntType(x.Type()) {
						continue
					}
					if reporting {
						e.nArith++
					}
					if l.known() && r.known() && l != r {
						e.report(reporting, "U-MIX", f, x.Pos(), fmt.Sprintf("%s %s %s", l, x.Op, r),
							fmt.Sprintf("arithmetic mixes units: %s %s %s (%s %s %s)", l, x.Op, r, x.X.Name(), x.Op, x.Y.Name()))
						upd(x, uConflict)
					} else {
						upd(x, joinUnit(l, r))
					}
				case token.MUL, token.QUO, token.REM, token.SHL, token.SHR, token.AND, token.OR:
					if !isIntType(x.Type()) {
						continue
					}
					switch {
					case l.known() && (r == uNone || r == uUnknown):
						upd(x, l)
					case r.known() && (l == uNone || l == uUnknown) && x.Op == token.MUL:
						upd(x, r)
					default:
						upd(x, uNone)
					}
				case token.LSS, token.LEQ, token.GTR, token.GEQ, token.EQL, token.NEQ:
					if isIntType(x.X.Type()) && l.known() && r.known() && l != r {
						e.report(reporting, "U-MIX", f, x.Pos(), fmt.Sprintf("compare %s with %s", l, r),
							fmt.Sprintf("comparison between different units: %s %s %s", l, x.Op, r))
					}
				}
			case *ssa.Convert:
				upd(x, e.get(x.X))
			case *ssa.ChangeType:
				upd(x, e.get(x.X))
			case *ssa.Phi:
				if !isIntType(x.Type()) {
					continue
				}
				// a counter of a loop over the runes of a string: counted in every iteration it is the rune count, counted
				// in some iterations only (a measure that skips combining marks, say) it is a quantity of its own
				if cu, ok := runeCounterUnit(x); ok {
					upd(x, cu)
					continue
				}
				u := uUnknown
				mixed := false
				for _, ed := range x.Edges {
					eu := e.get(ed)
					if u.known() && eu.known() && u != eu {
						mixed = true
					}
					u = joinUnit(u, eu)
				}
				if mixed {
					e.report(reporting, "U-MIX", f, x.Pos(), "phi "+x.Comment, "a variable ("+x.Comment+") holds values of different units on different paths")
				}
				upd(x, u)
			case *ssa.UnOp:
				if x.Op == token.MUL && isIntType(x.Type()) {
					upd(x, e.loadUnit(x.X))
				} else if x.Op == token.SUB {
					upd(x, e.get(x.X))
				}
			case *ssa.Field:
				if isIntType(x.Type()) {
					k := fieldKey(x.X.Type(), x.Field)
					if u, ok := fieldUnits[k]; ok {
						upd(x, u)
					} else {
						upd(x, e.fieldU[k])
					}
				}
			case *ssa.Extract:
				// size from utf8.DecodeRuneInString; index from range over string
				switch t := x.Tuple.(type) {
				case *ssa.Call:
					if cal := t.Common().StaticCallee(); cal != nil {
						q := shortFuncQual(cal)
						if (q == "unicode/utf8.DecodeRuneInString" || q == "unicode/utf8.DecodeRune" || q == "unicode/utf8.DecodeLastRuneInString") && x.Index == 1 {
							upd(x, uByte)
						}
					}
				case *ssa.Next:
					if t.IsString && x.Index == 1 {
						upd(x, uByte)
					}
				}
			case *ssa.Call:
				e.flowCall(f, x, reporting, upd, &changed)
			case *ssa.Store:
				if !isIntType(x.Val.Type()) {
					continue
				}
				vu := e.get(x.Val)
				if fa, ok := x.Addr.(*ssa.FieldAddr); ok {
					k := fieldKey(fa.X.Type(), fa.Field)
					if du, ok := fieldUnits[k]; ok {
						if reporting {
							e.nStores++
							e.nCtor[k]++
						}
						if vu.known() && vu != du {
							e.report(reporting, "U-STORE", f, x.Pos(), fmt.Sprintf("%s value into %s", vu, k),
								fmt.Sprintf("a %s quantity is stored into %s, which holds %s", vu, k, du))
						} else if reporting {
							e.okChecks = append(e.okChecks, unitReport{"U-STORE", f, x.Pos(), "store into " + k, fmt.Sprintf("value of unit %s stored into %s (%s)", vu, k, du)})
						}
					} else if k != "" {
						n := joinUnit(e.fieldU[k], vu)
						if n == uConflict {
							n = uUnknown
						}
						if e.fieldU[k] != n && vu != uUnknown {
							e.fieldU[k] = n
							changed = true
						}
					}
				} else if al, ok := x.Addr.(*ssa.Alloc); ok {
					// local variable cell: unit of the cell = join of stores
					n := joinUnit(e.val[al], vu)
					if n == uConflict && reporting {
						e.report(reporting, "U-MIX", f, x.Pos(), "local "+al.Comment, "a local variable ("+al.Comment+") is assigned values of different units")
					}
					if e.val[al] != n {
						e.val[al] = n
						changed = true
					}
				}
			case *ssa.Slice:
				if reporting {
					e.nIndex++
				}
				e.checkIndex(f, x.X, x.Low, x.Pos(), reporting)
				e.checkIndex(f, x.X, x.High, x.Pos(), reporting)
			case *ssa.Lookup:
				if _, isMap := x.X.Type().Underlying().(*types.Map); !isMap {
					if reporting {
						e.nIndex++
					}
					e.checkIndex(f, x.X, x.Index, x.Pos(), reporting)
				}
			case *ssa.IndexAddr:
				if reporting {
					e.nIndex++
				}
				e.checkIndex(f, x.X, x.Index, x.Pos(), reporting)
			case *ssa.Index:
				e.checkIndex(f, x.X, x.Index, x.Pos(), reporting)
			case *ssa.Return:
				for i, rv := range x.Results {
					if i == 0 && isIntType(rv.Type()) {
						n := joinUnit(e.retU[f], e.get(rv))
						if n == uConflict {
							n = uUnknown
						}
						if e.retU[f] != n {
							e.retU[f] = n
							changed = true
						}
					}
				}
			}
		}
	}
	return changed
}

func (e *unitsEngine) loadUnit(addr ssa.Value) unit {
	switch a := addr.(type) {
	case *ssa.FieldAddr:
		k := fieldKey(a.X.Type(), a.Field)
		if u, ok := fieldUnits[k]; ok {
			return u
		}
		return e.fieldU[k]
	case *ssa.Alloc:
		u := e.val[a]
		if u == uConflict {
			return uUnknown
		}
		return u
	}
	return uUnknown
}

func (e *unitsEngine) declaredParam(f *ssa.Function, p *ssa.Parameter) (unit, bool) {
	m, ok := paramUnits[shortFuncQual(f)]
	if !ok {
		return 0, false
	}
	off := 0
	if f.Signature.Recv() != nil {
		off = 1
	}
	for i, q := range f.Params {
		if q == p {
			u, ok := m[i-off]
			return u, ok
		}
	}
	return 0, false
}

func (e *unitsEngine) flowCall(f *ssa.Function, x *ssa.Call, reporting bool, upd func(ssa.Value, unit), changed *bool) {
	if bi, ok := x.Call.Value.(*ssa.Builtin); ok {
		switch bi.Name() {
		case "len", "cap":
			if len(x.Call.Args) == 1 {
				switch t := x.Call.Args[0].Type().Underlying().(type) {
				case *types.Basic:
					if t.Info()&types.IsString != 0 {
						if asciiConstString(x.Call.Args[0], 0) {
							upd(x, uNone) // an ASCII literal: bytes, runes and UTF-16 units coincide
						} else {
							upd(x, uByte)
						}
					}
				case *types.Slice:
					switch types.TypeString(t.Elem(), nil) {
					case "byte", "uint8":
						upd(x, uByte)
					case "rune", "int32":
						upd(x, uRune)
					default:
						upd(x, uNone)
					}
				default:
					upd(x, uNone)
				}
			}
		case "min", "max":
			u := uUnknown
			mixed := false
			for _, a := range x.Call.Args {
				au := e.get(a)
				if u.known() && au.known() && u != au {
					mixed = true
				}
				u = joinUnit(u, au)
			}
			if mixed {
				e.report(reporting, "U-MIX", f, x.Pos(), bi.Name()+" of different units", bi.Name()+"() over values of different units")
			}
			upd(x, u)
		}
		return
	}
	cal := x.Call.StaticCallee()
	if cal == nil {
		return
	}
	q := shortFuncQual(cal)
	if u, ok := resultUnits[q]; ok {
		upd(x, u)
	} else if inModule(cal) && isIntType(x.Type()) {
		upd(x, e.retU[cal])
	}
	// declared parameter units
	off := 0
	if cal.Signature.Recv() != nil {
		off = 1
	}
	if m, ok := paramUnits[q]; ok {
		for i, a := range x.Call.Args {
			du, ok := m[i-off]
			if !ok {
				continue
			}
			if reporting {
				e.nArgs++
			}
			au := e.get(a)
			if au.known() && au != du {
				e.report(reporting, "U-ARG", f, x.Pos(), fmt.Sprintf("%s argument to %s", au, q),
					fmt.Sprintf("%s expects %s for argument %d but receives a %s quantity", q, du, i-off, au))
			} else if reporting {
				e.okChecks = append(e.okChecks, unitReport{"U-ARG", f, x.Pos(), "argument to " + q, fmt.Sprintf("argument of unit %s passed where %s is expected", au, du)})
			}
		}
	} else if inModule(cal) {
		for i, a := range x.Call.Args {
			if i < len(cal.Params) && isIntType(a.Type()) {
				p := cal.Params[i]
				n := joinUnit(e.paramU[p], e.get(a))
				if n == uConflict {
					n = uUnknown
				}
				if e.paramU[p] != n && e.get(a) != uUnknown {
					e.paramU[p] = n
					*changed = true
				}
			}
		}
	}
}

func (e *unitsEngine) checkIndex(f *ssa.Function, base, idx ssa.Value, pos token.Pos, reporting bool) {
	if idx == nil || !reporting {
		return
	}
	iu := e.get(idx)
	if !iu.known() {
		return
	}
	t := base.Type()
	if pt, ok := t.Underlying().(*types.Pointer); ok {
		t = pt.Elem()
	}
	switch bt := t.Underlying().(type) {
	case *types.Basic:
		if bt.Info()&types.IsString != 0 && iu != uByte {
			e.report(reporting, "U-INDEX", f, pos, fmt.Sprintf("string indexed with %s", iu), fmt.Sprintf("a string is indexed/sliced with a %s quantity (strings are indexed by byte)", iu))
		}
	case *types.Slice:
		switch types.TypeString(bt.Elem(), nil) {
		case "rune", "int32":
			if iu != uRune {
				e.report(reporting, "U-INDEX", f, pos, fmt.Sprintf("[]rune indexed with %s", iu), fmt.Sprintf("a []rune is indexed with a %s quantity", iu))
			}
		case "byte", "uint8":
			if iu != uByte {
				e.report(reporting, "U-INDEX", f, pos, fmt.Sprintf("[]byte indexed with %s", iu), fmt.Sprintf("a []byte is indexed with a %s quantity", iu))
			}
		case "string":
			if iu != uLine && iu != uNone {
				// []string of lines indexed with a non-line quantity
				e.report(reporting, "U-INDEX", f, pos, fmt.Sprintf("line slice indexed with %s", iu), fmt.Sprintf("a slice of lines is indexed with a %s quantity", iu))
			}
		}
	}
}

// ruleUnits emits the engine's reports restricted to functions accepted by `scope` (nil = all).
func ruleUnits(scopeDesc string, scope func(f *ssa.Function) bool) func(*Ctx) {
	return func(c *Ctx) {
		ruleRuneError(c)
		e := runUnits(c.P)
		var keys []string
		for k := range e.reports {
			keys = append(keys, k)
		}
		sort.Strings(keys)
		n := 0
		for _, k := range keys {
			r := e.reports[k]
			if scope != nil && !scope(r.fn) {
				continue
			}
			n++
			o := &Oblig{Rule: r.rule, Key: k, Func: funcName(r.fn), Pos: c.P.pos(r.pos), Verdict: Finding, Msg: r.msg}
			c.Obligs = append(c.Obligs, o)
			c.FuncsAnalysed[funcName(r.fn)] = true
		}
		for _, r := range e.okChecks {
			if scope != nil && !scope(r.fn) {
				continue
			}
			c.ok(r.rule, funcName(r.fn), r.desc, r.pos, r.msg)
		}
		// discharged obligations: the unit-typed constructs that were checked and found consistent
		inScope := 0
		for _, f := range e.funcs {
			if scope == nil || scope(f) {
				inScope++
				c.FuncsAnalysed[funcName(f)] = true
			}
		}
		c.ok("U-CENSUS", "units("+scopeDesc+")", "consistent constructs", token.NoPos,
			fmt.Sprintf("column unit read from the lexer: %s; %d functions in scope; whole program: %d additions/subtractions, %d stores into unit-typed fields, %d unit-typed arguments, %d index/slice operations checked; %d mixtures reported in scope",
				columnUnit, inScope, e.nArith, e.nStores, e.nArgs, e.nIndex, n))
		var ctor []string
		for k, v := range e.nCtor {
			ctor = append(ctor, fmt.Sprintf("%s=%d", k, v))
		}
		sort.Strings(ctor)
		c.note("stores into unit-typed fields: %s", strings.Join(ctor, " "))
		c.census("U-STORE", "stores into protocol.Position.Character", e.nCtor["protocol.Position.Character"], 8)
		c.census("U-STORE", "stores into unit-typed fields (all)", e.nStores, 40)
		c.census("U-ARG", "arguments with a declared unit", e.nArgs, 4)
	}
}

// ruleUnitClamp (U-CLAMP): a protocol position computed as `x - 1` from the Range of an include.LoadError
// must be clamped at zero before it is converted to an unsigned protocol field: load errors that are not
// tied to an include directive carry a zero Range, and uint32(0-1) is line/character 4294967295.
func ruleUnitClamp(c *Ctx) {
	n := 0
	isLoadErrRange := func(sl map[ssa.Value]bool) bool {
		for v := range sl {
			if fa, ok := v.(*ssa.FieldAddr); ok && fieldKey(fa.X.Type(), fa.Field) == "include.LoadError.Range" {
				return true
			}
			if fv, ok := v.(*ssa.Field); ok && fieldKey(fv.X.Type(), fv.Field) == "include.LoadError.Range" {
				return true
			}
		}
		return false
	}
	clampedConv := func(cv *ssa.Convert) bool {
		if call, ok := cv.X.(*ssa.Call); ok {
			if bi, ok := call.Call.Value.(*ssa.Builtin); ok && bi.Name() == "max" {
				for _, a := range call.Call.Args {
					if k, ok := a.(*ssa.Const); ok && k.Value != nil && k.Int64() == 0 {
						return true
					}
				}
			}
		}
		for _, cond := range controlConds(cv.Block()) {
			if bin, ok := cond.(*ssa.BinOp); ok && (bin.Op == token.GTR || bin.Op == token.GEQ) && backSlice(bin.X)[firstNonConst(cv.X)] {
				return true
			}
		}
		return false
	}
	// functions that convert `param-derived - k` to unsigned without a clamp: (function, parameter)
	type fp struct {
		f *ssa.Function
		i int
	}
	unclamped := map[fp]token.Pos{}
	for _, f := range c.P.ModuleFuncs() {
		for _, b := range f.Blocks {
			for _, ins := range b.Instrs {
				cv, ok := ins.(*ssa.Convert)
				if !ok {
					continue
				}
				bt, ok := cv.Type().Underlying().(*types.Basic)
				if !ok || bt.Info()&types.IsUnsigned == 0 {
					continue
				}
				if bin, ok := cv.X.(*ssa.BinOp); !ok || bin.Op != token.SUB {
					if _, isCall := cv.X.(*ssa.Call); !isCall {
						continue
					}
				}
				sl := backSlice(cv.X)
				if isLoadErrRange(sl) || sliceReadsLoadErr(cv.X, "Range", func(ssa.Value, string) bool { return false }) {
					n++
					c.check(clampedConv(cv), "U-CLAMP", funcName(f), "load-error position clamped at zero", cv.Pos(),
						"max(0, x-1) before the conversion to an unsigned protocol field",
						"a position derived from a LoadError's Range is converted to an unsigned protocol field as `x - 1` without a clamp: load errors that are not tied to an include directive have a zero Range, which becomes line/character 4294967295 (outside the document)")
					continue
				}
				if !clampedConv(cv) {
					for i, p := range f.Params {
						if sl[p] {
							unclamped[fp{f, i}] = cv.Pos()
						}
					}
				}
			}
		}
	}
	// a LoadError's Range handed to a module function (or closure): what do the unsigned conversions of
	// `x - k` that depend on that parameter look like, in the callee and in whatever it hands the value on to?
	var convsOf func(f *ssa.Function, i int, depth int, seen map[fp]bool) (clamped, bad int)
	convsOf = func(f *ssa.Function, i int, depth int, seen map[fp]bool) (int, int) {
		if f == nil || f.Blocks == nil || i >= len(f.Params) || depth > 3 || seen[fp{f, i}] {
			return 0, 0
		}
		seen[fp{f, i}] = true
		nc, nb := 0, 0
		p := f.Params[i]
		for _, b := range f.Blocks {
			for _, ins := range b.Instrs {
				switch x := ins.(type) {
				case *ssa.Convert:
					bt, ok := x.Type().Underlying().(*types.Basic)
					if !ok || bt.Info()&types.IsUnsigned == 0 {
						continue
					}
					if bin, ok := x.X.(*ssa.BinOp); !ok || bin.Op != token.SUB {
						if _, isCall := x.X.(*ssa.Call); !isCall {
							continue
						}
					}
					if !backSlice(x.X)[ssa.Value(p)] {
						continue
					}
					if clampedConv(x) {
						nc++
					} else {
						nb++
					}
				case *ssa.Call:
					cal := x.Common().StaticCallee()
					if cal == nil || !inModule(cal) {
						continue
					}
					for j, a := range x.Common().Args {
						if backSlice(a)[ssa.Value(p)] {
							c2, b2 := convsOf(cal, j, depth+1, seen)
							nc, nb = nc+c2, nb+b2
						}
					}
				}
			}
		}
		return nc, nb
	}
	for _, f := range c.P.ModuleFuncs() {
		for _, b := range f.Blocks {
			for _, ins := range b.Instrs {
				call, ok := ins.(*ssa.Call)
				if !ok {
					continue
				}
				cal := call.Common().StaticCallee()
				if cal == nil || !inModule(cal) {
					continue
				}
				for i, a := range call.Common().Args {
					if !isLoadErrRange(backSlice(a)) {
						continue
					}
					nc, nb := convsOf(cal, i, 0, map[fp]bool{})
					if nc+nb == 0 {
						continue
					}
					n++
					c.check(nb == 0, "U-CLAMP", funcName(f), "load-error position clamped at zero (via "+cal.Name()+")", call.Pos(),
						fmt.Sprintf("%d conversion(s) of the passed range to unsigned protocol fields, all clamped with max(0, x-1)", nc),
						"a LoadError's Range is passed to "+cal.Name()+", which converts `x - 1` to an unsigned protocol field without a clamp: load errors that are not tied to an include directive have a zero Range, which becomes line/character 4294967295 (outside the document)")
				}
			}
		}
	}
	c.census("U-CLAMP", "unsigned conversions of load-error positions", n, 1)
}

func firstNonConst(v ssa.Value) ssa.Value {
	if bin, ok := v.(*ssa.BinOp); ok {
		if _, isC := bin.X.(*ssa.Const); !isC {
			return bin.X
		}
		return bin.Y
	}
	return v
}

// asciiConstString: the string is one of finitely many ASCII constants (a literal, a phi of literals, or the
// result of a module function every return statement of which yields such a string).
func asciiConstString(v ssa.Value, depth int) bool {
	if depth > 3 {
		return false
	}
	switch x := v.(type) {
	case *ssa.Const:
		if x.Value == nil || x.Value.Kind() != constant.String {
			return false
		}
		for _, r := range constant.StringVal(x.Value) {
			if r >= 0x80 {
				return false
			}
		}
		return true
	case *ssa.Phi:
		for _, e := range x.Edges {
			if !asciiConstString(e, depth+1) {
				return false
			}
		}
		return true
	case *ssa.Call:
		cal := x.Call.StaticCallee()
		if cal == nil || cal.Blocks == nil || !inModule(cal) || cal.Signature.Results().Len() != 1 {
			return false
		}
		n := 0
		for _, b := range cal.Blocks {
			for _, ins := range b.Instrs {
				if r, ok := ins.(*ssa.Return); ok {
					n++
					if !asciiConstString(unspillResult(r.Results[0], b), depth+1) {
						return false
					}
				}
			}
		}
		return n > 0
	case *ssa.Extract:
		// one result of a module function with several results (`open, close := brackets(kind)`)
		if call, ok := x.Tuple.(*ssa.Call); ok {
			cal := call.Call.StaticCallee()
			if cal == nil || cal.Blocks == nil || !inModule(cal) {
				return false
			}
			n := 0
			for _, b := range cal.Blocks {
				for _, ins := range b.Instrs {
					if r, ok := ins.(*ssa.Return); ok && x.Index < len(r.Results) {
						n++
						if !asciiConstString(unspillResult(r.Results[x.Index], b), depth+1) {
							return false
						}
					}
				}
			}
			return n > 0
		}
		// the value of a lookup in a constant table
		if lk, ok := x.Tuple.(*ssa.Lookup); ok && x.Index == 0 {
			return asciiConstTable(lk.X)
		}
	case *ssa.Lookup:
		return asciiConstTable(x.X)
	case *ssa.Field:
		// a string field of a table entry
		switch y := x.X.(type) {
		case *ssa.Lookup:
			return asciiConstTable(y.X)
		case *ssa.Extract:
			if lk, ok := y.Tuple.(*ssa.Lookup); ok {
				return asciiConstTable(lk.X)
			}
		case *ssa.UnOp:
			if y.Op == token.MUL {
				if ia, ok := y.X.(*ssa.IndexAddr); ok {
					return asciiConstTable(ia.X)
				}
			}
		}
	case *ssa.UnOp:
		if x.Op == token.MUL {
			// element (or a field of an element) of a constant table held in an array/slice
			a := x.X
			if fa, ok := a.(*ssa.FieldAddr); ok {
				a = fa.X
			}
			if ia, ok := a.(*ssa.IndexAddr); ok {
				return asciiConstTable(ia.X)
			}
		}
	}
	return false
}

// asciiConstTable: the map / array / slice value is a package-level table that only its initialiser writes and
// every string constant stored into it is ASCII.
func asciiConstTable(tbl ssa.Value) bool {
	ld, ok := tbl.(*ssa.UnOp)
	var g *ssa.Global
	if ok && ld.Op == token.MUL {
		g, _ = ld.X.(*ssa.Global)
	}
	if g == nil {
		g, _ = tbl.(*ssa.Global) // &table for arrays
	}
	if g == nil || g.Pkg == nil {
		return false
	}
	initFn := g.Pkg.Func("init")
	if initFn == nil {
		return false
	}
	// no writer outside the initialiser
	for _, m := range g.Pkg.Members {
		f, ok := m.(*ssa.Function)
		if !ok || f == initFn {
			continue
		}
		for _, fn := range append([]*ssa.Function{f}, f.AnonFuncs...) {
			for _, b := range fn.Blocks {
				for _, ins := range b.Instrs {
					switch x := ins.(type) {
					case *ssa.Store:
						if x.Addr == ssa.Value(g) {
							return false
						}
					case *ssa.MapUpdate:
						if l2, ok := x.Map.(*ssa.UnOp); ok && l2.Op == token.MUL && l2.X == ssa.Value(g) {
							return false
						}
					}
				}
			}
		}
	}
	// every string constant the initialiser handles while building this table is ASCII: the strings stored into
	// the value that ends up in g (map updates on it, stores below it)
	var root ssa.Value
	for _, b := range initFn.Blocks {
		for _, ins := range b.Instrs {
			if st, ok := ins.(*ssa.Store); ok && st.Addr == ssa.Value(g) {
				root = st.Val
			}
		}
	}
	n := 0
	okAll := true
	checkVal := func(v ssa.Value) {
		for w := range backSlice(v) {
			if k, ok := w.(*ssa.Const); ok && k.Value != nil && k.Value.Kind() == constant.String {
				n++
				for _, r := range constant.StringVal(k.Value) {
					if r >= 0x80 {
						okAll = false
					}
				}
			}
		}
	}
	for _, b := range initFn.Blocks {
		for _, ins := range b.Instrs {
			switch x := ins.(type) {
			case *ssa.MapUpdate:
				if root != nil && x.Map == root {
					checkVal(x.Value)
				}
			case *ssa.Store:
				// array/struct tables are initialised in place: stores below &g
				a := x.Addr
				for {
					switch y := a.(type) {
					case *ssa.FieldAddr:
						a = y.X
						continue
					case *ssa.IndexAddr:
						a = y.X
						continue
					}
					break
				}
				if a == ssa.Value(g) {
					checkVal(x.Val)
				}
			}
		}
	}
	return n > 0 && okAll
}

// ruleLoadErrRange (C08-LOADERR): a diagnostic that takes its range from an include.LoadError is published for
// the open document, so the range must be one of that document: load errors of kind "parse error" carry a
// position inside the *included* file and must not reach such a diagnostic - its construction is reached only
// when the kind is known not to be the parse-error kind.
func ruleLoadErrRange(c *Ctx) {
	ipk := c.P.SSAPkg("internal/include")
	var parseKind int64 = -1
	if k, ok := ipk.Pkg.Scope().Lookup("ErrorParseError").(*types.Const); ok {
		parseKind, _ = constant.Int64Val(constant.ToInt(k.Val()))
	}
	isLoadErrField := func(v ssa.Value, name string) bool {
		switch x := v.(type) {
		case *ssa.FieldAddr:
			return typeHasSuffix(x.X.Type(), "include.LoadError") && fieldVarOfAddr(x).Name() == name
		case *ssa.Field:
			if st, ok := x.X.Type().Underlying().(*types.Struct); ok && typeHasSuffix(x.X.Type(), "include.LoadError") {
				return st.Field(x.Field).Name() == name
			}
		}
		return false
	}
	n := 0
	seen := map[*ssa.BasicBlock]bool{}
	for _, f := range c.P.ModuleFuncs() {
		for _, b := range f.Blocks {
			for _, ins := range b.Instrs {
				st, ok := ins.(*ssa.Store)
				if !ok || seen[b] {
					continue
				}
				// a store below <diagnostic>.Range
				under := false
				for a := st.Addr; ; {
					fa, ok := a.(*ssa.FieldAddr)
					if !ok {
						break
					}
					if typeHasSuffix(fa.X.Type(), "protocol.Diagnostic") && fieldVarOfAddr(fa).Name() == "Range" {
						under = true
					}
					a = fa.X
				}
				if !under {
					continue
				}
				fromLoadErr := sliceReadsLoadErr(st.Val, "Range", isLoadErrField)
				// a constructor of diagnostics that is handed bare coordinates (`syntaxDiagnostic(line, column, msg)`):
				// the construction happens, for this rule, at the call sites that pass a load error's position
				var viaSites []*ssa.BasicBlock
				if !fromLoadErr {
					_, pp := backSlicePath(st.Val, nil)
					for p := range pp {
						if p.Parent() != f {
							continue
						}
						idx := -1
						for i, q := range f.Params {
							if q == p {
								idx = i
							}
						}
						for _, site := range (cgView{c}).callersOf(f) {
							if idx >= 0 && idx < len(site.Common().Args) && sliceReadsLoadErr(site.Common().Args[idx], "Range", isLoadErrField) {
								viaSites = append(viaSites, site.Block())
							}
						}
					}
					if len(viaSites) == 0 {
						continue
					}
				}
				seen[b] = true
				n++
				// the construction - or, when it lives in a constructor helper, every call of that helper - is reached
				// only when the kind is not the parse-error kind
				var excludedAt func(b *ssa.BasicBlock, depth int) bool
				excludedAt = func(b *ssa.BasicBlock, depth int) bool {
					for _, cc := range controlCondsPol(b) {
						bo, ok := cc.Cond.(*ssa.BinOp)
						if !ok || (bo.Op != token.EQL && bo.Op != token.NEQ) {
							continue
						}
						k, isK := bo.Y.(*ssa.Const)
						x := bo.X
						if !isK {
							k, isK = bo.X.(*ssa.Const)
							x = bo.Y
						}
						if !isK || k.Value == nil || k.Value.Kind() != constant.Int || k.Int64() != parseKind {
							continue
						}
						kindRead := sliceReadsLoadErr(x, "Kind", isLoadErrField)
						if kindRead && ((bo.Op == token.NEQ && cc.Taken) || (bo.Op == token.EQL && !cc.Taken)) {
							return true
						}
					}
					if depth >= 3 {
						return false
					}
					sites := cgView{c}.callersOf(b.Parent())
					if len(sites) == 0 {
						return false
					}
					for _, s := range sites {
						if !excludedAt(s.Block(), depth+1) {
							return false
						}
					}
					return true
				}
				excluded := true
				if len(viaSites) > 0 {
					for _, sb := range viaSites {
						if !excludedAt(sb, 0) {
							excluded = false
						}
					}
				} else {
					excluded = excludedAt(b, 0)
				}
				c.check(excluded, "C08-LOADERR", funcName(f), "diagnostic ranges taken from load errors exclude parse errors", st.Pos(),
					"the diagnostic is built only for load errors whose range is the include directive's (kind is not the parse-error kind)",
					"a diagnostic for the open document takes its range from a load error whose kind may be 'parse error': that range is a position inside the included file, so the diagnostic lands on unrelated text or outside the document")
			}
		}
	}
	c.census("C08-LOADERR", "diagnostics that take their range from a load error", n, 1)
	// ... and a syntax error of the document is not made out of a load error without asking whose it is: where the
	// server builds a parser.ParseError (what it publishes as the document's syntax errors) from the fields of a load
	// error, the construction is control dependent on a comparison of the load error's Path - the loader's error
	// list covers every file of the include tree, and an included file's syntax error published at its own
	// coordinates in the including document is a diagnostic on a line that has no error
	nConv := 0
	spk := c.P.SSAPkg("internal/server")
	for _, f := range c.P.ModuleFuncs() {
		top := f
		for top.Parent() != nil {
			top = top.Parent()
		}
		if top.Pkg != spk {
			continue
		}
		done := map[*ssa.BasicBlock]bool{}
		for _, b := range f.Blocks {
			for _, ins := range b.Instrs {
				st, ok := ins.(*ssa.Store)
				if !ok || done[b] {
					continue
				}
				under := false
				for a := st.Addr; ; {
					fa, ok := a.(*ssa.FieldAddr)
					if !ok {
						break
					}
					if typeHasSuffix(fa.X.Type(), "parser.ParseError") {
						under = true
					}
					a = fa.X
				}
				if !under || !(sliceReadsLoadErr(st.Val, "Range", isLoadErrField) || sliceReadsLoadErr(st.Val, "Message", isLoadErrField)) {
					continue
				}
				done[b] = true
				nConv++
				var pathTested func(b *ssa.BasicBlock, depth int) bool
				pathTested = func(b *ssa.BasicBlock, depth int) bool {
					for _, cc := range controlDeps(b) {
						bo, ok := cc.Cond.(*ssa.BinOp)
						if !ok || (bo.Op != token.EQL && bo.Op != token.NEQ) {
							continue
						}
						if sliceReadsLoadErr(bo.X, "Path", isLoadErrField) || sliceReadsLoadErr(bo.Y, "Path", isLoadErrField) {
							return true
						}
					}
					if depth >= 2 {
						return false
					}
					sites := cgView{c}.callersOf(b.Parent())
					if len(sites) == 0 {
						return false
					}
					for _, s := range sites {
						if !pathTested(s.Block(), depth+1) {
							return false
						}
					}
					return true
				}
				c.check(pathTested(b, 0), "C08-LOADERR", funcName(f), "a syntax error made from a load error belongs to the document", st.Pos(),
					"the conversion is control dependent on a comparison of the load error's Path",
					"the server turns load errors into syntax errors of the open document without testing which file each error belongs to: the loader's list covers the whole include tree, so a syntax error of an included file is published in the including document, at a position that is a position in the other file")
			}
		}
	}
	c.note("C08-LOADERR: conversions of load errors into syntax errors of the document: %d", nConv)
}

// sliceReadsLoadErr: the slice of v reads field `name` of an include.LoadError - through a field access that is
// part of the slice, or through a by-value parameter of that type whose field the slice depends on.
func sliceReadsLoadErr(v ssa.Value, name string, isField func(ssa.Value, string) bool) bool {
	sl, params := backSlicePath(v, nil)
	for w := range sl {
		if isField(w, name) {
			return true
		}
	}
	for p, paths := range params {
		st, ok := p.Type().Underlying().(*types.Struct)
		if !ok || !typeHasSuffix(p.Type(), "include.LoadError") {
			continue
		}
		for _, path := range paths {
			if len(path) == 0 {
				return true // the whole value
			}
			if path[0] < st.NumFields() && st.Field(path[0]).Name() == name {
				return true
			}
		}
	}
	return false
}

// runeCounterUnit: x is a counter of a `for ... range <string>` loop: a phi in the block of the string iterator's
// Next, 0 on entry, and on the way back either itself + 1 in every iteration (rune count) or a merge of itself and
// itself + 1 (a count of some of the runes).
func runeCounterUnit(x *ssa.Phi) (unit, bool) {
	b := x.Block()
	isStr := false
	for _, ins := range b.Instrs {
		if nx, ok := ins.(*ssa.Next); ok && nx.IsString {
			isStr = true
		}
	}
	if !isStr || len(x.Edges) < 2 {
		return 0, false
	}
	isInc := func(v ssa.Value) bool {
		bo, ok := v.(*ssa.BinOp)
		if !ok || bo.Op != token.ADD || bo.X != ssa.Value(x) {
			return false
		}
		k, ok := bo.Y.(*ssa.Const)
		return ok && k.Value != nil && k.Value.ExactString() == "1"
	}
	zero := func(v ssa.Value) bool {
		k, ok := v.(*ssa.Const)
		return ok && k.Value != nil && k.Value.ExactString() == "0"
	}
	nZero, nInc, nSame, nOther := 0, 0, 0, 0
	var classify func(v ssa.Value, depth int)
	classify = func(v ssa.Value, depth int) {
		switch {
		case zero(v):
			nZero++
		case isInc(v):
			nInc++
		case v == ssa.Value(x):
			nSame++
		default:
			if m, ok := v.(*ssa.Phi); ok && depth < 3 && m != x {
				for _, e := range m.Edges {
					classify(e, depth+1)
				}
				return
			}
			nOther++
		}
	}
	for _, e := range x.Edges {
		classify(e, 0)
	}
	if nZero == 1 && nOther == 0 && nInc > 0 {
		if nSame == 0 {
			return uRune, true
		}
		return uPartial, true
	}
	return 0, false
}
