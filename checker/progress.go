package main

// C06 second-line rules: LOOP-CENSUS, REC-CENSUS, C06-PANIC, C06-BOUNDS.

import (
	"fmt"
	"go/ast"
	"go/constant"
	"go/token"
	"go/types"
	"sort"
	"strings"

	"golang.org/x/tools/go/ssa"
)

// admittedLoop: loops whose termination argument is not of the "every iteration moves a variable of the
// condition" form, identified by the role of the function (never by its name), with the argument.
func admittedLoop(p *Prog, fd *ast.FuncDecl, s *ast.ForStmt) (string, bool) {
	if rf, loop := findRefreshFixpoint(p); rf == fd && loop == s {
		return "include-tree fixpoint: an iteration continues only if it added at least one file that was not indexed before; the set of files reachable on disk is finite, and indexed files are not re-added", true
	}
	// token loop: a condition-less loop that takes the next token from the module's lexer in every iteration
	// and leaves on the end-of-input token
	if s.Cond == nil {
		info := p.InfoFor(fd)
		next, eof := false, false
		ast.Inspect(s.Body, func(x ast.Node) bool {
			switch n := x.(type) {
			case *ast.CallExpr:
				if f, ok := calleeOf(info, n).(*types.Func); ok && f.Type().(*types.Signature).Recv() != nil && f.Type().(*types.Signature).Params().Len() == 0 {
					if res := f.Type().(*types.Signature).Results(); res.Len() == 1 && strings.HasSuffix(types.TypeString(res.At(0).Type(), nil), "parser.Token") {
						next = true
					}
				}
			case *ast.IfStmt:
				if be, ok := ast.Unparen(n.Cond).(*ast.BinaryExpr); ok && be.Op == token.EQL {
					for _, side := range []ast.Expr{be.X, be.Y} {
						if se, ok := ast.Unparen(side).(*ast.SelectorExpr); ok {
							if k, ok := info.Uses[se.Sel].(*types.Const); ok && k.Name() == "TokenEOF" {
								for _, st := range n.Body.List {
									switch b := st.(type) {
									case *ast.BranchStmt:
										if b.Tok == token.BREAK {
											eof = true
										}
									case *ast.ReturnStmt:
										eof = true
									}
								}
							}
						}
					}
				}
			}
			return true
		})
		if next && eof {
			return "token loop: leaves on the end-of-input token; every other iteration consumes input (L-PROGRESS)", true
		}
	}
	return "", false
}

func ruleLoopCensus(c *Ctx) {
	n, nRange := 0, 0
	ppi := newParseInterp(c)
	for _, fd := range c.P.AllFuncDecls() {
		pk := c.P.pkgOf[fd]
		info := pk.TypesInfo
		fname := c.P.declName(fd)
		isLexParse := strings.HasSuffix(pk.PkgPath, "/parser") && (recvTypeName(fd) == "Lexer" || recvTypeName(fd) == "Parser")
		ord := 0
		ast.Inspect(fd.Body, func(x ast.Node) bool {
			switch s := x.(type) {
			case *ast.RangeStmt:
				nRange++
			case *ast.ForStmt:
				ord++
				n++
				desc := fmt.Sprintf("for-loop #%d", ord)
				if isLexParse && (loopTouchesStream(c.P, info, s) || (recvTypeName(fd) == "Parser" && ((s.Cond != nil && ppi.readsCurrent(s.Cond, 0)) || ppi.mutates(s.Body, 0)))) {
					c.ok("LOOP-CENSUS", fname, desc, s.Pos(), "scanner/parser loop: covered by the progress interpreters (L-PROGRESS / P-PROGRESS)")
					return true
				}
				if why, ok := admittedLoop(c.P, fd, s); ok {
					c.ok("LOOP-CENSUS", fname, desc, s.Pos(), "admitted by role: "+why)
					return true
				}
				ok, why := loopMakesProgress(c.P, info, s)
				if !ok {
					if ok2, why2 := ssaLoopProgress(c.P.ssaOf(fd), s); ok2 {
						ok, why = true, why2
					}
				}
				if ok {
					c.ok("LOOP-CENSUS", fname, desc, s.Pos(), why)
				} else {
					c.undecided("LOOP-CENSUS", fname, desc, s.Pos(), "termination of this loop is not established: "+why)
				}
			}
			return true
		})
	}
	c.census("LOOP-CENSUS", "for-loops (non-range) in module code", n, 30)
	c.note("range loops (finite by construction): %d", nRange)
}

func loopTouchesStream(p *Prog, info *types.Info, s *ast.ForStmt) bool {
	txt := fullStr(p.Fset, s)
	return strings.Contains(txt, ".advance()") || strings.Contains(txt, ".pos") || strings.Contains(txt, ".current.Type") || strings.Contains(txt, "skipToNextLine")
}

// condVars: the variables (identifiers and x.f selectors rendered as text) the loop condition reads.
func condVars(p *Prog, info *types.Info, e ast.Expr) map[string]bool {
	out := map[string]bool{}
	ast.Inspect(e, func(x ast.Node) bool {
		switch v := x.(type) {
		case *ast.Ident:
			if o, ok := info.Uses[v].(*types.Var); ok && !o.IsField() {
				out[v.Name] = true
			}
		case *ast.SelectorExpr:
			// a field of a local / receiver: `b.i < len(b.s)`
			if id, ok := ast.Unparen(v.X).(*ast.Ident); ok {
				if o, ok := info.Uses[id].(*types.Var); ok && !o.IsField() {
					out[id.Name+"."+v.Sel.Name] = true
				}
			}
		case *ast.CallExpr:
			// len(x): x
		}
		return true
	})
	return out
}

func assignedVars(p *Prog, st ast.Stmt) map[string]bool {
	out := map[string]bool{}
	switch s := st.(type) {
	case *ast.AssignStmt:
		for _, l := range s.Lhs {
			if id, ok := ast.Unparen(l).(*ast.Ident); ok {
				out[id.Name] = true
			}
			if se, ok := ast.Unparen(l).(*ast.SelectorExpr); ok {
				if id, ok := ast.Unparen(se.X).(*ast.Ident); ok {
					out[id.Name+"."+se.Sel.Name] = true
				}
			}
		}
	case *ast.IncDecStmt:
		if id, ok := ast.Unparen(s.X).(*ast.Ident); ok {
			out[id.Name] = true
		}
		if se, ok := ast.Unparen(s.X).(*ast.SelectorExpr); ok {
			if id, ok := ast.Unparen(se.X).(*ast.Ident); ok {
				out[id.Name+"."+se.Sel.Name] = true
			}
		}
	}
	return out
}

// loopMakesProgress: a necessary structural condition for termination: every path through the body that
// returns to the loop head modifies a variable the condition reads.
func loopMakesProgress(p *Prog, info *types.Info, s *ast.ForStmt) (bool, string) {
	if s.Cond == nil {
		return false, "loop without a condition"
	}
	vars := condVars(p, info, s.Cond)
	if len(vars) == 0 {
		return false, "the condition reads no local variable"
	}
	if s.Post != nil {
		for v := range assignedVars(p, s.Post) {
			if vars[v] {
				return true, "the post statement advances `" + v + "`, which the condition reads"
			}
		}
	}
	weakStep := ""
	modifies := func(st ast.Stmt) bool {
		// `x = x[:len(x)-k]` / `x = x[k:]` with a step k that is not known to be positive shrinks x by nothing when k
		// is zero: not progress
		if as, ok := st.(*ast.AssignStmt); ok && len(as.Lhs) == 1 && len(as.Rhs) == 1 {
			if se, ok := ast.Unparen(as.Rhs[0]).(*ast.SliceExpr); ok && exprStr(p.Fset, se.X) == exprStr(p.Fset, as.Lhs[0]) && vars[exprStr(p.Fset, as.Lhs[0])] {
				var step ast.Expr
				if se.Low != nil && se.High == nil {
					step = se.Low
				}
				if se.High != nil && se.Low == nil {
					if be, ok := ast.Unparen(se.High).(*ast.BinaryExpr); ok && be.Op == token.SUB {
						step = be.Y
					}
				}
				if step != nil && !knownPositive(p, info, s, step) {
					weakStep = exprStr(p.Fset, step)
					return false
				}
			}
		}
		// `off += size` with size the width reported by utf8.DecodeRune*(S[off:]): the width is 0 when S[off:] is
		// empty, so the step is progress only if the loop condition keeps off inside that very string
		// (`off < len(S)`); a bound taken from another string (the text before it was lower-cased) does not
		if as, ok := st.(*ast.AssignStmt); ok && as.Tok == token.ADD_ASSIGN && len(as.Lhs) == 1 && len(as.Rhs) == 1 && vars[exprStr(p.Fset, as.Lhs[0])] {
			if id, ok := ast.Unparen(as.Rhs[0]).(*ast.Ident); ok {
				if dec := decodeWidthSource(p, info, s, id); dec != nil {
					ctr := exprStr(p.Fset, as.Lhs[0])
					okBound := false
					if se, ok := ast.Unparen(dec).(*ast.SliceExpr); ok && se.Low != nil && se.High == nil && exprStr(p.Fset, se.Low) == ctr {
						want1 := ctr + " < len(" + exprStr(p.Fset, se.X) + ")"
						ast.Inspect(s.Cond, func(n ast.Node) bool {
							if be, ok := n.(*ast.BinaryExpr); ok && exprStr(p.Fset, be) == want1 {
								okBound = true
							}
							return true
						})
					}
					if !okBound {
						weakStep = exprStr(p.Fset, as.Rhs[0]) + " (a decoded width, 0 at the end of the decoded string, and the condition does not bound `" + ctr + "` by the length of that string)"
						return false
					}
				}
			}
		}
		for v := range assignedVars(p, st) {
			if vars[v] {
				return true
			}
		}
		return false
	}
	// returns (everyFallthroughPathModified, someContinueWithoutModification)
	var walk func(list []ast.Stmt, modified bool) (bool, bool)
	walk = func(list []ast.Stmt, modified bool) (bool, bool) {
		badCont := false
		for _, st := range list {
			if modifies(st) {
				modified = true
				continue
			}
			switch x := st.(type) {
			case *ast.BranchStmt:
				if x.Tok == token.CONTINUE && !modified {
					badCont = true
				}
				if x.Tok == token.BREAK || x.Tok == token.CONTINUE || x.Tok == token.GOTO {
					return true, badCont // this path does not fall through
				}
			case *ast.ReturnStmt:
				return true, badCont
			case *ast.IfStmt:
				tm, tc := walk(x.Body.List, modified)
				em, ec := modified, false
				if x.Else != nil {
					switch e := x.Else.(type) {
					case *ast.BlockStmt:
						em, ec = walk(e.List, modified)
					case *ast.IfStmt:
						em, ec = walk([]ast.Stmt{e}, modified)
					}
				}
				badCont = badCont || tc || ec
				modified = tm && em
			case *ast.BlockStmt:
				m, bc := walk(x.List, modified)
				modified, badCont = m, badCont || bc
			case *ast.SwitchStmt:
				all := true
				hasDefault := false
				for _, cl := range x.Body.List {
					cc := cl.(*ast.CaseClause)
					if cc.List == nil {
						hasDefault = true
					}
					// a break inside a switch leaves the switch only
					m, bc := walkSwitchBody(cc.Body, modified, walk)
					badCont = badCont || bc
					if !m {
						all = false
					}
				}
				modified = modified || (all && hasDefault)
			case *ast.ForStmt, *ast.RangeStmt:
				// nested loops: their bodies may modify, but may also run zero times
			}
		}
		return modified, badCont
	}
	m, bc := walk(s.Body.List, false)
	if m && !bc {
		return true, "every path through the body modifies a variable the condition reads"
	}
	if bc {
		return false, "a `continue` is reached before any variable of the condition is modified"
	}
	if weakStep != "" {
		return false, "the body shortens the tested value by `" + weakStep + "`, which is not known to be positive: with a step of zero the loop never ends"
	}
	return false, "some path through the body returns to the loop head without modifying a variable of the condition"
}

func walkSwitchBody(list []ast.Stmt, modified bool, walk func([]ast.Stmt, bool) (bool, bool)) (bool, bool) {
	// treat `break` as fallthrough out of the switch
	var filtered []ast.Stmt
	for _, st := range list {
		if b, ok := st.(*ast.BranchStmt); ok && b.Tok == token.BREAK {
			break
		}
		filtered = append(filtered, st)
	}
	return walk(filtered, modified)
}

// ruleRecCensus: the only recursion in the module is the include recursion and the settings recursion.
func ruleRecCensus(c *Ctx) {
	g := c.P.CallGraph("vta")
	funcs := c.P.ModuleFuncs()
	idx := map[*ssa.Function]int{}
	for i, f := range funcs {
		idx[f] = i
	}
	adj := make([][]int, len(funcs))
	for i, f := range funcs {
		if n := g.Nodes[f]; n != nil {
			for _, e := range n.Out {
				// only edges that are static calls or closure calls inside the module
				if j, ok := idx[e.Callee.Func]; ok {
					if e.Site != nil && e.Site.Common().StaticCallee() == nil && !e.Site.Common().IsInvoke() {
						// dynamic call of a function value: VTA over-approximates; keep only if the value is a closure of f
						if e.Callee.Func.Parent() != f && f.Parent() != e.Callee.Func.Parent() {
							continue
						}
						// a function value received as a parameter (directly or captured from an enclosing function's
						// parameter, e.g. the yield of an iterator) is the caller's, not f or one of its siblings
						if calledIsParameter(e.Site.Common().Value) {
							continue
						}
					}
					if e.Site != nil && e.Site.Common().IsInvoke() {
						continue // interface dispatch into the module: resolved imprecisely; handlers are not recursive by construction
					}
					adj[i] = append(adj[i], j)
				}
			}
		}
	}
	// Tarjan
	index := 0
	st := []int{}
	on := make([]bool, len(funcs))
	ind := make([]int, len(funcs))
	low := make([]int, len(funcs))
	for i := range ind {
		ind[i] = -1
	}
	var sccs [][]int
	var strong func(v int)
	strong = func(v int) {
		ind[v], low[v] = index, index
		index++
		st = append(st, v)
		on[v] = true
		for _, w := range adj[v] {
			if ind[w] < 0 {
				strong(w)
				if low[w] < low[v] {
					low[v] = low[w]
				}
			} else if on[w] && ind[w] < low[v] {
				low[v] = ind[w]
			}
		}
		if low[v] == ind[v] {
			var comp []int
			for {
				w := st[len(st)-1]
				st = st[:len(st)-1]
				on[w] = false
				comp = append(comp, w)
				if w == v {
					break
				}
			}
			self := false
			for _, w := range adj[v] {
				if w == v {
					self = true
				}
			}
			if len(comp) > 1 || self {
				sccs = append(sccs, comp)
			}
		}
	}
	for i := range funcs {
		if ind[i] < 0 {
			strong(i)
		}
	}
	n := 0
	guardDone := false
	for _, comp := range sccs {
		var names []string
		for _, i := range comp {
			names = append(names, funcName(funcs[i]))
		}
		sort.Strings(names)
		n++
		desc := "recursive cycle {" + strings.Join(names, ", ") + "}"
		inInclude := true
		for _, i := range comp {
			top := funcs[i]
			for top.Parent() != nil {
				top = top.Parent()
			}
			if top.Pkg == nil || !strings.HasSuffix(top.Pkg.Pkg.Path(), "internal/include") {
				inInclude = false
			}
		}
		switch {
		case inInclude:
			c.ok("REC-CENSUS", names[0], desc, funcs[comp[0]].Pos(), "include recursion: guarded by the ancestor-set test and the depth limit (G-GUARD, G-DEPTH)")
			if !guardDone {
				guardDone = true
				if ls := buildLoaderSSA(c, "G-GUARD"); ls != nil {
					ruleLoaderGuard(c, ls)
				}
			}
		case len(comp) == 1 && structuralRecursion(funcs[comp[0]]):
			c.ok("REC-CENSUS", names[0], desc, funcs[comp[0]].Pos(), "structural recursion: every recursive call passes an element of a container argument it received (a decoded value is a finite tree)")
		default:
			c.undecided("REC-CENSUS", names[0], desc, funcs[comp[0]].Pos(), "recursion whose termination is not established by any rule")
		}
	}
	c.census("REC-CENSUS", "recursive cycles in module code", n, 1)
}

// rulePanic (C06-PANIC): no explicit panic, unchecked type assertion or non-constant division on a request path.
func rulePanic(c *Ctx) {
	ci := buildConc(c)
	n := 0
	// recover anywhere?
	hasRecover := false
	for _, f := range ci.funcs {
		for _, b := range f.Blocks {
			for _, ins := range b.Instrs {
				if call, ok := ins.(ssa.CallInstruction); ok {
					if bi, ok := call.Common().Value.(*ssa.Builtin); ok && bi.Name() == "recover" {
						hasRecover = true
					}
				}
			}
		}
	}
	c.note("recover() present in module code: %v", hasRecover)
	for _, f := range ci.funcs {
		if !(ci.reachH[f] || ci.reachG[f]) {
			continue
		}
		// a closure counts only if the function that creates it is reachable as well (the call graph resolves
		// callbacks such as sync.Map.Range context-insensitively)
		if par := f.Parent(); par != nil && !(ci.reachH[par] || ci.reachG[par]) {
			continue
		}
		n++
		var bad []string
		for _, b := range f.Blocks {
			for _, ins := range b.Instrs {
				switch x := ins.(type) {
				case *ssa.Panic:
					if !x.Pos().IsValid() {
						continue // synthesised by the compiler front end (range-over-func protocol checks), not written in the source
					}
					bad = append(bad, "explicit panic at "+c.P.pos(x.Pos()))
				case *ssa.TypeAssert:
					if !x.CommaOk {
						bad = append(bad, "unchecked type assertion "+x.String()+" at "+c.P.pos(x.Pos()))
					}
				case *ssa.BinOp:
					if (x.Op == token.QUO || x.Op == token.REM) && isIntType(x.Type()) {
						if _, isConst := x.Y.(*ssa.Const); !isConst {
							bad = append(bad, "integer division by a non-constant at "+c.P.pos(x.Pos()))
						}
					}
				}
			}
		}
		if len(bad) > 0 {
			c.finding("C06-PANIC", funcName(f), "no fatal construct on a request path", f.Pos(), "reachable from a request handler or background goroutine and contains a construct that can panic ("+strings.Join(bad, "; ")+"); there is no recover in the server, so the process dies")
		} else {
			c.ok("C06-PANIC", funcName(f), "no fatal construct on a request path", f.Pos(), "no explicit panic, unchecked type assertion or non-constant integer division")
		}
	}
	c.census("C06-PANIC", "module functions on request/background paths", n, 100)
}

// ruleBounds (C06-BOUNDS): a string is never sliced with a byte offset converted from a client-supplied
// UTF-16 column unless that offset was clamped to the string's length (the conversion of a line that
// contains invalid UTF-8 can exceed the line's byte length).
func ruleBounds(c *Ctx) {
	n := 0
	for _, f := range c.P.ModuleFuncs() {
		for _, b := range f.Blocks {
			for _, ins := range b.Instrs {
				sl, ok := ins.(*ssa.Slice)
				if !ok || types.TypeString(sl.X.Type().Underlying(), nil) != "string" {
					continue
				}
				for _, bound := range []ssa.Value{sl.Low, sl.High} {
					if bound == nil {
						continue
					}
					if !directFromConversion(bound, map[ssa.Value]bool{}) {
						continue
					}
					n++
					c.check(clampedToLen(bound, map[ssa.Value]bool{}), "C06-BOUNDS", funcName(f), "converted cursor offset clamped before slicing", sl.Pos(),
						"the slice bound is limited by a len(...) value on every path",
						"a string is sliced with a byte offset converted from a client-supplied UTF-16 column without a clamp to the string's length: for a line containing invalid UTF-8 the conversion counts 3 bytes per invalid byte and the offset exceeds the line (slice bounds out of range)")
				}
			}
		}
	}
	c.census("C06-BOUNDS", "string slices bounded by a converted cursor offset", n, 2)
}

// clampedToLen: v is (transitively through phis / min / arithmetic with constants) limited by a len() value:
// some phi on the way has an incoming edge that is a len(...) call, or v is min(x, len(...)).
func clampedToLen(v ssa.Value, seen map[ssa.Value]bool) bool {
	if v == nil || seen[v] {
		return false
	}
	seen[v] = true
	switch x := v.(type) {
	case *ssa.Phi:
		for _, e := range x.Edges {
			if isLenCall(e) {
				return true
			}
		}
		// a phi all of whose edges are clamped
		all := len(x.Edges) > 0
		for _, e := range x.Edges {
			if !clampedToLen(e, seen) {
				all = false
			}
		}
		return all
	case *ssa.Call:
		if bi, ok := x.Call.Value.(*ssa.Builtin); ok && bi.Name() == "min" {
			for _, a := range x.Call.Args {
				if isLenCall(a) {
					return true
				}
			}
		}
		if isLenCall(x) {
			return true
		}
		if cal := x.Common().StaticCallee(); cal != nil && inModule(cal) && cal.Blocks != nil {
			all, n := true, 0
			for _, b := range cal.Blocks {
				for _, ins := range b.Instrs {
					if r, ok := ins.(*ssa.Return); ok && len(r.Results) > 0 {
						n++
						if !clampedToLen(r.Results[0], seen) {
							all = false
						}
					}
				}
			}
			return all && n > 0
		}
		return false
	case *ssa.Extract:
		if call, ok := x.Tuple.(*ssa.Call); ok {
			if cal := call.Common().StaticCallee(); cal != nil && inModule(cal) && cal.Blocks != nil {
				all, n := true, 0
				for _, b := range cal.Blocks {
					for _, ins := range b.Instrs {
						if r, ok := ins.(*ssa.Return); ok && x.Index < len(r.Results) {
							if k, isConst := r.Results[x.Index].(*ssa.Const); isConst && k.Value != nil && k.Int64() == 0 {
								continue // `return "", 0, false`
							}
							n++
							if !clampedToLen(r.Results[x.Index], seen) {
								all = false
							}
						}
					}
				}
				return all && n > 0
			}
		}
		return false
	case *ssa.BinOp:
		// clamp(x) - k, clamp(x) + const within guards: accept subtraction of non-negative values from a clamped value
		if x.Op == token.SUB {
			return clampedToLen(x.X, seen)
		}
	case *ssa.UnOp:
		if x.Op == token.MUL {
			if al, ok := x.X.(*ssa.Alloc); ok {
				all := true
				n := 0
				for _, r := range *al.Referrers() {
					if st, ok := r.(*ssa.Store); ok && st.Addr == al {
						n++
						if !isLenCall(st.Val) && !clampedToLen(st.Val, seen) {
							all = false
						}
					}
				}
				return all && n > 0
			}
		}
	}
	return false
}

func isLenCall(v ssa.Value) bool {
	if call, ok := v.(*ssa.Call); ok {
		if bi, ok := call.Call.Value.(*ssa.Builtin); ok && bi.Name() == "len" {
			return true
		}
	}
	return false
}

// directFromConversion: v is computed from a UTF16OffsetToByteOffset result through arithmetic, phis,
// conversions and local variables only (an index found by searching inside an already clamped substring
// is not a converted cursor offset).
func directFromConversion(v ssa.Value, seen map[ssa.Value]bool) bool {
	if v == nil || seen[v] {
		return false
	}
	seen[v] = true
	switch x := v.(type) {
	case *ssa.Call:
		cal := x.Common().StaticCallee()
		if cal != nil && calleeNameIs(cal, "lsputil.UTF16OffsetToByteOffset") {
			return true
		}
		// a module helper that returns a converted offset
		if cal != nil && inModule(cal) && cal.Blocks != nil && isIntType(x.Type()) {
			for _, b := range cal.Blocks {
				for _, ins := range b.Instrs {
					if r, ok := ins.(*ssa.Return); ok && len(r.Results) > 0 && directFromConversion(r.Results[0], seen) {
						return true
					}
				}
			}
		}
		return false
	case *ssa.Extract:
		// one of several results of a module helper (`line, byteCol, ok := cursorLine(content, pos)`)
		if call, ok := x.Tuple.(*ssa.Call); ok {
			if cal := call.Common().StaticCallee(); cal != nil && inModule(cal) && cal.Blocks != nil {
				for _, b := range cal.Blocks {
					for _, ins := range b.Instrs {
						if r, ok := ins.(*ssa.Return); ok && x.Index < len(r.Results) && directFromConversion(r.Results[x.Index], seen) {
							return true
						}
					}
				}
			}
		}
		return false
	case *ssa.BinOp:
		return directFromConversion(x.X, seen) || directFromConversion(x.Y, seen)
	case *ssa.Phi:
		for _, e := range x.Edges {
			if directFromConversion(e, seen) {
				return true
			}
		}
	case *ssa.Convert:
		return directFromConversion(x.X, seen)
	case *ssa.UnOp:
		if x.Op == token.MUL {
			if al, ok := x.X.(*ssa.Alloc); ok {
				for _, r := range *al.Referrers() {
					if st, ok := r.(*ssa.Store); ok && st.Addr == al && directFromConversion(st.Val, seen) {
						return true
					}
				}
			}
		}
	}
	return false
}

// ruleSliceWindow (S-WINDOW): a window `x[lo:hi]` (lo not 0, no third index) cut from a slice that lives in a
// struct field and handed on (returned, stored into a field or element) shares the backing array beyond hi: an
// append to the window overwrites what the next window holds.  Reported for non-string slices in parser,
// analyzer and workspace code - the data structures the extracted journal is made of.
func ruleSliceWindow(c *Ctx) {
	nSlices, nWindows := 0, 0
	for _, f := range c.P.ModuleFuncs() {
		for _, b := range f.Blocks {
			for _, ins := range b.Instrs {
				sl, ok := ins.(*ssa.Slice)
				if !ok {
					continue
				}
				if _, isSlice := sl.X.Type().Underlying().(*types.Slice); !isSlice {
					continue
				}
				nSlices++
				if sl.Max != nil || sl.High == nil || sl.Low == nil {
					continue
				}
				if k, ok := sl.Low.(*ssa.Const); ok && k.Value != nil && k.Int64() == 0 {
					continue
				}
				// the base lives in a struct field
				ld, ok := sl.X.(*ssa.UnOp)
				if !ok || ld.Op != token.MUL {
					continue
				}
				if _, ok := ld.X.(*ssa.FieldAddr); !ok {
					continue
				}
				// handed on: returned, or stored into a field / element
				escapes := false
				for _, r := range *sl.Referrers() {
					switch u := r.(type) {
					case *ssa.Return:
						escapes = true
					case *ssa.Store:
						if u.Val == ssa.Value(sl) {
							switch u.Addr.(type) {
							case *ssa.FieldAddr, *ssa.IndexAddr:
								escapes = true
							}
						}
					}
				}
				if !escapes {
					continue
				}
				nWindows++
				c.finding("S-WINDOW", funcName(f), "window of a shared slice handed on without a capacity limit", sl.Pos(),
					"a window x[lo:hi] of a slice kept in a struct field is returned or stored without a third index: it shares the backing array beyond hi, so an append to it overwrites the elements of the following window (use x[lo:hi:hi])")
			}
		}
	}
	c.census("S-WINDOW", "slice expressions on non-string slices in module code", nSlices, 5)
	c.note("S-WINDOW: %d windows of field-held slices handed on without a capacity limit", nWindows)
}

// ruleOptionalDeref (N-NIL): the optional parts of a posting (pointer-typed fields of ast.Posting: amount, cost,
// balance assertion) are absent on many inputs - in particular after a syntax error, when the parser keeps what
// it understood.  Every dereference of such a field read is reached only behind a nil test of the same field
// (there is no recover in the server: a nil dereference on a request or analysis path ends the process).
func ruleOptionalDeref(c *Ctx) {
	n := 0
	for _, f := range c.P.ModuleFuncs() {
		for _, b := range f.Blocks {
			for _, ins := range b.Instrs {
				var ptr ssa.Value
				switch x := ins.(type) {
				case *ssa.FieldAddr:
					ptr = x.X
				case *ssa.UnOp:
					if x.Op == token.MUL {
						if _, isPtr := x.X.Type().Underlying().(*types.Pointer); isPtr {
							ptr = x.X
						}
					}
				}
				ld, ok := ptr.(*ssa.UnOp)
				if !ok || ld.Op != token.MUL {
					continue
				}
				src, ok := ld.X.(*ssa.FieldAddr)
				if !ok || !typeHasSuffix(src.X.Type(), "ast.Posting") {
					continue
				}
				if _, isPtr := fieldVarOfAddr(src).Type().Underlying().(*types.Pointer); !isPtr {
					continue
				}
				n++
				guarded := false
				for _, cc := range controlCondsPol(b) {
					bo, ok := cc.Cond.(*ssa.BinOp)
					if !ok {
						continue
					}
					isNilCmp := func(x, y ssa.Value) bool {
						k, isK := y.(*ssa.Const)
						return isK && k.IsNil() && sameLoad(x, ld)
					}
					if (isNilCmp(bo.X, bo.Y) || isNilCmp(bo.Y, bo.X)) && ((bo.Op == token.NEQ && cc.Taken) || (bo.Op == token.EQL && !cc.Taken)) {
						guarded = true
					}
				}
				if !guarded {
					guarded = nilGuardedByCallers(c, f, src, 0)
				}
				c.check(guarded, "N-NIL", funcName(f), "optional part of a posting dereferenced behind a nil test: "+fieldVarOfAddr(src).Name(), ins.Pos(),
					"the dereference is reached only when the field was tested to be non-nil",
					"posting."+fieldVarOfAddr(src).Name()+" is dereferenced on a path without a nil test of that field: postings without that part (inferred amounts, lines the parser only partly understood) make the server panic; there is no recover")
			}
		}
	}
	c.census("N-NIL", "dereferences of optional parts of a posting", n, 10)
	// ... and the tree a loader hands back: Load / LoadFromContent return a nil tree when they refuse the text (over
	// the size limit, unreadable).  A field of such a tree is read only behind a nil test of it - in the function that
	// made the call, or, when the tree is passed on unguarded, in the callee that reads it.
	isLoaderTree := func(v ssa.Value) bool {
		// a variable captured by a closure lives in a cell: look at what is stored into it
		if un, ok := v.(*ssa.UnOp); ok && un.Op == token.MUL {
			if al, ok := un.X.(*ssa.Alloc); ok && al.Referrers() != nil {
				var stored []ssa.Value
				for _, r := range *al.Referrers() {
					if st, ok := r.(*ssa.Store); ok && st.Addr == ssa.Value(al) {
						stored = append(stored, st.Val)
					}
				}
				if len(stored) == 1 {
					v = stored[0]
				}
			}
		}
		ex, ok := v.(*ssa.Extract)
		if !ok || ex.Index != 0 {
			return false
		}
		call, ok := ex.Tuple.(*ssa.Call)
		if !ok {
			return false
		}
		cal := call.Call.StaticCallee()
		return cal != nil && cal.Signature.Recv() != nil && typeHasSuffix(cal.Signature.Recv().Type(), "include.Loader") && typeHasSuffix(ex.Type(), "include.ResolvedJournal")
	}
	nilGuarded := func(b *ssa.BasicBlock, v ssa.Value) bool {
		for _, cc := range controlCondsPol(b) {
			bo, ok := cc.Cond.(*ssa.BinOp)
			if !ok {
				continue
			}
			for _, pr := range [][2]ssa.Value{{bo.X, bo.Y}, {bo.Y, bo.X}} {
				same := pr[0] == v
				if l1, ok := pr[0].(*ssa.UnOp); ok && !same {
					if l2, ok := v.(*ssa.UnOp); ok && l1.Op == token.MUL && l2.Op == token.MUL && l1.X == l2.X {
						same = true // two loads of one cell
					}
				}
				if k, isK := pr[1].(*ssa.Const); isK && k.IsNil() && same {
					if (bo.Op == token.NEQ && cc.Taken) || (bo.Op == token.EQL && !cc.Taken) {
						return true
					}
				}
			}
		}
		return false
	}
	nTree := 0
	for _, f := range c.P.ModuleFuncs() {
		for _, b := range f.Blocks {
			for _, ins := range b.Instrs {
				fa, ok := ins.(*ssa.FieldAddr)
				if !ok || !typeHasSuffix(fa.X.Type(), "include.ResolvedJournal") {
					continue
				}
				bad := ""
				switch v := fa.X.(type) {
				case *ssa.Extract:
					if isLoaderTree(v) && !nilGuarded(b, v) {
						bad = "the tree returned by the loader"
					}
				case *ssa.UnOp:
					if !isLoaderTree(v) {
						continue
					}
					if !nilGuarded(b, v) {
						bad = "the tree returned by the loader"
					}
				case *ssa.Parameter:
					if nilGuarded(b, v) {
						break
					}
					idx := -1
					for i, q := range f.Params {
						if q == v {
							idx = i
						}
					}
					// the tree may be handed down several levels (analyze -> withIncludedDeclarations -> a method of the
					// tree itself): every level that passes it on without a nil test is followed up to the loader call
					var upward func(fn *ssa.Function, idx, depth int) string
					upward = func(fn *ssa.Function, idx, depth int) string {
						for _, site := range (cgView{c}).callersOf(fn) {
							if idx < 0 || idx >= len(site.Common().Args) {
								continue
							}
							a := site.Common().Args[idx]
							if nilGuarded(site.Block(), a) {
								continue
							}
							if isLoaderTree(a) {
								return "the tree " + funcName(site.Parent()) + " got from the loader and passes on without a nil test"
							}
							if prm, ok := a.(*ssa.Parameter); ok && depth < 3 {
								for i, q := range site.Parent().Params {
									if q == prm {
										if w := upward(site.Parent(), i, depth+1); w != "" {
											return w
										}
									}
								}
							}
						}
						return ""
					}
					bad = upward(f, idx, 0)
				default:
					continue
				}
				nTree++
				c.check(bad == "", "N-NIL", funcName(f), "a tree handed back by the loader is read behind a nil test: "+fieldVarOfAddr(fa).Name(), fa.Pos(),
					"the read is guarded, or the tree does not come straight from a loader call",
					"a field of "+bad+" is read without a nil test: the loader returns a nil tree when it refuses the text (over the configured size limit), so the read panics - on the background goroutine, where nothing recovers, the server dies")
			}
		}
	}
	c.note("N-NIL: field reads of loader trees judged: %d", nTree)
}

// ruleCrossIndex (U-XSTR): a byte position obtained by ranging over one string is only meaningful in that string;
// using it (or an offset of it) to index or slice a *different* string is in bounds only by coincidence (case
// mapping, trimming and replacement change byte lengths) - an index out of range panics, and there is no recover.
func ruleCrossIndex(c *Ctx) {
	n, nRange, nUses := 0, 0, 0
	for _, f := range c.P.ModuleFuncs() {
		// positions delivered by `for pos, r := range s`
		origin := map[ssa.Value]ssa.Value{} // position value -> the string ranged over
		for _, b := range f.Blocks {
			for _, ins := range b.Instrs {
				ex, ok := ins.(*ssa.Extract)
				if !ok || ex.Index != 1 {
					continue
				}
				nx, ok := ex.Tuple.(*ssa.Next)
				if !ok || !nx.IsString {
					continue
				}
				if rg, ok := nx.Iter.(*ssa.Range); ok {
					origin[ex] = rg.X
					nRange++
				}
			}
		}
		for _, b := range f.Blocks {
			for _, ins := range b.Instrs {
				switch x := ins.(type) {
				case *ssa.Index:
					if bt, ok := x.X.Type().Underlying().(*types.Basic); ok && bt.Info()&types.IsString != 0 {
						nUses++
					}
				case *ssa.Slice:
					if bt, ok := x.X.Type().Underlying().(*types.Basic); ok && bt.Info()&types.IsString != 0 {
						nUses++
					}
				}
			}
		}
		if len(origin) == 0 {
			continue
		}
		for _, b := range f.Blocks {
			for _, ins := range b.Instrs {
				var str, idx ssa.Value
				switch x := ins.(type) {
				case *ssa.Lookup:
					if bt, ok := x.X.Type().Underlying().(*types.Basic); ok && bt.Info()&types.IsString != 0 {
						str, idx = x.X, x.Index
					}
				case *ssa.Index:
					if bt, ok := x.X.Type().Underlying().(*types.Basic); ok && bt.Info()&types.IsString != 0 {
						str, idx = x.X, x.Index
					}
				case *ssa.Slice:
					if bt, ok := x.X.Type().Underlying().(*types.Basic); ok && bt.Info()&types.IsString != 0 {
						str = x.X
						if x.Low != nil {
							idx = x.Low
						} else {
							idx = x.High
						}
					}
				}
				if str == nil || idx == nil {
					continue
				}
				for v := range backSlice(idx) {
					src, ok := origin[v]
					if !ok {
						continue
					}
					n++
					same := src == str || sameLoad(src, str)
					c.check(same, "U-XSTR", funcName(f), "range position used in the string it came from", ins.Pos(),
						"the indexed string is the one the position was obtained from",
						"a byte position obtained by ranging over one string indexes a different string: the two can differ in length (case mapping of invalid UTF-8 or of letters whose other case has another width), so the index can be out of range and the server panics")
				}
			}
		}
	}
	c.census("U-XSTR", "string index and slice expressions examined", nUses, 20)
	c.note("U-XSTR: %d string range loops deliver a position", nRange)
	c.note("U-XSTR: %d uses of a range position as a string index", n)
}

// nilGuardedByCallers: the posting whose optional field is dereferenced is a parameter of f (pointer, or a value
// copy), f has call sites, and every call site is reached only behind a nil test of that field of the posting it
// passes (or passes its own parameter on and is guarded likewise).
func nilGuardedByCallers(c *Ctx, f *ssa.Function, src *ssa.FieldAddr, depth int) bool {
	if depth > 2 {
		return false
	}
	// the parameter the posting address stands for
	var param *ssa.Parameter
	switch b := src.X.(type) {
	case *ssa.Parameter:
		param = b
	case *ssa.Alloc:
		for _, r := range *b.Referrers() {
			if st, ok := r.(*ssa.Store); ok && st.Addr == ssa.Value(b) {
				if p, ok := st.Val.(*ssa.Parameter); ok {
					param = p
				}
			}
		}
	}
	if param == nil {
		return false
	}
	idx := -1
	for i, q := range f.Params {
		if q == param {
			idx = i
		}
	}
	sites := (cgView{c}).callersOf(f)
	if idx < 0 || len(sites) == 0 {
		return false
	}
	field := src.Field
	for _, site := range sites {
		args := site.Common().Args
		if idx >= len(args) {
			return false
		}
		arg := args[idx]
		// the address of the posting at the call site
		addr := arg
		if ld, ok := arg.(*ssa.UnOp); ok && ld.Op == token.MUL {
			addr = ld.X // passed by value: a copy of *addr
		}
		ok := false
		for _, cc := range controlCondsPol(site.Block()) {
			bo, isB := cc.Cond.(*ssa.BinOp)
			if !isB {
				continue
			}
			isNilCmp := func(x, y ssa.Value) bool {
				k, isK := y.(*ssa.Const)
				if !isK || !k.IsNil() {
					return false
				}
				l, isL := x.(*ssa.UnOp)
				if !isL || l.Op != token.MUL {
					return false
				}
				fa, isFA := l.X.(*ssa.FieldAddr)
				return isFA && fa.Field == field && typeHasSuffix(fa.X.Type(), "ast.Posting") && (fa.X == addr || sameAddr(fa.X, addr, 0) || sameLoad(fa.X, addr))
			}
			if (isNilCmp(bo.X, bo.Y) || isNilCmp(bo.Y, bo.X)) && ((bo.Op == token.NEQ && cc.Taken) || (bo.Op == token.EQL && !cc.Taken)) {
				ok = true
			}
		}
		if !ok {
			// the caller hands its own parameter on
			g := site.Parent()
			var fa2 *ssa.FieldAddr
			for _, b := range g.Blocks {
				for _, ins := range b.Instrs {
					if x, isFA := ins.(*ssa.FieldAddr); isFA && x.Field == field && typeHasSuffix(x.X.Type(), "ast.Posting") && (x.X == addr || sameAddr(x.X, addr, 0)) {
						fa2 = x
					}
				}
			}
			if fa2 == nil || !nilGuardedByCallers(c, g, fa2, depth+1) {
				return false
			}
		}
	}
	return true
}

// ssaLoopProgress: a termination argument for loops the syntactic rule does not cover (`for { ... }` with exits
// in the body): some loop-carried value makes strict progress on every way back to the loop head -
//   - an offset that grows by at least one (`start += nl + 1` after `nl < 0` left the loop) and is used as a bound
//     or index into a string/slice in the loop (so it cannot exceed its length),
//   - a string/slice that gets strictly shorter (`rest` of strings.Cut when the separator was found, `s[k:]`),
//   - a value obtained from the previous one by a map lookup / type assertion (descent into a finite value).
func ssaLoopProgress(f *ssa.Function, s *ast.ForStmt) (bool, string) {
	if f == nil {
		return false, ""
	}
	// the loop's blocks: those holding an instruction written inside the statement, in a cycle
	inLoop := map[*ssa.BasicBlock]bool{}
	for _, fn := range append([]*ssa.Function{f}, f.AnonFuncs...) {
		for _, b := range fn.Blocks {
			if !inCycle(b) {
				continue
			}
			for _, ins := range b.Instrs {
				if p := ins.Pos(); p.IsValid() && p >= s.Pos() && p <= s.End() {
					inLoop[b] = true
					break
				}
			}
		}
	}
	var header *ssa.BasicBlock
	for b := range inLoop {
		for _, p := range b.Preds {
			if !inLoop[p] && !reachesBlock(b, p) {
				if header == nil || b.Index < header.Index {
					header = b
				}
			}
		}
	}
	if header == nil {
		return false, ""
	}
	// the whole cycle through the header (blocks without a source position included)
	for _, b := range header.Parent().Blocks {
		if b != header && reachesBlock(header, b) && reachesBlock(b, header) {
			inLoop[b] = true
		}
	}
	nonNeg := func(v ssa.Value, at *ssa.BasicBlock) bool {
		if k, ok := v.(*ssa.Const); ok && k.Value != nil {
			return k.Int64() >= 0
		}
		if call, ok := v.(*ssa.Call); ok {
			if bi, ok := call.Call.Value.(*ssa.Builtin); ok && (bi.Name() == "len" || bi.Name() == "cap") {
				return true
			}
		}
		for _, cc := range controlCondsPol(at) {
			bo, ok := cc.Cond.(*ssa.BinOp)
			if !ok || bo.X != v {
				continue
			}
			k, ok := bo.Y.(*ssa.Const)
			if !ok || k.Value == nil {
				continue
			}
			switch {
			case bo.Op == token.LSS && !cc.Taken && k.Int64() >= 0, // !(v < 0)
				bo.Op == token.GEQ && cc.Taken && k.Int64() >= 0,
				bo.Op == token.GTR && cc.Taken && k.Int64() >= -1:
				return true
			}
		}
		return false
	}
	// the use must happen in every iteration (its block dominates every way back to the header): an index that
	// is only evaluated under `if i < len(s)` bounds nothing
	everyIteration := func(b *ssa.BasicBlock) bool {
		for _, p := range header.Preds {
			if inLoop[p] && !(b == p || b.Dominates(p)) {
				return false
			}
		}
		return true
	}
	usedAsBound := func(p ssa.Value) bool {
		for b := range inLoop {
			if !everyIteration(b) {
				continue
			}
			for _, ins := range b.Instrs {
				switch x := ins.(type) {
				case *ssa.Slice:
					if x.Low == p || x.High == p {
						return true
					}
				case *ssa.Index:
					if x.Index == p {
						return true
					}
				case *ssa.IndexAddr:
					if x.Index == p {
						return true
					}
				}
			}
		}
		return false
	}
	var progresses func(v ssa.Value, phi *ssa.Phi, from *ssa.BasicBlock, depth int) bool
	progresses = func(v ssa.Value, phi *ssa.Phi, from *ssa.BasicBlock, depth int) bool {
		if depth > 4 {
			return false
		}
		switch x := v.(type) {
		case *ssa.BinOp:
			if x.Op == token.ADD && isIntType(x.Type()) {
				// phi + e with e >= 1
				base, e := x.X, x.Y
				if base != ssa.Value(phi) {
					base, e = x.Y, x.X
				}
				if base != ssa.Value(phi) {
					return false
				}
				if k, ok := e.(*ssa.Const); ok && k.Value != nil && k.Int64() >= 1 {
					return usedAsBound(phi)
				}
				if eb, ok := e.(*ssa.BinOp); ok && eb.Op == token.ADD {
					if k, ok := eb.Y.(*ssa.Const); ok && k.Value != nil && k.Int64() >= 1 && nonNeg(eb.X, from) {
						return usedAsBound(phi)
					}
				}
			}
		case *ssa.Extract:
			// the rest of a cut / split: strictly shorter when the separator was found; the loop is left otherwise
			if call, ok := x.Tuple.(*ssa.Call); ok {
				if cal := call.Call.StaticCallee(); cal != nil {
					switch cal.String() {
					case "strings.Cut", "bytes.Cut", "strings.CutPrefix", "strings.CutSuffix":
						for _, a := range call.Call.Args {
							if a == ssa.Value(phi) {
								return true
							}
						}
					}
				}
				return false
			}
			// `v, ok := x.(T)` / `v, ok := m[k]` on the previous value: descent into a finite value
			switch t := x.Tuple.(type) {
			case *ssa.TypeAssert:
				return t.X == ssa.Value(phi) || backSlice(t.X)[phi]
			case *ssa.Lookup:
				return backSlice(t.X)[phi]
			}
		case *ssa.Slice:
			if x.X == ssa.Value(phi) && x.Low != nil {
				if k, ok := x.Low.(*ssa.Const); ok && k.Value != nil && k.Int64() >= 1 {
					return true
				}
			}
		case *ssa.Lookup:
			return backSlice(x.X)[phi]
		case *ssa.TypeAssert:
			return backSlice(x.X)[phi]
		case *ssa.Phi:
			if x == phi {
				return false
			}
			for _, e := range x.Edges {
				if !progresses(e, phi, from, depth+1) {
					return false
				}
			}
			return true
		}
		return false
	}
	for _, ins := range header.Instrs {
		phi, ok := ins.(*ssa.Phi)
		if !ok {
			break
		}
		all, n := true, 0
		for i, pred := range header.Preds {
			if !inLoop[pred] {
				continue
			}
			n++
			if i >= len(phi.Edges) || !progresses(phi.Edges[i], phi, pred, 0) {
				all = false
			}
		}
		if all && n > 0 {
			return true, "the loop-carried value " + phi.Comment + " makes strict progress on every way back to the loop head (offset grows and bounds a slice, a string gets shorter, or a finite value is descended into)"
		}
	}
	return false, ""
}

// calledIsParameter: the called function value is a parameter of the function or a captured parameter of an
// enclosing function.
func calledIsParameter(v ssa.Value) bool {
	for range 6 {
		switch x := v.(type) {
		case *ssa.Parameter:
			return true
		case *ssa.FreeVar:
			b := freeVarBinding(x)
			if b == nil {
				return false
			}
			v = b
		case *ssa.ChangeType:
			v = x.X
		case *ssa.UnOp:
			if x.Op != token.MUL {
				return false
			}
			// load of a cell: the cell of a captured parameter is an Alloc with a single store of the parameter
			cell := x.X
			for range 6 {
				fv, ok := cell.(*ssa.FreeVar)
				if !ok {
					break
				}
				cell = freeVarBinding(fv)
			}
			al, ok := cell.(*ssa.Alloc)
			if !ok {
				return false
			}
			var val ssa.Value
			n := 0
			for _, r := range *al.Referrers() {
				if st, ok := r.(*ssa.Store); ok && st.Addr == al {
					n++
					val = st.Val
				}
			}
			if n != 1 {
				return false
			}
			v = val
		default:
			return false
		}
	}
	return false
}

// structuralRecursion: every self call of f passes, in some argument position, a value obtained from the
// parameter in that same position by at least one element access (map lookup, index): recursion on a
// strictly smaller part of a finite tree.
func structuralRecursion(f *ssa.Function) bool {
	n := 0
	for _, b := range f.Blocks {
		for _, ins := range b.Instrs {
			call, ok := ins.(ssa.CallInstruction)
			if !ok || call.Common().StaticCallee() != f {
				continue
			}
			n++
			descends := false
			for i, a := range call.Common().Args {
				if i >= len(f.Params) {
					break
				}
				sl := backSlice(a)
				if !sl[f.Params[i]] {
					continue
				}
				for v := range sl {
					switch v.(type) {
					case *ssa.Lookup, *ssa.Index, *ssa.IndexAddr:
						descends = true
					}
				}
			}
			if !descends {
				return false
			}
		}
	}
	return n > 0
}

// knownPositive: the step expression is a positive constant, a length / width that a decoder or search reported
// for a non-empty match (utf8 sizes, `len` of a non-empty literal), `x + c` with c > 0, or an identifier that the
// enclosing function compares with zero or one somewhere (a guard; the comparison is not evaluated further).
func knownPositive(p *Prog, info *types.Info, loop *ast.ForStmt, e ast.Expr) bool {
	e = ast.Unparen(e)
	if tv, ok := info.Types[e]; ok && tv.Value != nil {
		if v, ok := constant.Int64Val(constant.ToInt(tv.Value)); ok {
			return v > 0
		}
	}
	switch x := e.(type) {
	case *ast.BinaryExpr:
		if x.Op == token.ADD {
			return knownPositive(p, info, loop, x.X) || knownPositive(p, info, loop, x.Y)
		}
	case *ast.Ident:
		// a guard on the identifier anywhere in the file-level function that contains the loop
		name := x.Name
		guarded := false
		var fd *ast.FuncDecl
		for d := range p.pkgOf {
			if d.Body != nil && d.Pos() <= loop.Pos() && loop.End() <= d.End() {
				fd = d
			}
		}
		if fd != nil {
			ast.Inspect(fd.Body, func(n ast.Node) bool {
				be, ok := n.(*ast.BinaryExpr)
				if !ok {
					return true
				}
				switch be.Op {
				case token.GTR, token.GEQ, token.LSS, token.LEQ, token.EQL, token.NEQ:
					for _, side := range [][2]ast.Expr{{be.X, be.Y}, {be.Y, be.X}} {
						if id, ok := ast.Unparen(side[0]).(*ast.Ident); ok && id.Name == name {
							if tv, ok := info.Types[side[1]]; ok && tv.Value != nil {
								if v, ok := constant.Int64Val(constant.ToInt(tv.Value)); ok && (v == 0 || v == 1) {
									guarded = true
								}
							}
						}
					}
				}
				return true
			})
		}
		return guarded
	case *ast.CallExpr:
		return false
	}
	return false
}

// decodeWidthSource: id is the width result of `r, id := utf8.DecodeRune[InString](arg)` somewhere in the loop:
// returns arg.
func decodeWidthSource(p *Prog, info *types.Info, loop *ast.ForStmt, id *ast.Ident) ast.Expr {
	obj := info.Uses[id]
	if obj == nil {
		return nil
	}
	var arg ast.Expr
	ast.Inspect(loop.Body, func(n ast.Node) bool {
		as, ok := n.(*ast.AssignStmt)
		if !ok || len(as.Lhs) != 2 || len(as.Rhs) != 1 {
			return true
		}
		l1, ok := as.Lhs[1].(*ast.Ident)
		if !ok || (info.Defs[l1] != obj && info.Uses[l1] != obj) {
			return true
		}
		call, ok := ast.Unparen(as.Rhs[0]).(*ast.CallExpr)
		if !ok || len(call.Args) != 1 {
			return true
		}
		if sel, ok := call.Fun.(*ast.SelectorExpr); ok && (sel.Sel.Name == "DecodeRuneInString" || sel.Sel.Name == "DecodeRune") {
			if pk, ok := sel.X.(*ast.Ident); ok {
				if pn, ok := info.Uses[pk].(*types.PkgName); ok && pn.Imported().Path() == "unicode/utf8" {
					arg = call.Args[0]
				}
			}
		}
		return true
	})
	return arg
}
