package main

// A small value-range (interval) abstract interpreter over go/ssa, flow sensitive in the integer leaves of local
// struct variables, with branch refinement and bounded inlining of module functions.  It answers: "whatever the
// argument, in which range does integer leaf L of the struct returned by function F lie?"  Used for the settings
// normaliser (T6 normalisation, C06-REPEAT clamps).

import (
	"fmt"
	"go/constant"
	"go/token"
	"go/types"
	"math"
	"sort"
	"strings"

	"golang.org/x/tools/go/ssa"
)

type ival struct {
	lo, hi       int64
	loInf, hiInf bool
}

var ivTop = ival{loInf: true, hiInf: true}

func ivConst(k int64) ival { return ival{lo: k, hi: k} }

func (a ival) String() string {
	lo, hi := "-inf", "+inf"
	if !a.loInf {
		lo = fmt.Sprint(a.lo)
	}
	if !a.hiInf {
		hi = fmt.Sprint(a.hi)
	}
	return "[" + lo + ", " + hi + "]"
}

func (a ival) join(b ival) ival {
	r := ival{}
	if a.loInf || b.loInf {
		r.loInf = true
	} else {
		r.lo = min(a.lo, b.lo)
	}
	if a.hiInf || b.hiInf {
		r.hiInf = true
	} else {
		r.hi = max(a.hi, b.hi)
	}
	return r
}

func (a ival) empty() bool { return !a.loInf && !a.hiInf && a.lo > a.hi }

// meetLo / meetHi: a ∩ [k, +inf) and a ∩ (-inf, k]
func (a ival) meetLo(k int64) ival {
	if a.loInf || a.lo < k {
		a.loInf, a.lo = false, k
	}
	return a
}
func (a ival) meetHi(k int64) ival {
	if a.hiInf || a.hi > k {
		a.hiInf, a.hi = false, k
	}
	return a
}

func satAdd(a, b int64) (int64, bool) {
	if (b > 0 && a > math.MaxInt64-b) || (b < 0 && a < math.MinInt64-b) {
		return 0, false
	}
	return a + b, true
}

func (a ival) add(b ival) ival {
	r := ival{loInf: a.loInf || b.loInf, hiInf: a.hiInf || b.hiInf}
	if !r.loInf {
		if v, ok := satAdd(a.lo, b.lo); ok {
			r.lo = v
		} else {
			r.loInf = true
		}
	}
	if !r.hiInf {
		if v, ok := satAdd(a.hi, b.hi); ok {
			r.hi = v
		} else {
			r.hiInf = true
		}
	}
	return r
}

func (a ival) neg() ival {
	r := ival{loInf: a.hiInf, hiInf: a.loInf}
	if !a.hiInf {
		r.lo = -a.hi
	}
	if !a.loInf {
		r.hi = -a.lo
	}
	return r
}

func (a ival) mul(b ival) ival {
	// only products with a non-negative constant factor are kept precise
	k, other := b, a
	if !(k.lo == k.hi && !k.loInf && !k.hiInf) {
		k, other = a, b
	}
	if !(k.lo == k.hi && !k.loInf && !k.hiInf) || k.lo < 0 {
		return ivTop
	}
	r := ival{loInf: other.loInf, hiInf: other.hiInf}
	mulc := func(x int64) (int64, bool) {
		if k.lo == 0 {
			return 0, true
		}
		if x > math.MaxInt64/k.lo || x < math.MinInt64/k.lo {
			return 0, false
		}
		return x * k.lo, true
	}
	if !r.loInf {
		if v, ok := mulc(other.lo); ok {
			r.lo = v
		} else {
			r.loInf = true
		}
	}
	if !r.hiInf {
		if v, ok := mulc(other.hi); ok {
			r.hi = v
		} else {
			r.hiInf = true
		}
	}
	return r
}

func ivMin(a, b ival) ival {
	r := ival{loInf: a.loInf || b.loInf, hiInf: a.hiInf && b.hiInf}
	if !r.loInf {
		r.lo = min(a.lo, b.lo)
	}
	switch {
	case a.hiInf && !b.hiInf:
		r.hi = b.hi
	case b.hiInf && !a.hiInf:
		r.hi = a.hi
	case !a.hiInf && !b.hiInf:
		r.hi = min(a.hi, b.hi)
	}
	return r
}

func ivMax(a, b ival) ival { return ivMin(a.neg(), b.neg()).neg() }

// ---- struct leaves

// intLeaves: the paths (field indices, dot separated) of the integer leaves of a struct type.
func intLeaves(t types.Type, prefix string, out *[]string) {
	st, ok := t.Underlying().(*types.Struct)
	if !ok {
		return
	}
	for i := 0; i < st.NumFields(); i++ {
		p := fmt.Sprint(i)
		if prefix != "" {
			p = prefix + "." + p
		}
		ft := st.Field(i).Type()
		if isIntType(ft) {
			*out = append(*out, p)
		} else if _, isStruct := ft.Underlying().(*types.Struct); isStruct {
			intLeaves(ft, p, out)
		}
	}
}

// leafName renders an index path as field names ("Formatting.IndentSize").
func leafName(t types.Type, path string) string {
	var names []string
	for _, part := range strings.Split(path, ".") {
		st, ok := t.Underlying().(*types.Struct)
		if !ok {
			break
		}
		var i int
		fmt.Sscan(part, &i)
		names = append(names, st.Field(i).Name())
		t = st.Field(i).Type()
	}
	return strings.Join(names, ".")
}

type structState map[string]ival // leaf path -> interval

func topStruct(t types.Type) structState {
	var ls []string
	intLeaves(t, "", &ls)
	s := structState{}
	for _, l := range ls {
		s[l] = ivTop
	}
	return s
}

func (s structState) sub(prefix string) structState {
	r := structState{}
	for k, v := range s {
		if prefix == "" {
			r[k] = v
		} else if strings.HasPrefix(k, prefix+".") {
			r[strings.TrimPrefix(k, prefix+".")] = v
		}
	}
	return r
}

func joinStruct(a, b structState) structState {
	if a == nil {
		return b
	}
	if b == nil {
		return a
	}
	r := structState{}
	for k, v := range a {
		if w, ok := b[k]; ok {
			r[k] = v.join(w)
		} else {
			r[k] = ivTop
		}
	}
	for k := range b {
		if _, ok := a[k]; !ok {
			r[k] = ivTop
		}
	}
	return r
}

// ---- the interpreter

type ivInterp struct {
	depth int
	steps int
}

type ivResult struct {
	scalar ival
	strct  structState
	isStr  bool
}

type ivState map[string]ival // "m:<alloc>:<path>" memory leaves, "r:<value>" refined registers

func (s ivState) clone() ivState {
	r := make(ivState, len(s))
	for k, v := range s {
		r[k] = v
	}
	return r
}

func joinState(a, b ivState) ivState {
	r := ivState{}
	for k, v := range a {
		if w, ok := b[k]; ok {
			r[k] = v.join(w)
		} else if strings.HasPrefix(k, "m:") {
			r[k] = ivTop
		}
	}
	for k := range b {
		if _, ok := a[k]; !ok && strings.HasPrefix(k, "m:") {
			r[k] = ivTop
		}
	}
	return r
}

func sameState(a, b ivState) bool {
	if len(a) != len(b) {
		return false
	}
	for k, v := range a {
		if w, ok := b[k]; !ok || w != v {
			return false
		}
	}
	return true
}

type ivFrame struct {
	ip      *ivInterp
	f       *ssa.Function
	scalars map[*ssa.Parameter]ival
	structs map[*ssa.Parameter]structState
	regs    map[ssa.Value]ival
	sregs   map[ssa.Value]structState
}

// addrPath: (root alloc, leaf path) of an address below a local struct variable.
func addrPath(addr ssa.Value) (*ssa.Alloc, string, bool) {
	var parts []string
	for {
		switch a := addr.(type) {
		case *ssa.FieldAddr:
			parts = append([]string{fmt.Sprint(a.Field)}, parts...)
			addr = a.X
			continue
		case *ssa.Alloc:
			return a, strings.Join(parts, "."), true
		}
		return nil, "", false
	}
}

func memKey(al *ssa.Alloc, path string) string { return "m:" + al.Name() + ":" + path }

func (fr *ivFrame) eval(v ssa.Value, st ivState) ival {
	if r, ok := st["r:"+v.Name()]; ok {
		if _, isConst := v.(*ssa.Const); !isConst {
			return r
		}
	}
	switch x := v.(type) {
	case *ssa.Const:
		if x.Value != nil && x.Value.Kind() == constant.Int {
			if k, ok := constant.Int64Val(x.Value); ok {
				return ivConst(k)
			}
		}
		if x.Value == nil && isIntType(x.Type()) {
			return ivConst(0)
		}
		return ivTop
	case *ssa.Parameter:
		if r, ok := fr.scalars[x]; ok {
			return r
		}
		return ivTop
	}
	if r, ok := fr.regs[v]; ok {
		return r
	}
	return ivTop
}

func (fr *ivFrame) structOf(v ssa.Value, st ivState) structState {
	switch x := v.(type) {
	case *ssa.Parameter:
		if s, ok := fr.structs[x]; ok {
			return s
		}
		return topStruct(x.Type())
	case *ssa.Const:
		s := topStruct(x.Type())
		if x.Value == nil {
			for k := range s {
				s[k] = ivConst(0)
			}
		}
		return s
	}
	if s, ok := fr.sregs[v]; ok {
		return s
	}
	return topStruct(v.Type())
}

func (fr *ivFrame) setStruct(st ivState, al *ssa.Alloc, path string, t types.Type, s structState) {
	var ls []string
	intLeaves(t, "", &ls)
	for _, l := range ls {
		p := l
		if path != "" {
			p = path + "." + l
		}
		if v, ok := s[l]; ok {
			st[memKey(al, p)] = v
		} else {
			st[memKey(al, p)] = ivTop
		}
	}
}

func (fr *ivFrame) loadStruct(st ivState, al *ssa.Alloc, path string, t types.Type) structState {
	var ls []string
	intLeaves(t, "", &ls)
	s := structState{}
	for _, l := range ls {
		p := l
		if path != "" {
			p = path + "." + l
		}
		if v, ok := st[memKey(al, p)]; ok {
			s[l] = v
		} else {
			s[l] = ivTop
		}
	}
	return s
}

// refine applies the outcome of `x op y` to the state of a successor.
func (fr *ivFrame) refine(st ivState, cond ssa.Value, taken bool) {
	if u, ok := cond.(*ssa.UnOp); ok && u.Op == token.NOT {
		fr.refine(st, u.X, !taken)
		return
	}
	bo, ok := cond.(*ssa.BinOp)
	if !ok {
		return
	}
	op := bo.Op
	if !taken {
		switch op {
		case token.LSS:
			op = token.GEQ
		case token.LEQ:
			op = token.GTR
		case token.GTR:
			op = token.LEQ
		case token.GEQ:
			op = token.LSS
		case token.EQL:
			op = token.NEQ
		case token.NEQ:
			op = token.EQL
		default:
			return
		}
	}
	apply := func(v ssa.Value, op token.Token, k ival) {
		if !isIntType(v.Type()) {
			return
		}
		cur := fr.eval(v, st)
		switch op {
		case token.LSS:
			if !k.hiInf {
				cur = cur.meetHi(k.hi - 1)
			}
		case token.LEQ:
			if !k.hiInf {
				cur = cur.meetHi(k.hi)
			}
		case token.GTR:
			if !k.loInf {
				cur = cur.meetLo(k.lo + 1)
			}
		case token.GEQ:
			if !k.loInf {
				cur = cur.meetLo(k.lo)
			}
		case token.EQL:
			if !k.loInf {
				cur = cur.meetLo(k.lo)
			}
			if !k.hiInf {
				cur = cur.meetHi(k.hi)
			}
		default:
			return
		}
		st["r:"+v.Name()] = cur
		// the value was loaded from a tracked location: the location holds the same (refined) value
		w := v
		for {
			if cv, ok := w.(*ssa.Convert); ok {
				w = cv.X
				continue
			}
			if cv, ok := w.(*ssa.ChangeType); ok {
				w = cv.X
				continue
			}
			break
		}
		if ld, ok := w.(*ssa.UnOp); ok && ld.Op == token.MUL {
			if al, path, ok := addrPath(ld.X); ok {
				if _, tracked := st[memKey(al, path)]; tracked {
					st[memKey(al, path)] = cur
				}
			}
		}
	}
	flip := map[token.Token]token.Token{token.LSS: token.GTR, token.LEQ: token.GEQ, token.GTR: token.LSS, token.GEQ: token.LEQ, token.EQL: token.EQL, token.NEQ: token.NEQ}
	apply(bo.X, op, fr.eval(bo.Y, st))
	apply(bo.Y, flip[op], fr.eval(bo.X, st))
}

// run interprets the function and returns the join of its results (first result only).
func (fr *ivFrame) run() ivResult {
	f := fr.f
	in := map[*ssa.BasicBlock]ivState{}
	visits := map[*ssa.BasicBlock]int{}
	in[f.Blocks[0]] = ivState{}
	work := []*ssa.BasicBlock{f.Blocks[0]}
	var res ivResult
	haveRes := false
	for len(work) > 0 {
		b := work[0]
		work = work[1:]
		fr.ip.steps++
		if fr.ip.steps > 200000 {
			break
		}
		visits[b]++
		st := in[b].clone()
		if visits[b] > 8 {
			// widening: give up on everything that still changes
			for k := range st {
				st[k] = ivTop
			}
		}
		for _, ins := range b.Instrs {
			fr.step(ins, st, b, in)
			if r, ok := ins.(*ssa.Return); ok && len(r.Results) > 0 {
				rv := r.Results[0]
				var cur ivResult
				if _, isStruct := rv.Type().Underlying().(*types.Struct); isStruct {
					cur = ivResult{strct: fr.structOf(rv, st), isStr: true}
				} else {
					cur = ivResult{scalar: fr.eval(rv, st)}
				}
				if !haveRes {
					res, haveRes = cur, true
				} else if cur.isStr {
					res.strct = joinStruct(res.strct, cur.strct)
				} else {
					res.scalar = res.scalar.join(cur.scalar)
				}
			}
		}
		// successors
		var cond ssa.Value
		if iff, ok := b.Instrs[len(b.Instrs)-1].(*ssa.If); ok {
			cond = iff.Cond
		}
		for i, s := range b.Succs {
			out := st.clone()
			if cond != nil {
				fr.refine(out, cond, i == 0)
				// an infeasible branch contributes nothing
				dead := false
				for _, v := range out {
					if v.empty() {
						dead = true
					}
				}
				if dead {
					continue
				}
			}
			// phis of the successor take their value along this edge
			pi := -1
			for j, p := range s.Preds {
				if p == b {
					pi = j
				}
			}
			for _, ins := range s.Instrs {
				phi, ok := ins.(*ssa.Phi)
				if !ok {
					break
				}
				if pi >= 0 && pi < len(phi.Edges) && isIntType(phi.Type()) {
					out["e:"+phi.Name()] = fr.eval(phi.Edges[pi], out)
				}
			}
			old, seen := in[s]
			var nw ivState
			if !seen {
				nw = out
			} else {
				nw = joinState(old, out)
				// edge values of phis are joined like memory
				for k, v := range out {
					if strings.HasPrefix(k, "e:") {
						if w, ok := old[k]; ok {
							nw[k] = v.join(w)
						} else {
							nw[k] = v
						}
					}
				}
				for k, v := range old {
					if strings.HasPrefix(k, "e:") {
						if _, ok := nw[k]; !ok {
							nw[k] = v
						}
					}
				}
			}
			if !seen || !sameState(old, nw) {
				in[s] = nw
				work = append(work, s)
			}
		}
	}
	if !haveRes {
		return ivResult{scalar: ivTop}
	}
	return res
}

func (fr *ivFrame) step(ins ssa.Instruction, st ivState, b *ssa.BasicBlock, in map[*ssa.BasicBlock]ivState) {
	switch x := ins.(type) {
	case *ssa.Phi:
		if isIntType(x.Type()) {
			if v, ok := st["e:"+x.Name()]; ok {
				fr.regs[x] = v
			} else {
				fr.regs[x] = ivTop
			}
			delete(st, "r:"+x.Name())
		}
	case *ssa.Alloc:
		if _, isStruct := x.Type().Underlying().(*types.Pointer).Elem().Underlying().(*types.Struct); isStruct {
			zero := structState{}
			var ls []string
			intLeaves(x.Type().Underlying().(*types.Pointer).Elem(), "", &ls)
			for _, l := range ls {
				zero[l] = ivConst(0)
			}
			fr.setStruct(st, x, "", x.Type().Underlying().(*types.Pointer).Elem(), zero)
		} else if isIntType(x.Type().Underlying().(*types.Pointer).Elem()) {
			st[memKey(x, "")] = ivConst(0)
		}
	case *ssa.Store:
		al, path, ok := addrPath(x.Addr)
		if !ok {
			return
		}
		vt := x.Val.Type()
		if isIntType(vt) {
			st[memKey(al, path)] = fr.eval(x.Val, st)
		} else if _, isStruct := vt.Underlying().(*types.Struct); isStruct {
			fr.setStruct(st, al, path, vt, fr.structOf(x.Val, st))
		}
	case *ssa.UnOp:
		switch x.Op {
		case token.MUL:
			if al, path, ok := addrPath(x.X); ok {
				if isIntType(x.Type()) {
					if v, ok := st[memKey(al, path)]; ok {
						fr.regs[x] = v
					} else {
						fr.regs[x] = ivTop
					}
				} else if _, isStruct := x.Type().Underlying().(*types.Struct); isStruct {
					fr.sregs[x] = fr.loadStruct(st, al, path, x.Type())
				}
			}
		case token.SUB:
			fr.regs[x] = fr.eval(x.X, st).neg()
		}
	case *ssa.Field:
		// field of a struct value in a register
		s := fr.structOf(x.X, st)
		p := fmt.Sprint(x.Field)
		if isIntType(x.Type()) {
			if v, ok := s[p]; ok {
				fr.regs[x] = v
			} else {
				fr.regs[x] = ivTop
			}
		} else if _, isStruct := x.Type().Underlying().(*types.Struct); isStruct {
			fr.sregs[x] = s.sub(p)
		}
	case *ssa.BinOp:
		if !isIntType(x.Type()) {
			return
		}
		a, bb := fr.eval(x.X, st), fr.eval(x.Y, st)
		switch x.Op {
		case token.ADD:
			fr.regs[x] = a.add(bb)
		case token.SUB:
			fr.regs[x] = a.add(bb.neg())
		case token.MUL:
			fr.regs[x] = a.mul(bb)
		default:
			fr.regs[x] = ivTop
		}
	case *ssa.Convert:
		if isIntType(x.Type()) && isIntType(x.X.Type()) {
			fr.regs[x] = fr.eval(x.X, st)
		}
	case *ssa.ChangeType:
		if isIntType(x.Type()) {
			fr.regs[x] = fr.eval(x.X, st)
		} else if _, isStruct := x.Type().Underlying().(*types.Struct); isStruct {
			fr.sregs[x] = fr.structOf(x.X, st)
		}
	case *ssa.Call:
		fr.call(x, st)
	}
}

func (fr *ivFrame) call(x *ssa.Call, st ivState) {
	if bi, ok := x.Call.Value.(*ssa.Builtin); ok {
		switch bi.Name() {
		case "min", "max":
			if !isIntType(x.Type()) || len(x.Call.Args) == 0 {
				return
			}
			r := fr.eval(x.Call.Args[0], st)
			for _, a := range x.Call.Args[1:] {
				if bi.Name() == "min" {
					r = ivMin(r, fr.eval(a, st))
				} else {
					r = ivMax(r, fr.eval(a, st))
				}
			}
			fr.regs[x] = r
		case "len", "cap":
			fr.regs[x] = ival{lo: 0, hiInf: true}
		}
		return
	}
	cal := x.Call.StaticCallee()
	_, retStruct := x.Type().Underlying().(*types.Struct)
	if !retStruct && !isIntType(x.Type()) {
		return
	}
	if cal == nil || cal.Blocks == nil || !inModule(cal) || fr.ip.depth >= 6 {
		if retStruct {
			fr.sregs[x] = topStruct(x.Type())
		} else {
			fr.regs[x] = ivTop
		}
		return
	}
	sub := &ivFrame{ip: fr.ip, f: cal, scalars: map[*ssa.Parameter]ival{}, structs: map[*ssa.Parameter]structState{}, regs: map[ssa.Value]ival{}, sregs: map[ssa.Value]structState{}}
	for i, p := range cal.Params {
		if i >= len(x.Call.Args) {
			break
		}
		a := x.Call.Args[i]
		if isIntType(p.Type()) {
			sub.scalars[p] = fr.eval(a, st)
		} else if _, isStruct := p.Type().Underlying().(*types.Struct); isStruct {
			sub.structs[p] = fr.structOf(a, st)
		}
	}
	fr.ip.depth++
	r := sub.run()
	fr.ip.depth--
	if retStruct {
		if r.isStr {
			fr.sregs[x] = r.strct
		} else {
			fr.sregs[x] = topStruct(x.Type())
		}
	} else {
		fr.regs[x] = r.scalar
	}
}

// resultRanges: the ranges of the integer leaves of the struct returned by f for arbitrary arguments.
func resultRanges(f *ssa.Function) (structState, types.Type) {
	if f == nil || f.Signature.Results().Len() == 0 {
		return nil, nil
	}
	rt := f.Signature.Results().At(0).Type()
	fr := &ivFrame{ip: &ivInterp{}, f: f, scalars: map[*ssa.Parameter]ival{}, structs: map[*ssa.Parameter]structState{}, regs: map[ssa.Value]ival{}, sregs: map[ssa.Value]structState{}}
	r := fr.run()
	if !r.isStr {
		return nil, rt
	}
	return r.strct, rt
}

func sortedLeafPaths(s structState) []string {
	var ks []string
	for k := range s {
		ks = append(ks, k)
	}
	sort.Strings(ks)
	return ks
}
