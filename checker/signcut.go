package main

// N-SIGNCUT: the first byte of a number's text is split off only after it was looked at.
//
// Where the formatter cuts a text at the constant position 1 (`s[:1]`, `s[1:]` - "the sign and the rest") the cut is
// control dependent on a test of that text's first byte (`s[0] == '-'`, `strings.HasPrefix(s, "-")`).  A cut that
// relies on a flag recorded by the parser instead ("the sign was written in front of the commodity") moves a digit
// when the rendered quantity has no sign of its own: an explicit plus that the decimal does not print, a negative
// zero (`-$0.00` renders as `0.00`), so `+$150` becomes `1$50` and the formatted text no longer says what the
// journal said.

import (
	"go/constant"
	"go/token"
	"go/types"

	"golang.org/x/tools/go/ssa"
)

func ruleSignCut(c *Ctx) {
	fpk := c.P.SSAPkg("internal/formatter")
	n := 0
	isOne := func(v ssa.Value) bool {
		k, ok := v.(*ssa.Const)
		return ok && k.Value != nil && k.Value.Kind() == constant.Int && k.Int64() == 1
	}
	for _, f := range c.P.ModuleFuncs() {
		top := f
		for top.Parent() != nil {
			top = top.Parent()
		}
		if top.Pkg != fpk {
			continue
		}
		for _, b := range f.Blocks {
			for _, ins := range b.Instrs {
				sl, ok := ins.(*ssa.Slice)
				if !ok || types.TypeString(sl.X.Type().Underlying(), nil) != "string" {
					continue
				}
				if !(sl.Low != nil && isOne(sl.Low) && sl.High == nil) && !(sl.High != nil && isOne(sl.High) && sl.Low == nil) {
					continue
				}
				n++
				looked := false
				for _, cc := range controlDeps(b) {
					for v := range backSlice(cc.Cond) {
						switch x := v.(type) {
						case *ssa.Lookup:
							// s[0] (older go/ssa)
							if k, ok := x.Index.(*ssa.Const); ok && k.Value != nil && k.Value.Kind() == constant.Int && k.Int64() == 0 && x.X == sl.X {
								looked = true
							}
						case *ssa.Index:
							// s[0]
							if k, ok := x.Index.(*ssa.Const); ok && k.Value != nil && k.Value.Kind() == constant.Int && k.Int64() == 0 && x.X == sl.X {
								looked = true
							}
						case *ssa.Call:
							if cal := x.Call.StaticCallee(); cal != nil && cal.Pkg != nil && cal.Pkg.Pkg.Path() == "strings" && (cal.Name() == "HasPrefix" || cal.Name() == "ContainsRune" || cal.Name() == "IndexByte" || cal.Name() == "IndexAny") && len(x.Call.Args) > 0 && x.Call.Args[0] == sl.X {
								looked = true
							}
							// a predicate of the module that is handed the text and looks at its first byte
							// (`hasLeadingSign(qty)`)
							if cal := x.Call.StaticCallee(); cal != nil && inModule(cal) && cal.Blocks != nil {
								for i, a := range x.Call.Args {
									if a != sl.X || i >= len(cal.Params) {
										continue
									}
									p := cal.Params[i]
									for _, cb := range cal.Blocks {
										for _, ci := range cb.Instrs {
											switch y := ci.(type) {
											case *ssa.Index:
												if k, ok := y.Index.(*ssa.Const); ok && k.Value != nil && k.Value.Kind() == constant.Int && k.Int64() == 0 && y.X == ssa.Value(p) {
													looked = true
												}
											case *ssa.Lookup:
												if k, ok := y.Index.(*ssa.Const); ok && k.Value != nil && k.Value.Kind() == constant.Int && k.Int64() == 0 && y.X == ssa.Value(p) {
													looked = true
												}
											case *ssa.Call:
												if c2 := y.Call.StaticCallee(); c2 != nil && c2.Pkg != nil && c2.Pkg.Pkg.Path() == "strings" && c2.Name() == "HasPrefix" && len(y.Call.Args) > 0 && y.Call.Args[0] == ssa.Value(p) {
													looked = true
												}
											}
										}
									}
								}
							}
						}
					}
				}
				c.check(looked, "N-SIGNCUT", funcName(f), "a text is split behind its first byte only after that byte was tested", sl.Pos(),
					"the cut at position 1 is control dependent on a test of the text's first byte",
					"a text is cut at position 1 (first byte / rest) without a test of what the first byte is: when the rendered quantity has no sign character - an explicit plus, a negative zero - the byte moved in front of the commodity is a digit (+$150 becomes 1$50)")
			}
		}
	}
	_ = token.NoPos
	c.note("N-SIGNCUT: cuts of a text at position 1 in the formatter: %d", n)
	if n == 0 {
		c.ok("N-SIGNCUT", "formatter", "no cut of a text at position 1", token.NoPos, "the formatter splits no text behind its first byte")
	}
}
