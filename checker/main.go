package main

import (
	"flag"
	"fmt"
	"os"
	"path/filepath"
	"sort"
	"strconv"
	"time"

	"golang.org/x/tools/go/ssa"
)

type ssaFunc = ssa.Function

func main() {
	prop := flag.String("prop", "", "property id (C01..C20)")
	tier := flag.String("tier", "quick", "quick|thorough")
	repo := flag.String("repo", "/repo", "repository root")
	verif := flag.String("verif", "/verif", "verification root (evidence, reports, KNOWN_FINDINGS.json, mutants)")
	list := flag.Bool("list", false, "list properties and rules")
	noEvidence := flag.Bool("no-evidence", false, "do not write evidence/report files (used for mutant replays)")
	tags := flag.String("tags", "verif", "build tags")
	goos := flag.String("goos", "", "GOOS for loading")
	goarch := flag.String("goarch", "", "GOARCH for loading")
	flag.Parse()

	specs := allSpecs()
	if *list && os.Getenv("HL_LIST_JSON") != "" {
		out := map[string]any{}
		for id, sp := range specs {
			out[id] = map[string]any{"explanation": sp.Explanation, "not_decided": sp.NotDecided, "technique": sp.Technique}
		}
		writeJSON("/dev/stdout", out)
		return
	}
	if *list {
		var ids []string
		for id := range specs {
			ids = append(ids, id)
		}
		sort.Strings(ids)
		for _, id := range ids {
			fmt.Printf("%s: %s\n", id, specs[id].Explanation)
		}
		return
	}
	if *prop == "all" && *noEvidence {
		// one load, every property in turn (used by the refactoring / mutant sweeps); prints "PROP <id> rc=<n>"
		absRepo, _ := filepath.Abs(*repo)
		p, err := Load(LoadConfig{Repo: absRepo, Tags: *tags, GOOS: *goos, GOARCH: *goarch})
		if err != nil {
			fmt.Fprintf(os.Stderr, "hlcheck: infrastructure failure: %v\n", err)
			os.Exit(2)
		}
		known, err := loadKnown(filepath.Join(*verif, "KNOWN_FINDINGS.json"))
		if err != nil {
			fmt.Fprintf(os.Stderr, "hlcheck: %v\n", err)
			os.Exit(2)
		}
		var ids []string
		for id := range specs {
			ids = append(ids, id)
		}
		sort.Strings(ids)
		if os.Getenv("HL_RULESET") == "round14" {
			// sweep of the negative controls for the rules added or widened in round 14 only (one pseudo property)
			ids = []string{"C10"}
			specs["C10"] = &PropSpec{ID: "C10", Rules: []func(*Ctx){ruleAncestorWalk, ruleParserAlias, ruleStaleIndex, ruleIndent, ruleTokenOrder, ruleLoaderCycle, ruleLoaderCache, rulePrefixGuard, ruleNilVsEmpty, ruleFormatterAssertionIndependent, ruleOptionalDeref}}
		}
		if os.Getenv("HL_RULESET") == "round14b" {
			ids = []string{"C10"}
			specs["C10"] = &PropSpec{ID: "C10", Rules: []func(*Ctx){ruleCacheFields, ruleMissingKeyOverwrite, rulePublish, ruleNilInnerMap, ruleSemantic, ruleExtenderKeepsSets, ruleStaleIndex}}
		}
		if os.Getenv("HL_RULESET") == "round14d" {
			ids = []string{"C10"}
			specs["C10"] = &PropSpec{ID: "C10", Rules: []func(*Ctx){ruleMemoKeyPart, ruleMemoScalarKey, ruleCursorImage, ruleBufferReuse}}
		}
		if os.Getenv("HL_RULESET") == "round14e" {
			ids = []string{"C10"}
			specs["C10"] = &PropSpec{ID: "C10", Rules: []func(*Ctx){ruleRMW, ruleBuilderMeasure}}
		}
		if os.Getenv("HL_RULESET") == "round14f" {
			ids = []string{"C10"}
			specs["C10"] = &PropSpec{ID: "C10", Rules: []func(*Ctx){ruleSentinelCollision, rulePull, ruleSemantic, ruleWorkspaceApplies, ruleFolderNotMembership, ruleRMW}}
		}
		if os.Getenv("HL_RULESET") == "round14g" {
			ids = []string{"C10"}
			specs["C10"] = &PropSpec{ID: "C10", Rules: []func(*Ctx){ruleLoaderCache}}
		}
		if os.Getenv("HL_RULESET") == "round14c" {
			ids = []string{"C10"}
			specs["C10"] = &PropSpec{ID: "C10", Rules: []func(*Ctx){ruleLoopCensus}}
		}
		worst := 0
		for _, id := range ids {
			c := NewCtx(p, id, *tier)
			func() {
				defer func() {
					if r := recover(); r != nil {
						c.undecided("PANIC", "", fmt.Sprint(r), 0, "the checker panicked; the property could not be decided")
					}
				}()
				for _, r := range specs[id].Rules {
					r(c)
				}
			}()
			fmt.Printf("BEGIN %s\n", id)
			rc := finishNoEvidence(c, known)
			fmt.Printf("PROP %s rc=%d\n", id, rc)
			if rc > worst {
				worst = rc
			}
		}
		os.Exit(worst)
	}
	spec, ok := specs[*prop]
	if !ok {
		fmt.Fprintf(os.Stderr, "unknown property %q\n", *prop)
		os.Exit(2)
	}
	seed := 0
	if s := os.Getenv("VERIF_SEED"); s != "" {
		seed, _ = strconv.Atoi(s)
	}
	start := time.Now()
	absRepo, _ := filepath.Abs(*repo)
	p, err := Load(LoadConfig{Repo: absRepo, Tags: *tags, GOOS: *goos, GOARCH: *goarch})
	if err != nil {
		fmt.Fprintf(os.Stderr, "hlcheck: infrastructure failure: %v\n", err)
		os.Exit(2)
	}
	known, err := loadKnown(filepath.Join(*verif, "KNOWN_FINDINGS.json"))
	if err != nil {
		fmt.Fprintf(os.Stderr, "hlcheck: %v\n", err)
		os.Exit(2)
	}
	if t := os.Getenv("HL_DBGPATH"); t != "" {
		dbgPath(p, t)
		return
	}
	c := NewCtx(p, *prop, *tier)
	func() {
		defer func() {
			if r := recover(); r != nil {
				c.undecided("PANIC", "", fmt.Sprint(r), 0, "the checker panicked; the property could not be decided")
				fmt.Fprintf(os.Stderr, "hlcheck: panic: %v\n", r)
				printStack()
			}
		}()
		for _, r := range spec.Rules {
			r(c)
		}
	}()
	extra := map[string]any{}
	if *tier == "thorough" && !*noEvidence {
		runThorough(c, spec, *verif, absRepo, extra)
	}
	if *noEvidence {
		os.Exit(finishNoEvidence(c, known))
	}
	os.Exit(finish(c, spec, known, *verif, start, seed, extra))
}

// finishNoEvidence prints findings as machine-readable lines (used by mutant replay) and
// returns 1 if any finding/undecided is not in the known list.
func finishNoEvidence(c *Ctx, known []KnownFinding) int {
	viol := 0
	for _, o := range c.Obligs {
		if o.Verdict == Discharged {
			continue
		}
		isKnown := false
		for _, k := range known {
			if k.Status == "known" && k.Key == o.Key && contains(k.Properties, c.Prop) {
				isKnown = true
			}
		}
		if isKnown {
			continue
		}
		viol++
		fmt.Printf("NEW %s %s %s at %s: %s\n", o.Verdict, o.Rule, o.Key, o.Pos, o.Msg)
	}
	if viol > 0 {
		return 1
	}
	return 0
}
