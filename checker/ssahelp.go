package main

import (
	"go/token"
	"go/types"
	"strings"

	"golang.org/x/tools/go/ssa"
)

// backSlice computes the set of SSA values that v (transitively) depends on through data flow:
// instruction operands, values stored into local allocations (and their fields/elements) that v loads,
// phi edges, tuple extraction, and - for calls of module functions - the callee's returned values with the
// callee's parameters bound to the arguments of that particular call (depth-bounded).
type sliceCtx struct {
	seen  map[ssa.Value]bool
	calls []*ssa.Call // context stack
	depth int
}

func backSlice(v ssa.Value) map[ssa.Value]bool {
	sc := &sliceCtx{seen: map[ssa.Value]bool{}}
	sc.visit(v, nil)
	return sc.seen
}

func (sc *sliceCtx) visit(v ssa.Value, stack []*ssa.Call) {
	if v == nil || sc.seen[v] {
		return
	}
	sc.seen[v] = true
	switch x := v.(type) {
	case *ssa.Parameter:
		// bind to the argument of the call on top of the context stack
		if n := len(stack); n > 0 {
			call := stack[n-1]
			if cal := call.Common().StaticCallee(); cal != nil {
				for i, p := range cal.Params {
					if p == x && i < len(call.Common().Args) {
						sc.visit(call.Common().Args[i], stack[:n-1])
					}
				}
			}
		}
		return
	case *ssa.Call:
		for _, a := range x.Common().Args {
			sc.visit(a, stack)
		}
		if x.Common().IsInvoke() || x.Common().StaticCallee() == nil {
			sc.visit(x.Common().Value, stack) // interface receiver, or the function value of a dynamic call
		}
		if cal := x.Common().StaticCallee(); cal != nil && inModule(cal) && len(stack) < 4 && cal.Blocks != nil {
			for _, b := range cal.Blocks {
				for _, ins := range b.Instrs {
					if r, ok := ins.(*ssa.Return); ok {
						for _, rv := range r.Results {
							sub := &sliceCtx{seen: sc.seen}
							// allow revisiting parameters under this context
							sub.visitCallee(rv, append(append([]*ssa.Call{}, stack...), x))
						}
					}
				}
			}
		}
		return
	case *ssa.UnOp:
		if x.Op == token.MUL {
			sc.visitAddr(x.X, stack)
		}
	case *ssa.Alloc:
		sc.visitAddr(x, stack)
	}
	if ins, ok := v.(ssa.Instruction); ok {
		for _, op := range ins.Operands(nil) {
			if op != nil && *op != nil {
				sc.visit(*op, stack)
			}
		}
	}
}

// visitCallee is like visit but does not consult the global `seen` for Parameters (a callee may be
// entered from several call sites with different bindings).
func (sc *sliceCtx) visitCallee(v ssa.Value, stack []*ssa.Call) {
	if p, ok := v.(*ssa.Parameter); ok {
		delete(sc.seen, p)
	}
	sc.visit(v, stack)
}

// visitAddr: everything stored through an address rooted at a local allocation (or its fields / elements).
func (sc *sliceCtx) visitAddr(addr ssa.Value, stack []*ssa.Call) {
	root := addr
	for {
		switch a := root.(type) {
		case *ssa.FieldAddr:
			root = a.X
			continue
		case *ssa.IndexAddr:
			root = a.X
			continue
		}
		break
	}
	al, ok := root.(*ssa.Alloc)
	if !ok {
		sc.visit(root, stack)
		return
	}
	var walk func(a ssa.Value)
	seenA := map[ssa.Value]bool{}
	walk = func(a ssa.Value) {
		if seenA[a] {
			return
		}
		seenA[a] = true
		refs := a.Referrers()
		if refs == nil {
			return
		}
		for _, r := range *refs {
			switch u := r.(type) {
			case *ssa.Store:
				if u.Addr == a {
					sc.visit(u.Val, stack)
				}
			case *ssa.FieldAddr:
				walk(u)
			case *ssa.IndexAddr:
				walk(u)
			}
		}
	}
	walk(al)
}

func sliceHasCall(sl map[ssa.Value]bool, pred func(cal *ssa.Function, call *ssa.Call) bool) bool {
	for v := range sl {
		if call, ok := v.(*ssa.Call); ok {
			if cal := call.Common().StaticCallee(); cal != nil && pred(cal, call) {
				return true
			}
		}
	}
	return false
}

func calleeNameIs(cal *ssa.Function, suffix string) bool {
	return strings.HasSuffix(funcName(cal), suffix)
}

func typeHasSuffix(t types.Type, suffix string) bool {
	return strings.HasSuffix(types.TypeString(t, nil), suffix)
}

// controlConds: the conditions of the If instructions that dominate block b and on whose outcome
// reaching b depends (b is dominated by exactly one successor).
func controlConds(b *ssa.BasicBlock) []ssa.Value {
	var out []ssa.Value
	for d := b.Idom(); d != nil; d = d.Idom() {
		if len(d.Instrs) == 0 {
			continue
		}
		ifi, ok := d.Instrs[len(d.Instrs)-1].(*ssa.If)
		if !ok {
			continue
		}
		s0 := d.Succs[0] == b || d.Succs[0].Dominates(b)
		s1 := d.Succs[1] == b || d.Succs[1].Dominates(b)
		if s0 != s1 {
			out = append(out, ifi.Cond)
		}
	}
	return out
}

// findCalls returns the call instructions in f whose static callee satisfies pred.
func findCalls(f *ssa.Function, pred func(cal *ssa.Function) bool) []*ssa.Call {
	var out []*ssa.Call
	for _, b := range f.Blocks {
		for _, ins := range b.Instrs {
			if call, ok := ins.(*ssa.Call); ok {
				if cal := call.Common().StaticCallee(); cal != nil && pred(cal) {
					out = append(out, call)
				}
			}
		}
	}
	return out
}

// collectFieldStores records, for a struct built in memory at `root` (an Alloc or a FieldAddr), the values
// stored into each field path (".Start.Character").  A field initialised by copying a local composite
// literal (`*t48 = *t49`) is expanded into the fields of that literal.
func collectFieldStores(root ssa.Value, prefix string, out map[string][]ssa.Value, depth int) {
	if depth > 6 || root.Referrers() == nil {
		return
	}
	for _, r := range *root.Referrers() {
		switch u := r.(type) {
		case *ssa.FieldAddr:
			if u.X != root {
				continue
			}
			pt, ok := u.X.Type().Underlying().(*types.Pointer)
			if !ok {
				continue
			}
			st, ok := pt.Elem().Underlying().(*types.Struct)
			if !ok {
				continue
			}
			collectFieldStores(u, prefix+"."+st.Field(u.Field).Name(), out, depth+1)
		case *ssa.Store:
			if u.Addr != root {
				continue
			}
			if ld, ok := u.Val.(*ssa.UnOp); ok && ld.Op == token.MUL {
				if al, ok := ld.X.(*ssa.Alloc); ok {
					if _, isStruct := al.Type().Underlying().(*types.Pointer).Elem().Underlying().(*types.Struct); isStruct {
						before := len(out)
						collectFieldStores(al, prefix, out, depth+1)
						if len(out) > before {
							continue
						}
					}
				}
			}
			out[prefix] = append(out[prefix], u.Val)
		}
	}
}
