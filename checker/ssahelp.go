package main

import (
	"go/token"
	"go/types"
	"strings"

	"golang.org/x/tools/go/ssa"
)

// backSlice computes the set of SSA values that v (transitively) depends on through data flow:
// instruction operands, values stored into local allocations (and their fields/elements) that v loads,
// phi edges, tuple extraction, and - for calls of module functions - the callee's returned values with the
// callee's parameters bound to the arguments of that particular call (depth-bounded).
type sliceCtx struct {
	seen  map[ssa.Value]bool
	calls []*ssa.Call // context stack
	depth int
	// parts of unbound struct parameters the slice depends on (field paths); a parameter that is needed as a
	// whole is simply in `seen`
	paramPaths map[*ssa.Parameter][][]int
	paramWhole map[*ssa.Parameter]bool
	cbDepth    int
	// preciseCalls: a call of a module function contributes only what its results depend on (its arguments are
	// reached through the parameters), not all of its arguments
	preciseCalls bool
}

// child: a context for a callee entered from this one: shares the visited set and the record of unbound
// parameters, keeps the precision mode.
func (sc *sliceCtx) child() *sliceCtx {
	if sc.paramPaths == nil {
		sc.paramPaths = map[*ssa.Parameter][][]int{}
	}
	if sc.paramWhole == nil {
		sc.paramWhole = map[*ssa.Parameter]bool{}
	}
	return &sliceCtx{seen: sc.seen, preciseCalls: sc.preciseCalls, paramPaths: sc.paramPaths, paramWhole: sc.paramWhole, cbDepth: sc.cbDepth}
}

func backSlice(v ssa.Value) map[ssa.Value]bool {
	sc := &sliceCtx{seen: map[ssa.Value]bool{}}
	sc.visit(v, nil)
	return sc.seen
}

// backSlicePath: the slice of the part `path` of v; also reports which parts of unbound struct parameters
// it needs.
func backSlicePath(v ssa.Value, path []int) (map[ssa.Value]bool, map[*ssa.Parameter][][]int) {
	sc := &sliceCtx{seen: map[ssa.Value]bool{}}
	sc.visitValuePath(v, path, nil, 0)
	for p := range sc.paramWhole {
		if sc.paramPaths == nil {
			sc.paramPaths = map[*ssa.Parameter][][]int{}
		}
		sc.paramPaths[p] = append(sc.paramPaths[p], nil)
	}
	return sc.seen, sc.paramPaths
}

// backSlicePrecise: like backSlicePath(v, nil), but a call of a module function contributes only what its
// results depend on.
func backSlicePrecise(v ssa.Value) (map[ssa.Value]bool, map[*ssa.Parameter][][]int) {
	sc := &sliceCtx{seen: map[ssa.Value]bool{}, preciseCalls: true}
	sc.visit(v, nil)
	for p := range sc.paramWhole {
		if sc.paramPaths == nil {
			sc.paramPaths = map[*ssa.Parameter][][]int{}
		}
		sc.paramPaths[p] = append(sc.paramPaths[p], nil)
	}
	return sc.seen, sc.paramPaths
}

func (sc *sliceCtx) visit(v ssa.Value, stack []*ssa.Call) {
	if v == nil || sc.seen[v] {
		return
	}
	sc.seen[v] = true
	switch x := v.(type) {
	case *ssa.Parameter:
		// bind to the argument of the call on top of the context stack
		if len(stack) == 0 {
			if sc.paramWhole == nil {
				sc.paramWhole = map[*ssa.Parameter]bool{}
			}
			sc.paramWhole[x] = true
			// a parameter of a function literal that is handed to someone as a callback (a visitor, a predicate, the
			// body of a loop over an iterator function): what the callback is invoked with
			if sc.cbDepth < 3 {
				sc.cbDepth++
				for _, inv := range callbackInvocations(x) {
					sc.seen[inv.call] = true
					sc.visit(inv.arg, nil)
				}
				sc.cbDepth--
			}
		}
		if n := len(stack); n > 0 {
			call := stack[n-1]
			cal := call.Common().StaticCallee()
			if cal == nil && !call.Common().IsInvoke() {
				cal = x.Parent() // a call through a local function value that was resolved by the caller of the slicer
			}
			if cal != nil {
				for i, p := range cal.Params {
					if p == x && i < len(call.Common().Args) {
						sc.visit(call.Common().Args[i], stack[:n-1])
					}
				}
			}
		}
		return
	case *ssa.Extract:
		// one result of a multi-result module function: only that result of its return statements (the other
		// results - an error list built next to the value - do not flow into this one)
		if call, ok := x.Tuple.(*ssa.Call); ok {
			if cal := call.Common().StaticCallee(); cal != nil && inModule(cal) && len(stack) < 4 && cal.Blocks != nil {
				sc.seen[call] = true // the call itself belongs to the slice (its results are entered per index)
				// arguments are reached through the parameters the entered result depends on
				for _, b := range cal.Blocks {
					for _, ins := range b.Instrs {
						if r, ok := ins.(*ssa.Return); ok && x.Index < len(r.Results) {
							sub := sc.child()
							sub.visitCallee(r.Results[x.Index], append(append([]*ssa.Call{}, stack...), call))
						}
					}
				}
				return
			}
		}
	case *ssa.Call:
		if sc.preciseCalls {
			if cal := x.Common().StaticCallee(); cal != nil && inModule(cal) && len(stack) < 4 && cal.Blocks != nil {
				// the callee is entered below: its parameters are bound to this call's arguments where its results
				// depend on them; arguments the results do not depend on are not part of the slice
				for _, b := range cal.Blocks {
					for _, ins := range b.Instrs {
						if r, ok := ins.(*ssa.Return); ok {
							for _, rv := range r.Results {
								sub := sc.child()
								sub.visitCallee(rv, append(append([]*ssa.Call{}, stack...), x))
							}
						}
					}
				}
				return
			}
		}
		for _, a := range x.Common().Args {
			sc.visit(a, stack)
		}
		if x.Common().IsInvoke() || x.Common().StaticCallee() == nil {
			sc.visit(x.Common().Value, stack) // interface receiver, or the function value of a dynamic call
		}
		cal := x.Common().StaticCallee()
		if cal == nil && !x.Common().IsInvoke() {
			// a call of a function value: a local literal, or a function-valued parameter bound by the call on the
			// stack (a predicate / selector handed to a helper)
			cal = funcValueThroughStack(x.Common().Value, stack, 0)
		}
		if cal != nil && inModule(cal) && len(stack) < 4 && cal.Blocks != nil {
			for _, b := range cal.Blocks {
				for _, ins := range b.Instrs {
					if r, ok := ins.(*ssa.Return); ok {
						for _, rv := range r.Results {
							sub := sc.child()
							// allow revisiting parameters under this context
							sub.visitCallee(rv, append(append([]*ssa.Call{}, stack...), x))
						}
					}
				}
			}
		}
		return
	case *ssa.UnOp:
		if x.Op == token.MUL {
			sc.visitAddr(x.X, stack)
		}
	case *ssa.Alloc:
		sc.visitAddr(x, stack)
	case *ssa.FreeVar:
		// a captured variable: what the enclosing function bound it to
		if bnd := freeVarBinding(x); bnd != nil {
			sc.visit(bnd, nil)
		}
		return
	}
	if ins, ok := v.(ssa.Instruction); ok {
		for _, op := range ins.Operands(nil) {
			if op != nil && *op != nil {
				sc.visit(*op, stack)
			}
		}
	}
}

// visitCallee is like visit but does not consult the global `seen` for Parameters (a callee may be
// entered from several call sites with different bindings).
func (sc *sliceCtx) visitCallee(v ssa.Value, stack []*ssa.Call) {
	if p, ok := v.(*ssa.Parameter); ok {
		delete(sc.seen, p)
	}
	sc.visit(v, stack)
}

// visitAddr: everything stored through an address rooted at a local allocation.  The walk is field
// sensitive: a load of `x.f.g` depends on the stores into x.f.g, into x.f and into x as a whole (and then on
// the f.g part of the stored value), not on the stores into the other fields of x.
func (sc *sliceCtx) visitAddr(addr ssa.Value, stack []*ssa.Call) {
	root := addr
	var path []int // field indices from the root to the loaded location (-1: some element)
	for {
		switch a := root.(type) {
		case *ssa.FieldAddr:
			path = append([]int{a.Field}, path...)
			root = a.X
			continue
		case *ssa.IndexAddr:
			path = append([]int{-1}, path...)
			root = a.X
			continue
		}
		break
	}
	al, ok := root.(*ssa.Alloc)
	if !ok {
		if _, isParam := root.(*ssa.Parameter); isParam && len(path) > 0 {
			// a location below a pointer parameter: only that part of the pointee matters to the caller
			sc.visitValuePath(root, path, stack, 0)
			return
		}
		sc.visit(root, stack)
		return
	}
	sc.visitAllocPath(al, path, stack, map[ssa.Value]bool{}, 0)
}

// visitAllocPath walks the stores below address `a` that can define the location a.path.
func (sc *sliceCtx) visitAllocPath(a ssa.Value, path []int, stack []*ssa.Call, seenA map[ssa.Value]bool, depth int) {
	if seenA[a] && len(path) == 0 {
		return
	}
	if len(path) == 0 {
		seenA[a] = true
	}
	refs := a.Referrers()
	if refs == nil || depth > 12 {
		return
	}
	for _, r := range *refs {
		switch u := r.(type) {
		case *ssa.Store:
			if u.Addr == a {
				sc.visitValuePath(u.Val, path, stack, depth+1)
			}
		case *ssa.FieldAddr:
			if u.X != a {
				continue
			}
			if len(path) == 0 {
				sc.visitAllocPath(u, nil, stack, seenA, depth+1)
			} else if path[0] == u.Field {
				sc.visitAllocPath(u, path[1:], stack, seenA, depth+1)
			}
		case *ssa.IndexAddr:
			if u.X != a {
				continue
			}
			if len(path) == 0 {
				sc.visitAllocPath(u, nil, stack, seenA, depth+1)
			} else if path[0] == -1 {
				sc.visitAllocPath(u, path[1:], stack, seenA, depth+1)
			}
		case *ssa.MakeClosure:
			// the variable is captured: the closure may store into it through its free variable
			if fn, ok := u.Fn.(*ssa.Function); ok {
				for i, bnd := range u.Bindings {
					if bnd == a && i < len(fn.FreeVars) {
						sc.visitAllocPath(fn.FreeVars[i], path, nil, seenA, depth+1)
					}
				}
			}
		}
	}
}

// visitValuePath: the part `path` of the (struct) value v.
func (sc *sliceCtx) visitValuePath(v ssa.Value, path []int, stack []*ssa.Call, depth int) {
	if len(path) == 0 || depth > 12 {
		sc.visit(v, stack)
		return
	}
	switch x := v.(type) {
	case *ssa.Alloc:
		// the address of a local struct (handed to a pointer parameter): the part `path` of the pointee
		sc.seen[v] = true
		sc.visitAllocPath(x, path, stack, map[ssa.Value]bool{}, depth+1)
		return
	case *ssa.FieldAddr, *ssa.IndexAddr:
		// the address of a part of a struct
		root := v
		var pre []int
		for {
			switch a := root.(type) {
			case *ssa.FieldAddr:
				pre = append([]int{a.Field}, pre...)
				root = a.X
				continue
			case *ssa.IndexAddr:
				pre = append([]int{-1}, pre...)
				root = a.X
				continue
			}
			break
		}
		switch r := root.(type) {
		case *ssa.Alloc:
			sc.seen[v] = true
			sc.visitAllocPath(r, append(pre, path...), stack, map[ssa.Value]bool{}, depth+1)
			return
		case *ssa.Parameter:
			sc.seen[v] = true
			sc.visitValuePath(r, append(pre, path...), stack, depth+1)
			return
		}
	case *ssa.UnOp:
		if x.Op == token.MUL {
			// a copy of another location: continue below that location with the same path
			root := x.X
			var pre []int
			var chain []ssa.Value
			for {
				switch a := root.(type) {
				case *ssa.FieldAddr:
					pre = append([]int{a.Field}, pre...)
					chain = append(chain, a)
					root = a.X
					continue
				case *ssa.IndexAddr:
					pre = append([]int{-1}, pre...)
					chain = append(chain, a)
					root = a.X
					continue
				}
				break
			}
			if al, ok := root.(*ssa.Alloc); ok {
				sc.seen[v] = true
				// the places the value was read through belong to the slice (`start := e.Range.Start` reads e.Range)
				for _, a := range chain {
					sc.seen[a] = true
					if ia, ok := a.(*ssa.IndexAddr); ok {
						sc.visit(ia.Index, stack)
					}
				}
				sc.visitAllocPath(al, append(pre, path...), stack, map[ssa.Value]bool{}, depth+1)
				return
			}
		}
	case *ssa.Parameter:
		if n := len(stack); n > 0 {
			call := stack[n-1]
			cal := call.Common().StaticCallee()
			if cal == nil && !call.Common().IsInvoke() {
				cal = x.Parent()
			}
			if cal != nil {
				for i, p := range cal.Params {
					if p == x && i < len(call.Common().Args) {
						sc.seen[v] = true
						sc.visitValuePath(call.Common().Args[i], path, stack[:n-1], depth+1)
						return
					}
				}
			}
		}
		// unbound parameter: remember which part of it is needed (for callers of sliceUp)
		sc.seen[v] = true
		if sc.paramPaths == nil {
			sc.paramPaths = map[*ssa.Parameter][][]int{}
		}
		sc.paramPaths[x] = append(sc.paramPaths[x], append([]int(nil), path...))
		return
	case *ssa.Phi:
		sc.seen[v] = true
		for _, e := range x.Edges {
			sc.visitValuePath(e, path, stack, depth+1)
		}
		return
	case *ssa.Field:
		sc.seen[v] = true
		sc.visitValuePath(x.X, append([]int{x.Field}, path...), stack, depth+1)
		return
	case *ssa.Call:
		if cal := x.Common().StaticCallee(); cal != nil && inModule(cal) && len(stack) < 4 && cal.Blocks != nil && cal.Signature.Results().Len() == 1 {
			sc.seen[v] = true
			for _, b := range cal.Blocks {
				for _, ins := range b.Instrs {
					if r, ok := ins.(*ssa.Return); ok && len(r.Results) == 1 {
						sc.visitValuePath(r.Results[0], path, append(append([]*ssa.Call{}, stack...), x), depth+1)
					}
				}
			}
			return
		}
	}
	sc.visit(v, stack)
}

func sliceHasCall(sl map[ssa.Value]bool, pred func(cal *ssa.Function, call *ssa.Call) bool) bool {
	for v := range sl {
		if call, ok := v.(*ssa.Call); ok {
			if cal := call.Common().StaticCallee(); cal != nil && pred(cal, call) {
				return true
			}
		}
	}
	return false
}

func calleeNameIs(cal *ssa.Function, suffix string) bool {
	return strings.HasSuffix(funcName(cal), suffix)
}

func typeHasSuffix(t types.Type, suffix string) bool {
	return strings.HasSuffix(types.TypeString(t, nil), suffix)
}

// controlConds: the conditions of the If instructions that dominate block b and on whose outcome
// reaching b depends (b is dominated by exactly one successor).
func controlConds(b *ssa.BasicBlock) []ssa.Value {
	var out []ssa.Value
	for d := b.Idom(); d != nil; d = d.Idom() {
		if len(d.Instrs) == 0 {
			continue
		}
		ifi, ok := d.Instrs[len(d.Instrs)-1].(*ssa.If)
		if !ok {
			continue
		}
		s0 := branchLeadsTo(d, 0, b)
		s1 := branchLeadsTo(d, 1, b)
		if s0 == s1 {
			continue
		}
		if inCycle(d) && !reachesBlock(b, d) {
			lead := d.Succs[1]
			if s0 {
				lead = d.Succs[0]
			}
			if !reachesBlock(lead, d) {
				continue // the edge towards b leaves the loop: an exit test does not control what follows the loop
			}
		}
		out = append(out, ifi.Cond)
	}
	return out
}

// branchLeadsTo: b is reached through successor i of the branch block d, i.e. that successor is b or dominates
// b and is itself entered from d in forward direction (a back edge to a loop header that dominates both d
// and b does not count).
func branchLeadsTo(d *ssa.BasicBlock, i int, b *ssa.BasicBlock) bool {
	s := d.Succs[i]
	if s == b {
		return len(s.Preds) == 1 // a join block is reached from both branches
	}
	return s.Dominates(b) && d.Dominates(s) && len(s.Preds) == 1
}

// findCalls returns the call instructions in f whose static callee satisfies pred.
func findCalls(f *ssa.Function, pred func(cal *ssa.Function) bool) []*ssa.Call {
	var out []*ssa.Call
	for _, b := range f.Blocks {
		for _, ins := range b.Instrs {
			if call, ok := ins.(*ssa.Call); ok {
				if cal := call.Common().StaticCallee(); cal != nil && pred(cal) {
					out = append(out, call)
				}
			}
		}
	}
	return out
}

// collectFieldStores records, for a struct built in memory at `root` (an Alloc or a FieldAddr), the values
// stored into each field path (".Start.Character").  A field initialised by copying a local composite
// literal (`*t48 = *t49`) is expanded into the fields of that literal.
func collectFieldStores(root ssa.Value, prefix string, out map[string][]ssa.Value, depth int) {
	if depth > 6 || root.Referrers() == nil {
		return
	}
	for _, r := range *root.Referrers() {
		switch u := r.(type) {
		case *ssa.FieldAddr:
			if u.X != root {
				continue
			}
			pt, ok := u.X.Type().Underlying().(*types.Pointer)
			if !ok {
				continue
			}
			st, ok := pt.Elem().Underlying().(*types.Struct)
			if !ok {
				continue
			}
			collectFieldStores(u, prefix+"."+st.Field(u.Field).Name(), out, depth+1)
		case *ssa.Store:
			if u.Addr != root {
				continue
			}
			if ld, ok := u.Val.(*ssa.UnOp); ok && ld.Op == token.MUL {
				if al, ok := ld.X.(*ssa.Alloc); ok {
					if _, isStruct := al.Type().Underlying().(*types.Pointer).Elem().Underlying().(*types.Struct); isStruct {
						before := len(out)
						collectFieldStores(al, prefix, out, depth+1)
						if len(out) > before {
							continue
						}
					}
				}
			}
			// a struct built by a constructor helper (`Range: spanOnLine(line, from, to)`): its fields, with the
			// helper's parameters replaced by the arguments of this call
			if call, ok := u.Val.(*ssa.Call); ok && depth < 5 {
				if sub, ok := constructorFields(call); ok {
					for k, vs := range sub {
						out[prefix+k] = append(out[prefix+k], vs...)
					}
					continue
				}
			}
			out[prefix] = append(out[prefix], u.Val)
		}
	}
}

// constructorFields: call is a call of a module function that returns a struct it builds in one place (a single
// return of a composite literal): the values stored into the literal's fields, parameters of the helper being
// replaced by the call's arguments.
func constructorFields(call *ssa.Call) (map[string][]ssa.Value, bool) {
	h := call.Call.StaticCallee()
	if h == nil || h.Blocks == nil || !inModule(h) || h.Signature.Results().Len() != 1 {
		return nil, false
	}
	if _, isStruct := h.Signature.Results().At(0).Type().Underlying().(*types.Struct); !isStruct {
		return nil, false
	}
	var lit *ssa.Alloc
	n := 0
	for _, b := range h.Blocks {
		r, ok := b.Instrs[len(b.Instrs)-1].(*ssa.Return)
		if !ok {
			continue
		}
		n++
		if ld, ok := r.Results[0].(*ssa.UnOp); ok && ld.Op == token.MUL {
			lit, _ = ld.X.(*ssa.Alloc)
		}
	}
	if n != 1 || lit == nil {
		return nil, false
	}
	sub := map[string][]ssa.Value{}
	collectFieldStores(lit, "", sub, 2)
	if len(sub) == 0 {
		return nil, false
	}
	for k, vs := range sub {
		for i, v := range vs {
			if p, ok := stripConv(v).(*ssa.Parameter); ok && p.Parent() == h {
				for j, q := range h.Params {
					if q == p && j < len(call.Call.Args) {
						sub[k][i] = call.Call.Args[j]
					}
				}
			}
		}
	}
	return sub, true
}

type cbInvocation struct {
	call *ssa.Call // the invocation of the callback (a dynamic call through a parameter)
	arg  ssa.Value // what it passes for the parameter in question
}

// callbackInvocations: p is a parameter of a function literal F; F's value is passed as an argument to a call
// whose callee (a module function, or the closure returned by a module function - an iterator) invokes that
// parameter: the invocations and the arguments they pass for p.
func callbackInvocations(p *ssa.Parameter) []cbInvocation {
	F := p.Parent()
	if F == nil || F.Parent() == nil {
		return nil
	}
	idx := -1
	for i, q := range F.Params {
		if q == p {
			idx = i
		}
	}
	if idx < 0 {
		return nil
	}
	var out []cbInvocation
	for _, b := range F.Parent().Blocks {
		for _, ins := range b.Instrs {
			var fv ssa.Value
			if mc, ok := ins.(*ssa.MakeClosure); ok && mc.Fn == ssa.Value(F) {
				fv = mc
			}
			if fv == nil {
				continue
			}
			for _, r := range *fv.Referrers() {
				c, ok := r.(*ssa.Call)
				if !ok {
					continue
				}
				ai := -1
				for i, a := range c.Call.Args {
					if a == fv {
						ai = i
					}
				}
				if ai < 0 {
					continue
				}
				for _, R := range receiversOfCall(c) {
					if ai >= len(R.Params) {
						continue
					}
					q := R.Params[ai]
					fns := append([]*ssa.Function{R}, R.AnonFuncs...)
					for _, g := range fns {
						for _, gb := range g.Blocks {
							for _, gi := range gb.Instrs {
								d, ok := gi.(*ssa.Call)
								if !ok || d.Call.IsInvoke() {
									continue
								}
								target := d.Call.Value
								// through a captured variable of a nested literal
								if ld, ok := target.(*ssa.UnOp); ok && ld.Op == token.MUL {
									if fvv, ok := ld.X.(*ssa.FreeVar); ok {
										if cell := freeVarBinding(fvv); cell != nil {
											for _, cr := range *cell.Referrers() {
												if st, ok := cr.(*ssa.Store); ok && st.Addr == cell && st.Val == ssa.Value(q) {
													target = q
												}
											}
										}
									}
								}
								if target == ssa.Value(q) && idx < len(d.Call.Args) {
									out = append(out, cbInvocation{d, d.Call.Args[idx]})
								}
							}
						}
					}
				}
			}
		}
	}
	return out
}

// receiversOfCall: the module function(s) a call enters: its static callee, or - for a call of a function value
// that was returned by a module function (an iterator constructor) - the returned literal.
func receiversOfCall(c *ssa.Call) []*ssa.Function {
	if cal := c.Call.StaticCallee(); cal != nil {
		if cal.Blocks != nil && inModule(cal) {
			return []*ssa.Function{cal}
		}
		return nil
	}
	if c.Call.IsInvoke() {
		return nil
	}
	var out []*ssa.Function
	var resolve func(v ssa.Value, depth int)
	resolve = func(v ssa.Value, depth int) {
		if depth > 3 {
			return
		}
		switch x := v.(type) {
		case *ssa.MakeClosure:
			if fn, ok := x.Fn.(*ssa.Function); ok && fn.Blocks != nil {
				out = append(out, fn)
			}
		case *ssa.Function:
			if x.Blocks != nil && inModule(x) {
				out = append(out, x)
			}
		case *ssa.Phi:
			for _, e := range x.Edges {
				resolve(e, depth+1)
			}
		case *ssa.ChangeType:
			resolve(x.X, depth+1)
		case *ssa.Parameter:
			// the iterator / function value was handed in: what the call sites of this function pass
			if curProg != nil {
				g := x.Parent()
				for i, q := range g.Params {
					if q != x {
						continue
					}
					for _, site := range (cgView{&Ctx{P: curProg}}).callersOf(g) {
						if i < len(site.Common().Args) {
							resolve(site.Common().Args[i], depth+1)
						}
					}
				}
			}
		case *ssa.Call:
			if h := x.Call.StaticCallee(); h != nil && h.Blocks != nil && inModule(h) {
				for _, b := range h.Blocks {
					for _, ins := range b.Instrs {
						if r, ok := ins.(*ssa.Return); ok && len(r.Results) >= 1 {
							resolve(unspillResult(r.Results[0], b), depth+1)
						}
					}
				}
			}
		}
	}
	resolve(c.Call.Value, 0)
	return out
}

// funcValueThroughStack: the function behind a function value: a function or literal, a local variable holding
// one, or a function-valued parameter that the call on top of the stack binds to one.
func funcValueThroughStack(v ssa.Value, stack []*ssa.Call, depth int) *ssa.Function {
	if depth > 4 {
		return nil
	}
	if fn := resolveLocalFunc(v); fn != nil {
		return fn
	}
	if p, ok := v.(*ssa.Parameter); ok {
		if n := len(stack); n > 0 {
			call := stack[n-1]
			cal := call.Common().StaticCallee()
			if cal == nil {
				cal = p.Parent()
			}
			for i, q := range cal.Params {
				if q == p && i < len(call.Common().Args) {
					return funcValueThroughStack(call.Common().Args[i], stack[:n-1], depth+1)
				}
			}
		}
	}
	return nil
}

// lastInstr: the terminator of a block (nil for an empty block).
func lastInstr(b *ssa.BasicBlock) ssa.Instruction {
	if len(b.Instrs) == 0 {
		return nil
	}
	return b.Instrs[len(b.Instrs)-1]
}
