package main

import (
	"fmt"
	"go/token"
	"go/types"
	"sort"
	"strings"

	"golang.org/x/tools/go/ssa"
)

// ruleMemoKey (M-KEY): a memo is keyed by everything the memoised computation reads.
//
// The idiom `v, ok := m[k]; if !ok { v = f(x); m[k] = v }` is sound only if f's result is a function of k.  When
// k is a part of x (`m[p.Account.Name]` for `f(p)`), every other part of x that f's result depends on
// (`p.Virtual`: the brackets of a virtual posting count towards the display width) is silently taken from the
// first x that was seen with that key.  The rule finds the idiom on SSA (a map update whose value comes from a
// call of a module function, with a comma-ok lookup of the same map under the same key expression in the same
// function), computes the access paths of the argument the callee's results depend on (backward slice with the
// callee's parameters as roots, followed into its own callees) and requires each of them to lie below a path the
// key is built from.  It is silent when the key is not built from the argument at all (an identifier of its own).
func ruleMemoKey(c *Ctx) {
	n := 0
	for _, f := range c.P.ModuleFuncs() {
		for _, b := range f.Blocks {
			for _, ins := range b.Instrs {
				mu, ok := ins.(*ssa.MapUpdate)
				if !ok {
					continue
				}
				// the memo idiom: a comma-ok lookup of the same map under the same key
				direct := accessPathsOf(mu.Key)
				hasLookup := false
				for _, b2 := range f.Blocks {
					for _, in2 := range b2.Instrs {
						lk, ok := in2.(*ssa.Lookup)
						if !ok || !lk.CommaOk || !sameMapValue(lk.X, mu.Map) {
							continue
						}
						if lk.Index == mu.Key || samePaths(accessPathsOf(lk.Index), direct) {
							hasLookup = true
						}
					}
				}
				if !hasLookup {
					continue
				}
				// what the key covers, per root value: field paths it is built from, and whatever a key function reads
				cover := map[ssa.Value][][]int{}
				for _, rp := range direct {
					cover[rp.root] = append(cover[rp.root], rp.path)
				}
				for v := range backSlice(mu.Key) {
					call, ok := v.(*ssa.Call)
					if !ok {
						continue
					}
					cal := call.Call.StaticCallee()
					if cal == nil || !inModule(cal) || cal.Blocks == nil {
						continue
					}
					for ai, a := range call.Call.Args {
						if ai >= len(cal.Params) {
							break
						}
						root, sub := rootAndPath(a)
						if root == nil {
							continue
						}
						for _, np := range neededPaths(cal, cal.Params[ai], true) {
							cover[root] = append(cover[root], append(append([]int(nil), sub...), np...))
						}
					}
				}
				if len(cover) == 0 {
					continue
				}
				// what the memoised value needs, per root value
				type need struct {
					path   []int
					callee *ssa.Function
					param  *ssa.Parameter
				}
				needs := map[ssa.Value][]need{}
				for v := range backSlice(mu.Value) {
					call, ok := v.(*ssa.Call)
					if !ok {
						continue
					}
					cal := call.Call.StaticCallee()
					if cal == nil || !inModule(cal) || cal.Blocks == nil {
						continue
					}
					for ai, a := range call.Call.Args {
						if ai >= len(cal.Params) {
							break
						}
						root, sub := rootAndPath(a)
						if root == nil || len(cover[root]) == 0 {
							continue
						}
						for _, np := range neededPaths(cal, cal.Params[ai], false) {
							needs[root] = append(needs[root], need{append(append([]int(nil), sub...), np...), cal, cal.Params[ai]})
						}
					}
				}
				if len(needs) == 0 {
					continue
				}
				n++
				var missing []string
				var firstKey string
				for root, ns := range needs {
					for _, nd := range ns {
						covered := false
						for _, kp := range cover[root] {
							if isPrefix(kp, nd.path) {
								covered = true
							}
						}
						if !covered {
							missing = append(missing, nd.callee.Name()+" reads "+pathString(root.Type(), nd.path))
						}
					}
					if firstKey == "" && len(cover[root]) > 0 {
						firstKey = pathString(root.Type(), cover[root][0])
					}
				}
				sort.Strings(missing)
				missing = uniqStrings(missing)
				if len(missing) > 6 {
					missing = append(missing[:6], "...")
				}
				c.check(len(missing) == 0, "M-KEY", funcName(f), "memo is keyed by all that the memoised computation reads", mu.Pos(),
					"every part of the argument the memoised computation reads lies below what the key is built from",
					fmt.Sprintf("a result is memoised under a key built from %s (and what the key function reads), but the computation also depends on parts the key does not cover (%s): two arguments that agree on the key and differ there get the value computed for the first one", firstKey, strings.Join(missing, "; ")))
			}
		}
	}
	c.note("M-KEY: %d memo idioms keyed by a part of the memoised computation's argument", n)
}

// rootAndPath: the value a chain of field selections starts from, and the chain (nil, nil for values that are not
// rooted anywhere useful).  A plain value is its own root with an empty path.
func rootAndPath(a ssa.Value) (ssa.Value, []int) {
	a = stripConv(a)
	if root, path, ok := fieldChain(a); ok {
		return root, path
	}
	if fa, ok := a.(*ssa.FieldAddr); ok {
		if root, path, ok := fieldChain(fa); ok {
			return root, path
		}
	}
	switch a.(type) {
	case *ssa.Parameter, *ssa.Alloc, *ssa.IndexAddr, *ssa.Phi, *ssa.UnOp:
		return a, nil
	}
	return nil, nil
}

func uniqStrings(in []string) []string {
	var out []string
	for i, s := range in {
		if i == 0 || s != in[i-1] {
			out = append(out, s)
		}
	}
	return out
}

type rootedPath struct {
	root ssa.Value
	path []int
}

// accessPathsOf: the field paths (rooted at the SSA value the chain of field selections starts from) that the
// value is loaded from - the value itself or, for a computed key, every load in its local backward slice.
func accessPathsOf(v ssa.Value) []rootedPath {
	var out []rootedPath
	seen := map[ssa.Value]bool{}
	var visit func(v ssa.Value, d int)
	visit = func(v ssa.Value, d int) {
		v = stripConv(v)
		if v == nil || seen[v] || d > 6 {
			return
		}
		seen[v] = true
		if root, path, ok := fieldChain(v); ok && len(path) > 0 {
			out = append(out, rootedPath{root, path})
			return
		}
		switch x := v.(type) {
		case *ssa.BinOp:
			visit(x.X, d+1)
			visit(x.Y, d+1)
		case *ssa.Phi:
			for _, e := range x.Edges {
				visit(e, d+1)
			}
		case *ssa.Call:
			for _, a := range x.Call.Args {
				visit(a, d+1)
			}
		}
	}
	visit(v, 0)
	return out
}

// fieldChain: v is a load through a chain of field selections `root.f1.f2...` (FieldAddr chain + load, Field chain
// on a loaded struct): the root value and the field indices.
func fieldChain(v ssa.Value) (ssa.Value, []int, bool) {
	var path []int
	cur := v
	for {
		switch x := cur.(type) {
		case *ssa.UnOp:
			if x.Op != token.MUL {
				return nil, nil, false
			}
			cur = x.X
			continue
		case *ssa.FieldAddr:
			path = append([]int{x.Field}, path...)
			cur = x.X
			continue
		case *ssa.Field:
			path = append([]int{x.Field}, path...)
			cur = x.X
			continue
		}
		break
	}
	if len(path) == 0 {
		return nil, nil, false
	}
	return cur, path, true
}

func sameMapValue(a, b ssa.Value) bool {
	if a == b {
		return true
	}
	ra, pa, oka := fieldChain(a)
	rb, pb, okb := fieldChain(b)
	return oka && okb && ra == rb && fmt.Sprint(pa) == fmt.Sprint(pb)
}

func samePaths(a, b []rootedPath) bool {
	key := func(x []rootedPath) string {
		var s []string
		for _, p := range x {
			s = append(s, fmt.Sprintf("%p%v", p.root, p.path))
		}
		sort.Strings(s)
		return strings.Join(s, ";")
	}
	return len(a) > 0 && key(a) == key(b)
}

func isPrefix(k, n []int) bool {
	if len(k) > len(n) {
		return false
	}
	for i := range k {
		if k[i] != n[i] {
			return false
		}
	}
	return true
}

// neededPaths: the field paths of parameter p that the results of fn depend on.  Field selections inside callees
// that fn hands p (or a part of it) to are translated back through the call's argument.
func neededPaths(fn *ssa.Function, p *ssa.Parameter, all bool) [][]int {
	seen := map[string]bool{}
	var out [][]int
	add := func(path []int) {
		k := fmt.Sprint(path)
		if !seen[k] {
			seen[k] = true
			out = append(out, path)
		}
	}
	var walk func(fn *ssa.Function, p *ssa.Parameter, prefix []int, depth int)
	walk = func(fn *ssa.Function, p *ssa.Parameter, prefix []int, depth int) {
		if depth > 3 || fn.Blocks == nil {
			add(prefix) // unknown callee: needs everything below the prefix
			return
		}
		// values of fn that matter for its results: slice of every returned value and of every condition (a
		// condition decides which value is returned)
		rel := map[ssa.Value]bool{}
		if all {
			// everything the function reads (a key function: whatever it looks at is part of the key)
			for _, b := range fn.Blocks {
				for _, ins := range b.Instrs {
					if v, ok := ins.(ssa.Value); ok {
						rel[v] = true
					}
				}
			}
		}
		for _, b := range fn.Blocks {
			switch t := lastInstr(b).(type) {
			case *ssa.Return:
				for _, r := range t.Results {
					for v := range backSlice(r) {
						rel[v] = true
					}
				}
			case *ssa.If:
				for v := range backSlice(t.Cond) {
					rel[v] = true
				}
			}
		}
		// maximal field chains rooted at p among the relevant values
		inner := map[ssa.Value]bool{}
		for v := range rel {
			switch x := v.(type) {
			case *ssa.FieldAddr:
				inner[x.X] = true
			case *ssa.Field:
				inner[x.X] = true
			case *ssa.UnOp:
				if x.Op == token.MUL {
					inner[x.X] = true
				}
			}
		}
		for v := range rel {
			root, path, ok := fieldChain(v)
			if !ok || root != ssa.Value(p) {
				continue
			}
			if _, isAddr := v.(*ssa.FieldAddr); isAddr && inner[v] {
				continue // an intermediate step of a longer chain
			}
			if _, isFld := v.(*ssa.Field); isFld && inner[v] {
				continue
			}
			if ld, isLd := v.(*ssa.UnOp); isLd && inner[ld] {
				if _, isStruct := ld.Type().Underlying().(*types.Struct); isStruct {
					continue // a struct loaded to select a field from it
				}
			}
			add(append(append([]int(nil), prefix...), path...))
		}
		// p (or a part of it) handed to a module callee whose result matters
		for v := range rel {
			call, ok := v.(*ssa.Call)
			if !ok {
				continue
			}
			cal := call.Call.StaticCallee()
			for ai, a := range call.Call.Args {
				a = stripConv(a)
				var sub []int
				if a == ssa.Value(p) {
					sub = nil
				} else if root, path, ok := fieldChain(a); ok && root == ssa.Value(p) {
					sub = path
				} else if fa, ok := a.(*ssa.FieldAddr); ok {
					if root, path, ok := fieldChain(fa); ok && root == ssa.Value(p) {
						sub = path
					} else {
						continue
					}
				} else {
					continue
				}
				np := append(append([]int(nil), prefix...), sub...)
				if cal == nil || !inModule(cal) || cal.Blocks == nil || ai >= len(cal.Params) {
					if a == ssa.Value(p) {
						add(np) // handed on whole to code we do not see
					}
					continue
				}
				walk(cal, cal.Params[ai], np, depth+1)
			}
		}
	}
	walk(fn, p, nil, 0)
	// drop paths that lie below another needed path
	var res [][]int
	for _, a := range out {
		below := false
		for _, b := range out {
			if len(b) < len(a) && isPrefix(b, a) {
				below = true
			}
		}
		if !below {
			res = append(res, a)
		}
	}
	return res
}

// pathString renders a field path below a (pointer to) struct type: "Account.Name".
func pathString(t types.Type, path []int) string {
	var parts []string
	for _, i := range path {
		if pt, ok := t.Underlying().(*types.Pointer); ok {
			t = pt.Elem()
		}
		st, ok := t.Underlying().(*types.Struct)
		if !ok || i >= st.NumFields() {
			parts = append(parts, fmt.Sprintf("#%d", i))
			break
		}
		parts = append(parts, st.Field(i).Name())
		t = st.Field(i).Type()
	}
	if len(parts) == 0 {
		return "the whole value"
	}
	return strings.Join(parts, ".")
}
